#!/usr/bin/env python3
"""validate MANIFEST.json and evidence/*.json against the schemas (uses the tooling venv's jsonschema)"""
import json, sys, glob, jsonschema
ok = True
def v(path, schema):
    global ok
    try:
        jsonschema.validate(json.load(open(path)), json.load(open(schema)))
        print("valid  ", path)
    except Exception as e:
        ok = False
        print("INVALID", path, str(e)[:300])
v('/verif/MANIFEST.json', '/root/.vp/MANIFEST.schema.json')
for p in sorted(glob.glob('/verif/evidence/C*.json')):
    v(p, '/root/.vp/EVIDENCE.schema.json')
sys.exit(0 if ok else 1)
