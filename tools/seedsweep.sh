#!/bin/bash
# usage: tools/seedsweep.sh [suffix-regex]  — regression sweep: every kept seeded change is applied to /repo in turn and the quick check of
# its property is run; prints one line per seed (CAUGHT with/without failing input, or MISSED). Evidence files are restored afterwards.
cd /verif || exit 2
re="${1:-.*}"
save=$(mktemp -d /tmp/evsave.XXXX); cp evidence/*.json "$save"/
for d in seeded/C*/; do
  name=$(basename "$d"); [[ "$name" =~ $re ]] || continue
  id=${name%%-*}
  grep -q '"obsolete"' "$d/meta.json" 2>/dev/null && { echo "$name: obsolete (skipped)"; continue; }
  git -C /repo diff --quiet || { echo "repo dirty"; exit 2; }
  git -C /repo apply "/verif/$d/patch.diff" 2>/dev/null || { echo "$name: DOES-NOT-APPLY"; continue; }
  out=$(timeout 1200 ./check "$id" quick 2>&1); rc=$?
  git -C /repo checkout -- . ; git -C /repo clean -fdq >/dev/null 2>&1
  if [ $rc -eq 0 ]; then echo "$name: MISSED"; else
    if echo "$out" | grep "^VIOLATION" | grep -vq "no-failing-input-found"; then echo "$name: caught"; else echo "$name: caught (no failing input)"; fi
  fi
done
cp "$save"/*.json evidence/; rm -rf "$save"
