#!/bin/sh
# runs /repo's suite (guard off) and compares the passing tests with BASELINE.json's stable_pass list
cd "${1:-/repo}" && GOFLAGS=-mod=mod GOPROXY=off go test -json -vet=off -count=1 -timeout 25m ./... 2>/dev/null | python3 -c "
import json,sys
base=json.load(open('/root/.vp/BASELINE.json'))
passed=set()
for l in sys.stdin:
    try: e=json.loads(l)
    except: continue
    if e.get('Action')=='pass' and e.get('Test'): passed.add(e['Package']+'::'+e['Test'])
sp=set(base['stable_pass'])
missing=sorted(sp-passed)
print('stable_pass',len(sp),'passed now',len(passed),'missing',len(missing))
for m in missing[:20]: print('  MISSING',m)
sys.exit(1 if missing else 0)
"
