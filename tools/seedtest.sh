#!/bin/bash
# usage: tools/seedtest.sh <patch.diff> <Cxx> [more Cyy ...]   — apply a seeded change to /repo, run the quick checks, undo it
set -u
patch="$1"; shift
cd /repo || exit 2
if ! git diff --quiet; then echo "repo dirty"; exit 2; fi
git apply "$patch" || { echo "patch does not apply"; exit 2; }
trap 'git -C /repo checkout -- . ; git -C /repo clean -fdq -- . >/dev/null 2>&1' EXIT
for p in "$@"; do
  out=$(cd /verif && VERIF_TIER=${TIER:-quick} ./check "$p" ${TIER:-quick} 2>&1)
  echo "--- $p exit=$?"
  echo "$out" | grep -v "^KNOWN-FINDING" | tail -${LINES_OUT:-6}
done
