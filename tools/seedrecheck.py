#!/usr/bin/env python3
# usage: tools/seedrecheck.py <regex>  — re-run the quick check of every kept seed whose directory name matches, on /repo with the seed applied,
# and record the outcome in its meta.json under "verif_results_now" (the first-pass outcome stays under "verif_results")
import json, os, re, subprocess, sys, glob
rx = re.compile(sys.argv[1] if len(sys.argv) > 1 else ".*")
saved = {f: open(f).read() for f in glob.glob("/verif/evidence/*.json")}
for d in sorted(glob.glob("/verif/seeded/C*/")):
    name = os.path.basename(d.rstrip("/"))
    if not rx.search(name): continue
    mp = os.path.join(d, "meta.json")
    meta = json.load(open(mp))
    if meta.get("obsolete"): print(name, "obsolete"); continue
    pid = name.split("-")[0]
    assert subprocess.run(["git", "-C", "/repo", "diff", "--quiet"]).returncode == 0, "repo dirty"
    if subprocess.run(["git", "-C", "/repo", "apply", os.path.join(d, "patch.diff")]).returncode != 0:
        print(name, "DOES-NOT-APPLY"); continue
    try:
        r = subprocess.run(["./check", pid, "quick"], cwd="/verif", capture_output=True, text=True)
    finally:
        subprocess.run(["git", "-C", "/repo", "checkout", "--", "."]); subprocess.run(["git", "-C", "/repo", "clean", "-fdq"])
    lines = [l for l in r.stdout.splitlines() if not l.startswith("KNOWN-FINDING")]
    viol = [l for l in lines if l.startswith("VIOLATION")]
    fi = None
    for v in viol:
        if "no-failing-input-found" not in v:
            try:
                rj = json.load(open(v.split("replay=")[1].split()[0])); fi = {"class": rj.get("class"), "detail": (rj.get("detail") or "")[:500]}
            except Exception as e: fi = {"error": str(e)}
            break
    meta["verif_results_now"] = {"check": pid, "exit": r.returncode, "violations": len(viol), "failing_input": fi, "broken": [l.strip()[:200] for l in lines if l.strip().startswith("broken:")][:3], "summary": lines[-1] if lines else ""}
    meta["caught_now"] = r.returncode != 0
    meta["caught_now_with_failing_input"] = fi is not None
    json.dump(meta, open(mp, "w"), indent=1)
    print(name, "caught" if r.returncode else "MISSED", "(failing input)" if fi else "")
for f, t in saved.items(): open(f, "w").write(t)
