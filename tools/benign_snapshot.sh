#!/bin/bash
# usage (inside `vp run --with-repo -- tools/benign_snapshot.sh [regex]`): false-alarm sweep of every kept HARMLESS refactoring
# (seeded/benign*/Cxx/patch.diff) against a SNAPSHOT of /repo ($VP_RUN_REPO), using this snapshot of /verif — /repo itself is never touched.
# Per patch: the full quick check of its own property, then every property module is rebuilt on the regenerated facts (all obligations).
# Expected: `quiet` on every line.
cd "$(dirname "$0")/.." || exit 2
R="${VP_RUN_REPO:?needs --with-repo}"; export VERIF_REPO="$R"
re="${1:-.*}"
./setup.sh > setup.log 2>&1 || { echo "setup failed"; tail -5 setup.log; exit 2; }
for d in seeded/benign*/C*/; do
  name=$(basename "$(dirname "$d")")/$(basename "$d"); [[ "$name" =~ $re ]] || continue
  id=$(basename "$d")
  grep -q '"obsolete"' "$d/meta.json" 2>/dev/null && { echo "$name: obsolete (skipped)"; continue; }
  (cd "$R" && patch -p1 -s --no-backup-if-mismatch < "$OLDPWD/$d/patch.diff") >/dev/null 2>&1 || { echo "$name: DOES-NOT-APPLY"; (cd "$R" && git checkout -- . 2>/dev/null; git clean -fdq 2>/dev/null); continue; }
  out=$(timeout 1500 ./check "$id" quick 2>&1); rc=$?
  build=$(cd lean && lake build Vuego 2>&1 | grep -E "error: .*Vuego/" | cut -c1-200 | head -5)
  (cd "$R" && patch -p1 -R -s --no-backup-if-mismatch < "$OLDPWD/$d/patch.diff") >/dev/null 2>&1
  if [ $rc -eq 0 ] && [ -z "$build" ]; then echo "$name: quiet"; else echo "$name: ALARM own-check-exit=$rc"; echo "$out" | grep -E "^VIOLATION|broken:" | head -4 | cut -c1-220; echo "$build"; fi
done
