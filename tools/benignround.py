#!/usr/bin/env python3
# usage: tools/benignround.py N — prepare round N of the HARMLESS-refactoring (false-alarm) campaign: one scratch worktree of /repo HEAD per property
# under /tmp/benignN/Cxx, the property's JSON entry and the prompt (tools/benign_prompt.txt + what earlier rounds did) under /tmp/benignN-out/.
import json, glob, os, subprocess, sys
n = sys.argv[1]
root, out = f"/tmp/benign{n}", f"/tmp/benign{n}-out"
os.makedirs(root, exist_ok=True); os.makedirs(out, exist_ok=True)
tmpl = open("/verif/tools/benign_prompt.txt").read().split("\n", 1)[1]
for line in open("/verif/properties.jsonl"):
    p = json.loads(line); pid = p["id"]
    os.makedirs(f"{out}/{pid}", exist_ok=True)
    json.dump(p, open(f"{out}/{pid}.property.json", "w"), indent=1)
    prev = []
    for d in sorted(glob.glob(f"/verif/seeded/benign*/{pid}/meta.json")):
        m = json.load(open(d))
        prev.append(f" - ({', '.join(m.get('files_changed', []))}) {(m.get('summary') or '').replace(chr(10), ' ')[:500]}")
    t = tmpl.replace("/tmp/benign-out", out).replace("/tmp/benign/", root + "/").replace("@ID@", pid)
    t += ("\n\nEarlier rounds already produced these refactorings for this property; do something DIFFERENT (other functions, other rewrite styles):\n" + "\n".join(prev) +
          "\n\nStyles to prefer in this round (still strictly behaviour-preserving): performance-motivated rewrites that keep every observable result (hoisting an invariant out of a loop, "
          "pre-sizing a slice or builder, replacing fmt.Sprintf by concatenation where the result is identical, compiling a regular expression once at package level, "
          "strings.Builder instead of +=), moving a helper to another file of the same package, turning a method into a function or back, replacing a chain of ifs by a table lookup, "
          "introducing a small unexported type or named constant, changing the ORDER of independent checks, inlining a single-use helper.\n")
    open(f"{out}/{pid}.prompt.txt", "w").write(t)
    if not os.path.isdir(f"{root}/{pid}"):
        subprocess.run(["git", "-C", "/repo", "worktree", "add", "-q", "--detach", f"{root}/{pid}", "HEAD"], check=True)
print("prepared", root, out)
