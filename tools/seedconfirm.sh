#!/bin/bash
# usage: tools/seedconfirm.sh Cxx — confirm a sub-agent's seeded change from its DELIVERABLES only, in a fresh scratch worktree of /repo HEAD:
# the demo passes without the patch, fails with it; the suite (guard off) passes with the patch. The scratch worktree is removed afterwards.
id="$1"; out=${SEEDOUT:-/tmp/seed-out}/$id; wt=/tmp/seedchk-$id
export GOFLAGS=-mod=mod GOPROXY=off
git -C /repo worktree add -q --detach "$wt" HEAD || exit 2
trap 'git -C /repo worktree remove --force "$wt"' EXIT
cd "$wt" || exit 2
dir=$(python3 -c "import json;print(json.load(open('$out/meta.json')).get('demo_dir','.') or '.')" 2>/dev/null)
case "$dir" in /tmp/seed/$id*) dir=".${dir#/tmp/seed/$id}";; /tmp/seed2/$id*) dir=".${dir#/tmp/seed2/$id}";; esac
case "$dir" in *"root"*|"vuego"|"") dir=".";; esac
[ -d "$dir" ] || dir="."
pkgline=$(grep -m1 '^package ' "$out/seed_demo_test.go" | awk '{print $2}')
case "$pkgline" in formatter*) dir=formatter;; markdown*) dir=markdown;; esac
cp "$out/seed_demo_test.go" "$dir/seed_demo_test.go"
race=""; grep -q -- '-race' "$out/meta.json" 2>/dev/null && race="-race"
echo "== demo WITHOUT patch (dir $dir) $race"; (cd "$dir" && go test $race -vet=off -count=1 -run 'SeedDemo' . 2>&1 | tail -2)
git apply "$out/patch.diff" || { echo "PATCH DOES NOT APPLY"; exit 2; }
echo "== files changed by patch:"; git status --short | grep -v seed_demo
echo "== demo WITH patch"; (cd "$dir" && go test $race -vet=off -count=1 -run 'SeedDemo' . 2>&1 | grep -E "^(--- FAIL|FAIL|ok|PASS)" | head -4)
rm "$dir/seed_demo_test.go"
echo "== suite WITH patch:"; go build ./... && go test -vet=off -count=1 ./... 2>&1 | grep -v "^ok\|no test files" | tail -5; echo "(end suite)"
