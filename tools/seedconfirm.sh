#!/bin/bash
# usage: tools/seedconfirm.sh Cxx  — confirm a sub-agent's seeded change in its scratch worktree: demo fails with the change, passes without; suite passes with the change
id="$1"; wt=/tmp/seed/$id; out=/tmp/seed-out/$id
export GOFLAGS=-mod=mod GOPROXY=off
cd "$wt" || exit 2
demo=$(git status --short | grep '^??' | awk '{print $2}' | grep seed_demo | head -1)
[ -z "$demo" ] && { echo "no demo file in worktree"; exit 2; }
dir=$(dirname "$demo")
pat='SeedDemo'
race=""; grep -q '"race"\|-race' "$out/meta.json" 2>/dev/null && race="-race"
echo "== demo WITH change ($demo, dir $dir) $race"
(cd "$dir" && go test $race -vet=off -count=1 -run "$pat" . 2>&1 | tail -5)
git stash -q
echo "== demo WITHOUT change"
(cd "$dir" && go test $race -vet=off -count=1 -run "$pat" . 2>&1 | tail -3)
git stash pop -q
echo "== suite WITH change (demo moved aside)"
mv "$demo" /tmp/seed-out/$id/.demo.bak
go build ./... && go test -vet=off -count=1 ./... 2>&1 | grep -v "^ok\|no test files" | tail -5
mv /tmp/seed-out/$id/.demo.bak "$demo"
echo "== patch applies to /repo HEAD:"; git -C /repo apply --check "$out/patch.diff" && echo yes
