#!/bin/bash
# usage: tools/seedtry.sh <seed dir name under seeded/ or path to patch> <Cxx> [more] — apply, run quick checks, undo; prints the outcome and the first failing input
p="$1"; shift
[ -f "$p" ] || p="/verif/seeded/$p/patch.diff"
cd /verif
save=$(mktemp -d /tmp/evsave.XXXX); cp evidence/*.json "$save"/
git -C /repo diff --quiet || { echo "repo dirty"; exit 2; }
git -C /repo apply "$p" || { echo "patch does not apply"; exit 2; }
for c in "$@"; do
  out=$(./check "$c" quick 2>&1); rc=$?
  echo "--- $c exit=$rc: $(echo "$out" | grep -v '^KNOWN-FINDING' | tail -1)"
  f=$(echo "$out" | grep '^VIOLATION' | grep -v no-failing-input-found | head -1 | sed 's/.*replay=//')
  [ -n "$f" ] && python3 -c "import json,sys; j=json.load(open('$f')); print('    class:', j.get('class')); print('    detail:', (j.get('detail') or '')[:400])"
  echo "$out" | grep "broken:" | head -3
done
git -C /repo checkout -- . ; git -C /repo clean -fdq >/dev/null 2>&1
cp "$save"/*.json evidence/; rm -rf "$save"
