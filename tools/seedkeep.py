#!/usr/bin/env python3
# usage: tools/seedkeep.py Cxx [other props to run ...]  — copy a confirmed seeded change into /verif/seeded/Cxx/, run the quick checks on /repo with it applied, record the outcome
import json, os, shutil, subprocess, sys
pid = sys.argv[1]; props = [pid] + sys.argv[2:]
src = os.path.join(os.environ.get("SEEDOUT", "/tmp/seed-out"), pid); dst = f"/verif/seeded/{pid}" + os.environ.get("SEEDSUFFIX", "")
os.makedirs(dst, exist_ok=True)
for f in ("patch.diff", "seed_demo_test.go", "meta.json"):
    shutil.copy(os.path.join(src, f), os.path.join(dst, f))
meta = json.load(open(os.path.join(dst, "meta.json")))
assert subprocess.run(["git", "-C", "/repo", "diff", "--quiet"]).returncode == 0, "repo dirty"
# evidence files are rewritten by every check run: keep the ones from the unchanged tree and put them back afterwards
saved = {}
for p in props:
    f = f"/verif/evidence/{p}.json"
    if os.path.exists(f):
        saved[f] = open(f).read()
subprocess.run(["git", "-C", "/repo", "apply", os.path.join(dst, "patch.diff")], check=True)
res = []
try:
    for p in props:
        r = subprocess.run(["./check", p, os.environ.get("TIER", "quick")], cwd="/verif", capture_output=True, text=True)
        lines = [l for l in r.stdout.splitlines() if not l.startswith("KNOWN-FINDING")]
        viol = [l for l in lines if l.startswith("VIOLATION")]
        broken = [l.strip()[:300] for l in lines if l.strip().startswith("broken:")][:4]
        replay = None
        for v in viol:
            if "no-failing-input-found" not in v:
                path = v.split("replay=")[1].split()[0]
                try:
                    rj = json.load(open(path))
                    replay = {"class": rj.get("class"), "detail": (rj.get("detail") or "")[:600]}
                except Exception as e:
                    replay = {"error": str(e)}
                break
        res.append({"check": p, "tier": os.environ.get("TIER", "quick"), "exit": r.returncode, "violation_lines": viol, "broken": broken, "failing_input": replay, "summary": lines[-1] if lines else ""})
        print(p, "exit", r.returncode, "|", lines[-1] if lines else "")
        for v in viol: print("   ", v)
        if replay: print("    failing input:", json.dumps(replay)[:400])
finally:
    subprocess.run(["git", "-C", "/repo", "checkout", "--", "."], check=True)
    subprocess.run(["git", "-C", "/repo", "clean", "-fdq"], check=False)
    for f, txt in saved.items():
        open(f, "w").write(txt)
meta["verif_results"] = res
meta["caught"] = any(x["exit"] != 0 for x in res)
meta["caught_with_failing_input"] = any(x["failing_input"] for x in res)
json.dump(meta, open(os.path.join(dst, "meta.json"), "w"), indent=1)
