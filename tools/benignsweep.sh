#!/bin/bash
# usage: tools/benignsweep.sh [own]  — false-alarm sweep: every kept HARMLESS refactoring (seeded/benign/Cxx/patch.diff) is applied to /repo in turn.
# default: the facts are regenerated and every property module is rebuilt (all proof obligations of all properties); `own`: additionally the
# full quick check of the refactoring's own property is run. Expected: no generation error, no broken theorem, exit 0 everywhere.
cd /verif || exit 2
export GOFLAGS=-mod=mod GOPROXY=off
bin=$(mktemp /tmp/extract.XXXX); (cd extract && go build -o "$bin" .) || exit 2
save=$(mktemp -d /tmp/evsave.XXXX); cp evidence/*.json "$save"/
for d in ${BENIGN_DIR:-seeded/benign}/C*/; do
  id=$(basename "$d")
  grep -q '"obsolete"' "$d/meta.json" 2>/dev/null && { echo "$id: obsolete (skipped)"; continue; }
  git -C /repo diff --quiet || { echo "repo dirty"; exit 2; }
  git -C /repo apply "/verif/$d/patch.diff" 2>/dev/null || { echo "$id: DOES-NOT-APPLY"; continue; }
  rm -f lean/Vuego/Generated/*.lean
  "$bin" -repo /repo -out /verif/lean/Vuego/Generated > /dev/null 2>&1
  errs=$(python3 -c "import json;print(json.load(open('/verif/lean/Vuego/Generated/extract_report.json')).get('errors'))" 2>/dev/null)
  build=$(cd lean && lake build Vuego 2>&1 | grep -E "error: .*Vuego/" | cut -c1-200 | head -5)
  own=""
  if [ "$1" = "own" ]; then out=$(./check "$id" quick 2>&1); own=" own-check-exit=$?"; fi
  git -C /repo checkout -- . ; git -C /repo clean -fdq >/dev/null 2>&1
  if [ "$errs" = "None" ] && [ -z "$build" ]; then echo "$id: quiet$own"; else echo "$id: ALARM gen-errors=$errs$own"; echo "$build"; fi
done
rm -f lean/Vuego/Generated/*.lean "$bin"; cp "$save"/*.json evidence/; rm -rf "$save"
