#!/usr/bin/env python3
# usage: tools/seedround.py N — prepare round N of the seeded-change campaign: one scratch worktree of /repo HEAD per property under /tmp/seedN/Cxx,
# the property's JSON entry as /tmp/seedN-out/Cxx.property.json and the prompt (tools/seed_prompt.txt with the earlier attempts listed) as
# /tmp/seedN-out/Cxx.prompt.txt. Nothing from /verif other than the property text and one-line summaries of earlier seeds reaches an agent.
import json, glob, os, re, subprocess, sys
n = sys.argv[1]
root, out = f"/tmp/seed{n}", f"/tmp/seed{n}-out"
os.makedirs(root, exist_ok=True); os.makedirs(out, exist_ok=True)
tmpl = open("/verif/tools/seed_prompt.txt").read().split("\n", 1)[1]
for line in open("/verif/properties.jsonl"):
    p = json.loads(line); pid = p["id"]
    os.makedirs(f"{out}/{pid}", exist_ok=True)
    json.dump(p, open(f"{out}/{pid}.property.json", "w"), indent=1)
    prev = []
    for d in sorted(glob.glob(f"/verif/seeded/{pid}*/meta.json")):
        m = json.load(open(d))
        s = (m.get("summary") or "").replace("\n", " ")
        prev.append(f" - ({', '.join(m.get('files_changed', []))}) {s[:400]}")
    t = tmpl.replace("/tmp/seed3-out", out).replace("/tmp/seed3", root).replace("@ID@", pid)
    t = t.replace("Two previous attempts", f"{len(prev)} previous attempts").replace("@PREV@", "\n".join(prev))
    open(f"{out}/{pid}.prompt.txt", "w").write(t)
    if not os.path.isdir(f"{root}/{pid}"):
        subprocess.run(["git", "-C", "/repo", "worktree", "add", "-q", "--detach", f"{root}/{pid}", "HEAD"], check=True)
print("prepared", root, out)
