#!/bin/bash
# usage: SEEDOUT=/tmp/seedN-out SEEDSUFFIX=-rN tools/roundproc.sh Cxx [sibling checks…] — confirm a delivered seed in a scratch worktree, then keep it and run the quick check(s)
id="$1"; shift
cd /verif || exit 2
log=${SEEDOUT:-/tmp/seed-out}/$id.proc.log
{
  echo "### confirm $id"; tools/seedconfirm.sh "$id"
  echo "### keep $id"; python3 tools/seedkeep.py "$id" "$@"
} > "$log" 2>&1
grep -E "^(== demo|--- FAIL|FAIL|ok|PASS|C[0-9][0-9] exit|PATCH)|failing input|suite WITH" "$log" | head -20
