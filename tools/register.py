#!/usr/bin/env python3
"""tools/register.py — (re)generates props.json entries and MANIFEST.json checks from tools/registry.json"""
import json, subprocess
R = json.load(open('/verif/tools/registry.json'))
props = {}
m = json.load(open('/verif/MANIFEST.json'))
m['checks'] = []
served = []
for pid in sorted(R['properties']):
    e = R['properties'][pid]
    props[pid] = {"lean": e['lean'][0], "lean_extra": e['lean'][1:], "trusted": e.get('trusted', []), "assumptions": e.get('assumptions', []), "explanation": e.get('explanation', ''), "race": e.get('race', False)}
    served.append(pid)
    m['checks'].append({"property_id": pid, "quick_cmd": "./check %s quick" % pid, "thorough_cmd": "./check %s thorough" % pid, "evidence_file": "/verif/evidence/%s.json" % pid,
                        "replay_cmd_template": "./check %s --replay {path}" % pid, "engine": "lean-model",
                        "level_claimed": {"category": "proof", "text": e['claim'], "design_ref": "DESIGN.md §5 " + pid}, "level_note": e['note'], "technique": e['technique']})
for eng in m['engines']:
    eng['serves_properties'] = served
m['not_applicable'] = [{"property_id": p, "reason": r} for p, r in sorted(R.get('not_applicable', {}).items())]
log = subprocess.run(['git', '-C', '/repo', 'log', '--format=%h %s'], capture_output=True, text=True).stdout.strip().split('\n')
m['hooks']['source_commits'] = [l.split()[0] for l in log if l.split(' ', 1)[1].startswith('verif:')]
m['notes'] = R.get('notes', '')
json.dump(m, open('/verif/MANIFEST.json', 'w'), indent=1)
json.dump(props, open('/verif/props.json', 'w'), indent=1)
print("registered", served, "not_applicable", sorted(R.get('not_applicable', {})))
