#!/bin/bash
# usage (inside `vp run --with-repo -- tools/sweep_snapshot.sh [regex]`): regression sweep of every kept seeded change against a SNAPSHOT of /repo
# ($VP_RUN_REPO), using this snapshot of /verif — /repo itself is never touched. One line per seed.
cd "$(dirname "$0")/.." || exit 2
R="${VP_RUN_REPO:?needs --with-repo}"; export VERIF_REPO="$R"
re="${1:-.*}"
./setup.sh > setup.log 2>&1 || { echo "setup failed"; tail -5 setup.log; exit 2; }
for d in seeded/C*/; do
  name=$(basename "$d"); [[ "$name" =~ $re ]] || continue
  id=${name%%-*}
  grep -q '"obsolete"' "$d/meta.json" 2>/dev/null && { echo "$name: obsolete (skipped)"; continue; }
  (cd "$R" && patch -p1 -s --no-backup-if-mismatch < "$OLDPWD/$d/patch.diff") >/dev/null 2>&1 || { echo "$name: DOES-NOT-APPLY"; (cd "$R" && git checkout -- . 2>/dev/null; git clean -fdq 2>/dev/null); continue; }
  out=$(timeout 1500 ./check "$id" quick 2>&1); rc=$?
  (cd "$R" && patch -p1 -R -s --no-backup-if-mismatch < "$OLDPWD/$d/patch.diff") >/dev/null 2>&1
  if [ $rc -eq 0 ]; then echo "$name: MISSED"; else
    if echo "$out" | grep "^VIOLATION" | grep -vq "no-failing-input-found"; then echo "$name: caught"; else echo "$name: caught (no failing input)"; fi
  fi
done
echo "== unchanged tree:"
for i in 01 02 03 04 05 06 07 08 09 10 11 12 13 14 15 16 17 18 19 20; do ./check C$i quick 2>&1 | grep -v "^KNOWN" | tail -1; done
