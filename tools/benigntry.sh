#!/bin/bash
# usage: tools/benigntry.sh <dir> <id> [own] — apply one kept harmless refactoring, regenerate the facts, rebuild every property module, undo; `own` also runs its check
cd /verif || exit 2
export GOFLAGS=-mod=mod GOPROXY=off
d="$1/$2"
git -C /repo diff --quiet || { echo "repo dirty"; exit 2; }
git -C /repo apply "/verif/$d/patch.diff" || { echo "DOES-NOT-APPLY"; exit 2; }
save=$(mktemp -d /tmp/evsave.XXXX); cp evidence/*.json "$save"/
rm -f lean/Vuego/Generated/*.lean
(cd extract && go run . -repo /repo -out /verif/lean/Vuego/Generated > /dev/null 2>&1)
python3 -c "import json;print('gen-errors:', json.load(open('/verif/lean/Vuego/Generated/extract_report.json')).get('errors'))"
(cd lean && lake build Vuego 2>&1 | grep -E "error: .*Vuego/" | cut -c1-240 | head -8)
if [ "$3" = "own" ]; then ./check "$2" quick 2>&1 | tail -3 | cut -c1-300; fi
git -C /repo checkout -- . ; git -C /repo clean -fdq >/dev/null 2>&1
rm -f lean/Vuego/Generated/*.lean; cp "$save"/*.json evidence/; rm -rf "$save"
echo done
