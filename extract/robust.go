package main

// Utilities that make the fact recognisers insensitive to harmless rewrites of the source: boolean conditions are compared by truth
// table (operand order, De Morgan, double negation, `!=` vs `!(==)`), a fact may be found in a helper the function delegates to
// (same package, a few calls deep), merge loops may be written as calls of a copy helper, constants are resolved through local and
// package declarations whatever their name.

import (
	"fmt"
	"go/ast"
	"go/parser"
	"go/token"
	"go/types"
	"sort"
	"strings"
)

// ---- boolean conditions by truth table ----

// atomOf normalises a non-boolean-connective expression to (atom text, negated): `a != b` is the negation of `a == b`, `a >= b` of `a < b`,
// `a > b` is `b < a`, `a <= b` the negation of `b < a`; the operands of `==` are put in text order.
func atomOf(e ast.Expr) (string, bool) {
	for {
		p, ok := e.(*ast.ParenExpr)
		if !ok {
			break
		}
		e = p.X
	}
	if ue, ok := e.(*ast.UnaryExpr); ok && ue.Op == token.NOT {
		a, n := atomOf(ue.X)
		return a, !n
	}
	if be, ok := e.(*ast.BinaryExpr); ok {
		x, y := types.ExprString(be.X), types.ExprString(be.Y)
		switch be.Op {
		case token.EQL, token.NEQ:
			if y < x {
				x, y = y, x
			}
			return x + "==" + y, be.Op == token.NEQ
		case token.LSS:
			return x + "<" + y, false
		case token.GEQ:
			return x + "<" + y, true
		case token.GTR:
			return y + "<" + x, false
		case token.LEQ:
			return y + "<" + x, true
		}
	}
	return types.ExprString(e), false
}

func collectAtoms(e ast.Expr, set map[string]bool) {
	switch x := e.(type) {
	case *ast.ParenExpr:
		collectAtoms(x.X, set)
		return
	case *ast.UnaryExpr:
		if x.Op == token.NOT {
			collectAtoms(x.X, set)
			return
		}
	case *ast.BinaryExpr:
		if x.Op == token.LAND || x.Op == token.LOR {
			collectAtoms(x.X, set)
			collectAtoms(x.Y, set)
			return
		}
	}
	a, _ := atomOf(e)
	set[a] = true
}

func evalBool(e ast.Expr, val map[string]bool) bool {
	switch x := e.(type) {
	case *ast.ParenExpr:
		return evalBool(x.X, val)
	case *ast.UnaryExpr:
		if x.Op == token.NOT {
			return !evalBool(x.X, val)
		}
	case *ast.BinaryExpr:
		if x.Op == token.LAND {
			return evalBool(x.X, val) && evalBool(x.Y, val)
		}
		if x.Op == token.LOR {
			return evalBool(x.X, val) || evalBool(x.Y, val)
		}
	}
	a, neg := atomOf(e)
	return val[a] != neg
}

// boolCanon is a canonical form of a boolean condition: its sorted atoms and its truth table over them ("a,b|0010").
func boolCanon(e ast.Expr) string {
	set := map[string]bool{}
	collectAtoms(e, set)
	var atoms []string
	for a := range set {
		atoms = append(atoms, a)
	}
	sort.Strings(atoms)
	if len(atoms) > 10 {
		return "?" + types.ExprString(e)
	}
	var bits strings.Builder
	for m := 0; m < 1<<len(atoms); m++ {
		val := map[string]bool{}
		for i, a := range atoms {
			val[a] = m&(1<<i) != 0
		}
		if evalBool(e, val) {
			bits.WriteByte('1')
		} else {
			bits.WriteByte('0')
		}
	}
	return strings.Join(atoms, ",") + "|" + bits.String()
}

// boolCanonOf parses a Go expression text (the reference spelling of a rule) into its canonical form.
func boolCanonOf(src string) string {
	e, err := parseExprString(src)
	if err != nil {
		panic(fmt.Sprintf("boolCanonOf(%q): %v", src, err))
	}
	return boolCanon(e)
}

// ---- helpers a function delegates to ----

// localFuncLits are the function literals bound to local names in a body (`load := func(...) {...}`).
func localFuncLits(body *ast.BlockStmt) map[string]*ast.FuncLit {
	out := map[string]*ast.FuncLit{}
	ast.Inspect(body, func(n ast.Node) bool {
		if as, ok := n.(*ast.AssignStmt); ok && len(as.Lhs) == len(as.Rhs) {
			for i, r := range as.Rhs {
				if fl, ok := r.(*ast.FuncLit); ok {
					if id, ok := as.Lhs[i].(*ast.Ident); ok {
						out[id.Name] = fl
					}
				}
			}
		}
		return true
	})
	return out
}

// bodiesReachable returns the body of fd and the bodies of the same-package functions, methods and local closures it calls, transitively
// up to `depth` calls.
func bodiesReachable(p *pkgFiles, fd *ast.FuncDecl, depth int) []*ast.BlockStmt {
	seen := map[*ast.BlockStmt]bool{}
	var out []*ast.BlockStmt
	var visit func(b *ast.BlockStmt, d int)
	visit = func(b *ast.BlockStmt, d int) {
		if b == nil || seen[b] {
			return
		}
		seen[b] = true
		out = append(out, b)
		if d == 0 {
			return
		}
		lits := localFuncLits(b)
		ast.Inspect(b, func(n ast.Node) bool {
			ce, ok := n.(*ast.CallExpr)
			if !ok {
				return true
			}
			switch f := ce.Fun.(type) {
			case *ast.Ident:
				if fl, ok := lits[f.Name]; ok {
					visit(fl.Body, d-1)
				} else if g := p.fn(f.Name); g != nil {
					visit(g.Body, d-1)
				}
			case *ast.SelectorExpr:
				// a method of the same package: any receiver type (there is no type information to narrow it down)
				for _, fn := range allFuncs(p) {
					if strings.HasSuffix(fn.name, "."+f.Sel.Name) && fn.decl.Recv != nil {
						visit(fn.decl.Body, d-1)
					}
				}
			}
			return true
		})
	}
	visit(fd.Body, depth)
	return out
}

// ---- copy helpers ----

// isCopyHelper: a function whose body is a single `for k, v := range src { dst[k] = v }` over its own parameters; returns the positions
// of dst and src in the parameter list.
func isCopyHelper(fd *ast.FuncDecl) (dst, src int, ok bool) {
	if fd == nil || fd.Body == nil || len(fd.Body.List) != 1 || fd.Type.Params == nil {
		return 0, 0, false
	}
	rs, isRange := fd.Body.List[0].(*ast.RangeStmt)
	if !isRange || len(rs.Body.List) != 1 {
		return 0, 0, false
	}
	as, isAs := rs.Body.List[0].(*ast.AssignStmt)
	if !isAs || len(as.Lhs) != 1 {
		return 0, 0, false
	}
	ix, isIdx := as.Lhs[0].(*ast.IndexExpr)
	if !isIdx {
		return 0, 0, false
	}
	var names []string
	for _, f := range fd.Type.Params.List {
		for _, n := range f.Names {
			names = append(names, n.Name)
		}
	}
	dst, src = -1, -1
	for i, n := range names {
		if n == types.ExprString(ix.X) {
			dst = i
		}
		if n == types.ExprString(rs.X) {
			src = i
		}
	}
	return dst, src, dst >= 0 && src >= 0
}

// mergeSources lists, in statement order, what is merged into a map in a function body: the X of every statement-level
// `for k, v := range X { dst[k] = v }` and the source argument of every statement-level call of a copy helper.
func mergeSources(p *pkgFiles, body *ast.BlockStmt) []string {
	var out []string
	var walk func(list []ast.Stmt)
	walk = func(list []ast.Stmt) {
		for _, s := range list {
			switch x := s.(type) {
			case *ast.RangeStmt:
				if len(x.Body.List) == 1 {
					if as, ok := x.Body.List[0].(*ast.AssignStmt); ok && len(as.Lhs) == 1 {
						if _, isIdx := as.Lhs[0].(*ast.IndexExpr); isIdx {
							out = append(out, types.ExprString(x.X))
						}
					}
					// `for _, layer := range [...]map[string]any{a, b, c} { for k, v := range layer { dst[k] = v } }`: a, b, c in that order
					if cl, isLit := x.X.(*ast.CompositeLit); isLit && x.Value != nil {
						if inner, ok := x.Body.List[0].(*ast.RangeStmt); ok && types.ExprString(inner.X) == types.ExprString(x.Value) && len(inner.Body.List) == 1 {
							if as, ok := inner.Body.List[0].(*ast.AssignStmt); ok && len(as.Lhs) == 1 {
								if _, isIdx := as.Lhs[0].(*ast.IndexExpr); isIdx {
									for _, el := range cl.Elts {
										out = append(out, types.ExprString(el))
									}
								}
							}
						}
					}
				}
			case *ast.ExprStmt:
				if ce, ok := x.X.(*ast.CallExpr); ok {
					if id, ok := ce.Fun.(*ast.Ident); ok {
						if _, src, ok := isCopyHelper(p.fn(id.Name)); ok && src < len(ce.Args) {
							out = append(out, types.ExprString(ce.Args[src]))
						}
					}
				}
			case *ast.IfStmt:
				walk(x.Body.List)
			case *ast.BlockStmt:
				walk(x.List)
			}
		}
	}
	walk(body.List)
	return out
}

// ---- integer constants whatever their name ----

// resolveInt finds the integer literal an identifier stands for: a local `name := 100` / `const name = 100` in the body, else a
// package-level const or var.
func resolveInt(p *pkgFiles, body *ast.BlockStmt, name string) (string, bool) {
	val := ""
	look := func(n ast.Node) bool {
		switch x := n.(type) {
		case *ast.ValueSpec:
			for i, id := range x.Names {
				if id.Name == name && i < len(x.Values) {
					if bl, ok := x.Values[i].(*ast.BasicLit); ok && bl.Kind == token.INT {
						val = bl.Value
					}
				}
			}
		case *ast.AssignStmt:
			if len(x.Lhs) == 1 && len(x.Rhs) == 1 && types.ExprString(x.Lhs[0]) == name {
				if bl, ok := x.Rhs[0].(*ast.BasicLit); ok && bl.Kind == token.INT {
					val = bl.Value
				}
			}
		}
		return true
	}
	if body != nil {
		ast.Inspect(body, look)
	}
	if val == "" {
		for _, f := range p.files {
			for _, d := range f.Decls {
				if gd, ok := d.(*ast.GenDecl); ok {
					ast.Inspect(gd, look)
				}
			}
		}
	}
	return val, val != ""
}

func parseExprString(src string) (ast.Expr, error) { return parser.ParseExpr(src) }

// ---- implication between conditions, with atoms renamed by role ----

// implies reports whether cond ⇒ want for every truth assignment; `role` maps an atom's text to a role name (or keeps it). Both
// expressions are evaluated over the union of their (renamed) atoms.
func implies(cond ast.Expr, want string, role func(string) string) bool {
	we, err := parseExprString(want)
	if err != nil {
		return false
	}
	set := map[string]bool{}
	collectAtoms(cond, set)
	collectAtoms(we, set)
	roles := map[string]bool{}
	for a := range set {
		roles[role(a)] = true
	}
	var names []string
	for r := range roles {
		names = append(names, r)
	}
	sort.Strings(names)
	if len(names) > 12 {
		return false
	}
	for m := 0; m < 1<<len(names); m++ {
		rv := map[string]bool{}
		for i, n := range names {
			rv[n] = m&(1<<i) != 0
		}
		val := map[string]bool{}
		for a := range set {
			val[a] = rv[role(a)]
		}
		if evalBool(cond, val) && !evalBool(we, val) {
			return false
		}
	}
	return true
}

// ---- "X contains the literal L", however it is spelled ----

// containsCanon recognises bytes.Contains(X, []byte("L")), strings.Contains(X, "L"), and the Index forms compared with 0 / -1
// (`>= 0`, `!= -1`, `> -1` positive; `< 0`, `== -1` negative), through parentheses, `!` and string(X) / []byte conversions.
// canonPkgValues: package-level `var` / `const` initialisers by name (set by the caller for the package the expression lives in), so that a
// needle held in a package-level variable (`var endTag = []byte("</html>")`) is read like the literal
var canonPkgValues map[string]ast.Expr

func pkgValues(p *pkgFiles) map[string]ast.Expr {
	out := map[string]ast.Expr{}
	for _, f := range p.files {
		for _, d := range f.Decls {
			gd, ok := d.(*ast.GenDecl)
			if !ok || (gd.Tok != token.VAR && gd.Tok != token.CONST) {
				continue
			}
			for _, sp := range gd.Specs {
				vs, ok := sp.(*ast.ValueSpec)
				if !ok || len(vs.Names) != len(vs.Values) {
					continue
				}
				for i, n := range vs.Names {
					out[n.Name] = vs.Values[i]
				}
			}
		}
	}
	return out
}

func containsCanon(e ast.Expr) (subject, lit string, positive, ok bool) {
	for {
		p, isP := e.(*ast.ParenExpr)
		if !isP {
			break
		}
		e = p.X
	}
	if ue, isU := e.(*ast.UnaryExpr); isU && ue.Op == token.NOT {
		s, l, pos, k := containsCanon(ue.X)
		return s, l, !pos, k
	}
	var strip func(x ast.Expr) string
	strip = func(x ast.Expr) string {
		if id, isI := x.(*ast.Ident); isI && canonPkgValues != nil {
			if v, found := canonPkgValues[id.Name]; found {
				return strip(v)
			}
		}
		if ce, isC := x.(*ast.CallExpr); isC && len(ce.Args) == 1 {
			f := types.ExprString(ce.Fun)
			if f == "string" || f == "[]byte" {
				return types.ExprString(ce.Args[0])
			}
		}
		return types.ExprString(x)
	}
	call := func(x ast.Expr, names ...string) (string, string, bool) {
		ce, isC := x.(*ast.CallExpr)
		if !isC || len(ce.Args) != 2 {
			return "", "", false
		}
		f := types.ExprString(ce.Fun)
		for _, n := range names {
			if f == n {
				l := strip(ce.Args[1])
				if len(l) >= 2 && l[0] == '"' {
					return strip(ce.Args[0]), l, true
				}
			}
		}
		return "", "", false
	}
	if s, l, k := call(e, "bytes.Contains", "strings.Contains"); k {
		return s, l, true, true
	}
	if be, isB := e.(*ast.BinaryExpr); isB {
		if s, l, k := call(be.X, "bytes.Index", "strings.Index"); k {
			y := types.ExprString(be.Y)
			switch {
			case be.Op == token.GEQ && y == "0", be.Op == token.NEQ && y == "-1", be.Op == token.GTR && y == "-1":
				return s, l, true, true
			case be.Op == token.LSS && y == "0", be.Op == token.EQL && y == "-1":
				return s, l, false, true
			}
		}
	}
	return "", "", false, false
}

// pathStepDecl: the function that resolves ONE step of a path - `Stack.resolveStep` in the pinned tree. It is found by what it is, not by
// its name or by being a method: a same-package function reached from Stack.Resolve (directly or through one helper) whose body holds a
// type switch with a `map[string]string` case.
func pathStepDecl(root *pkgFiles) *ast.FuncDecl {
	if fd := root.method("Stack", "resolveStep"); fd != nil {
		return fd
	}
	res := root.method("Stack", "Resolve")
	if res == nil {
		return nil
	}
	hasStrMapCase := func(fd *ast.FuncDecl) bool {
		found := false
		ast.Inspect(fd.Body, func(n ast.Node) bool {
			if cc, ok := n.(*ast.CaseClause); ok {
				for _, e := range cc.List {
					if types.ExprString(e) == "map[string]string" {
						found = true
					}
				}
			}
			return !found
		})
		return found
	}
	bodies := map[*ast.BlockStmt]bool{}
	for _, b := range bodiesReachable(root, res, 2) {
		bodies[b] = true
	}
	for _, fn := range allFuncs(root) {
		if fn.decl != res && fn.decl.Body != nil && bodies[fn.decl.Body] && hasStrMapCase(fn.decl) {
			return fn.decl
		}
	}
	return nil
}
