package main

import (
	"fmt"
	"go/ast"
	"go/token"
	"go/types"
	"os"
	"path/filepath"
	"strings"
)

// extra facts are added here as the model grows (merge orders, lock regions, formatter lists, …).
func extra(repo, out string, root, helpers *pkgFiles) {
	irefl, err := parseDir(filepath.Join(repo, "internal/reflect"))
	if err != nil {
		fail("parse internal/reflect", err)
		return
	}
	if root != nil {
		genReflect(out, root, irefl)
		genEntryFacts(out, root)
		genCacheFacts(out, root)
		genMergeFacts(out, root)
		genParseFacts(repo, out, root)
		genFmtLists(repo, out)
		if helpers != nil {
			genPurity(out, root, helpers)
			genLocks(out, root, helpers)
		}
	}
}

func b2l(b bool) string {
	if b {
		return "true"
	}
	return "false"
}

func containsCall(n ast.Node, name string) bool {
	found := false
	ast.Inspect(n, func(x ast.Node) bool {
		if ce, ok := x.(*ast.CallExpr); ok && strings.HasSuffix(exprString(ce.Fun), name) {
			found = true
		}
		return true
	})
	return found
}

// genReflect reads four facts about Stack/internal/reflect that the Stack model is parametrised by.
func genReflect(out string, root, irefl *pkgFiles) {
	var sb strings.Builder
	sb.WriteString("import Vuego.Model.Stack\nnamespace Vuego.Generated\nopen Vuego\n\n")
	ok := true
	defer func() {
		sb.WriteString("end Vuego.Generated\n")
		writeFile(out, "Reflect.lean", sb.String())
	}()

	// 1. resolveStruct: does the FieldByName branch test IsExported, and does the tag loop skip unexported fields?
	checksExported := false
	if fd := irefl.fn("resolveStruct"); fd != nil {
		byName, byTag := false, false
		sawName, sawTag := false, false
		ast.Inspect(fd.Body, func(n ast.Node) bool {
			switch x := n.(type) {
			case *ast.IfStmt:
				if x.Init != nil && containsCall(x.Init, "FieldByName") {
					sawName = true
					byName = containsCall(x.Cond, "IsExported")
				}
			case *ast.RangeStmt:
				sawTag = true
				// the loop must `continue` on !IsExported before reaching FieldByIndex
				for _, s := range x.Body.List {
					if ifs, ok := s.(*ast.IfStmt); ok && containsCall(ifs.Cond, "IsExported") && strings.Contains(normExpr(ifs.Cond), "!f.IsExported()") {
						if len(ifs.Body.List) == 1 {
							if br, ok := ifs.Body.List[0].(*ast.BranchStmt); ok && br.Tok == token.CONTINUE {
								byTag = true
							}
						}
					}
				}
			}
			return true
		})
		if !sawName || !sawTag {
			fail("resolveStruct", fmt.Errorf("shape not recognised (FieldByName if / tag loop)"))
			ok = false
		}
		if byName != byTag {
			fail("resolveStruct", fmt.Errorf("export check present in only one of the two lookups (byName=%v byTag=%v)", byName, byTag))
			ok = false
		}
		checksExported = byName && byTag
	} else {
		fail("resolveStruct", fmt.Errorf("function not found"))
		ok = false
	}

	// 2. resolveMap: guard on the key kind before MapIndex
	checksKeyKind := false
	if fd := irefl.fn("resolveMap"); fd != nil {
		for _, s := range fd.Body.List {
			if ifs, ok := s.(*ast.IfStmt); ok {
				c := normExpr(ifs.Cond)
				if strings.Contains(c, "Key().Kind()!=reflect.String") && len(ifs.Body.List) == 1 {
					if r, ok := ifs.Body.List[0].(*ast.ReturnStmt); ok && len(r.Results) == 2 && exprString(r.Results[0]) == "nil" && exprString(r.Results[1]) == "false" {
						checksKeyKind = true
					}
				}
			}
			if containsCall(s, "MapIndex") {
				break
			}
		}
		if !containsCall(fd.Body, "MapIndex") {
			fail("resolveMap", fmt.Errorf("MapIndex call not found"))
			ok = false
		}
	} else {
		fail("resolveMap", fmt.Errorf("function not found"))
		ok = false
	}

	// 3. Stack.resolveStep: the map[string]string case
	strMapMissingAbsent := false
	if fd := root.method("Stack", "resolveStep"); fd != nil {
		found := false
		ast.Inspect(fd.Body, func(n ast.Node) bool {
			cc, isCC := n.(*ast.CaseClause)
			if !isCC || len(cc.List) != 1 {
				return true
			}
			if mt, isMap := cc.List[0].(*ast.MapType); isMap && exprString(mt.Key) == "string" && exprString(mt.Value) == "string" {
				found = true
				switch {
				case len(cc.Body) == 1 && isReturnOf(cc.Body[0], "c[p]"):
					strMapMissingAbsent = false
				case len(cc.Body) == 2 && isCommaOkReturn(cc.Body[0]) && isReturnOf(cc.Body[1], "nil"):
					strMapMissingAbsent = true
				default:
					fail("resolveStep", fmt.Errorf("map[string]string case body not recognised"))
					ok = false
				}
			}
			return true
		})
		if !found {
			fail("resolveStep", fmt.Errorf("map[string]string case not found"))
			ok = false
		}
	} else {
		fail("resolveStep", fmt.Errorf("method not found"))
		ok = false
	}

	// 4. Stack.EnvMap: is PopulateStructFields called before or after the scope loop?
	envStructFirst := false
	if fd := root.method("Stack", "EnvMap"); fd != nil {
		loopAt, popAt := -1, -1
		for i, s := range fd.Body.List {
			if _, isFor := s.(*ast.ForStmt); isFor && loopAt < 0 {
				loopAt = i
			}
			if containsCall(s, "PopulateStructFields") && popAt < 0 {
				popAt = i
			}
		}
		if loopAt < 0 || popAt < 0 {
			fail("EnvMap", fmt.Errorf("scope loop or PopulateStructFields call not found at statement level"))
			ok = false
		}
		envStructFirst = popAt < loopAt
	} else {
		fail("EnvMap", fmt.Errorf("method not found"))
		ok = false
	}
	// 5. PopulateStructFields: a second field loop assigning m[f.Name]
	envGoNames := false
	if fd := irefl.fn("PopulateStructFields"); fd != nil {
		loops := 0
		for _, s := range fd.Body.List {
			rs, isRange := s.(*ast.RangeStmt)
			if !isRange {
				continue
			}
			loops++
			if loops == 2 {
				assigns := false
				ast.Inspect(rs.Body, func(n ast.Node) bool {
					if as, isAs := n.(*ast.AssignStmt); isAs && len(as.Lhs) == 1 && exprString(as.Lhs[0]) == "m[f.Name]" {
						assigns = true
					}
					return true
				})
				if !assigns {
					fail("PopulateStructFields", fmt.Errorf("second field loop does not assign m[f.Name]"))
					ok = false
				}
				envGoNames = assigns
			}
		}
		if loops == 0 || loops > 2 {
			fail("PopulateStructFields", fmt.Errorf("%d field loops, expected 1 or 2", loops))
			ok = false
		}
	} else {
		fail("PopulateStructFields", fmt.Errorf("function not found"))
		ok = false
	}
	if !ok {
		return
	}
	rep.Facts["reflect.envGoNames"] = b2l(envGoNames)
	rep.Facts["reflect.checksExported"] = b2l(checksExported)
	rep.Facts["reflect.checksKeyKind"] = b2l(checksKeyKind)
	rep.Facts["reflect.strMapMissingAbsent"] = b2l(strMapMissingAbsent)
	rep.Facts["reflect.envStructFirst"] = b2l(envStructFirst)
	sb.WriteString("/-- read from resolveStruct / resolveMap (internal/reflect), Stack.resolveStep and Stack.EnvMap -/\n")
	sb.WriteString(fmt.Sprintf("def reflectCfg : ReflectCfg := { checksExported := %s, checksKeyKind := %s, strMapMissingAbsent := %s, envStructFirst := %s, envGoNames := %s }\n\n",
		b2l(checksExported), b2l(checksKeyKind), b2l(strMapMissingAbsent), b2l(envStructFirst), b2l(envGoNames)))
}

func isReturnOf(s ast.Stmt, what string) bool {
	r, ok := s.(*ast.ReturnStmt)
	return ok && len(r.Results) == 1 && exprString(r.Results[0]) == what
}

// if v, ok := c[p]; ok { return v }
func isCommaOkReturn(s ast.Stmt) bool {
	ifs, ok := s.(*ast.IfStmt)
	if !ok || ifs.Init == nil || ifs.Else != nil || len(ifs.Body.List) != 1 {
		return false
	}
	as, ok := ifs.Init.(*ast.AssignStmt)
	if !ok || len(as.Lhs) != 2 || len(as.Rhs) != 1 || exprString(as.Rhs[0]) != "c[p]" {
		return false
	}
	return exprString(ifs.Cond) == exprString(as.Lhs[1]) && isReturnOf(ifs.Body.List[0], exprString(as.Lhs[0]))
}

// genEntryFacts: how the three families of entry points treat a failing destination writer.
func genEntryFacts(out string, root *pkgFiles) {
	var sb strings.Builder
	sb.WriteString("import Vuego.Model.Entry\nnamespace Vuego.Generated\nopen Vuego.Entry\n\n")
	defer func() {
		sb.WriteString("end Vuego.Generated\n")
		writeFile(out, "EntryFacts.lean", sb.String())
	}()
	// 1. Vue.render: wraps w in errWriter and returns ew.err; errWriter.Write remembers the first error
	vueReports := false
	if fd := root.method("Vue", "render"); fd != nil {
		wraps, returns := false, false
		ast.Inspect(fd.Body, func(n ast.Node) bool {
			switch x := n.(type) {
			case *ast.AssignStmt:
				if len(x.Rhs) == 1 && strings.Contains(exprString(x.Rhs[0]), "errWriter") {
					wraps = true
				}
			case *ast.ReturnStmt:
				if len(x.Results) == 1 && strings.HasSuffix(exprString(x.Results[0]), ".err") {
					returns = true
				}
			}
			return true
		})
		// a composite literal is not handled by exprString: look at the source text of the function instead
		src := nodeText(root, fd)
		if strings.Contains(src, "&errWriter{w: w}") {
			wraps = true
		}
		remembers := false
		if wfd := root.method("errWriter", "Write"); wfd != nil {
			ws := nodeText(root, wfd)
			remembers = strings.Contains(ws, "e.err = err") && strings.Contains(ws, "if e.err != nil")
		}
		vueReports = wraps && returns && remembers
		if wraps != returns {
			fail("Vue.render", fmt.Errorf("error-remembering writer is created but its error is not returned (or vice versa)"))
		}
	} else {
		fail("Vue.render", fmt.Errorf("method not found"))
	}
	// 2. template.layout: `_, err := io.Copy(w, buf); return err`
	layoutReturns := false
	if fd := root.method("template", "layout"); fd != nil {
		src := nodeText(root, fd)
		idx := strings.Index(src, "io.Copy(w, buf)")
		if idx < 0 {
			fail("template.layout", fmt.Errorf("io.Copy(w, buf) not found"))
		} else {
			tail := src[idx:]
			nl := strings.Index(tail, "\n")
			next := strings.TrimSpace(strings.SplitN(tail[nl+1:], "\n", 2)[0])
			head := strings.TrimSpace(src[strings.LastIndex(src[:idx], "\n")+1 : idx])
			layoutReturns = strings.HasPrefix(head, "_, err :=") && next == "return err"
		}
	} else {
		fail("template.layout", fmt.Errorf("method not found"))
	}
	// 3. RenderReader: `_, err = buf.WriteTo(w); return err`
	readerReturns := false
	if fd := root.method("template", "RenderReader"); fd != nil {
		src := nodeText(root, fd)
		idx := strings.Index(src, "buf.WriteTo(w)")
		if idx < 0 {
			fail("template.RenderReader", fmt.Errorf("buf.WriteTo(w) not found"))
		} else {
			tail := src[idx:]
			nl := strings.Index(tail, "\n")
			next := strings.TrimSpace(strings.SplitN(tail[nl+1:], "\n", 2)[0])
			head := strings.TrimSpace(src[strings.LastIndex(src[:idx], "\n")+1 : idx])
			readerReturns = strings.HasPrefix(head, "_, err =") && next == "return err"
		}
	} else {
		fail("template.RenderReader", fmt.Errorf("method not found"))
	}
	rep.Facts["entry.vueRenderReportsWriteError"] = b2l(vueReports)
	rep.Facts["entry.layoutReturnsCopyError"] = b2l(layoutReturns)
	rep.Facts["entry.readerReturnsWriteToError"] = b2l(readerReturns)
	sb.WriteString("/-- read from Vue.render/errWriter (vue.go), template.layout (template_layout.go), template.RenderReader (template_render.go) -/\n")
	sb.WriteString(fmt.Sprintf("def entryCfg : EntryCfg := { vueRenderReportsWriteError := %s, layoutReturnsCopyError := %s, readerReturnsWriteToError := %s }\n\n", b2l(vueReports), b2l(layoutReturns), b2l(readerReturns)))
}

func nodeText(p *pkgFiles, n ast.Node) string {
	start := p.fset.Position(n.Pos())
	end := p.fset.Position(n.End())
	b, err := os.ReadFile(start.Filename)
	if err != nil {
		return ""
	}
	return string(b[start.Offset:end.Offset])
}

// genCacheFacts: the hit condition of loadCachedWithFrontMatter.
func genCacheFacts(out string, root *pkgFiles) {
	var sb strings.Builder
	sb.WriteString("namespace Vuego.Generated\n\n")
	defer func() {
		sb.WriteString("\nend Vuego.Generated\n")
		writeFile(out, "CacheFacts.lean", sb.String())
	}()
	fd := root.method("Vue", "loadCachedWithFrontMatter")
	if fd == nil {
		fail("loadCachedWithFrontMatter", fmt.Errorf("method not found"))
		return
	}
	cond := ""
	ast.Inspect(fd.Body, func(n ast.Node) bool {
		if ifs, ok := n.(*ast.IfStmt); ok && cond == "" {
			c := normExpr(ifs.Cond)
			if strings.Contains(c, "cached.modTime.Equal(currentModTime)") {
				cond = c
			}
		}
		return true
	})
	rep.Facts["cache.hitCondition"] = cond
	// every successful return: either the recognised hit (cached.frontMatter, cached.dom) or what THIS call read and parsed
	succ, hitRet, freshRet := 0, 0, 0
	defs := map[string]string{}
	ast.Inspect(fd.Body, func(n ast.Node) bool {
		switch x := n.(type) {
		case *ast.AssignStmt:
			if x.Tok == token.DEFINE && len(x.Rhs) == 1 {
				if ce, ok := x.Rhs[0].(*ast.CallExpr); ok {
					for _, l := range x.Lhs {
						defs[exprString(l)] = exprString(ce.Fun)
					}
				}
			}
		case *ast.ReturnStmt:
			if len(x.Results) == 3 && exprString(x.Results[2]) == "nil" {
				succ++
				a, b := exprString(x.Results[0]), exprString(x.Results[1])
				if a == "cached.frontMatter" && b == "cached.dom" {
					hitRet++
				} else if defs[a] == "v.loader.loadFragment" && defs[b] == "parser.ParseTemplateBytes" {
					freshRet++
				}
			}
		}
		return true
	})
	fmt.Fprintf(&sb, "/-- successful returns of loadCachedWithFrontMatter: all of them, those answering from the entry under the hit condition, and those\n    returning what this very call read (loadFragment) and parsed (ParseTemplateBytes) -/\ndef cacheReturns : Nat × Nat × Nat := (%d, %d, %d)\n", succ, hitRet, freshRet)
	rep.Facts["cache.returns"] = fmt.Sprintf("success=%d hit=%d fresh=%d", succ, hitRet, freshRet)
	switch cond {
	case "(ok)&&((currentModTime.IsZero())||(cached.modTime.Equal(currentModTime)))":
		sb.WriteString("def cacheStatFailureIsMiss : Bool := false\n")
	case "((ok)&&(!statFailed))&&((currentModTime.IsZero())||(cached.modTime.Equal(currentModTime)))":
		// statFailed must be set exactly when fs.Stat fails
		src := nodeText(root, fd)
		if !strings.Contains(src, "} else {") || !strings.Contains(src, "statFailed = true") {
			fail("loadCachedWithFrontMatter", fmt.Errorf("statFailed is never set"))
			return
		}
		sb.WriteString("def cacheStatFailureIsMiss : Bool := true\n")
	default:
		fail("loadCachedWithFrontMatter", fmt.Errorf("hit condition not recognised: %q", cond))
	}
}

// rangeSources lists, in order, the X of every statement-level `for k, v := range X { dst[k] = v }` in a function body.
func rangeSources(body *ast.BlockStmt) []string {
	var out []string
	var walk func(list []ast.Stmt)
	walk = func(list []ast.Stmt) {
		for _, s := range list {
			switch x := s.(type) {
			case *ast.RangeStmt:
				if len(x.Body.List) == 1 {
					if as, ok := x.Body.List[0].(*ast.AssignStmt); ok && len(as.Lhs) == 1 {
						if _, isIdx := as.Lhs[0].(*ast.IndexExpr); isIdx {
							out = append(out, exprString(x.X))
						}
					}
				}
			case *ast.IfStmt:
				walk(x.Body.List)
			case *ast.BlockStmt:
				walk(x.List)
			}
		}
	}
	walk(body.List)
	return out
}

// genMergeFacts: the order of the merge loops in loadConfig, Fill and Vue.Render (mergeFrontMatter).
func genMergeFacts(out string, root *pkgFiles) {
	var sb strings.Builder
	sb.WriteString("import Vuego.Model.Merge\nnamespace Vuego.Generated\nopen Vuego.Merge\n\n")
	defer func() {
		sb.WriteString("end Vuego.Generated\n")
		writeFile(out, "MergeFacts.lean", sb.String())
	}()
	okAll := true
	// a file render without a layout goes through Vue.Render with the template's variables as caller data (that is where the file's own
	// front-matter is laid over them): the last statement of renderWithoutLayout is `return t.vue.Render(w, t.filename, t.stack.EnvMap())`
	via := false
	if fd := root.method("template", "renderWithoutLayout"); fd != nil && len(fd.Body.List) > 0 {
		if rs, ok := fd.Body.List[len(fd.Body.List)-1].(*ast.ReturnStmt); ok && len(rs.Results) == 1 {
			via = exprString(rs.Results[0]) == "t.vue.Render(w,t.filename,t.stack.EnvMap())"
		}
	} else {
		fail("merge", fmt.Errorf("template.renderWithoutLayout not found"))
	}
	fmt.Fprintf(&sb, "/-- template.renderWithoutLayout renders through Vue.Render(w, t.filename, t.stack.EnvMap()) -/\ndef templateRendersViaVueRender : Bool := %s\n\n", b2l(via))
	rep.Facts["merge.templateRendersViaVueRender"] = b2l(via)
	// Fill
	var fillOrder []string
	if fd := root.method("template", "Fill"); fd != nil {
		for _, src := range rangeSources(fd.Body) {
			switch src {
			case "t.vue.initialData":
				fillOrder = append(fillOrder, ".initialData")
			case "passedData":
				fillOrder = append(fillOrder, ".passed")
			case "t.frontMatter":
				fillOrder = append(fillOrder, ".frontMatter")
			default:
				fail("template.Fill", fmt.Errorf("merge loop over unknown source %q", src))
				okAll = false
			}
		}
		srcText := nodeText(root, fd)
		if !strings.Contains(srcText, "passedData := toMapData(vars)") {
			fail("template.Fill", fmt.Errorf("passedData is not toMapData(vars)"))
			okAll = false
		}
	} else {
		fail("template.Fill", fmt.Errorf("method not found"))
		okAll = false
	}
	// loadConfig: theme.yml first, then the data/ loop
	var cfgOrder []string
	if fd := root.fn("loadConfig"); fd != nil {
		srcText := nodeText(root, fd)
		ti := strings.Index(srcText, `loadYAML("theme.yml")`)
		di := strings.Index(srcText, `loadYAML("data/" + name)`)
		if ti < 0 || di < 0 {
			fail("loadConfig", fmt.Errorf("loadYAML calls not found"))
			okAll = false
		} else if ti < di {
			cfgOrder = []string{".theme", ".dataYml"}
		} else {
			cfgOrder = []string{".dataYml", ".theme"}
		}
		if !strings.Contains(srcText, "vue.initialData[k] = v") {
			fail("loadConfig", fmt.Errorf("merge into initialData not found"))
			okAll = false
		}
	} else {
		fail("loadConfig", fmt.Errorf("function not found"))
		okAll = false
	}
	// Vue.Render: mergeFrontMatter(toMapData(data), frontMatter) and the loops inside mergeFrontMatter
	var renderOrder []string
	if fd := root.fn("mergeFrontMatter"); fd != nil {
		for _, src := range rangeSources(fd.Body) {
			switch src {
			case "data":
				renderOrder = append(renderOrder, ".callerData")
			case "frontMatter":
				renderOrder = append(renderOrder, ".fileFrontMatter")
			default:
				fail("mergeFrontMatter", fmt.Errorf("merge loop over unknown source %q", src))
				okAll = false
			}
		}
		if rfd := root.method("Vue", "Render"); rfd == nil || !strings.Contains(nodeText(root, rfd), "mergeFrontMatter(toMapData(data), frontMatter)") {
			fail("Vue.Render", fmt.Errorf("call mergeFrontMatter(toMapData(data), frontMatter) not found"))
			okAll = false
		}
	} else if rfd := root.method("Vue", "Render"); rfd != nil {
		// older shape: the front-matter loop writes into dataMap directly
		for _, src := range rangeSources(rfd.Body) {
			if src == "frontMatter" {
				renderOrder = []string{".callerData", ".fileFrontMatter"}
			}
		}
		if renderOrder == nil {
			fail("Vue.Render", fmt.Errorf("front-matter merge not found"))
			okAll = false
		}
	}
	if !okAll {
		return
	}
	rep.Facts["merge.fill"] = strings.Join(fillOrder, ",")
	rep.Facts["merge.loadConfig"] = strings.Join(cfgOrder, ",")
	rep.Facts["merge.render"] = strings.Join(renderOrder, ",")
	sb.WriteString("/-- order of the merge loops (earlier = lower precedence) in loadConfig, template.Fill and Vue.Render/mergeFrontMatter -/\n")
	sb.WriteString("def mergeCfg : MergeCfg := { loadConfig := [" + strings.Join(cfgOrder, ", ") + "], fill := [" + strings.Join(fillOrder, ", ") + "], render := [" + strings.Join(renderOrder, ", ") + "] }\n\n")
}

// genParseFacts: (1) how ParseTemplateBytes tells a full document from a fragment; (2) what the compiled-expression cache is keyed by and
// what the compilation reads: a memo table is only sound when its key holds everything the memoised computation depends on.
func genParseFacts(repo, out string, root *pkgFiles) {
	var sb strings.Builder
	sb.WriteString("namespace Vuego.Generated\n\n")
	defer func() {
		sb.WriteString("\nend Vuego.Generated\n")
		writeFile(out, "Parse.lean", sb.String())
	}()
	rule := ""
	if ip, err := parseDir(filepath.Join(repo, "internal/parser")); err == nil {
		if fd := ip.fn("ParseTemplateBytes"); fd != nil {
			for _, st := range fd.Body.List {
				if is, ok := st.(*ast.IfStmt); ok && is.Init == nil {
					// the first `if` whose body parses a whole document
					if containsCall(is.Body, "html.Parse") {
						rule = types.ExprString(is.Cond)
						break
					}
				}
			}
		} else {
			fail("parse", fmt.Errorf("parser.ParseTemplateBytes not found"))
		}
	} else {
		fail("parse internal/parser", err)
	}
	fmt.Fprintf(&sb, "/-- the condition under which ParseTemplateBytes parses its input as a full document -/\ndef documentRule : String := %s\n", leanString(rule))
	rep.Facts["documentRule"] = rule

	// getProgram: parameters, the key of every store into e.programs, the identifiers the expr.Compile call reads
	var params, keys, reads []string
	if fd := root.method("ExprEvaluator", "getProgram"); fd != nil {
		for _, f := range fd.Type.Params.List {
			for _, n := range f.Names {
				params = append(params, n.Name)
			}
		}
		ast.Inspect(fd.Body, func(n ast.Node) bool {
			switch x := n.(type) {
			case *ast.AssignStmt:
				for _, l := range x.Lhs {
					if ix, ok := l.(*ast.IndexExpr); ok && strings.HasSuffix(exprString(ix.X), ".programs") {
						keys = append(keys, exprString(ix.Index))
					}
				}
			case *ast.CallExpr:
				if exprString(x.Fun) == "expr.Compile" {
					seen := map[string]bool{}
					for _, a := range x.Args {
						ast.Inspect(a, func(m ast.Node) bool {
							switch y := m.(type) {
							case *ast.SelectorExpr:
								if id, ok := y.X.(*ast.Ident); ok && id.Name == "expr" {
									return false // a function of the expr package itself
								}
							case *ast.Ident:
								if !seen[y.Name] {
									seen[y.Name] = true
									reads = append(reads, y.Name)
								}
							}
							return true
						})
					}
				}
			}
			return true
		})
	} else {
		fail("parse", fmt.Errorf("ExprEvaluator.getProgram not found"))
	}
	list := func(xs []string) string {
		var q []string
		for _, x := range xs {
			q = append(q, leanString(x))
		}
		return "[" + strings.Join(q, ", ") + "]"
	}
	fmt.Fprintf(&sb, "/-- parameters of ExprEvaluator.getProgram -/\ndef programParams : List String := %s\n", list(params))
	fmt.Fprintf(&sb, "/-- the key of every store into the compiled-program cache -/\ndef programCacheKeys : List String := %s\n", list(keys))
	fmt.Fprintf(&sb, "/-- the identifiers the expr.Compile call reads (functions of the expr package aside) -/\ndef programCompileReads : List String := %s\n", list(reads))
	// Stack.resolveStep: the conjuncts of every `if` that encloses the reflect Index call (an unguarded Index panics)
	var guards []string
	if fd := root.method("Stack", "resolveStep"); fd != nil {
		var walk func(n ast.Node, conds []string)
		conj := func(e ast.Expr) []string {
			var out []string
			var split func(e ast.Expr)
			split = func(e ast.Expr) {
				if be, ok := e.(*ast.BinaryExpr); ok && be.Op == token.LAND {
					split(be.X)
					split(be.Y)
					return
				}
				if pe, ok := e.(*ast.ParenExpr); ok {
					if be, ok := pe.X.(*ast.BinaryExpr); ok && be.Op == token.LAND {
						split(be)
						return
					}
				}
				out = append(out, types.ExprString(e))
			}
			split(e)
			return out
		}
		walk = func(n ast.Node, conds []string) {
			switch x := n.(type) {
			case *ast.IfStmt:
				inner := append(append([]string{}, conds...), conj(x.Cond)...)
				walk(x.Body, inner)
				if x.Else != nil {
					walk(x.Else, conds)
				}
				return
			case *ast.BlockStmt:
				for _, st := range x.List {
					walk(st, conds)
				}
				return
			case nil:
				return
			}
			ast.Inspect(n, func(m ast.Node) bool {
				if ce, ok := m.(*ast.CallExpr); ok {
					if sel, ok := ce.Fun.(*ast.SelectorExpr); ok && sel.Sel.Name == "Index" && len(ce.Args) == 1 {
						guards = append(guards, conds...)
					}
				}
				return true
			})
		}
		walk(fd.Body, nil)
	} else {
		fail("parse", fmt.Errorf("Stack.resolveStep not found"))
	}
	fmt.Fprintf(&sb, "/-- the conditions under which Stack.resolveStep calls reflect's Index -/\ndef indexGuards : List String := %s\n", list(guards))
	rep.Facts["indexGuards"] = list(guards)
	rep.Facts["programParams"] = list(params)
	rep.Facts["programCacheKeys"] = list(keys)
	rep.Facts["programCompileReads"] = list(reads)
}

// genFmtLists: the three element lists the formatter's tree walk decides by (void, inline, phrasing containers), as lower-case tag names.
func genFmtLists(repo, out string) {
	var sb strings.Builder
	sb.WriteString("namespace Vuego.Generated\n\n")
	defer func() {
		sb.WriteString("\nend Vuego.Generated\n")
		writeFile(out, "FmtLists.lean", sb.String())
	}()
	fp, err := parseDir(filepath.Join(repo, "formatter"))
	if err != nil {
		fail("parse formatter", err)
		return
	}
	for _, it := range [][2]string{{"isVoidElement", "fmtVoid"}, {"isInlineAtom", "fmtInline"}, {"isPhrasingContainer", "fmtPhrasing"}} {
		var names []string
		if fd := fp.fn(it[0]); fd != nil {
			ast.Inspect(fd.Body, func(n ast.Node) bool {
				cl, ok := n.(*ast.CompositeLit)
				if !ok {
					return true
				}
				for _, e := range cl.Elts {
					if sel, ok := e.(*ast.SelectorExpr); ok {
						if id, ok := sel.X.(*ast.Ident); ok && id.Name == "atom" {
							names = append(names, strings.ToLower(sel.Sel.Name))
						}
					}
				}
				return false
			})
		} else {
			fail("formatter", fmt.Errorf("formatter.%s not found", it[0]))
		}
		var q []string
		for _, n := range names {
			q = append(q, leanString(n))
		}
		fmt.Fprintf(&sb, "/-- the atoms listed in formatter.%s -/\ndef %s : List String := [%s]\n", it[0], it[1], strings.Join(q, ", "))
		rep.Facts[it[1]] = strings.Join(names, ",")
	}
}
