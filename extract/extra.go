package main

// extra facts are added here as the model grows (merge orders, lock regions, formatter lists, …).
func extra(repo, out string, root, helpers *pkgFiles) {}
