package main

import (
	"fmt"
	"go/ast"
	"go/token"
	"go/types"
	"os"
	"path/filepath"
	"regexp"
	"strings"
)

// extra facts are added here as the model grows (merge orders, lock regions, formatter lists, …).
func extra(repo, out string, root, helpers *pkgFiles) {
	irefl, err := parseDir(filepath.Join(repo, "internal/reflect"))
	if err != nil {
		fail("parse internal/reflect", err)
		return
	}
	if root != nil {
		genReflect(out, root, irefl)
		genProcessState(repo, out, root, helpers)
		genEntryFacts(out, root)
		genCacheFacts(out, root)
		genMergeFacts(out, root)
		genParseFacts(repo, out, root)
		genFmtLists(repo, out)
		genMdFacts(repo, out)
		if helpers != nil {
			genPurity(out, root, helpers)
			genLocks(out, root, helpers)
			genEscapes(out, root, helpers)
		}
	}
}

func b2l(b bool) string {
	if b {
		return "true"
	}
	return "false"
}

func containsCall(n ast.Node, name string) bool {
	found := false
	ast.Inspect(n, func(x ast.Node) bool {
		if ce, ok := x.(*ast.CallExpr); ok && strings.HasSuffix(exprString(ce.Fun), name) {
			found = true
		}
		return true
	})
	return found
}

// genReflect reads four facts about Stack/internal/reflect that the Stack model is parametrised by.
func genReflect(out string, root, irefl *pkgFiles) {
	var sb strings.Builder
	sb.WriteString("import Vuego.Model.Stack\nnamespace Vuego.Generated\nopen Vuego\n\n")
	ok := true
	defer func() {
		sb.WriteString("end Vuego.Generated\n")
		writeFile(out, "Reflect.lean", sb.String())
	}()

	// 1. resolveStruct: does the FieldByName branch test IsExported, and does the tag loop skip unexported fields?
	checksExported := false
	if fd := irefl.fn("resolveStruct"); fd != nil {
		byName, byTag := false, false
		sawName, sawTag := false, false
		ast.Inspect(fd.Body, func(n ast.Node) bool {
			switch x := n.(type) {
			case *ast.IfStmt:
				if x.Init != nil && containsCall(x.Init, "FieldByName") {
					sawName = true
					byName = containsCall(x.Cond, "IsExported")
				}
			case *ast.RangeStmt:
				sawTag = true
				// the loop must `continue` on !IsExported before reaching FieldByIndex
				for _, s := range x.Body.List {
					if ifs, ok := s.(*ast.IfStmt); ok && containsCall(ifs.Cond, "IsExported") && strings.Contains(normExpr(ifs.Cond), "!f.IsExported()") {
						if len(ifs.Body.List) == 1 {
							if br, ok := ifs.Body.List[0].(*ast.BranchStmt); ok && br.Tok == token.CONTINUE {
								byTag = true
							}
						}
					}
				}
			}
			return true
		})
		if !sawName || !sawTag {
			fail("resolveStruct", fmt.Errorf("shape not recognised (FieldByName if / tag loop)"))
			ok = false
		}
		if byName != byTag {
			fail("resolveStruct", fmt.Errorf("export check present in only one of the two lookups (byName=%v byTag=%v)", byName, byTag))
			ok = false
		}
		checksExported = byName && byTag
	} else {
		fail("resolveStruct", fmt.Errorf("function not found"))
		ok = false
	}

	// 2. resolveMap: guard on the key kind before MapIndex
	checksKeyKind := false
	if fd := irefl.fn("resolveMap"); fd != nil {
		locals := map[string]string{} // simple local definitions seen so far (`keyType := rv.Type().Key()`): inlined into the guard's text
		for _, s := range fd.Body.List {
			if as, isAs := s.(*ast.AssignStmt); isAs && as.Tok == token.DEFINE && len(as.Lhs) == 1 && len(as.Rhs) == 1 {
				if id, isID := as.Lhs[0].(*ast.Ident); isID {
					locals[id.Name] = normExpr(as.Rhs[0])
				}
			}
			if ifs, ok := s.(*ast.IfStmt); ok {
				c := normExpr(ifs.Cond)
				for name, def := range locals {
					c = regexp.MustCompile(`\b`+regexp.QuoteMeta(name)+`\b`).ReplaceAllString(c, def)
				}
				if strings.Contains(c, "Key().Kind()!=reflect.String") && len(ifs.Body.List) == 1 {
					if r, ok := ifs.Body.List[0].(*ast.ReturnStmt); ok && len(r.Results) == 2 && exprString(r.Results[0]) == "nil" && exprString(r.Results[1]) == "false" {
						checksKeyKind = true
					}
				}
			}
			if containsCall(s, "MapIndex") {
				break
			}
		}
		if !containsCall(fd.Body, "MapIndex") {
			fail("resolveMap", fmt.Errorf("MapIndex call not found"))
			ok = false
		}
	} else {
		fail("resolveMap", fmt.Errorf("function not found"))
		ok = false
	}

	// 3. Stack.resolveStep: the map[string]string case
	strMapMissingAbsent := false
	if fd := pathStepDecl(root); fd != nil {
		found := false
		ast.Inspect(fd.Body, func(n ast.Node) bool {
			cc, isCC := n.(*ast.CaseClause)
			if !isCC || len(cc.List) != 1 {
				return true
			}
			if mt, isMap := cc.List[0].(*ast.MapType); isMap && exprString(mt.Key) == "string" && exprString(mt.Value) == "string" {
				found = true
				switch {
				case len(cc.Body) == 1 && isReturnOf(cc.Body[0], "c[p]"):
					strMapMissingAbsent = false
				case len(cc.Body) == 2 && isCommaOkReturn(cc.Body[0]) && isReturnOf(cc.Body[1], "nil"):
					strMapMissingAbsent = true
				case strMapAbsentIsNil(cc.Body):
					strMapMissingAbsent = true
				default:
					fail("resolveStep", fmt.Errorf("map[string]string case body not recognised"))
					ok = false
				}
			}
			return true
		})
		if !found {
			fail("resolveStep", fmt.Errorf("map[string]string case not found"))
			ok = false
		}
	} else {
		fail("resolveStep", fmt.Errorf("method not found"))
		ok = false
	}

	// 4. Stack.EnvMap: is PopulateStructFields called before or after the scope loop?
	envStructFirst := false
	if fd := root.method("Stack", "EnvMap"); fd != nil {
		loopAt, popAt := -1, -1
		// the scope loop is the loop that STORES into the result map (a loop that only adds up sizes for a capacity hint is not it)
		storesIntoMap := func(n ast.Node) bool {
			found := false
			ast.Inspect(n, func(x ast.Node) bool {
				if as, ok := x.(*ast.AssignStmt); ok {
					for _, l := range as.Lhs {
						if _, isIdx := l.(*ast.IndexExpr); isIdx {
							found = true
						}
					}
				}
				return !found
			})
			return found
		}
		for i, s := range fd.Body.List {
			if fs, isFor := s.(*ast.ForStmt); isFor && loopAt < 0 && storesIntoMap(fs.Body) {
				loopAt = i
			}
			if rs, isRange := s.(*ast.RangeStmt); isRange && loopAt < 0 && strings.HasSuffix(exprString(rs.X), ".stack") && storesIntoMap(rs.Body) {
				loopAt = i
			}
			if containsCall(s, "PopulateStructFields") && popAt < 0 {
				popAt = i
			}
		}
		if loopAt < 0 || popAt < 0 {
			fail("EnvMap", fmt.Errorf("scope loop or PopulateStructFields call not found at statement level"))
			ok = false
		}
		envStructFirst = popAt < loopAt
	} else {
		fail("EnvMap", fmt.Errorf("method not found"))
		ok = false
	}
	// 5. PopulateStructFields: after the loop that stores fields under their tag names, a loop (of either form) stores them under their Go
	// names `m[<field>.Name]` — the LAST writer wins, so the Go-name loop must be the last loop that writes into the map
	envGoNames := false
	if fd := irefl.fn("PopulateStructFields"); fd != nil && fd.Type.Params != nil && len(fd.Type.Params.List) > 0 && len(fd.Type.Params.List[0].Names) > 0 {
		mapName := fd.Type.Params.List[0].Names[0].Name
		analyse := func(list []ast.Stmt, mapName string) (loops int, lastGoName, anyGoName bool) {
			for _, st := range list {
				var body *ast.BlockStmt
				switch x := st.(type) {
				case *ast.RangeStmt:
					body = x.Body
				case *ast.ForStmt:
					body = x.Body
				}
				if body == nil {
					continue
				}
				writes, goName := false, false
				ast.Inspect(body, func(n ast.Node) bool {
					if as, isAs := n.(*ast.AssignStmt); isAs && len(as.Lhs) == 1 {
						if ie, isIdx := as.Lhs[0].(*ast.IndexExpr); isIdx && exprString(ie.X) == mapName {
							writes = true
							if se, isSel := ie.Index.(*ast.SelectorExpr); isSel && se.Sel.Name == "Name" {
								if _, isId := se.X.(*ast.Ident); isId {
									goName = true
								}
							}
						}
					}
					return true
				})
				if writes {
					loops++
					lastGoName = goName
					anyGoName = anyGoName || goName
				}
			}
			return
		}
		loops, lastGoName, anyGoName := analyse(fd.Body.List, mapName)
		if loops == 0 {
			// the struct part moved into a helper that is handed the map (`populateFromStruct(m, rv)`, possibly from a switch on the kind)
			ast.Inspect(fd.Body, func(n ast.Node) bool {
				ce, isCall := n.(*ast.CallExpr)
				if !isCall || loops != 0 || len(ce.Args) == 0 || exprString(ce.Args[0]) != mapName {
					return true
				}
				id, isID := ce.Fun.(*ast.Ident)
				if !isID {
					return true
				}
				if h := irefl.fn(id.Name); h != nil && h.Body != nil && h.Type.Params != nil && len(h.Type.Params.List) > 0 && len(h.Type.Params.List[0].Names) > 0 {
					loops, lastGoName, anyGoName = analyse(h.Body.List, h.Type.Params.List[0].Names[0].Name)
				}
				return true
			})
		}
		if loops == 0 || loops > 2 {
			fail("PopulateStructFields", fmt.Errorf("%d loops writing into the map, expected 1 or 2", loops))
			ok = false
		}
		if anyGoName && !lastGoName {
			fail("PopulateStructFields", fmt.Errorf("the Go-name loop is not the last writer"))
			ok = false
		}
		envGoNames = loops == 2 && lastGoName
	} else {
		fail("PopulateStructFields", fmt.Errorf("function not found"))
		ok = false
	}
	if !ok {
		return
	}
	rep.Facts["reflect.envGoNames"] = b2l(envGoNames)
	rep.Facts["reflect.checksExported"] = b2l(checksExported)
	rep.Facts["reflect.checksKeyKind"] = b2l(checksKeyKind)
	rep.Facts["reflect.strMapMissingAbsent"] = b2l(strMapMissingAbsent)
	rep.Facts["reflect.envStructFirst"] = b2l(envStructFirst)
	sb.WriteString("/-- read from resolveStruct / resolveMap (internal/reflect), Stack.resolveStep and Stack.EnvMap -/\n")
	sb.WriteString(fmt.Sprintf("def reflectCfg : ReflectCfg := { checksExported := %s, checksKeyKind := %s, strMapMissingAbsent := %s, envStructFirst := %s, envGoNames := %s }\n\n",
		b2l(checksExported), b2l(checksKeyKind), b2l(strMapMissingAbsent), b2l(envStructFirst), b2l(envGoNames)))
}

func isReturnOf(s ast.Stmt, what string) bool {
	r, ok := s.(*ast.ReturnStmt)
	return ok && len(r.Results) == 1 && exprString(r.Results[0]) == what
}

// if v, ok := c[p]; ok { return v }
// strMapAbsentIsNil: other spellings of "a missing key gives nil": `v, ok := c[k]; if !ok { return nil }; return v`
func strMapAbsentIsNil(body []ast.Stmt) bool {
	if len(body) != 3 {
		return false
	}
	as, ok := body[0].(*ast.AssignStmt)
	if !ok || len(as.Lhs) != 2 || len(as.Rhs) != 1 {
		return false
	}
	if _, isIdx := as.Rhs[0].(*ast.IndexExpr); !isIdx {
		return false
	}
	v, okName := exprString(as.Lhs[0]), exprString(as.Lhs[1])
	ifs, ok := body[1].(*ast.IfStmt)
	if !ok || len(ifs.Body.List) != 1 || boolCanon(ifs.Cond) != boolCanonOf("!"+okName) || !isReturnOf(ifs.Body.List[0], "nil") {
		return false
	}
	return isReturnOf(body[2], v)
}

func isCommaOkReturn(s ast.Stmt) bool {
	ifs, ok := s.(*ast.IfStmt)
	if !ok || ifs.Init == nil || ifs.Else != nil || len(ifs.Body.List) != 1 {
		return false
	}
	as, ok := ifs.Init.(*ast.AssignStmt)
	if !ok || len(as.Lhs) != 2 || len(as.Rhs) != 1 || exprString(as.Rhs[0]) != "c[p]" {
		return false
	}
	return exprString(ifs.Cond) == exprString(as.Lhs[1]) && isReturnOf(ifs.Body.List[0], exprString(as.Lhs[0]))
}

// genEntryFacts: how the three families of entry points treat a failing destination writer.
func genEntryFacts(out string, root *pkgFiles) {
	var sb strings.Builder
	sb.WriteString("import Vuego.Model.Entry\nnamespace Vuego.Generated\nopen Vuego.Entry\n\n")
	defer func() {
		sb.WriteString("end Vuego.Generated\n")
		writeFile(out, "EntryFacts.lean", sb.String())
	}()
	// 1. Vue.render: wraps w in errWriter and returns ew.err; errWriter.Write remembers the first error
	vueReports := false
	if fd := root.method("Vue", "render"); fd != nil {
		wraps, returns := false, false
		ast.Inspect(fd.Body, func(n ast.Node) bool {
			switch x := n.(type) {
			case *ast.AssignStmt:
				if len(x.Rhs) == 1 && strings.Contains(exprString(x.Rhs[0]), "errWriter") {
					wraps = true
				}
			case *ast.ReturnStmt:
				if len(x.Results) == 1 && strings.HasSuffix(exprString(x.Results[0]), ".err") {
					returns = true
				}
			}
			return true
		})
		// a composite literal is not handled by exprString: look at the source text of the function instead
		src := nodeText(root, fd)
		if strings.Contains(src, "errWriter{w: w}") { // `&errWriter{w: w}` or a local value `ew := errWriter{w: w}` passed as &ew
			wraps = true
		}
		remembers := false
		if wfd := root.method("errWriter", "Write"); wfd != nil {
			ws := nodeText(root, wfd)
			remembers = strings.Contains(ws, "e.err = err") && strings.Contains(ws, "if e.err != nil")
		}
		vueReports = wraps && returns && remembers
		if wraps != returns {
			fail("Vue.render", fmt.Errorf("error-remembering writer is created but its error is not returned (or vice versa)"))
		}
	} else {
		fail("Vue.render", fmt.Errorf("method not found"))
	}
	// 2. template.layout: `_, err := io.Copy(w, <buffer>); return err` — the error of the one write to the caller's writer is what is returned
	layoutReturns := false
	if fd := root.method("template", "layout"); fd != nil {
		// the one write to the caller's writer: `io.Copy(w, <buffer>)` or, the same thing, `<buffer>.WriteTo(w)`
		found, returned := writeErrorReturned(fd.Body, func(ce *ast.CallExpr) bool {
			if exprString(ce.Fun) == "io.Copy" && len(ce.Args) == 2 && exprString(ce.Args[0]) == "w" {
				return true
			}
			sel, ok := ce.Fun.(*ast.SelectorExpr)
			return ok && sel.Sel.Name == "WriteTo" && len(ce.Args) == 1 && exprString(ce.Args[0]) == "w"
		})
		if !found {
			fail("template.layout", fmt.Errorf("io.Copy(w, …) / <buffer>.WriteTo(w) not found"))
		}
		layoutReturns = returned
	} else {
		fail("template.layout", fmt.Errorf("method not found"))
	}
	// 3. RenderReader: `_, err = <buffer>.WriteTo(w); return err`
	readerReturns := false
	if fd := root.method("template", "RenderReader"); fd != nil {
		found, returned := writeErrorReturned(fd.Body, func(ce *ast.CallExpr) bool {
			sel, ok := ce.Fun.(*ast.SelectorExpr)
			return ok && sel.Sel.Name == "WriteTo" && len(ce.Args) == 1 && exprString(ce.Args[0]) == "w"
		})
		if !found {
			fail("template.RenderReader", fmt.Errorf("<buffer>.WriteTo(w) not found"))
		}
		readerReturns = returned
	} else {
		fail("template.RenderReader", fmt.Errorf("method not found"))
	}
	rep.Facts["entry.vueRenderReportsWriteError"] = b2l(vueReports)
	rep.Facts["entry.layoutReturnsCopyError"] = b2l(layoutReturns)
	rep.Facts["entry.readerReturnsWriteToError"] = b2l(readerReturns)
	sb.WriteString("/-- read from Vue.render/errWriter (vue.go), template.layout (template_layout.go), template.RenderReader (template_render.go) -/\n")
	sb.WriteString(fmt.Sprintf("def entryCfg : EntryCfg := { vueRenderReportsWriteError := %s, layoutReturnsCopyError := %s, readerReturnsWriteToError := %s }\n\n", b2l(vueReports), b2l(layoutReturns), b2l(readerReturns)))
}

func nodeText(p *pkgFiles, n ast.Node) string {
	start := p.fset.Position(n.Pos())
	end := p.fset.Position(n.End())
	b, err := os.ReadFile(start.Filename)
	if err != nil {
		return ""
	}
	return string(b[start.Offset:end.Offset])
}

// genCacheFacts: the hit condition of loadCachedWithFrontMatter.
func genCacheFacts(out string, root *pkgFiles) {
	var sb strings.Builder
	sb.WriteString("namespace Vuego.Generated\n\n")
	defer func() {
		sb.WriteString("\nend Vuego.Generated\n")
		writeFile(out, "CacheFacts.lean", sb.String())
	}()
	fd := root.method("Vue", "loadCachedWithFrontMatter")
	if fd == nil {
		fail("loadCachedWithFrontMatter", fmt.Errorf("method not found"))
		return
	}
	cond := ""
	ast.Inspect(fd.Body, func(n ast.Node) bool {
		if ifs, ok := n.(*ast.IfStmt); ok && cond == "" {
			c := normExpr(ifs.Cond)
			if strings.Contains(c, "cached.modTime.Equal(currentModTime)") {
				cond = c
			}
		}
		return true
	})
	rep.Facts["cache.hitCondition"] = cond
	// every successful return: either the recognised hit (cached.frontMatter, cached.dom) or what THIS call read and parsed
	succ, hitRet, freshRet := 0, 0, 0
	defs := map[string]string{}
	ast.Inspect(fd.Body, func(n ast.Node) bool {
		switch x := n.(type) {
		case *ast.AssignStmt:
			if x.Tok == token.DEFINE && len(x.Rhs) == 1 {
				if ce, ok := x.Rhs[0].(*ast.CallExpr); ok {
					for _, l := range x.Lhs {
						defs[exprString(l)] = exprString(ce.Fun)
					}
				}
			}
		case *ast.ReturnStmt:
			if len(x.Results) == 3 && exprString(x.Results[2]) == "nil" {
				succ++
				a, b := exprString(x.Results[0]), exprString(x.Results[1])
				if a == "cached.frontMatter" && b == "cached.dom" {
					hitRet++
				} else if defs[a] == "v.loader.loadFragment" && defs[b] == "parser.ParseTemplateBytes" {
					freshRet++
				}
			}
		}
		return true
	})
	fmt.Fprintf(&sb, "/-- successful returns of loadCachedWithFrontMatter: all of them, those answering from the entry under the hit condition, and those\n    returning what this very call read (loadFragment) and parsed (ParseTemplateBytes) -/\ndef cacheReturns : Nat × Nat × Nat := (%d, %d, %d)\n", succ, hitRet, freshRet)
	rep.Facts["cache.returns"] = fmt.Sprintf("success=%d hit=%d fresh=%d", succ, hitRet, freshRet)
	switch cond {
	case "(ok)&&((currentModTime.IsZero())||(cached.modTime.Equal(currentModTime)))":
		sb.WriteString("def cacheStatFailureIsMiss : Bool := false\ndef cacheZeroMtimeIsHit : Bool := true\n")
	case "((ok)&&(!statFailed))&&((currentModTime.IsZero())||(cached.modTime.Equal(currentModTime)))", "((ok)&&(!statFailed))&&(cached.modTime.Equal(currentModTime))":
		// a current modification time of zero answering from ANY entry ("cannot check") — or only from an entry recorded at the zero time
		sb.WriteString("def cacheZeroMtimeIsHit : Bool := " + b2l(strings.Contains(cond, "IsZero")) + "\n")
		// statFailed must be set exactly when fs.Stat fails
		src := nodeText(root, fd)
		if !strings.Contains(src, "} else {") || !strings.Contains(src, "statFailed = true") {
			fail("loadCachedWithFrontMatter", fmt.Errorf("statFailed is never set"))
			return
		}
		sb.WriteString("def cacheStatFailureIsMiss : Bool := true\n")
	default:
		// the hit logic may be spread over helpers (a stat helper, a lookup helper): decide the same fact semantically
		if miss, zeroHit, ok := cacheHitBySemantics(root, fd); ok {
			rep.Facts["cache.hitCondition"] = "(by semantics)"
			sb.WriteString("def cacheStatFailureIsMiss : Bool := " + b2l(miss) + "\ndef cacheZeroMtimeIsHit : Bool := " + b2l(zeroHit) + "\n")
			return
		}
		fail("loadCachedWithFrontMatter", fmt.Errorf("hit condition not recognised: %q", cond))
	}
}

// cacheHitBySemantics recognises the cache's hit rule when it is not one condition in one function but spread over helpers (a stat
// helper, a lookup helper, early returns). The full hit condition is C ∧ P, where C guards the return of an entry's (frontMatter, dom) and P
// is the conjunction of the negated guards of the helper that produced the entry (guards = `if G { return nil[, false] }`), with the
// helper's parameters replaced by the caller's arguments. It answers (statFailureIsMiss, true) when the full condition implies that the
// cache map held the key and that the modification time is zero or equal to the entry's; statFailureIsMiss = (full ⇒ fs.Stat succeeded).
func cacheHitBySemantics(root *pkgFiles, fd *ast.FuncDecl) (bool, bool, bool) {
	var hitCond ast.Expr
	var hitInit ast.Stmt
	ast.Inspect(fd.Body, func(n ast.Node) bool {
		ifs, ok := n.(*ast.IfStmt)
		if !ok || hitCond != nil {
			return true
		}
		for _, st := range ifs.Body.List {
			if rs, ok := st.(*ast.ReturnStmt); ok && len(rs.Results) == 3 && strings.HasSuffix(exprString(rs.Results[0]), ".frontMatter") && strings.HasSuffix(exprString(rs.Results[1]), ".dom") && exprString(rs.Results[2]) == "nil" {
				hitCond, hitInit = ifs.Cond, ifs.Init
			}
		}
		return true
	})
	if hitCond == nil {
		return false, false, false
	}
	helperOf := func(call ast.Expr) (*ast.FuncDecl, *ast.CallExpr) {
		ce, ok := call.(*ast.CallExpr)
		if !ok {
			return nil, nil
		}
		if sel, ok := ce.Fun.(*ast.SelectorExpr); ok {
			return root.method("Vue", sel.Sel.Name), ce
		}
		return nil, nil
	}
	lastResult := func(rs *ast.ReturnStmt) string {
		if len(rs.Results) == 0 {
			return ""
		}
		return exprString(rs.Results[len(rs.Results)-1])
	}
	// the stat flag and its polarity
	statFlag, statGoodWhenTrue := "", true
	ast.Inspect(fd.Body, func(n ast.Node) bool {
		as, ok := n.(*ast.AssignStmt)
		if !ok {
			return true
		}
		if len(as.Lhs) == 1 && len(as.Rhs) == 1 && exprString(as.Rhs[0]) == "true" && strings.Contains(strings.ToLower(exprString(as.Lhs[0])), "fail") {
			statFlag, statGoodWhenTrue = exprString(as.Lhs[0]), false
		}
		if len(as.Lhs) == 2 && len(as.Rhs) == 1 {
			if h, _ := helperOf(as.Rhs[0]); h != nil && containsCall(h.Body, "fs.Stat") {
				onErr, atEnd := "", ""
				ast.Inspect(h.Body, func(m ast.Node) bool {
					if ifs, ok := m.(*ast.IfStmt); ok && boolCanon(ifs.Cond) == boolCanonOf("err != nil") {
						for _, st := range ifs.Body.List {
							if rs, ok := st.(*ast.ReturnStmt); ok {
								onErr = lastResult(rs)
							}
						}
					}
					return true
				})
				if rs, ok := h.Body.List[len(h.Body.List)-1].(*ast.ReturnStmt); ok {
					atEnd = lastResult(rs)
				}
				if onErr == "false" && atEnd == "true" {
					statFlag, statGoodWhenTrue = exprString(as.Lhs[1]), true
				}
				if onErr == "true" && atEnd == "false" {
					statFlag, statGoodWhenTrue = exprString(as.Lhs[1]), false
				}
			}
		}
		return true
	})
	if statFlag == "" {
		return false, false, false
	}
	// the full condition: C, and the negated guards of the helper that yields the entry
	full := "(" + types.ExprString(hitCond) + ")"
	rename := map[string]string{}
	foundVar := ""
	collectFound := func(body *ast.BlockStmt) {
		ast.Inspect(body, func(m ast.Node) bool {
			if as, ok := m.(*ast.AssignStmt); ok && len(as.Lhs) == 2 && len(as.Rhs) == 1 {
				if ix, ok := as.Rhs[0].(*ast.IndexExpr); ok && strings.HasSuffix(exprString(ix.X), ".templateCache") {
					foundVar = exprString(as.Lhs[1])
				}
			}
			return true
		})
	}
	collectFound(fd.Body)
	if as, ok := hitInit.(*ast.AssignStmt); ok && len(as.Rhs) == 1 {
		if h, ce := helperOf(as.Rhs[0]); h != nil {
			i := 0
			if h.Type.Params != nil {
				for _, f := range h.Type.Params.List {
					for _, nm := range f.Names {
						if i < len(ce.Args) {
							rename[nm.Name] = types.ExprString(ce.Args[i])
						}
						i++
					}
				}
			}
			if foundVar == "" {
				collectFound(h.Body)
			}
			for _, st := range h.Body.List {
				ifs, ok := st.(*ast.IfStmt)
				if !ok || len(ifs.Body.List) == 0 {
					continue
				}
				rs, ok := ifs.Body.List[len(ifs.Body.List)-1].(*ast.ReturnStmt)
				if !ok {
					continue
				}
				if lr := lastResult(rs); lr == "false" || lr == "nil" {
					full += " && !(" + types.ExprString(ifs.Cond) + ")"
				}
			}
		}
	}
	fe, err := parseExprString(full)
	if err != nil || foundVar == "" {
		return false, false, false
	}
	role := func(a string) string {
		switch {
		case strings.Contains(a, ".IsZero()"):
			return "Z"
		case strings.Contains(a, ".Equal("):
			return "E"
		}
		if r, ok := rename[a]; ok {
			return r
		}
		return a
	}
	if !implies(fe, "Z || E", role) || !implies(fe, foundVar, role) {
		return false, false, false
	}
	want := statFlag
	if !statGoodWhenTrue {
		want = "!" + statFlag
	}
	return implies(fe, want, role), !implies(fe, "E", role), true
}

func containsIndexOf(n ast.Node, suffix string) bool {
	found := false
	ast.Inspect(n, func(m ast.Node) bool {
		if ix, ok := m.(*ast.IndexExpr); ok && strings.HasSuffix(exprString(ix.X), suffix) {
			found = true
		}
		return true
	})
	return found
}

// rangeSources lists, in order, the X of every statement-level `for k, v := range X { dst[k] = v }` in a function body.
func rangeSources(body *ast.BlockStmt) []string {
	var out []string
	var walk func(list []ast.Stmt)
	walk = func(list []ast.Stmt) {
		for _, s := range list {
			switch x := s.(type) {
			case *ast.RangeStmt:
				if len(x.Body.List) == 1 {
					if as, ok := x.Body.List[0].(*ast.AssignStmt); ok && len(as.Lhs) == 1 {
						if _, isIdx := as.Lhs[0].(*ast.IndexExpr); isIdx {
							out = append(out, exprString(x.X))
						}
					}
				}
			case *ast.IfStmt:
				walk(x.Body.List)
			case *ast.BlockStmt:
				walk(x.List)
			}
		}
	}
	walk(body.List)
	return out
}

// genMergeFacts: the order of the merge loops in loadConfig, Fill and Vue.Render (mergeFrontMatter).
func genMergeFacts(out string, root *pkgFiles) {
	var sb strings.Builder
	sb.WriteString("import Vuego.Model.Merge\nnamespace Vuego.Generated\nopen Vuego.Merge\n\n")
	defer func() {
		sb.WriteString("end Vuego.Generated\n")
		writeFile(out, "MergeFacts.lean", sb.String())
	}()
	okAll := true
	// a file render without a layout goes through Vue.Render with the template's variables as caller data (that is where the file's own
	// front-matter is laid over them): the last statement of renderWithoutLayout is `return t.vue.Render(w, t.filename, t.stack.EnvMap())`
	via := false
	if fd := root.method("template", "renderWithoutLayout"); fd != nil && len(fd.Body.List) > 0 {
		if rs, ok := fd.Body.List[len(fd.Body.List)-1].(*ast.ReturnStmt); ok && len(rs.Results) == 1 {
			via = exprString(rs.Results[0]) == "t.vue.Render(w,t.filename,t.stack.EnvMap())"
		}
	} else {
		fail("merge", fmt.Errorf("template.renderWithoutLayout not found"))
	}
	fmt.Fprintf(&sb, "/-- template.renderWithoutLayout renders through Vue.Render(w, t.filename, t.stack.EnvMap()) -/\ndef templateRendersViaVueRender : Bool := %s\n\n", b2l(via))
	rep.Facts["merge.templateRendersViaVueRender"] = b2l(via)
	// Fill
	var fillOrder []string
	if fd := root.method("template", "Fill"); fd != nil {
		// what `passed` is called: a local bound to toMapData(<the parameter>), or the call itself as the merge source
		param := ""
		if fd.Type.Params != nil && len(fd.Type.Params.List) == 1 && len(fd.Type.Params.List[0].Names) == 1 {
			param = fd.Type.Params.List[0].Names[0].Name
		}
		passedNames := map[string]bool{"toMapData(" + param + ")": true}
		ast.Inspect(fd.Body, func(n ast.Node) bool {
			if as, ok := n.(*ast.AssignStmt); ok && len(as.Lhs) == 1 && len(as.Rhs) == 1 && exprString(as.Rhs[0]) == "toMapData("+param+")" {
				passedNames[exprString(as.Lhs[0])] = true
			}
			return true
		})
		// simple local names for the sources (`config := t.vue.initialData`)
		alias := map[string]string{}
		ast.Inspect(fd.Body, func(n ast.Node) bool {
			if as, ok := n.(*ast.AssignStmt); ok && as.Tok == token.DEFINE && len(as.Lhs) == 1 && len(as.Rhs) == 1 {
				if id, isID := as.Lhs[0].(*ast.Ident); isID {
					switch r := exprString(as.Rhs[0]); r {
					case "t.vue.initialData", "t.frontMatter":
						alias[id.Name] = r
					}
				}
			}
			return true
		})
		sawPassed := false
		for _, src := range mergeSources(root, fd.Body) {
			if a, ok := alias[src]; ok {
				src = a
			}
			switch {
			case src == "t.vue.initialData":
				fillOrder = append(fillOrder, ".initialData")
			case passedNames[strings.ReplaceAll(src, " ", "")] || passedNames[src]:
				fillOrder = append(fillOrder, ".passed")
				sawPassed = true
			case src == "t.frontMatter":
				fillOrder = append(fillOrder, ".frontMatter")
			default:
				fail("template.Fill", fmt.Errorf("merge loop over unknown source %q", src))
				okAll = false
			}
		}
		if !sawPassed {
			fail("template.Fill", fmt.Errorf("the passed data (toMapData of the parameter) is not merged"))
			okAll = false
		}
	} else {
		fail("template.Fill", fmt.Errorf("method not found"))
		okAll = false
	}
	// loadConfig: theme.yml first, then the data/ loop
	var cfgOrder []string
	if fd := root.fn("loadConfig"); fd != nil {
		// the two loads are calls (of a closure or a function) whose arguments mention "theme.yml" resp. "data/": their order in the body
		ti, di := token.NoPos, token.NoPos
		ast.Inspect(fd.Body, func(n ast.Node) bool {
			ce, ok := n.(*ast.CallExpr)
			if !ok {
				return true
			}
			if _, isSel := ce.Fun.(*ast.SelectorExpr); isSel {
				return true // fs.ReadDir(…, "data") and the like are not loads
			}
			for _, a := range ce.Args {
				t := exprString(a)
				if strings.Contains(t, `"theme.yml"`) && ti == token.NoPos {
					ti = ce.Pos()
				}
				if strings.Contains(t, `"data/"`) && di == token.NoPos {
					di = ce.Pos()
				}
			}
			return true
		})
		if ti == token.NoPos || di == token.NoPos {
			fail("loadConfig", fmt.Errorf("the loads of theme.yml and data/* not found"))
			okAll = false
		} else if ti < di {
			cfgOrder = []string{".theme", ".dataYml"}
		} else {
			cfgOrder = []string{".dataYml", ".theme"}
		}
		merges := false
		for _, b := range bodiesReachable(root, fd, 2) {
			for _, src := range mergeSources(root, b) {
				_ = src
			}
			ast.Inspect(b, func(n ast.Node) bool {
				switch x := n.(type) {
				case *ast.AssignStmt:
					if len(x.Lhs) == 1 {
						if ix, ok := x.Lhs[0].(*ast.IndexExpr); ok && strings.HasSuffix(exprString(ix.X), ".initialData") {
							merges = true
						}
					}
				case *ast.CallExpr:
					// … or through a copy helper whose destination is the initial data
					if id, ok := x.Fun.(*ast.Ident); ok {
						if dst, _, ok := isCopyHelper(root.fn(id.Name)); ok && dst < len(x.Args) && strings.HasSuffix(exprString(x.Args[dst]), ".initialData") {
							merges = true
						}
					}
				}
				return true
			})
		}
		if !merges {
			fail("loadConfig", fmt.Errorf("merge into initialData not found"))
			okAll = false
		}
	} else {
		fail("loadConfig", fmt.Errorf("function not found"))
		okAll = false
	}
	// Vue.Render: mergeFrontMatter(toMapData(data), frontMatter) and the loops inside mergeFrontMatter
	var renderOrder []string
	if fd := root.fn("mergeFrontMatter"); fd != nil {
		for _, src := range mergeSources(root, fd.Body) {
			switch src {
			case "data":
				renderOrder = append(renderOrder, ".callerData")
			case "frontMatter":
				renderOrder = append(renderOrder, ".fileFrontMatter")
			default:
				fail("mergeFrontMatter", fmt.Errorf("merge loop over unknown source %q", src))
				okAll = false
			}
		}
		callFound := false
		if rfd := root.method("Vue", "Render"); rfd != nil {
			for _, b := range bodiesReachable(root, rfd, 2) {
				ast.Inspect(b, func(n ast.Node) bool {
					if ce, ok := n.(*ast.CallExpr); ok && exprString(ce.Fun) == "mergeFrontMatter" && len(ce.Args) == 2 && strings.HasPrefix(exprString(ce.Args[0]), "toMapData(") {
						callFound = true
					}
					return true
				})
			}
		}
		if !callFound {
			fail("Vue.Render", fmt.Errorf("call mergeFrontMatter(toMapData(data), frontMatter) not found"))
			okAll = false
		}
	} else if rfd := root.method("Vue", "Render"); rfd != nil {
		// older shape: the front-matter loop writes into dataMap directly
		for _, src := range rangeSources(rfd.Body) {
			if src == "frontMatter" {
				renderOrder = []string{".callerData", ".fileFrontMatter"}
			}
		}
		if renderOrder == nil {
			fail("Vue.Render", fmt.Errorf("front-matter merge not found"))
			okAll = false
		}
	}
	if !okAll {
		return
	}
	rep.Facts["merge.fill"] = strings.Join(fillOrder, ",")
	rep.Facts["merge.loadConfig"] = strings.Join(cfgOrder, ",")
	rep.Facts["merge.render"] = strings.Join(renderOrder, ",")
	sb.WriteString("/-- order of the merge loops (earlier = lower precedence) in loadConfig, template.Fill and Vue.Render/mergeFrontMatter -/\n")
	sb.WriteString("def mergeCfg : MergeCfg := { loadConfig := [" + strings.Join(cfgOrder, ", ") + "], fill := [" + strings.Join(fillOrder, ", ") + "], render := [" + strings.Join(renderOrder, ", ") + "] }\n\n")
}

// genParseFacts: (1) how ParseTemplateBytes tells a full document from a fragment; (2) what the compiled-expression cache is keyed by and
// what the compilation reads: a memo table is only sound when its key holds everything the memoised computation depends on.
func genParseFacts(repo, out string, root *pkgFiles) {
	var sb strings.Builder
	sb.WriteString("namespace Vuego.Generated\n\n")
	defer func() {
		sb.WriteString("\nend Vuego.Generated\n")
		writeFile(out, "Parse.lean", sb.String())
	}()
	rule := ""
	if ip, err := parseDir(filepath.Join(repo, "internal/parser")); err == nil {
		if fd := ip.fn("ParseTemplateBytes"); fd != nil {
			canonPkgValues = pkgValues(ip)
			defer func() { canonPkgValues = nil }()
			for _, st := range fd.Body.List {
				if is, ok := st.(*ast.IfStmt); ok && is.Init == nil {
					// the first `if` whose body — or a helper it delegates to — parses a whole document; the rule is reported by its MEANING
					// ("the input contains the literal L"), the input being the function's first parameter whatever it is called
					parses := containsCall(is.Body, "html.Parse")
					if !parses {
						ast.Inspect(is.Body, func(n ast.Node) bool {
							if ce, ok := n.(*ast.CallExpr); ok {
								if id, ok := ce.Fun.(*ast.Ident); ok {
									if h := ip.fn(id.Name); h != nil && containsCall(h.Body, "html.Parse") {
										parses = true
									}
								}
							}
							return true
						})
					}
					if parses {
						rule = types.ExprString(is.Cond)
						if subj, lit, pos, ok := containsCanon(is.Cond); ok && pos && fd.Type.Params != nil && len(fd.Type.Params.List) > 0 && len(fd.Type.Params.List[0].Names) > 0 && subj == fd.Type.Params.List[0].Names[0].Name {
							rule = "contains(input, " + lit + ")"
						}
						break
					}
				}
			}
		} else {
			fail("parse", fmt.Errorf("parser.ParseTemplateBytes not found"))
		}
	} else {
		fail("parse internal/parser", err)
	}
	fmt.Fprintf(&sb, "/-- the condition under which ParseTemplateBytes parses its input as a full document -/\ndef documentRule : String := %s\n", leanString(rule))
	rep.Facts["documentRule"] = rule

	// getProgram: parameters, the key of every store into e.programs, the identifiers the expr.Compile call reads
	var params, keys, reads []string
	if fd := root.method("ExprEvaluator", "getProgram"); fd != nil {
		for _, f := range fd.Type.Params.List {
			for _, n := range f.Names {
				params = append(params, n.Name)
			}
		}
		ast.Inspect(fd.Body, func(n ast.Node) bool {
			switch x := n.(type) {
			case *ast.AssignStmt:
				for _, l := range x.Lhs {
					if ix, ok := l.(*ast.IndexExpr); ok && strings.HasSuffix(exprString(ix.X), ".programs") {
						keys = append(keys, exprString(ix.Index))
					}
				}
			case *ast.CallExpr:
				// a store made by a helper method of the same type: its key, with the helper's parameters replaced by this call's arguments
				if sel, ok := x.Fun.(*ast.SelectorExpr); ok {
					if h := root.method("ExprEvaluator", sel.Sel.Name); h != nil && h != fd && h.Type.Params != nil {
						var hp []string
						for _, f := range h.Type.Params.List {
							for _, nm := range f.Names {
								hp = append(hp, nm.Name)
							}
						}
						ast.Inspect(h.Body, func(m ast.Node) bool {
							if as, ok := m.(*ast.AssignStmt); ok {
								for _, l := range as.Lhs {
									if ix, ok := l.(*ast.IndexExpr); ok && strings.HasSuffix(exprString(ix.X), ".programs") {
										k := exprString(ix.Index)
										for i, pn := range hp {
											if k == pn && i < len(x.Args) {
												k = exprString(x.Args[i])
											}
										}
										keys = append(keys, k)
									}
								}
							}
							return true
						})
					}
				}
				if exprString(x.Fun) == "expr.Compile" {
					seen := map[string]bool{}
					// a package-level variable that nothing writes after initialisation (a table of compile options built once) is a constant of
					// the program, not an input of the compilation: the process-wide state fact lists the ones that ARE written
					immutable := map[string]bool{}
					mutable := map[string]bool{}
					for _, v := range packageState(root, "vuego") {
						mutable[strings.TrimPrefix(v, "vuego.")] = true
					}
					for name := range pkgValues(root) {
						if !mutable[name] {
							immutable[name] = true
						}
					}
					for _, a := range x.Args {
						ast.Inspect(a, func(m ast.Node) bool {
							switch y := m.(type) {
							case *ast.SelectorExpr:
								if id, ok := y.X.(*ast.Ident); ok && id.Name == "expr" {
									return false // a function of the expr package itself
								}
							case *ast.Ident:
								if !seen[y.Name] && !immutable[y.Name] {
									seen[y.Name] = true
									reads = append(reads, y.Name)
								}
							}
							return true
						})
					}
				}
			}
			return true
		})
	} else {
		fail("parse", fmt.Errorf("ExprEvaluator.getProgram not found"))
	}
	list := func(xs []string) string {
		var q []string
		for _, x := range xs {
			q = append(q, leanString(x))
		}
		return "[" + strings.Join(q, ", ") + "]"
	}
	fmt.Fprintf(&sb, "/-- parameters of ExprEvaluator.getProgram -/\ndef programParams : List String := %s\n", list(params))
	fmt.Fprintf(&sb, "/-- the key of every store into the compiled-program cache -/\ndef programCacheKeys : List String := %s\n", list(keys))
	fmt.Fprintf(&sb, "/-- the identifiers the expr.Compile call reads (functions of the expr package aside) -/\ndef programCompileReads : List String := %s\n", list(reads))
	// Stack.resolveStep (or a helper it delegates to): the reflect Index call is guarded from both sides and by the kind of the value.
	// Guards = the conjuncts of every enclosing `if`, and the case lists of enclosing switches; the three facts are read off by role.
	var guards []string
	lower, upper, kind := false, false, false
	if fd := pathStepDecl(root); fd != nil {
		conj := func(e ast.Expr) []ast.Expr {
			var out []ast.Expr
			var split func(e ast.Expr)
			split = func(e ast.Expr) {
				if pe, ok := e.(*ast.ParenExpr); ok {
					split(pe.X)
					return
				}
				if be, ok := e.(*ast.BinaryExpr); ok && be.Op == token.LAND {
					split(be.X)
					split(be.Y)
					return
				}
				out = append(out, e)
			}
			split(e)
			return out
		}
		for _, body := range bodiesReachable(root, fd, 2) {
			var walk func(n ast.Node, conds []ast.Expr, cases []string)
			walk = func(n ast.Node, conds []ast.Expr, cases []string) {
				switch x := n.(type) {
				case *ast.IfStmt:
					inner := append(append([]ast.Expr{}, conds...), conj(x.Cond)...)
					walk(x.Body, inner, cases)
					if x.Else != nil {
						walk(x.Else, conds, cases)
					}
					return
				case *ast.BlockStmt:
					// a guard `if G { …; return }` makes !G hold for what follows it in the block
					cur := conds
					for _, st := range x.List {
						walk(st, cur, cases)
						if ifs, ok := st.(*ast.IfStmt); ok && ifs.Else == nil && len(ifs.Body.List) > 0 {
							if _, isRet := ifs.Body.List[len(ifs.Body.List)-1].(*ast.ReturnStmt); isRet {
								var neg func(e ast.Expr) []ast.Expr
								neg = func(e ast.Expr) []ast.Expr {
									if pe, ok := e.(*ast.ParenExpr); ok {
										return neg(pe.X)
									}
									if be, ok := e.(*ast.BinaryExpr); ok && be.Op == token.LOR {
										return append(neg(be.X), neg(be.Y)...)
									}
									return []ast.Expr{&ast.UnaryExpr{Op: token.NOT, X: &ast.ParenExpr{X: e}}}
								}
								cur = append(append([]ast.Expr{}, cur...), neg(ifs.Cond)...)
							}
						}
					}
					return
				case *ast.SwitchStmt:
					tag := ""
					if x.Tag != nil {
						tag = types.ExprString(x.Tag)
					}
					for _, c := range x.Body.List {
						if cc, ok := c.(*ast.CaseClause); ok {
							var lst []string
							for _, e := range cc.List {
								lst = append(lst, tag+"=="+types.ExprString(e))
							}
							for _, st := range cc.Body {
								walk(st, conds, append(append([]string{}, cases...), strings.Join(lst, "||")))
							}
						}
					}
					return
				case nil:
					return
				}
				ast.Inspect(n, func(m ast.Node) bool {
					ce, ok := m.(*ast.CallExpr)
					if !ok {
						return true
					}
					sel, ok := ce.Fun.(*ast.SelectorExpr)
					if !ok || sel.Sel.Name != "Index" || len(ce.Args) != 1 {
						return true
					}
					idx := types.ExprString(ce.Args[0])
					recv := types.ExprString(sel.X)
					for _, c := range conds {
						guards = append(guards, types.ExprString(c))
						a, neg := atomOf(c)
						if a == idx+"<0" && neg {
							lower = true
						}
						if a == idx+"<"+recv+".Len()" && !neg {
							upper = true
						}
						if t := types.ExprString(c); strings.Contains(t, "reflect.Slice") && strings.Contains(t, "reflect.Array") {
							kind = true
						}
					}
					for _, c := range cases {
						guards = append(guards, c)
						if strings.Contains(c, "reflect.Slice") && strings.Contains(c, "reflect.Array") {
							kind = true
						}
					}
					return true
				})
			}
			walk(body, nil, nil)
		}
	} else {
		fail("parse", fmt.Errorf("Stack.resolveStep not found"))
	}
	fmt.Fprintf(&sb, "/-- the conditions under which Stack.resolveStep calls reflect's Index (as written) -/\ndef indexGuards : List String := %s\n", list(guards))
	fmt.Fprintf(&sb, "/-- … among them: the index is not negative, it is below the length, the value is a slice or an array -/\ndef indexLowerBound : Bool := %s\ndef indexUpperBound : Bool := %s\ndef indexKindChecked : Bool := %s\n", b2l(lower), b2l(upper), b2l(kind))
	rep.Facts["indexGuards"] = list(guards)
	rep.Facts["indexBounds"] = fmt.Sprintf("lower=%v upper=%v kind=%v", lower, upper, kind)
	rep.Facts["programParams"] = list(params)
	rep.Facts["programCacheKeys"] = list(keys)
	rep.Facts["programCompileReads"] = list(reads)
}

// genFmtLists: the three element lists the formatter's tree walk decides by (void, inline, phrasing containers), as lower-case tag names.
func genFmtLists(repo, out string) {
	var sb strings.Builder
	sb.WriteString("namespace Vuego.Generated\n\n")
	defer func() {
		sb.WriteString("\nend Vuego.Generated\n")
		writeFile(out, "FmtLists.lean", sb.String())
	}()
	fp, err := parseDir(filepath.Join(repo, "formatter"))
	if err != nil {
		fail("parse formatter", err)
		return
	}
	for _, it := range [][2]string{{"isVoidElement", "fmtVoid"}, {"isInlineAtom", "fmtInline"}, {"isPhrasingContainer", "fmtPhrasing"}} {
		var names []string
		if fd := fp.fn(it[0]); fd != nil {
			// the atoms of a composite literal: list elements `atom.X`, or the keys `atom.X: true` of a set
			atomsOf := func(cl *ast.CompositeLit) {
				for _, e := range cl.Elts {
					if kv, isKV := e.(*ast.KeyValueExpr); isKV {
						if exprString(kv.Value) != "true" && exprString(kv.Value) != "struct{}{}" && exprString(kv.Value) != "{}" {
							if _, isLit := kv.Value.(*ast.CompositeLit); !isLit {
								continue
							}
						}
						e = kv.Key
					}
					if sel, ok := e.(*ast.SelectorExpr); ok {
						if id, ok := sel.X.(*ast.Ident); ok && id.Name == "atom" {
							names = append(names, strings.ToLower(sel.Sel.Name))
						}
					}
				}
			}
			ast.Inspect(fd.Body, func(n ast.Node) bool {
				cl, ok := n.(*ast.CompositeLit)
				if !ok {
					return true
				}
				atomsOf(cl)
				return false
			})
			if len(names) == 0 {
				// the list written as the cases of a switch on the atom: `switch a { case atom.X, atom.Y: return true }; return false`
				ast.Inspect(fd.Body, func(n ast.Node) bool {
					sw, ok := n.(*ast.SwitchStmt)
					if !ok || sw.Tag == nil {
						return true
					}
					for _, c := range sw.Body.List {
						cc, ok := c.(*ast.CaseClause)
						if !ok || len(cc.List) == 0 || len(cc.Body) != 1 {
							continue
						}
						if rs, ok := cc.Body[0].(*ast.ReturnStmt); !ok || len(rs.Results) != 1 || exprString(rs.Results[0]) != "true" {
							continue
						}
						for _, e := range cc.List {
							if sel, ok := e.(*ast.SelectorExpr); ok {
								if id, ok := sel.X.(*ast.Ident); ok && id.Name == "atom" {
									names = append(names, strings.ToLower(sel.Sel.Name))
								}
							}
						}
					}
					return false
				})
			}
			if len(names) == 0 {
				// the list lives in a package-level table the function looks the atom up in (`return voidElements[a]`, a loop over `inlineAtoms`)
				ast.Inspect(fd.Body, func(n ast.Node) bool {
					id, ok := n.(*ast.Ident)
					if !ok || len(names) > 0 {
						return true
					}
					for _, f := range fp.files {
						for _, d := range f.Decls {
							gd, isGen := d.(*ast.GenDecl)
							if !isGen || gd.Tok != token.VAR {
								continue
							}
							for _, sp := range gd.Specs {
								vs := sp.(*ast.ValueSpec)
								for i, nm := range vs.Names {
									if nm.Name == id.Name && i < len(vs.Values) {
										if cl, isLit := vs.Values[i].(*ast.CompositeLit); isLit {
											atomsOf(cl)
										}
									}
								}
							}
						}
					}
					return true
				})
			}
		} else {
			fail("formatter", fmt.Errorf("formatter.%s not found", it[0]))
		}
		var q []string
		for _, n := range names {
			q = append(q, leanString(n))
		}
		fmt.Fprintf(&sb, "/-- the atoms listed in formatter.%s -/\ndef %s : List String := [%s]\n", it[0], it[1], strings.Join(q, ", "))
		rep.Facts[it[1]] = strings.Join(names, ",")
	}
}

// writeErrorReturned looks for the statement that performs the matching write call and says whether its error is what the function then
// returns: `_, err (:=|=) CALL` directly followed by `return err`, or `if _, err := CALL; err != nil { return err }`, or `return CALL-error`.
func writeErrorReturned(body *ast.BlockStmt, match func(*ast.CallExpr) bool) (found, returned bool) {
	var walk func(list []ast.Stmt)
	walk = func(list []ast.Stmt) {
		for i, st := range list {
			switch x := st.(type) {
			case *ast.AssignStmt:
				if len(x.Rhs) == 1 && len(x.Lhs) == 2 {
					if ce, ok := x.Rhs[0].(*ast.CallExpr); ok && match(ce) {
						found = true
						errName := exprString(x.Lhs[1])
						if i+1 < len(list) && isReturnOf(list[i+1], errName) {
							returned = true
						}
					}
				}
			case *ast.IfStmt:
				if as, ok := x.Init.(*ast.AssignStmt); ok && len(as.Rhs) == 1 && len(as.Lhs) == 2 {
					if ce, ok := as.Rhs[0].(*ast.CallExpr); ok && match(ce) {
						found = true
						errName := exprString(as.Lhs[1])
						if boolCanon(x.Cond) == boolCanonOf(errName+" != nil") && len(x.Body.List) == 1 && isReturnOf(x.Body.List[0], errName) {
							returned = true
						}
					}
				}
				walk(x.Body.List)
				if eb, ok := x.Else.(*ast.BlockStmt); ok {
					walk(eb.List)
				}
			case *ast.ForStmt:
				walk(x.Body.List)
			case *ast.RangeStmt:
				walk(x.Body.List)
			case *ast.BlockStmt:
				walk(x.List)
			case *ast.SwitchStmt:
				walk(x.Body.List)
			case *ast.TypeSwitchStmt:
				walk(x.Body.List)
			case *ast.CaseClause:
				walk(x.Body)
			case *ast.LabeledStmt:
				walk([]ast.Stmt{x.Stmt})
			}
		}
	}
	walk(body.List)
	return
}
