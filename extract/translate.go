package main

// Mini-translator: predicate-shaped Go functions over strings/runes/bools -> Lean 4 definitions over the Go.* prelude.
// Anything outside the supported subset is an error (fail closed), never a guess.

import (
	"fmt"
	"go/ast"
	"go/token"
	"strconv"
	"strings"
)

type tr struct {
	fset     *token.FileSet
	slices   map[string]string // local ident -> Lean list literal (for `xs := []string{...}`)
	byteVar  map[string]string // inside byte loop: "s[i]" -> lean var
	known    map[string]string // Go func name (same package / helpers.X) -> Lean name
	pkg      *pkgFiles         // the package being translated: unexported helpers and package-level string slices are followed into it
	emit     func(def string)  // receives the definitions of helpers translated on the way (before the definition that uses them)
	listVars map[string]bool   // identifiers of type []string (parameters)
	busy     map[string]bool   // helpers being translated (no recursion)
}

// pkgSlices: package-level `var name = []string{"…", …}` declarations as Lean list literals
func (t *tr) pkgSlices() map[string]string {
	out := map[string]string{}
	if t.pkg == nil {
		return out
	}
	for _, f := range t.pkg.files {
		for _, d := range f.Decls {
			gd, ok := d.(*ast.GenDecl)
			if !ok || gd.Tok != token.VAR {
				continue
			}
			for _, sp := range gd.Specs {
				vs, ok := sp.(*ast.ValueSpec)
				if !ok || len(vs.Names) != 1 || len(vs.Values) != 1 {
					continue
				}
				cl, ok := vs.Values[0].(*ast.CompositeLit)
				if !ok {
					continue
				}
				at, ok := cl.Type.(*ast.ArrayType)
				if !ok || at.Len != nil || exprString(at.Elt) != "string" {
					continue
				}
				var items []string
				good := true
				for _, el := range cl.Elts {
					bl, isLit := el.(*ast.BasicLit)
					if !isLit || bl.Kind != token.STRING {
						good = false
						break
					}
					sv, err := strconv.Unquote(bl.Value)
					if err != nil {
						good = false
						break
					}
					items = append(items, leanStr(sv))
				}
				if good {
					out[vs.Names[0].Name] = "([" + strings.Join(items, ", ") + "] : List Str)"
				}
			}
		}
	}
	return out
}

// pkgStringConsts: package-level `const name = "…"` declarations (single strings), by name
func (t *tr) pkgStringConsts() map[string]string {
	out := map[string]string{}
	if t.pkg == nil {
		return out
	}
	for _, f := range t.pkg.files {
		for _, d := range f.Decls {
			gd, ok := d.(*ast.GenDecl)
			if !ok || gd.Tok != token.CONST {
				continue
			}
			for _, sp := range gd.Specs {
				vs, ok := sp.(*ast.ValueSpec)
				if !ok || len(vs.Names) != len(vs.Values) {
					continue
				}
				for i, n := range vs.Names {
					if bl, ok := vs.Values[i].(*ast.BasicLit); ok && bl.Kind == token.STRING {
						if sv, err := strconv.Unquote(bl.Value); err == nil {
							out[n.Name] = sv
						}
					}
				}
			}
		}
	}
	return out
}

// pkgVarLit: the composite literal a package-level variable is initialised with (nil when it is not one)
func (t *tr) pkgVarLit(name string) *ast.CompositeLit {
	if t.pkg == nil {
		return nil
	}
	for _, f := range t.pkg.files {
		for _, d := range f.Decls {
			gd, ok := d.(*ast.GenDecl)
			if !ok || gd.Tok != token.VAR {
				continue
			}
			for _, sp := range gd.Specs {
				vs, ok := sp.(*ast.ValueSpec)
				if !ok || len(vs.Names) != 1 || len(vs.Values) != 1 || vs.Names[0].Name != name {
					continue
				}
				cl, _ := vs.Values[0].(*ast.CompositeLit)
				return cl
			}
		}
	}
	return nil
}

// boolTableKeys: for `var T = [N]bool{k: true, …}` the keys (as Lean characters or numbers); ok=false when T is not such a table
func (t *tr) boolTableKeys(name string) ([]string, bool) {
	cl := t.pkgVarLit(name)
	if cl == nil {
		return nil, false
	}
	at, ok := cl.Type.(*ast.ArrayType)
	if !ok || at.Len == nil || exprString(at.Elt) != "bool" {
		return nil, false
	}
	var keys []string
	for _, el := range cl.Elts {
		kv, ok := el.(*ast.KeyValueExpr)
		if !ok || exprString(kv.Value) != "true" {
			return nil, false
		}
		k, err := t.expr(kv.Key)
		if err != nil {
			return nil, false
		}
		keys = append(keys, k)
	}
	return keys, true
}

// stringSetKeys: for `var M = map[string]struct{}{"a": {}, …}` or `map[string]bool{"a": true, …}` the keys as Lean strings
func (t *tr) stringSetKeys(name string) ([]string, bool) {
	cl := t.pkgVarLit(name)
	if cl == nil {
		return nil, false
	}
	mt, ok := cl.Type.(*ast.MapType)
	if !ok || exprString(mt.Key) != "string" {
		return nil, false
	}
	isBool := exprString(mt.Value) == "bool"
	var keys []string
	for _, el := range cl.Elts {
		kv, ok := el.(*ast.KeyValueExpr)
		if !ok {
			return nil, false
		}
		if isBool && exprString(kv.Value) != "true" {
			return nil, false
		}
		k, err := t.expr(kv.Key)
		if err != nil {
			return nil, false
		}
		keys = append(keys, k)
	}
	return keys, true
}

var leanKeywords = map[string]bool{"open": true, "close": true, "end": true, "at": true, "from": true, "in": true, "then": true, "else": true, "if": true, "fun": true, "let": true, "have": true, "show": true, "match": true, "with": true, "do": true, "where": true, "def": true, "theorem": true, "instance": true, "namespace": true, "section": true, "variable": true, "import": true, "prefix": true, "infix": true, "notation": true, "macro": true, "syntax": true, "deriving": true, "structure": true, "class": true, "inductive": true, "mutual": true, "private": true, "protected": true, "partial": true, "unsafe": true, "nomatch": true, "fix": true, "val": true}

func leanIdent(s string) string {
	if leanKeywords[s] {
		return s + "_"
	}
	return s
}

func leanStr(s string) string {
	if s == "" {
		return "([] : Str)"
	}
	var parts []string
	for _, r := range s {
		parts = append(parts, leanChar(r))
	}
	return "([" + strings.Join(parts, ", ") + "] : Str)"
}

func leanChar(r rune) string {
	switch r {
	case '\'':
		return `'\''`
	case '\\':
		return `'\\'`
	case '\n':
		return `'\n'`
	case '\t':
		return `'\t'`
	case '\r':
		return `'\r'`
	}
	if r < 32 || r > 126 {
		return fmt.Sprintf(`(Char.ofNat %d)`, r)
	}
	return "'" + string(r) + "'"
}

func (t *tr) pos(n ast.Node) string { return t.fset.Position(n.Pos()).String() }

func (t *tr) errf(n ast.Node, f string, a ...any) error {
	return fmt.Errorf("%s: untranslatable: %s", t.pos(n), fmt.Sprintf(f, a...))
}

// expr translates a Go expression to a Lean term.
func (t *tr) expr(e ast.Expr) (string, error) {
	switch x := e.(type) {
	case *ast.ParenExpr:
		s, err := t.expr(x.X)
		return "(" + s + ")", err
	case *ast.BasicLit:
		switch x.Kind {
		case token.STRING:
			s, err := strconv.Unquote(x.Value)
			if err != nil {
				return "", t.errf(e, "string literal %s", x.Value)
			}
			return leanStr(s), nil
		case token.CHAR:
			s, err := strconv.Unquote(`"` + strings.Trim(x.Value, "'") + `"`)
			if x.Value == `'"'` {
				s, err = `"`, nil
			}
			if x.Value == `'\''` {
				s, err = "'", nil
			}
			if err != nil || len([]rune(s)) != 1 {
				return "", t.errf(e, "char literal %s", x.Value)
			}
			return leanChar([]rune(s)[0]), nil
		case token.INT:
			return x.Value, nil
		}
		return "", t.errf(e, "literal kind %v", x.Kind)
	case *ast.Ident:
		switch x.Name {
		case "true", "false":
			return x.Name, nil
		}
		if l, ok := t.slices[x.Name]; ok {
			return l, nil
		}
		if x.Obj == nil || x.Obj.Kind == ast.Con {
			if sv, ok := t.pkgStringConsts()[x.Name]; ok {
				return leanStr(sv), nil
			}
		}
		return leanIdent(x.Name), nil
	case *ast.UnaryExpr:
		if x.Op == token.NOT {
			s, err := t.expr(x.X)
			return "(!" + s + ")", err
		}
		return "", t.errf(e, "unary %v", x.Op)
	case *ast.BinaryExpr:
		// strings.Index(s, sub) / strings.IndexByte(s, c) / strings.IndexRune(s, r) compared with 0 or -1 is a containment test
		if ce, ok := x.X.(*ast.CallExpr); ok {
			fn := exprString(ce.Fun)
			if (fn == "strings.Index" || fn == "strings.IndexByte" || fn == "strings.IndexRune") && len(ce.Args) == 2 {
				rhs := strings.ReplaceAll(exprString(x.Y), " ", "")
				pos := (x.Op == token.GEQ && rhs == "0") || (x.Op == token.GTR && rhs == "-1") || (x.Op == token.NEQ && rhs == "-1")
				neg := (x.Op == token.LSS && rhs == "0") || (x.Op == token.EQL && rhs == "-1") || (x.Op == token.LEQ && rhs == "-1")
				if pos || neg {
					s0, err := t.expr(ce.Args[0])
					if err != nil {
						return "", err
					}
					s1, err := t.expr(ce.Args[1])
					if err != nil {
						return "", err
					}
					c := "(Go.contains " + s0 + " " + s1 + ")"
					if fn != "strings.Index" {
						c = "(Go.containsChar " + s0 + " " + s1 + ")"
					}
					if neg {
						c = "(!" + c + ")"
					}
					return c, nil
				}
			}
		}
		a, err := t.expr(x.X)
		if err != nil {
			return "", err
		}
		b, err := t.expr(x.Y)
		if err != nil {
			return "", err
		}
		switch x.Op {
		case token.LAND:
			return "(" + a + " && " + b + ")", nil
		case token.LOR:
			return "(" + a + " || " + b + ")", nil
		case token.EQL:
			return "(" + a + " == " + b + ")", nil
		case token.NEQ:
			return "(" + a + " != " + b + ")", nil
		case token.LSS:
			return "(decide (" + a + " < " + b + "))", nil
		case token.LEQ:
			return "(decide (" + a + " ≤ " + b + "))", nil
		case token.GTR:
			return "(decide (" + a + " > " + b + "))", nil
		case token.GEQ:
			return "(decide (" + a + " ≥ " + b + "))", nil
		}
		return "", t.errf(e, "binary %v", x.Op)
	case *ast.IndexExpr:
		key := exprString(x)
		if v, ok := t.byteVar[key]; ok {
			return v, nil
		}
		// a lookup in a package-level table of booleans / a set of strings: membership in its key list
		if id, ok := x.X.(*ast.Ident); ok {
			if keys, ok := t.boolTableKeys(id.Name); ok {
				ix, err := t.expr(x.Index)
				if err != nil {
					return "", err
				}
				var alts []string
				for _, k := range keys {
					alts = append(alts, "(ix_ == "+k+")")
				}
				if len(alts) == 0 {
					return "false", nil
				}
				return "(let ix_ := " + ix + "; (" + strings.Join(alts, " || ") + "))", nil
			}
			if cl := t.pkgVarLit(id.Name); cl != nil {
				if mt, ok := cl.Type.(*ast.MapType); ok && exprString(mt.Value) == "bool" {
					if keys, ok := t.stringSetKeys(id.Name); ok {
						ix, err := t.expr(x.Index)
						if err != nil {
							return "", err
						}
						return "(([" + strings.Join(keys, ", ") + "] : List Str).contains " + ix + ")", nil
					}
				}
			}
		}
		return "", t.errf(e, "index expression %s outside a byte loop", key)
	case *ast.CallExpr:
		fn := exprString(x.Fun)
		var args []string
		for _, a := range x.Args {
			s, err := t.expr(a)
			if err != nil {
				return "", err
			}
			args = append(args, s)
		}
		ap := func(name string, n int) (string, error) {
			if len(args) != n {
				return "", t.errf(e, "%s arity", fn)
			}
			return "(" + name + " " + strings.Join(args, " ") + ")", nil
		}
		switch fn {
		case "strings.Contains":
			return ap("Go.contains", 2)
		case "strings.HasPrefix":
			return ap("Go.hasPrefix", 2)
		case "strings.HasSuffix":
			return ap("Go.hasSuffix", 2)
		case "strings.ContainsAny":
			return ap("Go.containsAny", 2)
		case "strings.TrimSpace":
			return ap("Go.trimSpace", 1)
		case "strings.Count":
			return ap("Go.count", 2)
		case "html.EscapeString":
			return ap("Go.escape", 1)
		case "len":
			if len(args) != 1 {
				return "", t.errf(e, "len arity")
			}
			return "(List.length " + args[0] + ")", nil
		}
		if l, ok := t.known[fn]; ok {
			return "(" + l + " " + strings.Join(args, " ") + ")", nil
		}
		// an unexported helper of the same package: translated as a definition of its own, first
		if id, isIdent := x.Fun.(*ast.Ident); isIdent && t.pkg != nil && t.emit != nil && !t.busy[id.Name] {
			if hfd := t.pkg.fn(id.Name); hfd != nil {
				sub := &tr{fset: t.fset, known: t.known, pkg: t.pkg, emit: t.emit, busy: map[string]bool{id.Name: true}}
				for k := range t.busy {
					sub.busy[k] = true
				}
				lname := "h_" + id.Name
				def, err := sub.funcDef(hfd, lname)
				if err != nil {
					return "", fmt.Errorf("%v (in helper %s)", err, id.Name)
				}
				t.emit("/-- translated from the helper `" + id.Name + "` (" + t.fset.Position(hfd.Pos()).String() + ") -/\n" + def + "\n")
				t.known[id.Name] = lname
				return "(" + lname + " " + strings.Join(args, " ") + ")", nil
			}
		}
		return "", t.errf(e, "call to %s", fn)
	}
	return "", t.errf(e, "expression %T", e)
}

func exprString(e ast.Expr) string {
	switch x := e.(type) {
	case *ast.Ident:
		return x.Name
	case *ast.SelectorExpr:
		return exprString(x.X) + "." + x.Sel.Name
	case *ast.IndexExpr:
		return exprString(x.X) + "[" + exprString(x.Index) + "]"
	case *ast.BasicLit:
		return x.Value
	case *ast.CallExpr:
		var a []string
		for _, arg := range x.Args {
			a = append(a, exprString(arg))
		}
		return exprString(x.Fun) + "(" + strings.Join(a, ",") + ")"
	case *ast.ParenExpr:
		return "(" + exprString(x.X) + ")"
	case *ast.StarExpr:
		return "*" + exprString(x.X)
	case *ast.UnaryExpr:
		return x.Op.String() + exprString(x.X)
	case *ast.BinaryExpr:
		return exprString(x.X) + x.Op.String() + exprString(x.Y)
	}
	return fmt.Sprintf("%T", e)
}

// stmts translates a statement list. cont is the Lean term for "what happens after this list falls through";
// wrap wraps returned values (used to produce Option-valued loop bodies).
func (t *tr) stmts(list []ast.Stmt, cont string, wrap func(string) string) (string, error) {
	if len(list) == 0 {
		if cont == "" {
			return "", fmt.Errorf("untranslatable: control falls off the end of the function")
		}
		return cont, nil
	}
	s := list[0]
	rest := list[1:]
	restT := func() (string, error) { return t.stmts(rest, cont, wrap) }
	switch x := s.(type) {
	case *ast.ReturnStmt:
		if len(x.Results) != 1 {
			return "", t.errf(s, "return with %d results", len(x.Results))
		}
		e, err := t.expr(x.Results[0])
		if err != nil {
			return "", err
		}
		return wrap(e), nil
	case *ast.AssignStmt:
		// `_, ok := SET[key]` over a package-level set of strings: ok is "key is a member"
		if len(x.Lhs) == 2 && len(x.Rhs) == 1 && x.Tok == token.DEFINE && exprString(x.Lhs[0]) == "_" {
			if ie, isIdx := x.Rhs[0].(*ast.IndexExpr); isIdx {
				if sid, isID := ie.X.(*ast.Ident); isID {
					if keys, isSet := t.stringSetKeys(sid.Name); isSet {
						ix, e2 := t.expr(ie.Index)
						if e2 != nil {
							return "", e2
						}
						r, err := restT()
						if err != nil {
							return "", err
						}
						return "(let " + leanIdent(exprString(x.Lhs[1])) + " := (([" + strings.Join(keys, ", ") + "] : List Str).contains " + ix + "); " + r + ")", nil
					}
				}
			}
		}
		if len(x.Lhs) != 1 || len(x.Rhs) != 1 {
			return "", t.errf(s, "multi-assignment")
		}
		id, ok := x.Lhs[0].(*ast.Ident)
		if !ok {
			return "", t.errf(s, "assignment target")
		}
		// local string-slice literal
		if cl, ok := x.Rhs[0].(*ast.CompositeLit); ok {
			at, ok := cl.Type.(*ast.ArrayType)
			if !ok || exprString(at.Elt) != "string" {
				return "", t.errf(s, "composite literal")
			}
			var items []string
			for _, el := range cl.Elts {
				e, err := t.expr(el)
				if err != nil {
					return "", err
				}
				items = append(items, e)
			}
			t.slices[id.Name] = "([" + strings.Join(items, ", ") + "] : List Str)"
			return restT()
		}
		e, err := t.expr(x.Rhs[0])
		if err != nil {
			return "", err
		}
		r, err := restT()
		if err != nil {
			return "", err
		}
		return "(let " + leanIdent(id.Name) + " := " + e + "; " + r + ")", nil
	case *ast.IfStmt:
		var c string
		var err error
		if x.Init != nil {
			// `if _, ok := SET[key]; ok` / `!ok` over a package-level set of strings
			as, isAs := x.Init.(*ast.AssignStmt)
			good := false
			if isAs && as.Tok == token.DEFINE && len(as.Lhs) == 2 && len(as.Rhs) == 1 && exprString(as.Lhs[0]) == "_" {
				if ie, ok := as.Rhs[0].(*ast.IndexExpr); ok {
					if id, ok := ie.X.(*ast.Ident); ok {
						if keys, ok := t.stringSetKeys(id.Name); ok {
							ix, e2 := t.expr(ie.Index)
							if e2 != nil {
								return "", e2
							}
							mem := "(([" + strings.Join(keys, ", ") + "] : List Str).contains " + ix + ")"
							okName := exprString(as.Lhs[1])
							switch strings.ReplaceAll(exprString(x.Cond), " ", "") {
							case okName:
								c, good = mem, true
							case "!" + okName:
								c, good = "(!"+mem+")", true
							}
						}
					}
				}
			}
			if !good {
				return "", t.errf(s, "if with init")
			}
		} else {
			c, err = t.expr(x.Cond)
			if err != nil {
				return "", err
			}
		}
		after, err := restT()
		if err != nil {
			return "", err
		}
		th, err := t.stmts(x.Body.List, after, wrap)
		if err != nil {
			return "", err
		}
		el := after
		if x.Else != nil {
			switch eb := x.Else.(type) {
			case *ast.BlockStmt:
				el, err = t.stmts(eb.List, after, wrap)
			case *ast.IfStmt:
				el, err = t.stmts([]ast.Stmt{eb}, after, wrap)
			default:
				err = t.errf(s, "else form")
			}
			if err != nil {
				return "", err
			}
		}
		return "(if " + c + " then " + th + " else " + el + ")", nil
	case *ast.SwitchStmt:
		if x.Init != nil {
			return "", t.errf(s, "switch with init")
		}
		after, err := restT()
		if err != nil {
			return "", err
		}
		tag := ""
		if x.Tag != nil {
			tag, err = t.expr(x.Tag)
			if err != nil {
				return "", err
			}
		}
		out := after
		var deflt *ast.CaseClause
		var clauses []*ast.CaseClause
		for _, c := range x.Body.List {
			cc := c.(*ast.CaseClause)
			if cc.List == nil {
				deflt = cc
			} else {
				clauses = append(clauses, cc)
			}
		}
		if deflt != nil {
			out, err = t.stmts(deflt.Body, after, wrap)
			if err != nil {
				return "", err
			}
		}
		for i := len(clauses) - 1; i >= 0; i-- {
			cc := clauses[i]
			var conds []string
			for _, ce := range cc.List {
				e, err := t.expr(ce)
				if err != nil {
					return "", err
				}
				if tag != "" {
					conds = append(conds, "("+tag+" == "+e+")")
				} else {
					conds = append(conds, e)
				}
			}
			body, err := t.stmts(cc.Body, after, wrap)
			if err != nil {
				return "", err
			}
			out = "(if (" + strings.Join(conds, " || ") + ") then " + body + " else " + out + ")"
		}
		return out, nil
	case *ast.ForStmt:
		// for i := 0; i < len(s); i++ { ... s[i] ... }
		iv, sv, ok := byteLoopHeader(x)
		if !ok {
			return "", t.errf(s, "for loop shape")
		}
		after, err := restT()
		if err != nil {
			return "", err
		}
		cv := "c_" + iv
		t.byteVar[sv+"["+iv+"]"] = cv
		body, err := t.stmts(x.Body.List, "none", func(e string) string { return "(some " + e + ")" })
		delete(t.byteVar, sv+"["+iv+"]")
		if err != nil {
			return "", err
		}
		return "(match Go.firstSome " + leanIdent(sv) + " (fun " + cv + " => " + body + ") with | some r_ => " + wrap("r_") + " | none => " + after + ")", nil
	case *ast.RangeStmt:
		after, err := restT()
		if err != nil {
			return "", err
		}
		coll := exprString(x.X)
		key, val := "_", "_"
		if x.Key != nil {
			key = leanIdent(exprString(x.Key))
		}
		if x.Value != nil {
			val = leanIdent(exprString(x.Value))
		}
		var body string
		if !(t.listVars[coll] && x.Value == nil && x.Key != nil) {
			body, err = t.stmts(x.Body.List, "none", func(e string) string { return "(some " + e + ")" })
			if err != nil {
				return "", err
			}
		}
		if t.listVars[coll] {
			// a []string parameter: `for _, v := range xs` or `for i := range xs { … xs[i] … }`
			elem := val
			if x.Value == nil && x.Key != nil {
				elem = "e_" + key
				t.byteVar[coll+"["+exprString(x.Key)+"]"] = elem
				body, err = t.stmts(x.Body.List, "none", func(e string) string { return "(some " + e + ")" })
				delete(t.byteVar, coll+"["+exprString(x.Key)+"]")
				if err != nil {
					return "", err
				}
			} else if key != "_" {
				return "", t.errf(s, "index and value over a string slice")
			}
			return "(match Go.listFirstSome " + leanIdent(coll) + " (fun " + elem + " => " + body + ") with | some r_ => " + wrap("r_") + " | none => " + after + ")", nil
		}
		if l, ok := t.slices[coll]; ok {
			if key != "_" {
				return "", t.errf(s, "index over a string slice")
			}
			return "(match Go.listFirstSome " + l + " (fun " + val + " => " + body + ") with | some r_ => " + wrap("r_") + " | none => " + after + ")", nil
		}
		// range over a string: index is a position (only compared with 0 in the supported functions)
		return "(match Go.rangeFirstSome " + leanIdent(coll) + " 0 (fun " + key + " " + val + " => " + body + ") with | some r_ => " + wrap("r_") + " | none => " + after + ")", nil
	}
	return "", t.errf(s, "statement %T", s)
}

func byteLoopHeader(f *ast.ForStmt) (iv, sv string, ok bool) {
	as, ok1 := f.Init.(*ast.AssignStmt)
	if !ok1 || len(as.Lhs) != 1 || exprString(as.Rhs[0]) != "0" {
		return
	}
	iv = exprString(as.Lhs[0])
	be, ok2 := f.Cond.(*ast.BinaryExpr)
	if !ok2 || be.Op != token.LSS || exprString(be.X) != iv {
		return
	}
	ce, ok3 := be.Y.(*ast.CallExpr)
	if !ok3 || exprString(ce.Fun) != "len" || len(ce.Args) != 1 {
		return
	}
	sv = exprString(ce.Args[0])
	inc, ok4 := f.Post.(*ast.IncDecStmt)
	if !ok4 || inc.Tok != token.INC || exprString(inc.X) != iv {
		return
	}
	return iv, sv, true
}

func leanType(e ast.Expr) (string, bool) {
	if at, ok := e.(*ast.ArrayType); ok && at.Len == nil && exprString(at.Elt) == "string" {
		return "List Str", true
	}
	switch exprString(e) {
	case "string":
		return "Str", true
	case "rune", "byte":
		return "Char", true
	case "bool":
		return "Bool", true
	case "int":
		return "Nat", true
	case "[]string":
		return "List Str", true
	}
	return "", false
}

// funcDef translates a whole function declaration to a Lean `def`.
func (t *tr) funcDef(fd *ast.FuncDecl, leanName string) (string, error) {
	t.slices = t.pkgSlices()
	t.byteVar = map[string]string{}
	t.listVars = map[string]bool{}
	var params []string
	for _, f := range fd.Type.Params.List {
		ty, ok := leanType(f.Type)
		if !ok {
			return "", t.errf(f, "parameter type %s", exprString(f.Type))
		}
		for _, n := range f.Names {
			if ty == "List Str" {
				t.listVars[n.Name] = true
			}
			params = append(params, "("+leanIdent(n.Name)+" : "+ty+")")
		}
	}
	if fd.Type.Results == nil || len(fd.Type.Results.List) != 1 {
		return "", t.errf(fd, "result list")
	}
	rt, ok := leanType(fd.Type.Results.List[0].Type)
	if !ok {
		return "", t.errf(fd, "result type")
	}
	body, err := t.stmts(fd.Body.List, "", func(e string) string { return e })
	if err != nil {
		return "", err
	}
	return "def " + leanName + " " + strings.Join(params, " ") + " : " + rt + " :=\n  " + body + "\n", nil
}
