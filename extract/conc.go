package main

// Facts for C09 (lockset table of every access to shared engine state) and C10 (no order-sensitive map iteration, pools hand out
// cleared objects, caller data and cached DOM are copied before evaluation). Identifier resolution uses go/types with import errors
// ignored: types declared in the package itself (structs, maps, package variables) resolve, imported ones are left invalid.

import (
	"fmt"
	"go/ast"
	"go/importer"
	"go/token"
	"go/types"
	"sort"
	"strconv"
	"strings"
)

func typeCheck(p *pkgFiles, name string) *types.Info {
	info := &types.Info{Types: map[ast.Expr]types.TypeAndValue{}, Uses: map[*ast.Ident]types.Object{}, Defs: map[*ast.Ident]types.Object{}, Selections: map[*ast.SelectorExpr]*types.Selection{}}
	var files []*ast.File
	var names []string
	for n := range p.files {
		names = append(names, n)
	}
	sort.Strings(names)
	for _, n := range names {
		files = append(files, p.files[n])
	}
	conf := types.Config{Importer: failingImporter{importer.Default()}, Error: func(error) {}, DisableUnusedImportCheck: true}
	conf.Check(name, p.fset, files, info) // errors (unresolved imports) are expected and ignored
	return info
}

func leanString(x string) string { return strconv.Quote(x) }

type failingImporter struct{ types.Importer }

func (f failingImporter) Import(path string) (*types.Package, error) {
	// a stub package: selector expressions on it become invalid, which is all we need
	return types.NewPackage(path, path[strings.LastIndex(path, "/")+1:]), nil
}

// ---------------------------------------------------------------------------------------------------------------- C10

type funcInfo struct {
	name string
	decl *ast.FuncDecl
}

func allFuncs(p *pkgFiles) []funcInfo {
	var out []funcInfo
	var names []string
	for n := range p.files {
		names = append(names, n)
	}
	sort.Strings(names)
	for _, n := range names {
		for _, d := range p.files[n].Decls {
			fd, ok := d.(*ast.FuncDecl)
			if !ok || fd.Body == nil {
				continue
			}
			nm := fd.Name.Name
			if fd.Recv != nil && len(fd.Recv.List) == 1 {
				t := fd.Recv.List[0].Type
				if s, ok := t.(*ast.StarExpr); ok {
					t = s.X
				}
				nm = exprString(t) + "." + nm
			}
			out = append(out, funcInfo{nm, fd})
		}
	}
	return out
}

// orderInsensitiveBody: the loop body only stores into maps / scope objects keyed by the loop key (or deletes, or continues):
// the result then does not depend on the order in which Go enumerates the map.
func orderInsensitiveStmt(s ast.Stmt) bool {
	switch x := s.(type) {
	case *ast.AssignStmt:
		for _, l := range x.Lhs {
			switch l.(type) {
			case *ast.IndexExpr:
			default:
				if id, ok := l.(*ast.Ident); ok && (id.Name == "_" || x.Tok == token.DEFINE) {
					// a local temporary is fine as long as it is not an accumulation
					for _, r := range x.Rhs {
						if containsCall(r, "append") {
							return false
						}
					}
					continue
				}
				return false
			}
		}
		return true
	case *ast.ExprStmt:
		if ce, ok := x.X.(*ast.CallExpr); ok {
			f := exprString(ce.Fun)
			return f == "delete" || strings.HasSuffix(f, ".Set") || strings.HasSuffix(f, ".SetSlot") || strings.HasSuffix(f, ".Store") || strings.HasSuffix(f, ".Assign")
		}
		return false
	case *ast.IfStmt:
		if x.Init != nil && !orderInsensitiveStmt(x.Init) {
			return false
		}
		for _, b := range x.Body.List {
			if !orderInsensitiveStmt(b) {
				return false
			}
		}
		if x.Else != nil {
			return orderInsensitiveStmt(x.Else)
		}
		return true
	case *ast.BlockStmt:
		for _, b := range x.List {
			if !orderInsensitiveStmt(b) {
				return false
			}
		}
		return true
	case *ast.DeclStmt:
		return true
	case *ast.BranchStmt:
		return x.Tok == token.CONTINUE
	case *ast.RangeStmt:
		// nested range (e.g. over a slice value) whose body is itself insensitive
		return orderInsensitiveStmt(x.Body)
	}
	return false
}

// collectThenSort: `for k := range m { xs = append(xs, k) }` followed, in the same block, by sort.Strings(xs) / sort.Slice(xs, ...)
func collectThenSort(block []ast.Stmt, i int) bool {
	rs := block[i].(*ast.RangeStmt)
	if len(rs.Body.List) != 1 {
		return false
	}
	as, ok := rs.Body.List[0].(*ast.AssignStmt)
	if !ok || len(as.Lhs) != 1 || len(as.Rhs) != 1 {
		return false
	}
	ce, ok := as.Rhs[0].(*ast.CallExpr)
	if !ok || exprString(ce.Fun) != "append" || len(ce.Args) != 2 || exprString(ce.Args[0]) != exprString(as.Lhs[0]) {
		return false
	}
	target := exprString(as.Lhs[0])
	for _, later := range block[i+1:] {
		if es, ok := later.(*ast.ExprStmt); ok {
			if c, ok := es.X.(*ast.CallExpr); ok && (strings.HasPrefix(exprString(c.Fun), "sort.") || strings.HasPrefix(exprString(c.Fun), "slices.Sort")) && len(c.Args) > 0 {
				arg := c.Args[0]
				// sort.Sort(byName(xs)) / sort.Stable(byName(xs)): the slice converted to a sort.Interface type
				if conv, isConv := arg.(*ast.CallExpr); isConv && len(conv.Args) == 1 {
					arg = conv.Args[0]
				}
				if exprString(arg) == target {
					return true
				}
			}
		}
		// any other use of the slice before it is sorted keeps the site sensitive
		used := false
		ast.Inspect(later, func(n ast.Node) bool {
			if id, ok := n.(*ast.Ident); ok && id.Name == target {
				used = true
			}
			return true
		})
		if used {
			return false
		}
	}
	return false
}

func mapRangeSites(p *pkgFiles, pkgName string) (sensitive []string, total int) {
	info := typeCheck(p, pkgName)
	sorted := map[*ast.RangeStmt]bool{}
	for _, f := range allFuncs(p) {
		ast.Inspect(f.decl.Body, func(n ast.Node) bool {
			if b, ok := n.(*ast.BlockStmt); ok {
				for i, s := range b.List {
					if rs, ok := s.(*ast.RangeStmt); ok && collectThenSort(b.List, i) {
						sorted[rs] = true
					}
				}
			}
			return true
		})
	}
	for _, f := range allFuncs(p) {
		ast.Inspect(f.decl.Body, func(n ast.Node) bool {
			rs, ok := n.(*ast.RangeStmt)
			if !ok {
				return true
			}
			t := info.TypeOf(rs.X)
			if t == nil {
				return true
			}
			if _, isMap := t.Underlying().(*types.Map); !isMap {
				return true
			}
			total++
			if !sorted[rs] && !orderInsensitiveStmt(rs.Body) {
				sensitive = append(sensitive, pkgName+":"+f.name+":range "+exprString(rs.X))
			}
			return true
		})
	}
	sort.Strings(sensitive)
	return
}

// precededBy: inside fd, every call `pool.Put(x)` has, earlier in the same block, a statement satisfying `clears(x, stmt)`
func putsAreCleared(fd *ast.FuncDecl, pool string, clears func(arg string, s ast.Stmt) bool) (puts int, allCleared bool) {
	allCleared = true
	var visit func(list []ast.Stmt)
	visit = func(list []ast.Stmt) {
		for i, s := range list {
			ast.Inspect(s, func(n ast.Node) bool {
				if b, ok := n.(*ast.BlockStmt); ok && n != s {
					visit(b.List)
					return false
				}
				return true
			})
			es, ok := s.(*ast.ExprStmt)
			if !ok {
				continue
			}
			ce, ok := es.X.(*ast.CallExpr)
			if !ok || exprString(ce.Fun) != pool+".Put" || len(ce.Args) != 1 {
				continue
			}
			puts++
			arg := exprString(ce.Args[0])
			cleared := false
			for _, prev := range list[:i] {
				if clears(arg, prev) {
					cleared = true
				}
			}
			if !cleared {
				allCleared = false
			}
		}
	}
	visit(fd.Body.List)
	return
}

func clearsMap(arg string, s ast.Stmt) bool {
	if es, ok := s.(*ast.ExprStmt); ok {
		if ce, ok := es.X.(*ast.CallExpr); ok && exprString(ce.Fun) == "clear" && len(ce.Args) == 1 && exprString(ce.Args[0]) == arg {
			return true
		}
	}
	rs, ok := s.(*ast.RangeStmt)
	if !ok || exprString(rs.X) != arg || rs.Key == nil || len(rs.Body.List) != 1 {
		return false
	}
	es, ok := rs.Body.List[0].(*ast.ExprStmt)
	if !ok {
		return false
	}
	ce, ok := es.X.(*ast.CallExpr)
	return ok && exprString(ce.Fun) == "delete" && len(ce.Args) == 2 && exprString(ce.Args[0]) == arg && exprString(ce.Args[1]) == exprString(rs.Key)
}

func resetsBuilder(arg string, s ast.Stmt) bool {
	es, ok := s.(*ast.ExprStmt)
	if !ok {
		return false
	}
	ce, ok := es.X.(*ast.CallExpr)
	return ok && exprString(ce.Fun) == arg+".Reset" && len(ce.Args) == 0
}

func countCalls(p *pkgFiles, fun string) int {
	n := 0
	for _, f := range allFuncs(p) {
		ast.Inspect(f.decl.Body, func(x ast.Node) bool {
			if ce, ok := x.(*ast.CallExpr); ok && exprString(ce.Fun) == fun {
				n++
			}
			return true
		})
	}
	return n
}

func genPurity(out string, root, helpers *pkgFiles) {
	var sb strings.Builder
	sb.WriteString("namespace Vuego.Generated\n\n")
	defer func() {
		sb.WriteString("end Vuego.Generated\n")
		writeFile(out, "Purity.lean", sb.String())
	}()
	s1, t1 := mapRangeSites(root, "vuego")
	s2, t2 := mapRangeSites(helpers, "helpers")
	sens := append(s1, s2...)
	sb.WriteString("/-- `range` statements over a map whose body does more than store into maps / scopes (their result could depend on Go's\n    randomised map order) -/\ndef mapRangeSensitiveSites : List String := [")
	for i, s := range sens {
		if i > 0 {
			sb.WriteString(", ")
		}
		sb.WriteString(leanString(s))
	}
	sb.WriteString("]\n")
	fmt.Fprintf(&sb, "def mapRangeSitesTotal : Nat := %d\n", t1+t2)
	rep.Facts["mapRangeSensitiveSites"] = fmt.Sprintf("%v (of %d map ranges)", sens, t1+t2)

	// Stack.Pop: every map goes back to the pool emptied
	// every `mapPool.Put(m)` of the package — in Stack.Pop or in a helper it delegates to — comes after `m` was emptied in the same function
	popOK := true
	totalPuts := 0
	for _, f := range allFuncs(root) {
		puts, cleared := putsAreCleared(f.decl, "mapPool", clearsMap)
		totalPuts += puts
		if puts > 0 && !cleared {
			popOK = false
		}
	}
	if totalPuts == 0 || totalPuts != countCalls(root, "mapPool.Put") {
		popOK = false
	}
	if root.method("Stack", "Pop") == nil {
		fail("purity", fmt.Errorf("Stack.Pop not found"))
	}
	fmt.Fprintf(&sb, "/-- every `mapPool.Put(m)` of the package comes after `m` has been emptied -/\ndef popClearsBeforePut : Bool := %s\n", b2l(popOK))
	rep.Facts["popClearsBeforePut"] = b2l(popOK)

	// interpolate: the builder is reset before it goes back
	bufOK := true
	nput := 0
	for _, f := range allFuncs(root) {
		ast.Inspect(f.decl.Body, func(n ast.Node) bool {
			var list []ast.Stmt
			switch x := n.(type) {
			case *ast.BlockStmt:
				list = x.List
			default:
				return true
			}
			for i, s := range list {
				es, ok := s.(*ast.ExprStmt)
				if !ok {
					continue
				}
				ce, ok := es.X.(*ast.CallExpr)
				if !ok || exprString(ce.Fun) != "bufferPool.Put" || len(ce.Args) != 1 {
					continue
				}
				nput++
				ok2 := false
				for _, prev := range list[:i] {
					if resetsBuilder(exprString(ce.Args[0]), prev) {
						ok2 = true
					}
				}
				if !ok2 {
					bufOK = false
				}
			}
			return true
		})
	}
	if nput != countCalls(root, "bufferPool.Put") {
		bufOK = false
	}
	fmt.Fprintf(&sb, "/-- every `bufferPool.Put(b)` comes after `b.Reset()` -/\ndef bufferResetBeforePut : Bool := %s\n", b2l(bufOK))
	rep.Facts["bufferResetBeforePut"] = b2l(bufOK)

	// helpers.NewNode: nodes from the pool are zeroed field by field; nothing is ever Put
	var cleared []string
	if fd := helpers.fn("NewNode"); fd != nil {
		for _, s := range fd.Body.List {
			as, ok := s.(*ast.AssignStmt)
			if !ok || len(as.Lhs) != 1 || len(as.Rhs) != 1 {
				continue
			}
			// `*n = html.Node{}`: the whole struct is overwritten by its zero value — every field of golang.org/x/net/html.Node
			if _, isStar := as.Lhs[0].(*ast.StarExpr); isStar {
				if cl, isLit := as.Rhs[0].(*ast.CompositeLit); isLit && len(cl.Elts) == 0 && exprString(cl.Type) == "html.Node" {
					cleared = append(cleared, "Attr", "Data", "DataAtom", "FirstChild", "LastChild", "Namespace", "NextSibling", "Parent", "PrevSibling", "Type")
				}
				continue
			}
			sel, ok := as.Lhs[0].(*ast.SelectorExpr)
			if !ok {
				continue
			}
			r := exprString(as.Rhs[0])
			if r == "0" || r == `""` || r == "nil" {
				cleared = append(cleared, sel.Sel.Name)
			}
		}
	} else {
		fail("purity", fmt.Errorf("helpers.NewNode not found"))
	}
	sort.Strings(cleared)
	sb.WriteString("/-- the html.Node fields NewNode zeroes on a node taken from the pool -/\ndef newNodeClears : List String := [")
	for i, c := range cleared {
		if i > 0 {
			sb.WriteString(", ")
		}
		sb.WriteString(leanString(c))
	}
	sb.WriteString("]\n")
	fmt.Fprintf(&sb, "def nodePoolPuts : Nat := %d\n", countCalls(helpers, "nodePool.Put"))

	// helpers.DeepCloneNode: the clone owns its attribute list (a fresh backing array), so appending to a clone's attributes
	// (evalVHtml, evalVText, replaceWithInclude) can never write into the array of the cached node it was cloned from
	attrsCopied := false
	if fd := helpers.fn("DeepCloneNode"); fd != nil {
		assigns, fresh := 0, 0
		ast.Inspect(fd.Body, func(n ast.Node) bool {
			as, ok := n.(*ast.AssignStmt)
			if !ok || len(as.Lhs) != 1 || len(as.Rhs) != 1 {
				return true
			}
			if sel, ok := as.Lhs[0].(*ast.SelectorExpr); !ok || sel.Sel.Name != "Attr" {
				return true
			}
			assigns++
			if ce, ok := as.Rhs[0].(*ast.CallExpr); ok {
				f := exprString(ce.Fun)
				if f == "append" && len(ce.Args) == 2 && ce.Ellipsis.IsValid() {
					first := types.ExprString(ce.Args[0])
					if first == "[]html.Attribute(nil)" || first == "[]html.Attribute{}" || strings.HasPrefix(first, "make(") {
						fresh++
					}
				}
				if f == "slices.Clone" {
					fresh++
				}
				// a same-package helper every return of which gives nil or a fresh copy of its (only) parameter
				if id, isId := ce.Fun.(*ast.Ident); isId && len(ce.Args) == 1 {
					if h := helpers.fn(id.Name); h != nil && h.Body != nil && h.Type.Params != nil && len(h.Type.Params.List) == 1 && len(h.Type.Params.List[0].Names) == 1 {
						pn := h.Type.Params.List[0].Names[0].Name
						copies, other := 0, 0
						ast.Inspect(h.Body, func(x ast.Node) bool {
							rs, isRet := x.(*ast.ReturnStmt)
							if !isRet {
								return true
							}
							if len(rs.Results) != 1 {
								other++
								return true
							}
							if exprString(rs.Results[0]) == "nil" {
								return true
							}
							rc, isCall := rs.Results[0].(*ast.CallExpr)
							if !isCall {
								other++
								return true
							}
							rf := exprString(rc.Fun)
							first := ""
							if len(rc.Args) > 0 {
								first = types.ExprString(rc.Args[0])
							}
							switch {
							case rf == "append" && len(rc.Args) == 2 && rc.Ellipsis.IsValid() && exprString(rc.Args[1]) == pn &&
								(first == "[]html.Attribute(nil)" || first == "[]html.Attribute{}" || strings.HasPrefix(first, "make(")):
								copies++
							case rf == "slices.Clone" && len(rc.Args) == 1 && exprString(rc.Args[0]) == pn:
								copies++
							default:
								other++
							}
							return true
						})
						if copies > 0 && other == 0 {
							fresh++
						}
					}
				}
			}
			return true
		})
		attrsCopied = assigns > 0 && assigns == fresh
	} else {
		fail("purity", fmt.Errorf("helpers.DeepCloneNode not found"))
	}
	fmt.Fprintf(&sb, "/-- DeepCloneNode gives the clone a freshly allocated attribute list -/\ndef deepCloneCopiesAttrs : Bool := %s\n", b2l(attrsCopied))
	rep.Facts["deepCloneCopiesAttrs"] = b2l(attrsCopied)

	// NewVueContext: the v-once bookkeeping map is made for this context (not taken from a pool / a shared variable)
	seenFresh := false
	if fd := root.fn("NewVueContext"); fd != nil {
		ast.Inspect(fd.Body, func(n ast.Node) bool {
			kv, ok := n.(*ast.KeyValueExpr)
			if !ok || exprString(kv.Key) != "seen" {
				return true
			}
			if ce, ok := kv.Value.(*ast.CallExpr); ok && exprString(ce.Fun) == "make" {
				seenFresh = true
			}
			return true
		})
	} else {
		fail("purity", fmt.Errorf("NewVueContext not found"))
	}
	fmt.Fprintf(&sb, "/-- NewVueContext makes a new, empty `seen` map for every render -/\ndef seenMapMadePerRender : Bool := %s\n", b2l(seenFresh))
	rep.Facts["seenMapMadePerRender"] = b2l(seenFresh)

	// Vue.Render / RenderFragment: the stack's root map is the result of mergeFrontMatter, which builds a new map and writes only into it
	copied := true
	for _, m := range []string{"Render", "RenderFragment"} {
		fd := root.method("Vue", m)
		if fd == nil {
			fail("purity", fmt.Errorf("Vue.%s not found", m))
			copied = false
			continue
		}
		// in the method itself or in a helper it delegates to: `m := mergeFrontMatter(…)` … `NewStackWithData(m, …)` (or the call nested directly)
		okHere := false
		for _, body := range bodiesReachable(root, fd, 2) {
			src := map[string]string{}
			ast.Inspect(body, func(n ast.Node) bool {
				switch x := n.(type) {
				case *ast.AssignStmt:
					if len(x.Lhs) == 1 && len(x.Rhs) == 1 {
						if ce, ok := x.Rhs[0].(*ast.CallExpr); ok {
							src[exprString(x.Lhs[0])] = exprString(ce.Fun)
						}
					}
				case *ast.CallExpr:
					if exprString(x.Fun) == "NewStackWithData" && len(x.Args) == 2 {
						if src[exprString(x.Args[0])] == "mergeFrontMatter" {
							okHere = true
						}
						if ce, ok := x.Args[0].(*ast.CallExpr); ok && exprString(ce.Fun) == "mergeFrontMatter" {
							okHere = true
						}
					}
				}
				return true
			})
		}
		if !okHere {
			copied = false
		}
	}
	if fd := root.fn("mergeFrontMatter"); fd != nil {
		// fresh map, the only map written is that one, and it is what is returned
		fresh := ""
		if len(fd.Body.List) > 0 {
			if as, ok := fd.Body.List[0].(*ast.AssignStmt); ok && as.Tok == token.DEFINE && len(as.Rhs) == 1 {
				if ce, ok := as.Rhs[0].(*ast.CallExpr); ok && exprString(ce.Fun) == "make" {
					fresh = exprString(as.Lhs[0])
				}
			}
		}
		if fresh == "" {
			copied = false
		}
		ast.Inspect(fd.Body, func(n ast.Node) bool {
			switch x := n.(type) {
			case *ast.AssignStmt:
				for _, l := range x.Lhs {
					if ie, ok := l.(*ast.IndexExpr); ok && exprString(ie.X) != fresh {
						copied = false
					}
				}
			case *ast.ReturnStmt:
				if len(x.Results) != 1 || exprString(x.Results[0]) != fresh {
					copied = false
				}
			case *ast.CallExpr:
				if exprString(x.Fun) == "delete" {
					copied = false
				}
			}
			return true
		})
	} else {
		copied = false
	}
	fmt.Fprintf(&sb, "/-- Vue.Render and Vue.RenderFragment evaluate over mergeFrontMatter(...)'s NEW map; the caller's map is only read -/\ndef callerDataCopied : Bool := %s\n", b2l(copied))
	rep.Facts["callerDataCopied"] = b2l(copied)

	// renderNodesWithContext evaluates a deep clone of the (cached, shared) DOM
	cloned := false
	if fd := root.method("Vue", "renderNodesWithContext"); fd != nil && fd.Type.Params != nil {
		param := ""
		for _, f := range fd.Type.Params.List {
			if types.ExprString(f.Type) == "[]*html.Node" && len(f.Names) == 1 {
				param = f.Names[0].Name
			}
		}
		// cloneThenEvaluate: in `body`, a slice is filled with DeepCloneNode(…) of the elements (`append(copy, DeepCloneNode(n))` or
		// `copy[i] = DeepCloneNode(n)`), v.evaluate runs on that slice, and the parameter itself goes nowhere except len / make / DeepCloneNode /
		// the listed helper calls
		cloneThenEvaluate := func(body *ast.BlockStmt, param string, allowed map[*ast.CallExpr]bool) (evalOnCopy, escapes bool) {
			copyVar := ""
			cloneCalls := map[*ast.CallExpr]bool{}
			ast.Inspect(body, func(n ast.Node) bool {
				switch x := n.(type) {
				case *ast.AssignStmt:
					for _, r := range x.Rhs {
						if exprString(r) == param {
							escapes = true // `copy := nodes` is an alias, not a copy
						}
					}
					if len(x.Lhs) == 1 && len(x.Rhs) == 1 {
						if ce, ok := x.Rhs[0].(*ast.CallExpr); ok {
							// `copy := cloneAll(nodes)`: a same-package helper that returns a fresh slice of deep clones of its parameter's elements
							if id, ok := ce.Fun.(*ast.Ident); ok && len(ce.Args) == 1 && exprString(ce.Args[0]) == param && deepCloneAllHelper(root, id.Name) {
								copyVar = exprString(x.Lhs[0])
								cloneCalls[ce] = true
							}
							if exprString(ce.Fun) == "append" && len(ce.Args) == 2 {
								if in, ok := ce.Args[1].(*ast.CallExpr); ok && strings.HasSuffix(exprString(in.Fun), "DeepCloneNode") {
									copyVar = exprString(x.Lhs[0])
								}
							}
							if strings.HasSuffix(exprString(ce.Fun), "DeepCloneNode") {
								if ie, ok := x.Lhs[0].(*ast.IndexExpr); ok {
									copyVar = exprString(ie.X)
								}
							}
						}
					}
				case *ast.CallExpr:
					f := exprString(x.Fun)
					if f == "len" || strings.HasSuffix(f, "DeepCloneNode") || f == "make" || allowed[x] || cloneCalls[x] {
						return true
					}
					for _, a := range x.Args {
						if exprString(a) == param {
							escapes = true
						}
					}
				}
				return true
			})
			ast.Inspect(body, func(n ast.Node) bool {
				if ce, ok := n.(*ast.CallExpr); ok && exprString(ce.Fun) == "v.evaluate" && len(ce.Args) >= 2 && exprString(ce.Args[1]) == copyVar && copyVar != "" {
					evalOnCopy = true
				}
				return true
			})
			return
		}
		evalOnCopy, paramEscapes := cloneThenEvaluate(fd.Body, param, nil)
		if !evalOnCopy && param != "" {
			// the cloning and the evaluation may live in a helper method that receives the nodes: the same must hold there, and here the
			// parameter goes to that helper only
			ast.Inspect(fd.Body, func(n ast.Node) bool {
				ce, ok := n.(*ast.CallExpr)
				if !ok || evalOnCopy {
					return true
				}
				sel, ok := ce.Fun.(*ast.SelectorExpr)
				if !ok {
					return true
				}
				h := root.method("Vue", sel.Sel.Name)
				if h == nil || h == fd || h.Type.Params == nil {
					return true
				}
				var hp []string
				for _, f := range h.Type.Params.List {
					for _, nm := range f.Names {
						hp = append(hp, nm.Name)
					}
				}
				for ai, a := range ce.Args {
					if exprString(a) == param && ai < len(hp) {
						e2, esc2 := cloneThenEvaluate(h.Body, hp[ai], nil)
						_, escHere := cloneThenEvaluate(fd.Body, param, map[*ast.CallExpr]bool{ce: true})
						if e2 && !esc2 {
							evalOnCopy, paramEscapes = true, escHere
						}
					}
				}
				return true
			})
		}
		cloned = param != "" && evalOnCopy && !paramEscapes
	} else {
		fail("purity", fmt.Errorf("Vue.renderNodesWithContext not found"))
	}
	fmt.Fprintf(&sb, "/-- renderNodesWithContext passes only deep clones of its (possibly cached) nodes on to processing and evaluation -/\ndef evaluatesDeepClone : Bool := %s\n", b2l(cloned))
	rep.Facts["evaluatesDeepClone"] = b2l(cloned)

	// the render methods of a template value only READ the template's own variable stack (EnvMap, Lookup, Get…) or hand a Copy() of it to
	// the evaluation: the stack itself — which v-for, includes, slots and <template :x> push to and assign into — never reaches a render
	readOnly := true
	sites := 0
	roMethods := map[string]bool{"Copy": true, "EnvMap": true, "Lookup": true, "Resolve": true, "GetString": true, "GetInt": true, "GetSlice": true, "GetMap": true, "Len": true}
	for _, f := range root.files {
		for _, d := range f.Decls {
			fd, ok := d.(*ast.FuncDecl)
			if !ok || fd.Recv == nil || len(fd.Recv.List) != 1 || len(fd.Recv.List[0].Names) != 1 || fd.Body == nil {
				continue
			}
			rt := fd.Recv.List[0].Type
			if st, ok := rt.(*ast.StarExpr); ok {
				rt = st.X
			}
			if exprString(rt) != "template" {
				continue
			}
			nm := fd.Name.Name
			if !(strings.HasPrefix(nm, "Render") || strings.HasPrefix(nm, "render") || nm == "layout") {
				continue
			}
			recv := fd.Recv.List[0].Names[0].Name
			var stack []ast.Node
			ast.Inspect(fd.Body, func(n ast.Node) bool {
				if n == nil {
					stack = stack[:len(stack)-1]
					return true
				}
				if se, ok := n.(*ast.SelectorExpr); ok && se.Sel.Name == "stack" && exprString(se.X) == recv {
					sites++
					ok := false
					if len(stack) >= 2 {
						if ps, isSel := stack[len(stack)-1].(*ast.SelectorExpr); isSel && ps.X == se && roMethods[ps.Sel.Name] {
							if ce, isCall := stack[len(stack)-2].(*ast.CallExpr); isCall && ce.Fun == ps {
								ok = true
							}
						}
					}
					if !ok {
						readOnly = false
					}
				}
				stack = append(stack, n)
				return true
			})
		}
	}
	if sites == 0 {
		readOnly = false
	}
	fmt.Fprintf(&sb, "/-- the render methods of `template` touch the template's own stack only through read-only calls or `Copy()` (%d sites) -/\ndef renderReadsTemplateStackOnly : Bool := %s\n", sites, b2l(readOnly))
	rep.Facts["renderReadsTemplateStackOnly"] = b2l(readOnly)
}

// ---------------------------------------------------------------------------------------------------------------- C09

type access struct {
	Var, Fn, Lock string
	Write, Excl   bool
}

var sharedStructs = map[string]bool{"Vue": true, "ExprEvaluator": true, "Loader": true, "Renderer": true, "template": true, "templateCacheEntry": true}

func isSyncType(e ast.Expr) bool {
	s := types.ExprString(e)
	return strings.HasPrefix(s, "sync.") || strings.HasPrefix(s, "*sync.") || strings.HasPrefix(s, "atomic.")
}

func genLocks(out string, root, helpers *pkgFiles) {
	var sb strings.Builder
	sb.WriteString("import Vuego.Model.Lockset\nnamespace Vuego.Generated\nopen Vuego.Lockset\n\n")
	defer func() {
		sb.WriteString("end Vuego.Generated\n")
		writeFile(out, "Locks.lean", sb.String())
	}()
	var rows []access
	for _, pk := range []struct {
		p    *pkgFiles
		name string
	}{{root, "vuego"}, {helpers, "helpers"}} {
		rs := lockRows(pk.p, pk.name)
		// an unexported plain function with exactly ONE calling function in its package is part of that function (a closure moved to package
		// level, a block given a name): its unlocked accesses are the caller's - stated with no lock, which is the conservative reading
		sc := singleCallers(pk.p)
		for i := range rs {
			for hop := 0; hop < 3; hop++ {
				caller, ok := sc[rs[i].Fn]
				if !ok || rs[i].Lock != "" {
					break
				}
				rs[i].Fn = caller
			}
		}
		rows = append(rows, rs...)
	}
	sort.Slice(rows, func(i, j int) bool {
		a, b := rows[i], rows[j]
		if a.Var != b.Var {
			return a.Var < b.Var
		}
		if a.Fn != b.Fn {
			return a.Fn < b.Fn
		}
		if a.Write != b.Write {
			return !a.Write
		}
		if a.Lock != b.Lock {
			return a.Lock < b.Lock
		}
		return !a.Excl && b.Excl
	})
	// dedupe
	var ded []access
	for i, r := range rows {
		if i == 0 || r != rows[i-1] {
			ded = append(ded, r)
		}
	}
	sb.WriteString("/-- every syntactic access to shared engine state (fields of Vue / ExprEvaluator / Loader / Renderer / template, package variables):\n    variable, function, read or write, and the lock held at that point (\"\" = none; excl = held in write mode) -/\ndef accessTable : List Access := [\n")
	for i, r := range ded {
		if i > 0 {
			sb.WriteString(",\n")
		}
		fmt.Fprintf(&sb, "  { var := %s, fn := %s, write := %s, lock := %s, excl := %s }", leanString(r.Var), leanString(r.Fn), b2l(r.Write), leanString(r.Lock), b2l(r.Excl))
	}
	sb.WriteString("]\n")
	nw := 0
	for _, r := range ded {
		if r.Write {
			nw++
		}
	}
	rep.Facts["accessTable"] = fmt.Sprintf("%d rows, %d writes", len(ded), nw)
}

func lockRows(p *pkgFiles, pkgName string) []access {
	info := typeCheck(p, pkgName)
	// package-level variables that are not sync objects, not errors, not compiled regexps
	pkgVars := map[types.Object]string{}
	for _, f := range p.files {
		for _, d := range f.Decls {
			gd, ok := d.(*ast.GenDecl)
			if !ok || gd.Tok != token.VAR {
				continue
			}
			for _, sp := range gd.Specs {
				vs := sp.(*ast.ValueSpec)
				for i, nm := range vs.Names {
					if nm.Name == "_" {
						continue
					}
					if vs.Type != nil && isSyncType(vs.Type) {
						continue
					}
					if i < len(vs.Values) {
						v := types.ExprString(vs.Values[i])
						// immutable-by-construction values: compiled regexps, sentinel errors, sync.Pool literals
						if strings.HasPrefix(v, "regexp.MustCompile") || strings.HasPrefix(v, "errors.New") || strings.HasPrefix(v, "sync.Pool") || strings.HasPrefix(v, "&sync.Pool") || strings.HasPrefix(v, "fmt.Errorf") {
							continue
						}
					}
					if obj := info.Defs[nm]; obj != nil {
						pkgVars[obj] = pkgName + "." + nm.Name
					}
				}
			}
		}
	}
	// fields of the shared structs that are not sync objects
	fieldVars := map[types.Object]string{}
	for _, f := range p.files {
		for _, d := range f.Decls {
			gd, ok := d.(*ast.GenDecl)
			if !ok || gd.Tok != token.TYPE {
				continue
			}
			for _, sp := range gd.Specs {
				ts := sp.(*ast.TypeSpec)
				st, ok := ts.Type.(*ast.StructType)
				if !ok || !sharedStructs[ts.Name.Name] || pkgName != "vuego" {
					continue
				}
				for _, fl := range st.Fields.List {
					if isSyncType(fl.Type) {
						continue
					}
					for _, nm := range fl.Names {
						if obj := info.Defs[nm]; obj != nil {
							fieldVars[obj] = ts.Name.Name + "." + nm.Name
						}
					}
				}
			}
		}
	}
	tracked := func(e ast.Expr) (string, bool) {
		switch x := e.(type) {
		case *ast.Ident:
			if n, ok := pkgVars[info.Uses[x]]; ok {
				return n, true
			}
		case *ast.SelectorExpr:
			if n, ok := fieldVars[info.Uses[x.Sel]]; ok {
				return n, true
			}
		}
		return "", false
	}
	var rows []access
	for _, f := range allFuncs(p) {
		held := map[string]bool{} // lock expression -> exclusive?
		writes := map[ast.Expr]bool{}
		// locals holding an object this function has just created (x := &T{...}, x := t.new(), x := NewT(...)): not shared yet
		fresh := map[types.Object]bool{}
		ast.Inspect(f.decl.Body, func(n ast.Node) bool {
			as, ok := n.(*ast.AssignStmt)
			if !ok || as.Tok != token.DEFINE || len(as.Lhs) != 1 || len(as.Rhs) != 1 {
				return true
			}
			id, ok := as.Lhs[0].(*ast.Ident)
			if !ok {
				return true
			}
			isNew := false
			switch r := as.Rhs[0].(type) {
			case *ast.UnaryExpr:
				_, isLit := r.X.(*ast.CompositeLit)
				isNew = r.Op == token.AND && isLit
			case *ast.CallExpr:
				fn := types.ExprString(r.Fun)
				last := fn[strings.LastIndex(fn, ".")+1:]
				isNew = last == "new" || strings.HasPrefix(last, "New")
			}
			if isNew {
				if obj := info.Defs[id]; obj != nil {
					fresh[obj] = true
				}
			}
			return true
		})
		isFreshBase := func(e ast.Expr) bool {
			if sel, ok := e.(*ast.SelectorExpr); ok {
				if id, ok := sel.X.(*ast.Ident); ok {
					return fresh[info.Uses[id]]
				}
			}
			return false
		}
		// mark write spines
		markSpine := func(e ast.Expr) {
			for {
				if _, ok := tracked(e); ok {
					writes[e] = true
					return
				}
				switch x := e.(type) {
				case *ast.IndexExpr:
					e = x.X
				case *ast.SelectorExpr:
					e = x.X
				case *ast.StarExpr:
					e = x.X
				case *ast.ParenExpr:
					e = x.X
				default:
					return
				}
			}
		}
		ast.Inspect(f.decl.Body, func(n ast.Node) bool {
			switch x := n.(type) {
			case *ast.AssignStmt:
				if x.Tok != token.DEFINE {
					for _, l := range x.Lhs {
						markSpine(l)
					}
				}
			case *ast.IncDecStmt:
				markSpine(x.X)
			case *ast.CallExpr:
				if exprString(x.Fun) == "delete" && len(x.Args) > 0 {
					markSpine(x.Args[0])
				}
				if exprString(x.Fun) == "clear" && len(x.Args) > 0 {
					markSpine(x.Args[0])
				}
			}
			return true
		})
		lockCall := func(s ast.Stmt) (recv, op string, ok bool) {
			es, isExpr := s.(*ast.ExprStmt)
			if !isExpr {
				return
			}
			ce, isCall := es.X.(*ast.CallExpr)
			if !isCall {
				return
			}
			sel, isSel := ce.Fun.(*ast.SelectorExpr)
			if !isSel {
				return
			}
			switch sel.Sel.Name {
			case "Lock", "RLock", "Unlock", "RUnlock":
				return exprString(sel.X), sel.Sel.Name, true
			}
			return
		}
		record := func(n ast.Node, held map[string]bool) {
			ast.Inspect(n, func(y ast.Node) bool {
				if _, isBlock := y.(*ast.BlockStmt); isBlock {
					return false // nested blocks are walked by walkBlock with their own lock state
				}
				if _, isLit := y.(*ast.FuncLit); isLit {
					return true
				}
				e, ok := y.(ast.Expr)
				if !ok {
					return true
				}
				name, ok := tracked(e)
				if !ok {
					return true
				}
				if isFreshBase(e) {
					return false
				}
				// a lock/unlock call on an embedded mutex (pathCache.RLock()) is not a data access
				lock, excl := "", false
				var names []string
				for l := range held {
					names = append(names, l)
				}
				sort.Strings(names)
				for _, l := range names {
					lock, excl = l, held[l] // one lock at a time in this code base; the last name wins deterministically
				}
				rows = append(rows, access{Var: name, Fn: f.name, Write: writes[e], Lock: lock, Excl: excl})
				return false
			})
		}
		var walkBlock func(list []ast.Stmt, held map[string]bool)
		cpHeld := func(held map[string]bool) map[string]bool {
			cp := map[string]bool{}
			for k, v := range held {
				cp[k] = v
			}
			return cp
		}
		walkStmt := func(s ast.Stmt, held map[string]bool) {
			switch x := s.(type) {
			case *ast.BlockStmt:
				walkBlock(x.List, cpHeld(held))
				return
			case *ast.CaseClause:
				for _, e := range x.List {
					record(e, held)
				}
				walkBlock(x.Body, cpHeld(held))
				return
			case *ast.CommClause:
				walkBlock(x.Body, cpHeld(held))
				return
			case *ast.LabeledStmt:
				walkBlock([]ast.Stmt{x.Stmt}, held)
				return
			}
			// once.Do(func() { ... }): the closure runs exclusively; everything after Do returns happens after it (sync.Once)
			if es, ok := s.(*ast.ExprStmt); ok {
				if ce, ok := es.X.(*ast.CallExpr); ok && len(ce.Args) == 1 {
					if sel, ok := ce.Fun.(*ast.SelectorExpr); ok && sel.Sel.Name == "Do" {
						if fl, ok := ce.Args[0].(*ast.FuncLit); ok {
							in := cpHeld(held)
							in[exprString(sel.X)] = true
							walkBlock(fl.Body.List, in)
							held[exprString(sel.X)] = false
							return
						}
					}
				}
			}
			if recv, op, ok := lockCall(s); ok {
				switch op {
				case "Lock":
					held[recv] = true
				case "RLock":
					held[recv] = false
				default:
					delete(held, recv)
				}
				return
			}
			if ds, ok := s.(*ast.DeferStmt); ok {
				if sel, ok := ds.Call.Fun.(*ast.SelectorExpr); ok && (sel.Sel.Name == "Unlock" || sel.Sel.Name == "RUnlock") {
					return // held to the end of the function
				}
			}
			record(s, held)
			// nested blocks: a copy of the lock state (an unlock-and-return inside a branch does not release it for the code after the branch)
			ast.Inspect(s, func(y ast.Node) bool {
				if y == nil || y == ast.Node(s) {
					return true
				}
				if b, ok := y.(*ast.BlockStmt); ok {
					walkBlock(b.List, cpHeld(held))
					return false
				}
				return true
			})
		}
		walkBlock = func(list []ast.Stmt, held map[string]bool) {
			for _, s := range list {
				walkStmt(s, held)
			}
		}
		walkBlock(f.decl.Body.List, held)
	}
	return rows
}

// singleCallers: unexported plain functions (no receiver) that are called from exactly one function of the package -> that function's name
func singleCallers(p *pkgFiles) map[string]string {
	callers := map[string]map[string]bool{}
	plain := map[string]bool{}
	for _, fn := range allFuncs(p) {
		if fn.decl.Recv == nil && !ast.IsExported(fn.decl.Name.Name) {
			plain[fn.name] = true
		}
	}
	for _, fn := range allFuncs(p) {
		ast.Inspect(fn.decl.Body, func(n ast.Node) bool {
			switch x := n.(type) {
			case *ast.CallExpr:
				if id, ok := x.Fun.(*ast.Ident); ok && plain[id.Name] && id.Name != fn.name {
					if callers[id.Name] == nil {
						callers[id.Name] = map[string]bool{}
					}
					callers[id.Name][fn.name] = true
				}
			}
			return true
		})
	}
	// a function that is also used as a VALUE (passed around, stored) has callers that cannot be seen: left alone
	used := map[string]int{}
	for _, fn := range allFuncs(p) {
		ast.Inspect(fn.decl.Body, func(n ast.Node) bool {
			if id, ok := n.(*ast.Ident); ok && plain[id.Name] {
				used[id.Name]++
			}
			return true
		})
	}
	calls := map[string]int{}
	for _, fn := range allFuncs(p) {
		ast.Inspect(fn.decl.Body, func(n ast.Node) bool {
			if ce, ok := n.(*ast.CallExpr); ok {
				if id, ok := ce.Fun.(*ast.Ident); ok && plain[id.Name] {
					calls[id.Name]++
				}
			}
			return true
		})
	}
	out := map[string]string{}
	for h, cs := range callers {
		if len(cs) == 1 && used[h] == calls[h] {
			for c := range cs {
				out[h] = c
			}
		}
	}
	return out
}

// deepCloneAllHelper: a plain same-package function with one slice parameter that fills ONE local slice with DeepCloneNode of the
// parameter's elements (append or indexed store), returns that slice at every return, and lets the parameter go nowhere else
func deepCloneAllHelper(p *pkgFiles, name string) bool {
	fd := p.fn(name)
	if fd == nil || fd.Type.Params == nil || len(fd.Type.Params.List) != 1 || len(fd.Type.Params.List[0].Names) != 1 {
		return false
	}
	param := fd.Type.Params.List[0].Names[0].Name
	out := ""
	ok := true
	ast.Inspect(fd.Body, func(n ast.Node) bool {
		switch x := n.(type) {
		case *ast.AssignStmt:
			for _, r := range x.Rhs {
				if exprString(r) == param {
					ok = false // an alias of the parameter
				}
			}
			if len(x.Lhs) == 1 && len(x.Rhs) == 1 {
				if ce, isC := x.Rhs[0].(*ast.CallExpr); isC {
					if exprString(ce.Fun) == "append" && len(ce.Args) == 2 {
						if in, isIn := ce.Args[1].(*ast.CallExpr); isIn && strings.HasSuffix(exprString(in.Fun), "DeepCloneNode") {
							out = exprString(x.Lhs[0])
						}
					}
					if strings.HasSuffix(exprString(ce.Fun), "DeepCloneNode") {
						if ie, isI := x.Lhs[0].(*ast.IndexExpr); isI {
							out = exprString(ie.X)
						}
					}
				}
			}
		case *ast.CallExpr:
			f := exprString(x.Fun)
			if f == "len" || f == "make" || strings.HasSuffix(f, "DeepCloneNode") {
				return true
			}
			for _, a := range x.Args {
				if exprString(a) == param {
					ok = false
				}
			}
		}
		return true
	})
	if out == "" || !ok {
		return false
	}
	ast.Inspect(fd.Body, func(n ast.Node) bool {
		if rs, isR := n.(*ast.ReturnStmt); isR {
			if len(rs.Results) != 1 || exprString(rs.Results[0]) != out {
				ok = false
			}
		}
		return true
	})
	return ok
}
