package main

import (
	"go/ast"
	"go/token"
	"go/types"
	"path/filepath"
	"sort"
	"strings"
)

// genMdFacts: how the markdown renderer is WIRED - facts about package markdown that the reference comparison (C20) and the overlay
// theorems (C18) rest on:
//   - mdConfigOptions: every goldmark / parser / renderer / extension option named anywhere in the package (the parser's configuration is
//     what makes the CommonMark/GFM reference the right reference);
//   - mdOverlayGuards: the conditions under which the content filesystem is laid over the embedded templates (NewOverlayFS); the
//     parameter is written P.
func genMdFacts(repo, out string) {
	p, err := parseDir(filepath.Join(repo, "markdown"))
	if err != nil || p == nil {
		fail("markdown facts", err)
		return
	}
	optPkgs := map[string]bool{"goldmark": true, "parser": true, "html": true, "extension": true, "renderer": true, "util": false}
	opts := map[string]bool{}
	var guards []string
	overlayCalls := 0
	for _, f := range p.files {
		for _, d := range f.Decls {
			fd, ok := d.(*ast.FuncDecl)
			if !ok || fd.Body == nil {
				continue
			}
			ast.Inspect(fd.Body, func(n ast.Node) bool {
				se, ok := n.(*ast.SelectorExpr)
				if !ok {
					return true
				}
				if id, ok := se.X.(*ast.Ident); ok && optPkgs[id.Name] && (strings.HasPrefix(se.Sel.Name, "With") || id.Name == "extension") {
					opts[id.Name+"."+se.Sel.Name] = true
				}
				return true
			})
			// overlay guards: the enclosing conditions of every NewOverlayFS call of this function
			params := map[string]bool{}
			if fd.Type.Params != nil {
				for _, fl := range fd.Type.Params.List {
					for _, nm := range fl.Names {
						params[nm.Name] = true
					}
				}
			}
			var walk func(stmts []ast.Stmt, conds []string)
			norm := func(e ast.Expr, negate bool) string {
				s := types.ExprString(e)
				if be, ok := e.(*ast.BinaryExpr); ok && (be.Op == token.EQL || be.Op == token.NEQ) {
					op := be.Op
					if negate {
						if op == token.EQL {
							op = token.NEQ
						} else {
							op = token.EQL
						}
					}
					l, r := types.ExprString(be.X), types.ExprString(be.Y)
					if l == "nil" {
						l, r = r, l
					}
					s = l + " " + op.String() + " " + r
				} else if negate {
					s = "!(" + s + ")"
				}
				for pn := range params {
					s = replaceIdent(s, pn, "P")
				}
				return s
			}
			hasOverlay := func(n ast.Node) bool {
				found := false
				ast.Inspect(n, func(x ast.Node) bool {
					if ce, ok := x.(*ast.CallExpr); ok {
						if se, ok := ce.Fun.(*ast.SelectorExpr); ok && se.Sel.Name == "NewOverlayFS" {
							found = true
						}
						if id, ok := ce.Fun.(*ast.Ident); ok && id.Name == "NewOverlayFS" {
							found = true
						}
					}
					return !found
				})
				return found
			}
			walk = func(stmts []ast.Stmt, conds []string) {
				for _, st := range stmts {
					switch s := st.(type) {
					case *ast.IfStmt:
						if s.Init != nil && hasOverlay(s.Init) {
							overlayCalls++
							guards = append(guards, conds...)
						}
						walk(s.Body.List, append(append([]string{}, conds...), norm(s.Cond, false)))
						switch e := s.Else.(type) {
						case *ast.BlockStmt:
							walk(e.List, append(append([]string{}, conds...), norm(s.Cond, true)))
						case *ast.IfStmt:
							walk([]ast.Stmt{e}, append(append([]string{}, conds...), norm(s.Cond, true)))
						}
					case *ast.BlockStmt:
						walk(s.List, conds)
					case *ast.ForStmt:
						walk(s.Body.List, append(append([]string{}, conds...), "loop"))
					case *ast.RangeStmt:
						walk(s.Body.List, append(append([]string{}, conds...), "loop"))
					case *ast.SwitchStmt:
						if hasOverlay(s) {
							overlayCalls++
							guards = append(guards, append(append([]string{}, conds...), "switch")...)
						}
					default:
						if hasOverlay(st) {
							overlayCalls++
							guards = append(guards, conds...)
						}
					}
				}
			}
			walk(fd.Body.List, nil)
		}
	}
	var names []string
	for n := range opts {
		names = append(names, n)
	}
	sort.Strings(names)
	gs := map[string]bool{}
	for _, g := range guards {
		gs[g] = true
	}
	var glist []string
	for g := range gs {
		glist = append(glist, g)
	}
	sort.Strings(glist)
	q := func(xs []string) string {
		var parts []string
		for _, x := range xs {
			parts = append(parts, "\""+strings.ReplaceAll(strings.ReplaceAll(x, "\\", "\\\\"), "\"", "\\\"")+"\"")
		}
		return "[" + strings.Join(parts, ", ") + "]"
	}
	var sb strings.Builder
	sb.WriteString("namespace Vuego.Generated\n\n")
	sb.WriteString("/-- every goldmark / parser / renderer / extension option named in package markdown -/\ndef mdConfigOptions : List String := " + q(names) + "\n\n")
	sb.WriteString("/-- how many statements of package markdown lay the content filesystem over the embedded templates (NewOverlayFS) -/\ndef mdOverlayCalls : Nat := " + itoa(overlayCalls) + "\n\n")
	sb.WriteString("/-- the conditions those statements stand under (the function's parameter written P) -/\ndef mdOverlayGuards : List String := " + q(glist) + "\n\n")
	sb.WriteString("end Vuego.Generated\n")
	writeFile(out, "MdFacts.lean", sb.String())
	if overlayCalls == 0 {
		fail("markdown facts", errString("no NewOverlayFS call found in package markdown"))
	}
}

type errString string

func (e errString) Error() string { return string(e) }

func itoa(n int) string {
	if n == 0 {
		return "0"
	}
	s := ""
	for n > 0 {
		s = string(rune('0'+n%10)) + s
		n /= 10
	}
	return s
}

// replaceIdent replaces whole-word occurrences of an identifier
func replaceIdent(s, id, by string) string {
	var sb strings.Builder
	isW := func(c byte) bool { return c == '_' || c >= '0' && c <= '9' || c >= 'a' && c <= 'z' || c >= 'A' && c <= 'Z' }
	for i := 0; i < len(s); {
		if strings.HasPrefix(s[i:], id) && (i == 0 || !isW(s[i-1])) && (i+len(id) == len(s) || !isW(s[i+len(id)])) {
			sb.WriteString(by)
			i += len(id)
		} else {
			sb.WriteByte(s[i])
			i++
		}
	}
	return sb.String()
}
