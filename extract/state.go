package main

import (
	"go/ast"
	"go/token"
	"path/filepath"
	"sort"
	"strings"
)

// processWideState lists the package-level variables of the engine's packages that hold MUTABLE state: everything except values that
// cannot change after initialisation (compiled regular expressions, replacers, error values, basic literals, interface assertions `var _ T`).
// A cache, pool or table added at package level is shared by every engine and every goroutine of the process; each listed variable is
// covered by a theorem (pool, lockset) or by the concurrency oracle.
func immutableInit(e ast.Expr) bool {
	switch x := e.(type) {
	case *ast.BasicLit:
		return true
	case *ast.CallExpr:
		switch exprString(x.Fun) {
		case "regexp.MustCompile", "regexp.MustCompilePOSIX", "strings.NewReplacer", "errors.New", "fmt.Errorf", "template.Must":
			return true
		}
	case *ast.Ident:
		return x.Name == "true" || x.Name == "false" || x.Name == "nil"
	}
	return false
}

func immutableType(e ast.Expr) bool {
	switch x := e.(type) {
	case *ast.Ident:
		switch x.Name {
		case "string", "bool", "int", "int8", "int16", "int32", "int64", "uint", "uint8", "uint16", "uint32", "uint64", "float32", "float64", "error", "rune", "byte":
			return false // a package-level scalar variable can still be assigned: it counts, unless it has an immutable initialiser (checked by the caller)
		}
	case *ast.SelectorExpr:
		return exprString(x) == "embed.FS"
	}
	return false
}

func packageState(p *pkgFiles, pkg string) []string {
	var out []string
	names := make([]string, 0, len(p.files))
	for n := range p.files {
		names = append(names, n)
	}
	sort.Strings(names)
	for _, n := range names {
		for _, d := range p.files[n].Decls {
			gd, ok := d.(*ast.GenDecl)
			if !ok || gd.Tok != token.VAR {
				continue
			}
			for _, sp := range gd.Specs {
				vs := sp.(*ast.ValueSpec)
				for i, id := range vs.Names {
					if id.Name == "_" {
						continue
					}
					if vs.Type != nil && immutableType(vs.Type) {
						continue
					}
					if i < len(vs.Values) && immutableInit(vs.Values[i]) {
						continue
					}
					out = append(out, pkg+"."+id.Name)
				}
			}
		}
	}
	return out
}

func genProcessState(repo, out string, root, helpers *pkgFiles) {
	all := append(packageState(root, "vuego"), packageState(helpers, "helpers")...)
	for _, sub := range []string{"internal/reflect", "internal/parser", "formatter", "markdown"} {
		p, err := parseDir(filepath.Join(repo, sub))
		if err != nil {
			continue // a package that does not exist holds no state
		}
		all = append(all, packageState(p, filepath.Base(sub))...)
	}
	sort.Strings(all)
	var sb strings.Builder
	sb.WriteString("namespace Vuego.Generated\n\n/-- package-level variables holding mutable state (shared by every engine and goroutine of the process) -/\ndef processWideState : List String := [")
	for i, s := range all {
		if i > 0 {
			sb.WriteString(", ")
		}
		sb.WriteString("\"" + s + "\"")
	}
	sb.WriteString("]\n\nend Vuego.Generated\n")
	writeFile(out, "ProcessState.lean", sb.String())
}
