package main

import (
	"go/ast"
	"go/printer"
	"go/token"
	"path/filepath"
	"sort"
	"strings"
)

// processWideState lists the package-level variables of the engine's packages that hold state which is CHANGED after initialisation:
// a variable some function other than `init` assigns to (the variable itself, an element, a field, through `&x`, `delete`, `++`), or a
// variable of a synchronisation type (sync.Pool, sync.Map, sync.Once, a struct holding a mutex …) some function calls a method on.
// Tables and values that are only read (lookup maps, compiled regular expressions, byte-slice constants, reflect types) are not state.
// Such a variable is shared by every engine and every goroutine of the process; each listed one is covered by a theorem (pool, lockset)
// or by the concurrency oracle.

type pkgVar struct {
	name string
	spec *ast.ValueSpec
	sync bool // its type or initialiser mentions sync. / atomic.
}

func rootIdent(e ast.Expr) *ast.Ident {
	for {
		switch x := e.(type) {
		case *ast.Ident:
			return x
		case *ast.SelectorExpr:
			e = x.X
		case *ast.IndexExpr:
			e = x.X
		case *ast.StarExpr:
			e = x.X
		case *ast.ParenExpr:
			e = x.X
		case *ast.SliceExpr:
			e = x.X
		default:
			return nil
		}
	}
}

func packageState(p *pkgFiles, pkg string) []string {
	vars := map[string]*pkgVar{}
	names := make([]string, 0, len(p.files))
	for n := range p.files {
		names = append(names, n)
	}
	sort.Strings(names)
	for _, n := range names {
		for _, d := range p.files[n].Decls {
			gd, ok := d.(*ast.GenDecl)
			if !ok || gd.Tok != token.VAR {
				continue
			}
			for _, sp := range gd.Specs {
				vs := sp.(*ast.ValueSpec)
				var tb strings.Builder
				if vs.Type != nil {
					printer.Fprint(&tb, p.fset, vs.Type)
				}
				for _, v := range vs.Values {
					tb.WriteString(" ")
					printer.Fprint(&tb, p.fset, v)
				}
				txt := tb.String()
				for _, id := range vs.Names {
					if id.Name != "_" {
						vars[id.Name] = &pkgVar{name: id.Name, spec: vs, sync: strings.Contains(txt, "sync.") || strings.Contains(txt, "atomic.")}
					}
				}
			}
		}
	}
	// is this identifier a reference to the package-level variable (not a local of the same name)?
	isVar := func(id *ast.Ident) *pkgVar {
		if id == nil {
			return nil
		}
		v, ok := vars[id.Name]
		if !ok {
			return nil
		}
		if id.Obj != nil && id.Obj.Decl != nil {
			if vs, ok := id.Obj.Decl.(*ast.ValueSpec); !ok || vs != v.spec {
				return nil // resolved to something else in this file (a local, a parameter)
			}
		}
		return v
	}
	changed := map[string]bool{}
	mark := func(e ast.Expr) {
		if v := isVar(rootIdent(e)); v != nil {
			changed[v.name] = true
		}
	}
	for _, n := range names {
		for _, d := range p.files[n].Decls {
			fd, ok := d.(*ast.FuncDecl)
			if !ok || fd.Body == nil || (fd.Recv == nil && fd.Name.Name == "init") {
				continue
			}
			// parameters and named results shadow package variables of the same name
			ast.Inspect(fd.Body, func(x ast.Node) bool {
				switch s := x.(type) {
				case *ast.AssignStmt:
					if s.Tok != token.DEFINE {
						for _, l := range s.Lhs {
							mark(l)
						}
					}
				case *ast.IncDecStmt:
					mark(s.X)
				case *ast.UnaryExpr:
					if s.Op == token.AND {
						mark(s.X)
					}
				case *ast.CallExpr:
					if id, ok := s.Fun.(*ast.Ident); ok && (id.Name == "delete" || id.Name == "clear") && len(s.Args) > 0 {
						mark(s.Args[0])
					}
					if sel, ok := s.Fun.(*ast.SelectorExpr); ok {
						if v := isVar(rootIdent(sel.X)); v != nil && v.sync {
							changed[v.name] = true
						}
					}
				}
				return true
			})
		}
	}
	var out []string
	for n := range changed {
		out = append(out, pkg+"."+n)
	}
	sort.Strings(out)
	return out
}

func genProcessState(repo, out string, root, helpers *pkgFiles) {
	all := append(packageState(root, "vuego"), packageState(helpers, "helpers")...)
	for _, sub := range []string{"internal/reflect", "internal/parser", "formatter", "markdown"} {
		p, err := parseDir(filepath.Join(repo, sub))
		if err != nil {
			continue // a package that does not exist holds no state
		}
		all = append(all, packageState(p, filepath.Base(sub))...)
	}
	sort.Strings(all)
	var sb strings.Builder
	sb.WriteString("namespace Vuego.Generated\n\n/-- package-level variables whose state changes after initialisation (shared by every engine and goroutine of the process) -/\ndef processWideState : List String := [")
	for i, s := range all {
		if i > 0 {
			sb.WriteString(", ")
		}
		sb.WriteString("\"" + s + "\"")
	}
	sb.WriteString("]\n\nend Vuego.Generated\n")
	writeFile(out, "ProcessState.lean", sb.String())
}
