package main

// Fact for C09: package-level MAPS that are handed on - passed as an argument, assigned to another place, returned, stored in a composite
// literal. (Maps only: package-level byte and string slices handed to library functions are read-only tables in every harmless
// refactoring of the campaign, and a scope stack takes maps.) Such a value is reachable from every render at once; whoever
// receives it may write through it (Stack.Pop clears and recycles every scope map it is given), which the lockset table of direct
// accesses cannot see. Indexing, ranging, len/cap, method calls on the variable and `&v` of a sync object are not escapes.

import (
	"fmt"
	"go/ast"
	"go/token"
	"go/types"
	"sort"
	"strings"
)

func genEscapes(out string, root, helpers *pkgFiles) {
	var rows []string
	for _, pk := range []struct {
		p    *pkgFiles
		name string
	}{{root, "vuego"}, {helpers, "helpers"}} {
		info := typeCheck(pk.p, pk.name)
		pkgVars := map[types.Object]string{}
		for _, f := range pk.p.files {
			for _, d := range f.Decls {
				gd, ok := d.(*ast.GenDecl)
				if !ok || gd.Tok != token.VAR {
					continue
				}
				for _, sp := range gd.Specs {
					vs := sp.(*ast.ValueSpec)
					for i, nm := range vs.Names {
						obj := info.Defs[nm]
						if obj == nil || nm.Name == "_" {
							continue
						}
						isRef := false
						if t := obj.Type(); t != nil {
							switch t.Underlying().(type) {
							case *types.Map:
								isRef = true
							}
						}
						if !isRef && i < len(vs.Values) {
							// the type did not resolve (an imported element type): go by the initialiser's shape
							switch v := vs.Values[i].(type) {
							case *ast.CompositeLit:
								if _, ok := v.Type.(*ast.MapType); ok {
									isRef = true
								}
							case *ast.CallExpr:
								if id, ok := v.Fun.(*ast.Ident); ok && id.Name == "make" && len(v.Args) > 0 {
									if _, ok := v.Args[0].(*ast.MapType); ok {
										isRef = true
									}
								}
							}
						}
						if isRef {
							pkgVars[obj] = pk.name + "." + nm.Name
						}
					}
				}
			}
		}
		for _, f := range pk.p.files {
			for _, d := range f.Decls {
				fd, ok := d.(*ast.FuncDecl)
				if !ok || fd.Body == nil {
					continue
				}
				var stack []ast.Node
				ast.Inspect(fd.Body, func(n ast.Node) bool {
					if n == nil {
						stack = stack[:len(stack)-1]
						return true
					}
					stack = append(stack, n)
					id, ok := n.(*ast.Ident)
					if !ok || len(stack) < 2 {
						return true
					}
					name, isPkg := pkgVars[info.Uses[id]]
					if !isPkg {
						return true
					}
					parent := stack[len(stack)-2]
					esc := false
					switch p := parent.(type) {
					case *ast.CallExpr:
						for _, a := range p.Args {
							if a == ast.Expr(id) {
								esc = true
							}
						}
						if fn, ok := p.Fun.(*ast.Ident); ok && esc {
							switch fn.Name {
							case "len", "cap", "delete", "append", "copy", "clear":
								esc = false // builtins work on the variable where it is (append/copy/delete are accesses, listed by the lockset table)
							}
						}
					case *ast.AssignStmt:
						for _, rhs := range p.Rhs {
							if rhs == ast.Expr(id) {
								esc = true
							}
						}
					case *ast.ReturnStmt, *ast.KeyValueExpr, *ast.CompositeLit, *ast.SendStmt:
						esc = true
					case *ast.ValueSpec:
						for _, v := range p.Values {
							if v == ast.Expr(id) {
								esc = true
							}
						}
					}
					if esc {
						rows = append(rows, fmt.Sprintf("(%s, %s)", leanString(name), leanString(fd.Name.Name)))
					}
					return true
				})
			}
		}
	}
	sort.Strings(rows)
	var ded []string
	for i, r := range rows {
		if i == 0 || r != rows[i-1] {
			ded = append(ded, r)
		}
	}
	var sb strings.Builder
	sb.WriteString("namespace Vuego.Generated\n\n")
	sb.WriteString("/-- package-level maps that are handed on (argument, assignment, return, literal member): (variable, function) -/\n")
	sb.WriteString("def escapingPackageRefs : List (String × String) := [" + strings.Join(ded, ", ") + "]\n\nend Vuego.Generated\n")
	writeFile(out, "Escapes.lean", sb.String())
	rep.Facts["escapingPackageRefs"] = fmt.Sprint(len(ded))
}
