package main

// Isolation: cases that may hang or exhaust memory (slot aliasing, include cycles, arbitrary bytes) run in a child process
// of this same binary (`-replay`), under a wall-clock limit and an address-space limit.

import (
	"context"
	"encoding/json"
	"fmt"
	"os"
	"os/exec"
	"syscall"
	"time"
)

func init() {
	if os.Getenv("VERIF_CHILD") == "1" {
		// 6 GiB of address space is plenty for a render and stops runaway recursion long before the machine suffers
		lim := &syscall.Rlimit{Cur: 6 << 30, Max: 6 << 30}
		_ = syscall.Setrlimit(syscall.RLIMIT_AS, lim)
	}
}

// runIsolated re-runs one case (described by its replay input) in a child process and returns the child's view of it.
// The returned verdict is a crash/hang verdict when the child did not finish.
func runIsolated(prop string, input map[string]any, name string, limit time.Duration) (*Case, *Verdict) {
	dir, _ := os.MkdirTemp("", "vh-iso-")
	defer os.RemoveAll(dir)
	in := dir + "/case.json"
	out := dir + "/out.json"
	b, _ := json.Marshal(map[string]any{"name": name, "input": input})
	os.WriteFile(in, b, 0o644)
	ctx, cancel := context.WithTimeout(context.Background(), limit)
	defer cancel()
	cmd := exec.CommandContext(ctx, os.Args[0], "-prop", prop, "-replay", in, "-out", out, "-driver", "/nonexistent", "-tier", currentTier)
	cmd.Env = append(os.Environ(), "VERIF_CHILD=1", "GOMEMLIMIT=3GiB", "GOMAXPROCS=2")
	outp, err := cmd.CombinedOutput()
	if ctx.Err() == context.DeadlineExceeded {
		return nil, &Verdict{OK: false, Class: "hang", Detail: fmt.Sprintf("no result within %s", limit)}
	}
	if err != nil {
		tail := string(outp)
		if len(tail) > 600 {
			tail = tail[:300] + " … " + tail[len(tail)-300:]
		}
		return nil, &Verdict{OK: false, Class: "crash", Detail: fmt.Sprintf("child process died: %v: %s", err, tail)}
	}
	rb, err := os.ReadFile(out)
	if err != nil {
		return nil, &Verdict{OK: false, Class: "crash", Detail: "child wrote no result"}
	}
	var res Result
	if err := json.Unmarshal(rb, &res); err != nil {
		return nil, &Verdict{OK: false, Class: "crash", Detail: "child result unreadable"}
	}
	for _, f := range res.Failures {
		if f.Kind == "oracle" {
			return f.Case, &Verdict{OK: false, Class: f.Class, Detail: f.Detail}
		}
	}
	return nil, &Verdict{OK: true}
}

var currentTier = "quick"

func isChild() bool { return os.Getenv("VERIF_CHILD") == "1" }
