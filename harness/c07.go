package main

// C07 — layout chains. Each file wraps `content` in a marker naming itself; the nesting of markers in the output must equal the
// walk of the layout graph from the page; a graph that does not end must give an error, no output, and return in time.

import (
	"fmt"
	"regexp"
	"sort"
	"strings"
)

func init() { props["C07"] = runC07 }

type c07Graph struct {
	desc    string
	files   map[string]string
	page    string
	want    []string // expected marker nesting, outermost first (nil when an error is expected)
	wantErr bool
	data    map[string]any
	wantTxt []string // substrings that must appear (data visibility)
}

func c07Layout(name, next string, extra string) string {
	fm := ""
	if next != "" {
		fm = "---\nlayout: " + next + "\n---\n"
	}
	return fm + `<div data-m="` + name + `">` + extra + `<div v-html="content"></div></div>`
}

func c07Page(layout string) string {
	fm := "---\ntitle: PT\n"
	if layout != "" {
		fm += "layout: " + layout + "\n"
	}
	return fm + "---\n<p data-m=\"page\">{{ title }} {{ fromfill }}</p>"
}

func c07Graphs(thorough bool) []c07Graph {
	var gs []c07Graph
	gs = append(gs,
		c07Graph{desc: "no-layout-no-base", files: map[string]string{"p.vuego": c07Page("")}, want: []string{"page"}},
		c07Graph{desc: "default-base", files: map[string]string{"p.vuego": c07Page(""), "layouts/base.vuego": c07Layout("base", "", "")}, want: []string{"base", "page"}},
		c07Graph{desc: "named-layout-no-base-applied", files: map[string]string{"p.vuego": c07Page("post"), "layouts/post.vuego": c07Layout("post", "", ""), "layouts/base.vuego": c07Layout("base", "", "")}, want: []string{"post", "page"}},
		c07Graph{desc: "chain-2", files: map[string]string{"p.vuego": c07Page("post"), "layouts/post.vuego": c07Layout("post", "base", ""), "layouts/base.vuego": c07Layout("base", "", "")}, want: []string{"base", "post", "page"}},
		c07Graph{desc: "chain-3", files: map[string]string{"p.vuego": c07Page("a"), "layouts/a.vuego": c07Layout("a", "b", ""), "layouts/b.vuego": c07Layout("b", "c", ""), "layouts/c.vuego": c07Layout("c", "", "")}, want: []string{"c", "b", "a", "page"}},
		c07Graph{desc: "relative-before-layouts", files: map[string]string{"pages/p.vuego": c07Page("post"), "pages/post.vuego": c07Layout("rel-post", "", ""), "layouts/post.vuego": c07Layout("dir-post", "", "")}, page: "pages/p.vuego", want: []string{"rel-post", "page"}},
		c07Graph{desc: "relative-with-extension", files: map[string]string{"pages/p.vuego": c07Page("wrap.vuego"), "pages/wrap.vuego": c07Layout("rel-wrap", "", "")}, page: "pages/p.vuego", want: []string{"rel-wrap", "page"}},
		c07Graph{desc: "fallback-to-layouts-dir", files: map[string]string{"pages/p.vuego": c07Page("post"), "layouts/post.vuego": c07Layout("dir-post", "", "")}, page: "pages/p.vuego", want: []string{"dir-post", "page"}},
		c07Graph{desc: "relative-chain-from-layout-dir", files: map[string]string{"pages/p.vuego": c07Page("post"), "layouts/post.vuego": c07Layout("post", "outer", ""), "layouts/outer.vuego": c07Layout("outer", "", ""), "pages/outer.vuego": c07Layout("wrong-outer", "", "")}, page: "pages/p.vuego", want: []string{"outer", "post", "page"}},
		// layout names whose last element contains a dot: the name is still a name, `.vuego` is appended to it
		c07Graph{desc: "dotted-name-in-layouts-dir", files: map[string]string{"p.vuego": c07Page("post.amp"), "layouts/post.amp.vuego": c07Layout("post.amp", "", "")}, want: []string{"post.amp", "page"}},
		c07Graph{desc: "dotted-name-relative-before-layouts", files: map[string]string{"pages/p.vuego": c07Page("card.v2"), "pages/card.v2.vuego": c07Layout("rel-card", "", ""), "layouts/card.v2.vuego": c07Layout("dir-card", "", "")}, page: "pages/p.vuego", want: []string{"rel-card", "page"}},
		c07Graph{desc: "dotted-name-inside-chain", files: map[string]string{"p.vuego": c07Page("a"), "layouts/a.vuego": c07Layout("a", "site.min", ""), "layouts/site.min.vuego": c07Layout("site.min", "", "")}, want: []string{"site.min", "a", "page"}},
		c07Graph{desc: "dotted-name-fallback-from-subdir", files: map[string]string{"pages/p.vuego": c07Page("v1.2"), "layouts/v1.2.vuego": c07Layout("v1.2", "", "")}, page: "pages/p.vuego", want: []string{"v1.2", "page"}},
		// the rendered page IS a layout file: the default layout applied to itself is a chain of two links that ends; a named layout rendered
		// as a page goes on to the layout it names
		c07Graph{desc: "page-is-the-default-layout", files: map[string]string{"layouts/base.vuego": c07Layout("base", "", "")}, page: "layouts/base.vuego", want: []string{"base", "base"}},
		c07Graph{desc: "page-is-a-named-layout", files: map[string]string{"layouts/post.vuego": c07Layout("post", "base", ""), "layouts/base.vuego": c07Layout("base", "", "")}, page: "layouts/post.vuego", want: []string{"base", "post"}},
		c07Graph{desc: "page-is-a-layout-without-layout-key", files: map[string]string{"layouts/post.vuego": c07Layout("post", "", ""), "layouts/base.vuego": c07Layout("base", "", "")}, page: "layouts/post.vuego", want: []string{"base", "post"}},
		// the page is a COMPLETE HTML DOCUMENT: the rule does not look at the page's shape - no layout named and layouts/base.vuego there means
		// the default layout applies; a named layout applies likewise
		c07Graph{desc: "document-page-default-base", files: map[string]string{"p.vuego": "---\ntitle: PT\n---\n<!DOCTYPE html>\n<html><head><title>t</title></head><body><p data-m=\"page\">{{ title }} {{ fromfill }}</p></body></html>\n", "layouts/base.vuego": c07Layout("base", "", "")}, want: []string{"base", "page"}},
		c07Graph{desc: "bare-document-page-default-base", files: map[string]string{"p.vuego": "<html><body><p data-m=\"page\">{{ fromfill }}</p></body></html>", "layouts/base.vuego": c07Layout("base", "", "")}, want: []string{"base", "page"}},
		c07Graph{desc: "document-page-named-layout", files: map[string]string{"p.vuego": "---\ntitle: PT\nlayout: post\n---\n<!DOCTYPE html>\n<html><body><p data-m=\"page\">{{ title }} {{ fromfill }}</p></body></html>\n", "layouts/post.vuego": c07Layout("post", "", ""), "layouts/base.vuego": c07Layout("base", "", "")}, want: []string{"post", "page"}},
		c07Graph{desc: "document-page-no-base", files: map[string]string{"p.vuego": "<!DOCTYPE html>\n<html><body><p data-m=\"page\">{{ fromfill }}</p></body></html>\n"}, want: []string{"page"}},
		// a file that names ITSELF (relative resolution comes first) does not end - also when layouts/ holds a file of that name
		c07Graph{desc: "self-named-page-with-layouts-twin", files: map[string]string{"blog.vuego": c07Page("blog"), "layouts/blog.vuego": c07Layout("twin", "", "")}, page: "blog.vuego", wantErr: true},
		c07Graph{desc: "self-named-page-in-directory", files: map[string]string{"pages/post.vuego": c07Page("post.vuego"), "layouts/post.vuego": c07Layout("twin", "", "")}, page: "pages/post.vuego", wantErr: true},
		c07Graph{desc: "self-named-layout-mid-chain", files: map[string]string{"pages/a.vuego": c07Page("wrap"), "pages/wrap.vuego": c07Layout("wrap", "wrap", ""), "layouts/wrap.vuego": c07Layout("twin", "", "")}, page: "pages/a.vuego", wantErr: true},
		c07Graph{desc: "self-cycle", files: map[string]string{"p.vuego": c07Page("a"), "layouts/a.vuego": c07Layout("a", "a", "")}, wantErr: true},
		c07Graph{desc: "cycle-2", files: map[string]string{"p.vuego": c07Page("a"), "layouts/a.vuego": c07Layout("a", "b", ""), "layouts/b.vuego": c07Layout("b", "a", "")}, wantErr: true},
		c07Graph{desc: "cycle-3", files: map[string]string{"p.vuego": c07Page("a"), "layouts/a.vuego": c07Layout("a", "b", ""), "layouts/b.vuego": c07Layout("b", "c", ""), "layouts/c.vuego": c07Layout("c", "a", "")}, wantErr: true},
		c07Graph{desc: "page-names-itself", files: map[string]string{"layouts/p.vuego": c07Page("p")}, page: "layouts/p.vuego", wantErr: true},
		c07Graph{desc: "missing-target", files: map[string]string{"p.vuego": c07Page("nope")}, wantErr: true},
		c07Graph{desc: "missing-second", files: map[string]string{"p.vuego": c07Page("a"), "layouts/a.vuego": c07Layout("a", "nope", "")}, wantErr: true},
		c07Graph{desc: "data-visible-in-layouts", files: map[string]string{"p.vuego": c07Page("a"), "layouts/a.vuego": c07Layout("a", "b", "<i>{{ title }}/{{ fromfill }}</i>"), "layouts/b.vuego": c07Layout("b", "", "<b>{{ title }}|{{ fromfill }}</b>")},
			want: []string{"b", "a", "page"}, data: map[string]any{"fromfill": "FF"}, wantTxt: []string{"PT/FF", "PT|FF", "PT FF"}},
		c07Graph{desc: "layout-frontmatter-collides", files: map[string]string{"p.vuego": c07Page("a"), "layouts/a.vuego": "---\ntitle: LT\n---\n" + `<div data-m="a"><i>{{ title }}</i><div v-html="content"></div></div>`},
			want: []string{"a", "page"}, data: map[string]any{"fromfill": "FF", "title": "FILLT"}, wantTxt: []string{"PT FF", "<i>LT</i>"}},
		// a layout key that is present but empty names no layout: the default base applies iff it exists
		c07Graph{desc: "empty-layout-key-null-no-base", files: map[string]string{"p.vuego": "---\ntitle: PT\nlayout:\n---\n<p data-m=\"page\">{{ title }} {{ fromfill }}</p>"}, want: []string{"page"}},
		c07Graph{desc: "empty-layout-key-string-no-base", files: map[string]string{"p.vuego": "---\ntitle: PT\nlayout: \"\"\n---\n<p data-m=\"page\">{{ title }} {{ fromfill }}</p>"}, want: []string{"page"}},
		c07Graph{desc: "empty-layout-key-fill-no-base", files: map[string]string{"p.vuego": c07Page("")}, data: map[string]any{"fromfill": "FF", "layout": ""}, want: []string{"page"}},
		c07Graph{desc: "empty-layout-key-nil-fill-no-base", files: map[string]string{"p.vuego": c07Page("")}, data: map[string]any{"fromfill": "FF", "layout": nil}, want: []string{"page"}},
		c07Graph{desc: "empty-layout-key-with-base", files: map[string]string{"p.vuego": "---\ntitle: PT\nlayout:\n---\n<p data-m=\"page\">{{ title }} {{ fromfill }}</p>", "layouts/base.vuego": c07Layout("base", "", "")}, want: []string{"base", "page"}},
		// an inner layout's own front-matter is its own: the layouts further out still see the page's front-matter and the Fill data
		c07Graph{desc: "inner-layout-frontmatter-stays-inner", files: map[string]string{"p.vuego": c07Page("a"),
			"layouts/a.vuego": "---\ntitle: LT\nfromfill: LF\nlayout: b\n---\n" + `<div data-m="a"><i>{{ title }}/{{ fromfill }}</i><div v-html="content"></div></div>`,
			"layouts/b.vuego": "---\nlayout: c\n---\n" + `<div data-m="b"><b>{{ title }}|{{ fromfill }}</b><div v-html="content"></div></div>`,
			"layouts/c.vuego": c07Layout("c", "", "<u>{{ title }}+{{ fromfill }}</u>")},
			want: []string{"c", "b", "a", "page"}, data: map[string]any{"fromfill": "FF"}, wantTxt: []string{"PT FF", "<i>LT/LF</i>", "<b>PT|FF</b>", "<u>PT+FF</u>"}},
	)
	gs = append(gs,
		c07Graph{desc: "default-base-ignores-sibling-base", files: map[string]string{"pages/p.vuego": c07Page(""), "pages/base.vuego": c07Layout("sibling-base", "", ""), "layouts/base.vuego": c07Layout("base", "", "")}, page: "pages/p.vuego", want: []string{"base", "page"}},
		c07Graph{desc: "root-page-named-base", files: map[string]string{"base.vuego": c07Page(""), "layouts/base.vuego": c07Layout("base", "", "")}, page: "base.vuego", want: []string{"base", "page"}},
		c07Graph{desc: "sibling-base-without-layouts-base", files: map[string]string{"pages/p.vuego": c07Page(""), "pages/base.vuego": c07Layout("sibling-base", "", "")}, page: "pages/p.vuego", want: []string{"page"}},
	)
	// pages in a subdirectory with sibling files that carry layout names: reference resolver = the documented rule
	for _, base := range []bool{false, true} {
		for _, pl := range []string{"", "a", "b", "base"} {
			for sib := 0; sib < 8; sib++ { // which of a, b, base exist next to the page
				for _, al := range []string{"", "b", "base"} {
					files := map[string]string{"pages/p.vuego": c07Page(pl), "layouts/a.vuego": c07Layout("a", al, ""), "layouts/b.vuego": c07Layout("b", "", "")}
					next := map[string]string{"layouts/a.vuego": al, "layouts/b.vuego": "", "layouts/base.vuego": ""}
					if base {
						files["layouts/base.vuego"] = c07Layout("base", "", "")
					}
					for i, n := range []string{"a", "b", "base"} {
						if sib&(1<<i) != 0 {
							files["pages/"+n+".vuego"] = c07Layout("rel-"+n, "", "")
							next["pages/"+n+".vuego"] = ""
						}
					}
					resolve := func(name, from string) string {
						dir := ""
						if i := strings.LastIndex(from, "/"); i >= 0 {
							dir = from[:i+1]
						}
						if _, ok := files[dir+name+".vuego"]; ok {
							return dir + name + ".vuego"
						}
						if _, ok := files["layouts/"+name+".vuego"]; ok {
							return "layouts/" + name + ".vuego"
						}
						return ""
					}
					g := c07Graph{desc: fmt.Sprintf("subdir base=%v p>%s siblings=%d a>%s", base, pl, sib, al), files: files, page: "pages/p.vuego"}
					var chain []string
					cur, curName := "pages/p.vuego", pl
					if pl == "" && base {
						chain = []string{"layouts/base.vuego"}
					}
					bad := false
					for steps := 0; curName != "" && steps < 10; steps++ {
						f := resolve(curName, cur)
						if f == "" {
							bad = true
							break
						}
						for _, c := range chain {
							if c == f {
								bad = true
							}
						}
						if bad {
							break
						}
						chain = append(chain, f)
						cur, curName = f, next[f]
					}
					if bad {
						g.wantErr = true
					} else {
						for i := len(chain) - 1; i >= 0; i-- {
							m := c07MarkRe.FindStringSubmatch(files[chain[i]])
							g.want = append(g.want, m[1])
						}
						g.want = append(g.want, "page")
					}
					gs = append(gs, g)
				}
			}
		}
	}
	// chains of every length around the documented limit (100 links)
	for _, n := range []int{1, 5, 98, 99, 100, 101, 150} {
		files := map[string]string{"p.vuego": c07Page("l1")}
		var want []string
		for i := 1; i <= n; i++ {
			next := ""
			if i < n {
				next = fmt.Sprintf("l%d", i+1)
			}
			files[fmt.Sprintf("layouts/l%d.vuego", i)] = c07Layout(fmt.Sprintf("l%d", i), next, "")
		}
		for i := n; i >= 1; i-- {
			want = append(want, fmt.Sprintf("l%d", i))
		}
		want = append(want, "page")
		g := c07Graph{desc: fmt.Sprintf("chain-length-%d", n), files: files, want: want}
		if n+1 > 100 { // page + n layouts = n+1 links
			g.wantErr, g.want = true, nil
		}
		gs = append(gs, g)
	}
	// all graphs over a small file set: page -> one of {none, a, b, c}; each layout -> one of {none, a, b, c}; base present or absent
	names := []string{"", "a", "b", "c"}
	lim := 3
	if thorough {
		lim = 4
	}
	for _, base := range []bool{false, true} {
		for _, pl := range names[:lim] {
			for _, al := range names[:lim] {
				for _, bl := range names[:lim] {
					for _, cl := range names[:lim] {
						next := map[string]string{"a": al, "b": bl, "c": cl}
						files := map[string]string{"p.vuego": c07Page(pl)}
						for _, n := range names[1:lim] {
							files["layouts/"+n+".vuego"] = c07Layout(n, next[n], "")
						}
						if base {
							files["layouts/base.vuego"] = c07Layout("base", "", "")
						}
						// walk
						var chain []string
						cur := pl
						seen := map[string]bool{}
						cyc := false
						if cur == "" && base {
							chain = []string{"base"}
						}
						for cur != "" {
							if seen[cur] {
								cyc = true
								break
							}
							seen[cur] = true
							chain = append(chain, cur)
							cur = next[cur]
						}
						g := c07Graph{desc: fmt.Sprintf("graph base=%v p>%s a>%s b>%s c>%s", base, pl, al, bl, cl), files: files}
						if cyc {
							g.wantErr = true
						} else {
							for i := len(chain) - 1; i >= 0; i-- {
								g.want = append(g.want, chain[i])
							}
							g.want = append(g.want, "page")
						}
						gs = append(gs, g)
					}
				}
			}
		}
	}
	return gs
}

var c07MarkRe = regexp.MustCompile(`data-m="([^"]+)"`)
var c07LayoutRe = regexp.MustCompile(`(?m)^layout: (\S+)\r?$`)

func c07Eval(g c07Graph) *Case {
	page := g.page
	if page == "" {
		page = "p.vuego"
	}
	data := g.data
	if data == nil {
		data = map[string]any{"fromfill": "FF"}
	}
	res := renderPage(g.files, page, data)
	// model input: every file with the layout key of its front-matter; the engine is abstracted to "wrap in the file's own marker"
	var fl []any
	marker := map[string]string{}
	for n, src := range g.files {
		l := ""
		if m := c07LayoutRe.FindStringSubmatch(src); m != nil && m[1] != `""` {
			l = m[1]
		}
		fl = append(fl, []any{n, l})
		if m := c07MarkRe.FindStringSubmatch(src); m != nil {
			marker[m[1]] = n
		}
	}
	sort.Slice(fl, func(i, j int) bool { return fl[i].([]any)[0].(string) < fl[j].([]any)[0].(string) })
	var impl map[string]any
	if res.Err != "" || res.Panic != "" || res.Timeout {
		impl = map[string]any{"err": true}
	} else {
		names := []any{}
		for _, m := range c07MarkRe.FindAllStringSubmatch(res.Out, -1) {
			names = append(names, marker[m[1]])
		}
		impl = map[string]any{"ok": names}
	}
	c := &Case{Name: g.desc, Op: true, Input: map[string]any{"op": "layout", "desc": g.desc, "files": fl, "page": page}, Impl: impl, Key: g.desc, Oracle: &Verdict{OK: true}, Tags: []string{"graph"}}
	cls := strings.SplitN(g.desc, " ", 2)[0]
	switch {
	case res.Timeout:
		c.Oracle = &Verdict{OK: false, Class: "hang:" + cls, Detail: g.desc}
	case res.Panic != "":
		c.Oracle = &Verdict{OK: false, Class: "panic:" + cls, Detail: res.Panic}
	case g.wantErr && res.Err == "":
		c.Oracle = &Verdict{OK: false, Class: "no-error:" + cls, Detail: fmt.Sprintf("%s: chain does not end but render succeeded: %q", g.desc, res.Out)}
	case g.wantErr && res.Out != "":
		c.Oracle = &Verdict{OK: false, Class: "output-with-error:" + cls, Detail: res.Out}
	case !g.wantErr && res.Err != "":
		c.Oracle = &Verdict{OK: false, Class: "spurious-error:" + cls, Detail: g.desc + ": " + res.Err}
	case !g.wantErr:
		var got []string
		for _, m := range c07MarkRe.FindAllStringSubmatch(res.Out, -1) {
			got = append(got, m[1])
		}
		if strings.Join(got, ">") != strings.Join(g.want, ">") {
			c.Oracle = &Verdict{OK: false, Class: "nesting:" + cls, Detail: fmt.Sprintf("%s: markers %v, expected %v; output %q", g.desc, got, g.want, res.Out)}
		}
		for _, t := range g.wantTxt {
			if !strings.Contains(res.Out, t) && c.Oracle.OK {
				c.Oracle = &Verdict{OK: false, Class: "data-visibility:" + cls, Detail: fmt.Sprintf("%s: %q not found in %q", g.desc, t, res.Out)}
			}
		}
	}
	return c
}

func runC07(r *Run, replay *Case) {
	gs := c07Graphs(r.Thorough() || replay != nil)
	if replay != nil {
		if replay.Input["op"] == "history" {
			c07History(r)
			return
		}
		if replay.Input["op"] == "layoutdata" {
			c07DataReplay(r, replay)
			return
		}
		for _, g := range gs {
			if g.desc == replay.Input["desc"] {
				r.Add(c07Eval(g))
			}
			if g.desc+" crlf" == replay.Input["desc"] {
				g2 := g
				g2.desc = g.desc + " crlf"
				g2.files = map[string]string{}
				for n, src := range g.files {
					g2.files[n] = strings.ReplaceAll(src, "\n", "\r\n")
				}
				r.Add(c07Eval(g2))
			}
		}
		return
	}
	r.Res.Rule = "all layout graphs over {page, a, b, c} (each naming none or one of a/b/c) x layouts/base.vuego present/absent; chains of length 1,5,98,99,100,101,150; cycles of length 1-3; " +
		"missing targets; relative vs layouts/ resolution; colliding data keys; data stream: random graphs over page + 5 layouts with random front-matter, Fill data and config, " +
		"every link printing three probe variables (model: Layout.dataLoop; oracle: own front-matter, page front-matter, Fill data, config); non-trivial = every graph; the graph stream is exhaustive within its file set"
	for _, g := range gs {
		r.Add(c07Eval(g))
	}
	// the same graphs with every file stored with CRLF line ends (a Windows checkout): the front-matter fence, the layout key and the
	// chain are the same
	for _, g := range gs {
		if strings.HasPrefix(g.desc, "chain-length") {
			continue
		}
		g2 := g
		g2.desc = g.desc + " crlf"
		g2.files = map[string]string{}
		for n, src := range g.files {
			g2.files[n] = strings.ReplaceAll(src, "\n", "\r\n")
		}
		r.Add(c07Eval(g2))
	}
	c07DataStream(r)
	c07History(r)
}
