package main

// C13 — parameter conversion matrix: every registered function with a concretely typed parameter x argument values of every Go type,
// zero and non-zero alike ("automatically converted when possible", docs/funcmap.md): the reference below is the documented rule written
// out; an impossible conversion must fail the render with an error that names the function.

import (
	"fmt"
	"regexp"
	"strconv"
	"strings"

	vuego "github.com/titpetric/vuego"
)

type c13Arg struct {
	name string
	v    any
}

var c13Args = []c13Arg{{"n", 7}, {"z", 0}, {"f", 2.5}, {"fz", 0.0}, {"digits", "21"}, {"zs", "0"}, {"e", ""}, {"s", "abc"}, {"yes", true}, {"no", false}, {"i8", int8(0)}, {"u", uint(0)}, {"i64", int64(-3)}, {"f32", float32(0)}}

// reference conversion to the parameter kind; ok=false: impossible
func c13ConvRef(v any, kind string) (any, bool) {
	switch kind {
	case "string":
		return fmt.Sprint(v), true
	case "int", "uint8":
		switch x := v.(type) {
		case int:
			return int64(x), true
		case int8:
			return int64(x), true
		case int64:
			return x, true
		case uint:
			return int64(x), true
		case float64:
			return int64(x), true
		case float32:
			return int64(x), true
		case string:
			n, err := strconv.ParseInt(x, 10, 64)
			return n, err == nil
		}
		return nil, false
	case "float":
		switch x := v.(type) {
		case int:
			return float64(x), true
		case int8:
			return float64(x), true
		case int64:
			return float64(x), true
		case uint:
			return float64(x), true
		case float64:
			return x, true
		case float32:
			return float64(x), true
		case string:
			f, err := strconv.ParseFloat(x, 64)
			return f, err == nil
		}
		return nil, false
	case "bool":
		switch x := v.(type) {
		case bool:
			return x, true
		case string:
			b, err := strconv.ParseBool(x)
			return b, err == nil
		}
		return nil, false
	}
	return nil, false
}

var c13ConvRe = regexp.MustCompile(`\[\[(.*?)\]\]`)

func c13ConvCases(r *Run) {
	type fn struct {
		name, kind string
		apply      func(any) string
	}
	fns := []fn{
		{"double", "int", func(v any) string { return fmt.Sprint(v.(int64) * 2) }},
		{"money", "float", func(v any) string { return fmt.Sprintf("$%.2f", v.(float64)) }},
		{"yesno", "bool", func(v any) string {
			if v.(bool) {
				return "yes"
			}
			return "no"
		}},
		{"strict", "string", func(v any) string { return "<" + v.(string) + ">" }},
		{"u8", "uint8", func(v any) string { return fmt.Sprint(uint8(v.(int64)) + 1) }},
	}
	data := map[string]any{}
	for _, a := range c13Args {
		data[a.name] = a.v
	}
	for _, f := range fns {
		for _, a := range c13Args {
			if f.kind == "uint8" && a.name == "i64" {
				continue // negative to unsigned: wrap-around is Go's conversion, not a documented rule
			}
			for _, syn := range []string{"pipe", "call"} {
				expr := a.name + " | " + f.name
				if syn == "call" {
					expr = f.name + "(" + a.name + ")"
				}
				tpl := "<p>[[{{ " + expr + " }}]]</p>"
				res := renderPage(map[string]string{"p.vuego": tpl}, "p.vuego", data, vuego.WithFuncs(c13Funcs()))
				c := &Case{Name: "conv " + expr, Input: map[string]any{"stream": "conv", "expr": expr, "tpl": tpl}, Impl: res.canon(), Oracle: &Verdict{OK: true}, Key: "conv|" + expr, Tags: []string{"stream:conv", "param:" + f.kind, "syntax:" + syn}}
				cv, ok := c13ConvRef(a.v, f.kind)
				cls := fmt.Sprintf("conv:%s-param:%T", f.kind, a.v)
				switch {
				case res.Panic != "" || res.Timeout:
					c.Oracle = &Verdict{OK: false, Class: cls, Detail: fmt.Sprintf("%+v", res)}
				case !ok:
					if res.Err == "" {
						c.Oracle = &Verdict{OK: false, Class: cls, Detail: fmt.Sprintf("{{ %s }} with %s=%#v: the conversion to %s is impossible, the render must fail with an error naming %s; it printed %q", expr, a.name, a.v, f.kind, f.name, res.Out)}
					} else if !strings.Contains(res.Err, f.name) {
						c.Oracle = &Verdict{OK: false, Class: cls, Detail: fmt.Sprintf("{{ %s }}: the error does not name %s: %s", expr, f.name, res.Err)}
					}
				default:
					want := f.apply(cv)
					m := c13ConvRe.FindStringSubmatch(res.Out)
					if res.Err != "" || m == nil || htmlUnescape(m[1]) != want {
						c.Oracle = &Verdict{OK: false, Class: cls, Detail: fmt.Sprintf("{{ %s }} with %s=%#v prints %q (err %q), expected %q", expr, a.name, a.v, res.Out, res.Err, want)}
					}
				}
				r.Add(c)
			}
		}
	}
}
