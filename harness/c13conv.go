package main

// C13 — parameter conversion matrix: every registered function with a concretely typed parameter x argument values of every Go type,
// zero and non-zero alike ("automatically converted when possible", docs/funcmap.md): the reference below is the documented rule written
// out; an impossible conversion must fail the render with an error that names the function.

import (
	"fmt"
	"regexp"
	"strconv"
	"strings"

	vuego "github.com/titpetric/vuego"
)

type c13Arg struct {
	name string
	v    any
}

var c13Args = []c13Arg{{"n", 7}, {"z", 0}, {"f", 2.5}, {"fz", 0.0}, {"digits", "21"}, {"zs", "0"}, {"e", ""}, {"s", "abc"}, {"yes", true}, {"no", false}, {"i8", int8(0)}, {"u", uint(0)}, {"i64", int64(-3)}, {"f32", float32(0)}}

// reference conversion to the parameter kind; ok=false: impossible
func c13ConvRef(v any, kind string) (any, bool) {
	switch kind {
	case "string":
		return fmt.Sprint(v), true
	case "int", "uint8":
		switch x := v.(type) {
		case int:
			return int64(x), true
		case int8:
			return int64(x), true
		case int64:
			return x, true
		case uint:
			return int64(x), true
		case float64:
			return int64(x), true
		case float32:
			return int64(x), true
		case string:
			n, err := strconv.ParseInt(x, 10, 64)
			return n, err == nil
		}
		return nil, false
	case "float":
		switch x := v.(type) {
		case int:
			return float64(x), true
		case int8:
			return float64(x), true
		case int64:
			return float64(x), true
		case uint:
			return float64(x), true
		case float64:
			return x, true
		case float32:
			return float64(x), true
		case string:
			f, err := strconv.ParseFloat(x, 64)
			return f, err == nil
		}
		return nil, false
	case "bool":
		switch x := v.(type) {
		case bool:
			return x, true
		case string:
			b, err := strconv.ParseBool(x)
			return b, err == nil
		}
		return nil, false
	}
	return nil, false
}

var c13ConvRe = regexp.MustCompile(`\[\[(.*?)\]\]`)

func c13ConvCases(r *Run) {
	type fn struct {
		name, kind string
		apply      func(any) string
	}
	fns := []fn{
		{"double", "int", func(v any) string { return fmt.Sprint(v.(int64) * 2) }},
		{"money", "float", func(v any) string { return fmt.Sprintf("$%.2f", v.(float64)) }},
		{"yesno", "bool", func(v any) string {
			if v.(bool) {
				return "yes"
			}
			return "no"
		}},
		{"strict", "string", func(v any) string { return "<" + v.(string) + ">" }},
		{"u8", "uint8", func(v any) string { return fmt.Sprint(uint8(v.(int64)) + 1) }},
	}
	data := map[string]any{}
	for _, a := range c13Args {
		data[a.name] = a.v
	}
	for _, f := range fns {
		for _, a := range c13Args {
			if f.kind == "uint8" && a.name == "i64" {
				continue // negative to unsigned: wrap-around is Go's conversion, not a documented rule
			}
			for _, syn := range []string{"pipe", "call"} {
				expr := a.name + " | " + f.name
				if syn == "call" {
					expr = f.name + "(" + a.name + ")"
				}
				tpl := "<p>[[{{ " + expr + " }}]]</p>"
				res := renderPage(map[string]string{"p.vuego": tpl}, "p.vuego", data, vuego.WithFuncs(c13Funcs()))
				c := &Case{Name: "conv " + expr, Input: map[string]any{"stream": "conv", "expr": expr, "tpl": tpl}, Impl: res.canon(), Oracle: &Verdict{OK: true}, Key: "conv|" + expr, Tags: []string{"stream:conv", "param:" + f.kind, "syntax:" + syn}}
				cv, ok := c13ConvRef(a.v, f.kind)
				cls := fmt.Sprintf("conv:%s-param:%T", f.kind, a.v)
				switch {
				case res.Panic != "" || res.Timeout:
					c.Oracle = &Verdict{OK: false, Class: cls, Detail: fmt.Sprintf("%+v", res)}
				case !ok:
					if res.Err == "" {
						c.Oracle = &Verdict{OK: false, Class: cls, Detail: fmt.Sprintf("{{ %s }} with %s=%#v: the conversion to %s is impossible, the render must fail with an error naming %s; it printed %q", expr, a.name, a.v, f.kind, f.name, res.Out)}
					} else if !strings.Contains(res.Err, f.name) {
						c.Oracle = &Verdict{OK: false, Class: cls, Detail: fmt.Sprintf("{{ %s }}: the error does not name %s: %s", expr, f.name, res.Err)}
					}
				default:
					want := f.apply(cv)
					m := c13ConvRe.FindStringSubmatch(res.Out)
					if res.Err != "" || m == nil || htmlUnescape(m[1]) != want {
						c.Oracle = &Verdict{OK: false, Class: cls, Detail: fmt.Sprintf("{{ %s }} with %s=%#v prints %q (err %q), expected %q", expr, a.name, a.v, res.Out, res.Err, want)}
					}
				}
				r.Add(c)
			}
		}
	}
}

// C13 — the same expression text evaluated with variables of DIFFERENT Go types on one engine (compiled-program cache): every evaluation
// must give what a fresh engine gives for that environment — across renders, and within one render over mixed-type loop items.
type c13User struct {
	Name string
	Age  int
}

func c13TypeAlternation(r *Run) {
	exprs := []string{"n == 1", "n + 1", "n > 0", "n * 2 == 2", "u.Age >= 18", "u.Name == 'Bob'", "xs[0] == 1", "len(xs) == 1", "s == 'a'", "n == 1 ? 'one' : 'other'", "!b", "b && n == 1"}
	envs := []map[string]any{
		{"n": 1, "u": c13User{"Bob", 30}, "xs": []any{1}, "s": "a", "b": true},
		{"n": 1.0, "u": map[string]any{"Name": "Bob", "Age": 30}, "xs": []int{1}, "s": "a", "b": false},
		{"n": int64(1), "u": &c13User{"Bob", 17}, "xs": []float64{1}, "s": "b", "b": true},
		{"n": "1", "u": map[string]any{"Name": "Al", "Age": 18.0}, "xs": []any{1.0}, "s": "a", "b": true},
	}
	tplOf := func(pos, e string) string {
		switch pos {
		case "text":
			return "<p>[[{{ " + strings.ReplaceAll(e, "<", "&lt;") + " }}]]</p>"
		case "attr":
			return `<p :title="` + e + `">x</p>`
		case "if":
			return `<p v-if="` + e + `">[[T]]</p><p v-else>[[F]]</p>`
		}
		return `<p v-show="` + e + `">x</p>`
	}
	for _, e := range exprs {
		for _, pos := range []string{"text", "attr", "if", "show"} {
			tpl := tplOf(pos, e)
			files := map[string]string{"p.vuego": tpl}
			for _, order := range [][]int{{0, 1, 2, 3, 0}, {1, 0, 3, 2}, {3, 2, 1, 0}} {
				shared := newEngine(files)
				for step, ei := range order {
					got := renderOn(shared, "p.vuego", envs[ei])
					want := renderPage(files, "p.vuego", envs[ei])
					c := &Case{Name: fmt.Sprintf("type alternation %s in %s, env order %v step %d", e, pos, order, step), Input: map[string]any{"stream": "alternation", "expr": e, "pos": pos, "order": order, "step": step},
						Impl: got.canon(), Oracle: &Verdict{OK: true}, Key: fmt.Sprintf("alt|%s|%s|%v|%d", e, pos, order, step), Tags: []string{"stream:type-alternation", "pos:" + pos}}
					if got.Out != want.Out || (got.Err == "") != (want.Err == "") {
						c.Oracle = &Verdict{OK: false, Class: "expr-depends-on-earlier-evaluations:" + pos, Detail: fmt.Sprintf("%s with environment #%d after environments %v on the same engine gives %q / err %q; a fresh engine gives %q / err %q", e, ei, order[:step], got.Out, got.Err, want.Out, want.Err)}
					}
					r.Add(c)
				}
			}
		}
	}
	// within one render: the same expression over loop items of different types
	for _, e := range []string{"x == 1", "x + 1", "x > 0", "x.Age >= 18"} {
		items := []any{1, 1.0, int64(1), 2}
		if strings.Contains(e, "Age") {
			items = []any{c13User{"a", 30}, map[string]any{"Age": 30}, &c13User{"b", 3}, map[string]any{"Age": 3.0}}
		}
		loop := `<p v-for="x in items">[[{{ ` + e + ` }}]]</p>`
		got := renderPage(map[string]string{"p.vuego": loop}, "p.vuego", map[string]any{"items": items})
		var want []string
		for _, it := range items {
			one := renderPage(map[string]string{"p.vuego": loop}, "p.vuego", map[string]any{"items": []any{it}})
			want = append(want, c13ConvRe.FindAllString(one.Out, -1)...)
		}
		c := &Case{Name: "mixed-type loop " + e, Input: map[string]any{"stream": "alternation-loop", "expr": e}, Impl: got.canon(), Oracle: &Verdict{OK: true}, Key: "altloop|" + e, Tags: []string{"stream:type-alternation"}}
		if g := c13ConvRe.FindAllString(got.Out, -1); strings.Join(g, "") != strings.Join(want, "") || got.Err != "" {
			c.Oracle = &Verdict{OK: false, Class: "expr-depends-on-earlier-evaluations:loop", Detail: fmt.Sprintf("%s over %v prints %v (err %q); item by item on fresh engines: %v", e, items, g, got.Err, want)}
		}
		r.Add(c)
	}
}
