package main

// C11 — every render returns. Include/layout graphs run in isolated child processes (a stack overflow is fatal, not a panic);
// wrong-typed data and mutated byte strings run in-process under recover with a wall-clock limit.

import (
	"bytes"
	"context"
	"fmt"
	"math"
	"strings"
	"testing/fstest"
	"io/fs"
	"time"

	vuego "github.com/titpetric/vuego"
)

func init() { props["C11"] = runC11 }

type c11Graph struct {
	desc    string
	files   map[string]string
	wantErr bool
}

func c11Graphs() []c11Graph {
	inc := func(f string) string { return `<template include="` + f + `"></template>` }
	gs := []c11Graph{
		{"self-include", map[string]string{"p.vuego": "<p>x</p>" + inc("p.vuego")}, true},
		{"cycle-2", map[string]string{"p.vuego": inc("a.vuego"), "a.vuego": "<i>a</i>" + inc("p.vuego")}, true},
		{"cycle-3", map[string]string{"p.vuego": inc("a.vuego"), "a.vuego": inc("b.vuego"), "b.vuego": "<i>b</i>" + inc("a.vuego")}, true},
		{"cycle-via-slot-content", map[string]string{"p.vuego": `<template include="a.vuego">` + inc("p.vuego") + `</template>`, "a.vuego": "<div><slot></slot></div>"}, true},
		{"slot-inside-supplied-content", map[string]string{"p.vuego": `<template include="a.vuego"><slot></slot></template>`, "a.vuego": "<div><slot>fb</slot></div>"}, false},
		{"named-slot-inside-supplied-content", map[string]string{"p.vuego": `<template include="a.vuego"><template #x><slot name="x">pfb</slot></template></template>`, "a.vuego": `<div><slot name="x">fb</slot></div>`}, false},
		{"slot-inside-slot-fallback", map[string]string{"p.vuego": `<template include="a.vuego"></template>`, "a.vuego": "<div><slot><slot>inner-fb</slot></slot></div>"}, false},
		{"cycle-via-slot-fallback", map[string]string{"p.vuego": inc("a.vuego"), "a.vuego": `<div><slot>` + inc("a.vuego") + `</slot></div>`}, true},
		{"cycle-via-named-slot", map[string]string{"p.vuego": `<template include="a.vuego"><template #b="q">` + inc("p.vuego") + `</template></template>`, "a.vuego": `<div><slot name="b" :v="1"></slot></div>`}, true},
		{"cycle-in-loop", map[string]string{"p.vuego": `<div v-for="x in items">` + inc("p.vuego") + `</div>`}, true},
		{"cycle-in-vif", map[string]string{"p.vuego": `<div v-if="items">` + inc("p.vuego") + `</div>`}, true},
		{"cycle-through-component-tag", map[string]string{"p.vuego": `<loop-er></loop-er>`, "components/LoopEr.vuego": `<loop-er></loop-er>`}, true},
		{"slot-twice-inplace-template-content", map[string]string{"p.vuego": `<template include="m.vuego"><template v-html="items"></template></template>`, "m.vuego": `<div class="marquee"><slot></slot><slot></slot></div>`}, false},
		{"slot-looped-inplace-template-content", map[string]string{"p.vuego": `<template include="m.vuego"><template v-html="items"></template></template>`, "m.vuego": `<ul><slot v-for="n in items"></slot></ul>`}, false},
		{"slot-twice-inplace-template-and-text", map[string]string{"p.vuego": `<template include="m.vuego">x<template v-html="items"></template></template>`, "m.vuego": `<section><slot></slot><slot></slot></section>`}, false},
		{"diamond-no-cycle", map[string]string{"p.vuego": inc("a.vuego") + inc("b.vuego"), "a.vuego": inc("c.vuego"), "b.vuego": inc("c.vuego"), "c.vuego": "<i>c</i>"}, false},
		{"deep-chain-60", nil, false},
		{"layout-cycle", map[string]string{"p.vuego": "---\nlayout: a\n---\n<p>x</p>", "layouts/a.vuego": "---\nlayout: b\n---\n<div v-html=\"content\"></div>", "layouts/b.vuego": "---\nlayout: a\n---\n<div v-html=\"content\"></div>"}, true},
		{"layout-self", map[string]string{"p.vuego": "---\nlayout: a\n---\n<p>x</p>", "layouts/a.vuego": "---\nlayout: a\n---\n<div v-html=\"content\"></div>"}, true},
		{"missing-include", map[string]string{"p.vuego": inc("nope.vuego")}, true},
		{"missing-layout", map[string]string{"p.vuego": "---\nlayout: nope\n---\n<p>x</p>"}, true},
	}
	deep := map[string]string{"p.vuego": inc("f0.vuego")}
	for i := 0; i < 60; i++ {
		deep[fmt.Sprintf("f%d.vuego", i)] = fmt.Sprintf("<i>%d</i>", i) + inc(fmt.Sprintf("f%d.vuego", i+1))
	}
	deep["f60.vuego"] = "<b>end</b>"
	for i := range gs {
		if gs[i].desc == "deep-chain-60" {
			gs[i].files = deep
		}
	}
	// output nested deeper than any fixed bound: by markup (150 and 400 nested elements in one file) and by a chain of components each of
	// which wraps the next include in a list (70 files, two element levels each - well inside the include limit)
	for _, n := range []int{120, 150, 400} {
		gs = append(gs, c11Graph{fmt.Sprintf("deep-markup-%d", n), map[string]string{"p.vuego": strings.Repeat("<div>", n) + "<b>leaf {{ items }}</b>" + strings.Repeat("</div>", n)}, false})
	}
	nested := map[string]string{"p.vuego": inc("f0.vuego")}
	for i := 0; i < 70; i++ {
		nested[fmt.Sprintf("f%d.vuego", i)] = fmt.Sprintf("<ul><li><i>%d</i>", i) + inc(fmt.Sprintf("f%d.vuego", i+1)) + "</li></ul>"
	}
	nested["f70.vuego"] = "<b>end</b>"
	gs = append(gs, c11Graph{"deep-chain-nested-70", nested, false})
	// slots a page hands to its layout (`<template #name>` in the page, `<slot name>` in the layout or in a component the layout includes):
	// every way of using such a slot (once, twice in a row, twice apart, three times, per loop iteration, through a component) x every
	// shape of content (one node, two nodes, text, content that itself contains the slot, two slots that contain each other)
	uses := [][2]string{
		{"once", `<div><slot name="side"></slot></div>`},
		{"twice-row", `<div><slot name="side"></slot><slot name="side"></slot></div>`},
		{"twice-apart", `<div><slot name="side"></slot><hr><slot name="side"></slot><i>after</i></div>`},
		{"three", `<div><slot name="side"></slot><slot name="side"></slot><slot name="side"></slot></div>`},
		{"top-level", `<slot name="side"></slot><slot name="side"></slot>`},
		{"in-loop", `<ul><li v-for="x in items"><slot name="side"></slot></li></ul><slot name="side"></slot>`},
		{"loop-on-slot", `<div><slot v-for="x in items" name="side"></slot></div>`},
		{"in-component", `<div><template include="box.vuego"></template><template include="box.vuego"></template></div>`},
		{"with-foot", `<div><slot name="side"></slot><slot name="foot"></slot><slot name="side"></slot><slot name="foot"></slot></div>`},
	}
	contents := [][2]string{
		{"one-node", `<template #side><nav>{{ t }}</nav></template>`},
		{"two-nodes", `<template #side><nav>n</nav><b>two</b></template>`},
		{"text", `<template #side>just text</template>`},
		{"self", `<template #side><nav><slot name="side"></slot></nav></template>`},
		{"mutual", `<template #side><nav><slot name="foot"></slot></nav></template><template #foot><b><slot name="side"></slot></b></template>`},
		{"scoped", `<template #side="p"><nav>{{ p.k }}</nav></template>`},
	}
	for _, up := range uses {
		for _, cp := range contents {
			un, u, cn, c := up[0], up[1], cp[0], cp[1]
			gs = append(gs, c11Graph{"layout-slot:" + un + ":" + cn, map[string]string{
				"p.vuego":            "---\nlayout: main\nt: T\n---\n" + c + "\n<p>body</p>\n",
				"layouts/main.vuego": u + "\n<main v-html=\"content\"></main>\n",
				"box.vuego":          `<section><slot name="side" :k="1">fb</slot></section>`,
			}, false})
		}
	}
	return gs
}

func c11GraphEval(g c11Graph) *Case {
	c := &Case{Name: g.desc, Input: map[string]any{"stream": "graph", "desc": g.desc}, Key: "graph:" + g.desc, Tags: []string{"stream:graph"}}
	opts := []vuego.LoadOption{}
	if _, ok := g.files["components/LoopEr.vuego"]; ok {
		opts = append(opts, vuego.WithComponents())
	}
	res := renderPage(g.files, "p.vuego", map[string]any{"items": []any{1, 2}}, opts...)
	c.Impl = res.canon()
	v := &Verdict{OK: true}
	c.Oracle = v
	switch {
	case res.Timeout:
		v.OK, v.Class, v.Detail = false, "hang:"+g.desc, "no result in time"
	case res.Panic != "":
		v.OK, v.Class, v.Detail = false, "panic:"+g.desc, res.Panic
	case g.wantErr && res.Err == "":
		v.OK, v.Class, v.Detail = false, "no-error:"+g.desc, "a non-terminating or broken graph rendered without error: "+res.Out
	case !g.wantErr && res.Err != "":
		v.OK, v.Class, v.Detail = false, "spurious-error:"+g.desc, res.Err
	case g.wantErr && res.Out != "":
		v.OK, v.Class, v.Detail = false, "output-with-error:"+g.desc, res.Out
	}
	return c
}

// wrong-typed data in every directive position
var c11Templates = []string{
	`<p v-if="x">a</p><p v-else-if="x.y">b</p><p v-else>c</p>`, `<p v-for="i in x">{{ i }}</p>`, `<p v-for="(k, v) in x">{{ k }}{{ v }}</p>`, `<p v-show="x">a</p>`,
	`<p :title="x">a</p>`, `<p :class="x" class="s">a</p>`, `<p :style="x" style="color:red">a</p>`, `<p :class="{a: x}">a</p>`, `<p :style="{color: x}">a</p>`,
	`<p v-html="x"></p>`, `<p v-text="x"></p>`, `<p>{{ x }}</p>`, `<p>{{ x.y.z }}</p>`, `<p>{{ x[0] }}</p>`, `<p>{{ x | upper }}</p>`, `<p>{{ x | len }}</p>`, `<p>{{ len(x) }}</p>`, `<p>{{ x | default("d") }}</p>`,
	`<p>{{ x + 1 }}</p>`, `<p>{{ x == 1 }}</p>`, `<p v-if="x > 1">a</p>`, `<p v-if="!x">a</p>`, `<template include="c.vuego" :p="x"></template>`, `<template :y="x">{{ y }}</template>`,
	`<p>{{ x | json }}</p>`, `<p>{{ x | int }}</p>`, `<p>{{ x | string }}</p>`, `<p>{{ x | formatTime("2006") }}</p>`, `<p>{{ x | title }}</p>`, `<p>{{ x.secret }}</p>`, `<p>{{ x.1 }}</p>`, `<p v-for="i in x.Items">{{ i }}</p>`,
	`<p :title="x.hidden">a</p>`, `<p v-if="x.secret">a</p>`, `<slot :p="x">f</slot>`, `<p v-once v-for="i in x">{{ i }}</p>`,
	// values that become style declarations, class names, quoted literals
	`<p :style="{content: x, color: x}">a</p>`, `<p style="a: b" :style="{content: x}" v-show="x">a</p>`, `<p :class="{a: x}" :class="x" class="k">a</p>`, `<p :style="x" style="x: y">a</p>`, `<p>{{ x | default(x) | upper | trim }}</p>`,
	`<p :title="x + x">a</p>`, `<p v-for="c in x">{{ c }}</p>`,
	// indexes outside the collection, negative ones included, in every position that resolves a path
	`<p>{{ x[-1] }}|{{ x[-5] }}|{{ x[99] }}</p>`, `<p :title="x[-3]" :class="{k: x[-2]}">a</p>`, `<p v-for="i in x[-1]">{{ i }}</p>`, `<p v-if="x[-9].k">a</p><p v-else>b</p>`, `<p v-text="x[-1]"></p><p v-html="x[-4]"></p>`,
	`<p>{{ x[-1][-1] }}{{ x.y[-1] }}{{ x | default(x[-7]) }}</p>`,
	// names promoted from an embedded struct, by Go name and by JSON tag, directly and through a loop variable (the embedded pointer may be nil)
	`<p>{{ x.created }}|{{ x.Created }}|{{ x.ID }}|{{ x.note }}</p>`, `<p>{{ x.Base.Created }}{{ x.Base.created }}</p>`, `<p v-for="p in x">{{ p.created }}{{ p.ID }}{{ p.Base }}</p>`,
	`<p v-if="x.created">a</p><p :title="x.created" :class="{k: x.ID}">b</p>`, `<p>{{ x.n5.created }}{{ x.n5.ID }}{{ x.title }}</p>`,
}

func c11Data() []any {
	var np *S2
	return []any{nil, true, 0, 1, int8(3), uint64(9), 2.5, "", "str", []any{}, []any{1, "a", nil}, []int{1, 2}, [2]int{3, 4}, map[string]any{}, map[string]any{"y": map[string]any{"z": 1}}, map[string]string{"y": "s"},
		map[int]string{1: "x"}, map[string]int{"y": 1}, S1{Name: "n", secret: "s", hidden: 1, Items: []int{1}}, &S1{Name: "p"}, np, S2{X: 1}, []S2{{1, "a"}}, MyStr("m"), MyInt(2), func() {}, make(chan int), struct{ a int }{1}, time.Unix(0, 0), []byte("bytes"), [][]any{{1}},
		S5{}, S5{Base: &Base{Created: "c", ID: 2}, Title: "t"}, &S5{}, []S5{{}, {Base: &Base{Created: "d"}}}, S4{Base: Base{Created: "e"}, Title: "t4"}, map[string]any{"n5": S5{}, "title": "T"}, []*S5{nil, {}},
		// maps whose keys are interface values of DIFFERENT kinds (what YAML gives for `{404: a, default: b}`), of several numeric kinds, keyed
		// by floats (NaN included), bools, structs, pointers, arrays
		map[any]any{1: "a", "two": "b"}, map[any]any{404: "nf", 500: "err", "default": "oops"}, map[any]any{1: "i", 2.5: "f", uint(3): "u", int8(4): "i8"}, map[any]any{true: "t", "x": 1, nil: "n"},
		map[float64]string{2.5: "a", math.NaN(): "nan", math.Inf(-1): "-inf"}, map[bool]int{true: 1, false: 0}, map[S2]string{{1, "a"}: "s1", {0, ""}: "s0"}, map[*S2]int{nil: 0, {X: 1}: 1}, map[[2]int]string{{1, 2}: "a", {0, 9}: "b"},
		map[any]any{S2{1, "a"}: 1, "s": 2, 3: []any{nil}}, map[uint8]any{200: nil, 3: map[any]any{1: 1, "1": 2}}, map[MyStr]int{"m": 1, "a": 2}, map[MyInt]string{2: "two", 1: "one"},
		// strings that are nothing but the characters the attribute / style / class / pipe code strips, splits at or looks for
		// numbers at the edges: negative, the extremes of the 64-bit kinds, infinities and NaN (a count, an index, a size somewhere?)
		// NAMED numeric types, unsigned ones included (a permission mask, a file mode, a duration): their truth and printing follow the underlying kind
		MyU8(3), MyU8(0), MyUint(7), MyUint(0), fs.FileMode(0o644), fs.FileMode(0), MyF32(1.5), MyF32(0), time.Duration(5), []MyU8{1, 0}, map[string]any{"perm": MyU8(5)},
		-1, int64(-3), float64(-2), int32(-7), float32(-1), int64(math.MinInt64), int64(math.MaxInt64), uint64(math.MaxUint64), math.Inf(1), math.Inf(-1), math.NaN(), 1e300, math.Copysign(0, -1),
		"\"", "'", " ' ", "\"\"", "''", ":", ";", ",", "{", "}", "{}", "{{", "}}", "|", " ", "\n", "-", ".", "[", "]", "(", ")", "a:", ":a", ";;", "\"a", "a'", "\\", "%", "%s", "\x00"}
}

type MyU8 uint8
type MyUint uint
type MyF32 float32

func c11TypedEval(tpl string, x any) *Case {
	c := &Case{Name: fmt.Sprintf("typed %T in %s", x, tpl), Input: map[string]any{"stream": "typed", "tpl": tpl, "x": toVal(x)}, Key: fmt.Sprintf("typed:%T:%s", x, tpl), Tags: []string{"stream:typed", fmt.Sprintf("type:%T", x)}}
	res := renderPage(map[string]string{"p.vuego": tpl, "c.vuego": "<i>{{ p }}</i>"}, "p.vuego", map[string]any{"x": x})
	c.Impl = res.canon()
	c.Oracle = &Verdict{OK: true}
	if res.Timeout {
		c.Oracle = &Verdict{OK: false, Class: fmt.Sprintf("hang:typed:%T", x), Detail: tpl}
	} else if res.Panic != "" {
		c.Oracle = &Verdict{OK: false, Class: fmt.Sprintf("panic:typed:%T:%s", x, tpl), Detail: res.Panic}
	}
	return c
}

func c11BytesEval(src []byte, asFrontMatter bool) *Case {
	c := &Case{Name: "bytes", Input: map[string]any{"stream": "bytes", "src": string(src), "fm": asFrontMatter}, Key: "bytes:" + string(src), Tags: []string{"stream:bytes"}}
	files := map[string]string{"p.vuego": string(src)}
	if asFrontMatter {
		files["p.vuego"] = "---\n" + string(src) + "\n---\n<p>{{ a }}</p>"
	}
	res := renderPage(files, "p.vuego", map[string]any{"a": 1, "items": []any{1, 2}})
	// also the string entry point
	var res2 renderResult
	func() {
		defer func() {
			if e := recover(); e != nil {
				res2.Panic = fmt.Sprint(e)
			}
		}()
		var buf bytes.Buffer
		_ = vuego.New().Fill(map[string]any{"a": 1}).RenderString(context.Background(), &buf, string(src))
	}()
	c.Impl = res.canon()
	c.Oracle = &Verdict{OK: true}
	if res.Timeout {
		c.Oracle = &Verdict{OK: false, Class: "hang:bytes", Detail: fmt.Sprintf("%q", src)}
	} else if res.Panic != "" || res2.Panic != "" {
		c.Oracle = &Verdict{OK: false, Class: "panic:bytes", Detail: fmt.Sprintf("%q: %s %s", src, res.Panic, res2.Panic)}
	}
	return c
}

var c11Seeds = []string{
	`<div v-for="(i, v) in items" :class="{a: i}">{{ v | upper }}<template include="x.vuego" :a="v"></template></div>`, `<p v-if="a">1</p><p v-else-if="a == 2">2</p><p v-else>3</p>`,
	`<slot name="a" :x="a"></slot><template v-slot:a="{ x }">{{ x }}</template>`, `<p :style="{color: a, fontSize: '1px'}" style="a:b" v-show="a">{{ a + 1 }}</p>`, `{{ a | default("x") | upper }} {{ len(items) }}`,
	`<template :x="a + 1" y="[1,2]">{{ x }}{{ y }}</template>`, `<table><tr v-for="i in items"><td v-html="i"></td></tr></table>`, `<!DOCTYPE html><html><body><p v-pre>{{ a }}</p></body></html>`,
}

func runC11(r *Run, replay *Case) {
	if replay != nil {
		switch replay.Input["stream"] {
		case "graph":
			for _, g := range c11Graphs() {
				if g.desc == replay.Input["desc"] {
					r.Add(c11GraphEval(g))
				}
			}
		case "builtin":
			ins, data := c11BuiltinInputs()
			for _, in := range ins {
				if in["expr"] == replay.Input["expr"] && in["pos"] == replay.Input["pos"] {
					r.Add(c11BuiltinEval(in, data))
				}
			}
		case "userfunc":
			ins, data := c11UserFuncInputs()
			for _, in := range ins {
				if in["expr"] == replay.Input["expr"] && in["pos"] == replay.Input["pos"] {
					r.Add(c11UserFuncEval(in, data))
				}
			}
		case "guard":
			from, to := 0, 0
			if f, ok := replay.Input["from"].(float64); ok {
				from = int(f)
			}
			if t, ok := replay.Input["to"].(float64); ok {
				to = int(t)
			}
			switch replay.Input["which"] {
			case "builtin":
				ins, data := c11BuiltinInputs()
				for i := from; i < to && i < len(ins); i++ {
					r.Add(c11BuiltinEval(ins[i], data))
				}
			case "userfunc":
				ins, data := c11UserFuncInputs()
				for i := from; i < to && i < len(ins); i++ {
					r.Add(c11UserFuncEval(ins[i], data))
				}
			case "list":
				// the parent hands the inputs over (they come from its random stream)
				if items, ok := replay.Input["items"].([]any); ok {
					for _, it := range items {
						m := it.(map[string]any)
						if m["stream"] == "bytes" {
							r.Add(c11BytesEval([]byte(m["src"].(string)), m["fm"] == true))
						}
					}
				}
			case "typed":
				k := 0
				for _, tpl := range c11Templates {
					for _, x := range c11Data() {
						if k >= from && k < to {
							r.Add(c11TypedEval(tpl, x))
						}
						k++
					}
				}
			}
		case "typed":
			r.Add(c11TypedEval(replay.Input["tpl"].(string), fromVal(replay.Input["x"].(map[string]any))))
		case "bytes":
			r.Add(c11BytesEval([]byte(replay.Input["src"].(string)), replay.Input["fm"] == true))
		case "fm-shape":
			r.Add(c11BytesEval([]byte(replay.Input["src"].(string)), false))
		}
		return
	}
	r.Res.Rule = "graph: include/layout graphs with every cycle shape (self, 2, 3, via slot content, in loop, in v-if, via component tag), diamond, deep chain, missing targets — each in an isolated child process; " +
		"builtins: every function of DefaultFuncMap x 31 argument values incl. typed nils x 7 call forms x 2 positions; typed: 36 directive positions x 31 data values of every Go type incl. funcs, chans, unexported fields, non-string-keyed maps; bytes: mutated template and front-matter byte strings; non-trivial = every case"
	for _, g := range c11Graphs() {
		limit := 40 * time.Second
		if strings.HasPrefix(g.desc, "layout-slot:") {
			limit = 8 * time.Second
		}
		sub, verdict := runIsolated("C11", map[string]any{"stream": "graph", "desc": g.desc}, g.desc, limit)
		c := &Case{Name: g.desc, Input: map[string]any{"stream": "graph", "desc": g.desc}, Key: "graph:" + g.desc, Tags: []string{"stream:graph", "isolated"}}
		if sub != nil {
			c.Impl = sub.Impl
		}
		if !verdict.OK && (verdict.Class == "hang" || verdict.Class == "crash") {
			verdict.Class += ":" + g.desc
		}
		c.Oracle = verdict
		r.Add(c)
		if verdict.OK && strings.HasPrefix(g.desc, "layout-slot:") {
			// it returned in the child process: the same files through the Lean layout loop + evaluator (what the page hands to its layout is
			// placed as parsed, once per use)
			r.Add(layoutPageCase(g.desc, g.files, "p.vuego", map[string]any{"items": []any{1, 2}}))
		}
	}
	r.Flush()
	{
		type tc struct {
			tpl string
			x   any
		}
		var tcs []tc
		for _, tpl := range c11Templates {
			for _, x := range c11Data() {
				tcs = append(tcs, tc{tpl, x})
			}
		}
		c11Guarded(r, "typed", len(tcs), func(i int) *Case { return c11TypedEval(tcs[i].tpl, tcs[i].x) },
			func(i int) map[string]any {
				return map[string]any{"stream": "typed", "tpl": tcs[i].tpl, "x": toVal(tcs[i].x)}
			})
	}
	c11Builtins(r)
	c11UserFuncs(r)
	// front-matter shapes: files assembled from lines that are, begin with, or merely resemble the `---` delimiter (the loader scans for the
	// closing delimiter by hand); every file of up to 3 such lines exhaustively, longer ones at random
	fmLines := []string{"---", "----------------", "--- steps", "---> build", "a: 1", "", "<p>{{ a }}</p>", " ---", "---\r", "title: x --- y"}
	var shapes [][]string
	for _, a := range fmLines {
		for _, b := range fmLines {
			shapes = append(shapes, []string{"---", a, b})
			for _, c := range fmLines {
				shapes = append(shapes, []string{a, b, c})
			}
		}
	}
	nShapes := 600
	if r.Thorough() {
		nShapes = 20000
	}
	for i := 0; i < nShapes; i++ {
		var ls []string
		for k := 4 + r.Rng.Intn(4); k > 0; k-- {
			ls = append(ls, fmLines[r.Rng.Intn(len(fmLines))])
		}
		if r.Rng.Intn(2) == 0 {
			ls = append([]string{"---"}, ls...)
		}
		shapes = append(shapes, ls)
	}
	hangs := 0
	for _, ls := range shapes {
		if hangs >= 2 {
			break // every hang leaves a spinning goroutine behind: two witnesses are enough
		}
		src := strings.Join(ls, "\n") + "\n"
		c := &Case{Name: "fm-shape", Input: map[string]any{"stream": "fm-shape", "src": src}, Key: "fmshape:" + src, Tags: []string{"stream:fm-shapes"}, Oracle: &Verdict{OK: true}}
		done := make(chan string, 1)
		go func() {
			defer func() {
				if e := recover(); e != nil {
					done <- "panic: " + fmt.Sprint(e)
				}
			}()
			var buf bytes.Buffer
			mfs := fstest.MapFS{"p.vuego": &fstest.MapFile{Data: []byte(src)}}
			_ = vuego.NewFS(mfs).Load("p.vuego").Fill(map[string]any{"a": 1}).Render(context.Background(), &buf)
			done <- ""
		}()
		select {
		case msg := <-done:
			if msg != "" {
				c.Oracle = &Verdict{OK: false, Class: "panic:fm-shape", Detail: fmt.Sprintf("%q: %s", src, msg)}
			}
		case <-time.After(3 * time.Second):
			hangs++
			c.Oracle = &Verdict{OK: false, Class: "hang:fm-shape", Detail: fmt.Sprintf("loading %q did not return within 3s", src)}
		}
		r.Add(c)
	}
	n := 3000
	if r.Thorough() {
		n = 150000
	}
	alphabet := []string{"<", ">", "/", "{{", "}}", "\"", "'", "=", " ", "v-for", "v-if", ":", "|", "(", ")", "[", "]", ".", "\n", "---", "template", "include", "\x00", "\xff", "é", "&", ";", "#", "a", "1", "in", ",", "slot", "{", "}"}
	type bc struct {
		src []byte
		fm  bool
	}
	var bcs []bc
	for i := 0; i < n; i++ {
		s := []byte(c11Seeds[r.Rng.Intn(len(c11Seeds))])
		for k := 1 + r.Rng.Intn(6); k > 0; k-- {
			pos := r.Rng.Intn(len(s) + 1)
			ins := alphabet[r.Rng.Intn(len(alphabet))]
			switch r.Rng.Intn(3) {
			case 0:
				s = append(s[:pos:pos], append([]byte(ins), s[pos:]...)...)
			case 1:
				if pos < len(s) {
					end := pos + 1 + r.Rng.Intn(4)
					if end > len(s) {
						end = len(s)
					}
					s = append(s[:pos:pos], s[end:]...)
				}
			default:
				if pos < len(s) {
					s[pos] = byte(r.Rng.Intn(256))
				}
			}
		}
		bcs = append(bcs, bc{s, i%7 == 0})
	}
	c11GuardedInputs(r, "bytes", len(bcs), func(i int) *Case { return c11BytesEval(bcs[i].src, bcs[i].fm) },
		func(i int) map[string]any {
			return map[string]any{"stream": "bytes", "src": string(bcs[i].src), "fm": bcs[i].fm, "tpl": string(bcs[i].src)}
		})
	_ = strings.TrimSpace
}
