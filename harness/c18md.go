//go:build verif

package main

import (
	"bytes"
	"fmt"
	"io/fs"
	"os"
	"path/filepath"
	"strings"
	"testing/fstest"

	"github.com/titpetric/vuego/markdown"
)

// a filesystem that opens FILES by name and nothing else: no directory can be opened or listed
type c18FilesOnly struct{ files map[string]string }

func (f c18FilesOnly) Open(name string) (fs.File, error) {
	if src, ok := f.files[name]; ok {
		return fstest.MapFS{name: &fstest.MapFile{Data: []byte(src)}}.Open(name)
	}
	return nil, &fs.PathError{Op: "open", Path: name, Err: fs.ErrNotExist}
}

// c18MarkdownLayers: the markdown renderer serves its templates from an overlay of the content filesystem over the embedded defaults. A
// template path that the content filesystem HAS (it opens there) is served from it - however that filesystem lists, types or dates it:
// regular files, symbolic links (type bits of the directory entry say "link", Open follows it), a filesystem that cannot list
// directories, files that appear after the renderer was created; a path it has not is served from the defaults.
func c18MarkdownLayers(r *Run) {
	const doc = "# H\n\npara *em*\n\n> q\n"
	marker := func(t string) string { return "<x-" + t + " data-from=\"content\"></x-" + t + ">" }
	var base bytes.Buffer
	markdown.New(nil).RenderBytes(&base, []byte(doc))
	tmp, terr := os.MkdirTemp("", "c18md")
	if terr == nil {
		defer os.RemoveAll(tmp)
	}
	for _, tpl := range []string{"heading", "emphasis", "blockquote"} {
		for _, kind := range []string{"regular", "symlink-mode", "files-only", "created-later", "dirfs-symlink", "dirfs-regular", "regular-plus-symlink", "absent"} {
			path := "markdown/" + tpl + ".vuego"
			var cfs fs.FS
			var later func()
			switch kind {
			case "regular":
				cfs = fstest.MapFS{path: &fstest.MapFile{Data: []byte(marker(tpl))}}
			case "symlink-mode":
				cfs = fstest.MapFS{path: &fstest.MapFile{Data: []byte(marker(tpl)), Mode: fs.ModeSymlink | 0o777}}
			case "regular-plus-symlink":
				cfs = fstest.MapFS{path: &fstest.MapFile{Data: []byte(marker(tpl)), Mode: fs.ModeSymlink | 0o777}, "markdown/zz_unused.vuego": &fstest.MapFile{Data: []byte("<i></i>")}}
			case "files-only":
				cfs = c18FilesOnly{map[string]string{path: marker(tpl)}}
			case "created-later":
				m := fstest.MapFS{"markdown/readme.txt": &fstest.MapFile{Data: []byte("no templates yet")}}
				cfs = m
				later = func() { m[path] = &fstest.MapFile{Data: []byte(marker(tpl))} }
			case "dirfs-symlink", "dirfs-regular":
				if terr != nil {
					continue
				}
				root := filepath.Join(tmp, kind+"-"+tpl)
				os.MkdirAll(filepath.Join(root, "markdown"), 0o755)
				os.MkdirAll(filepath.Join(root, "shared"), 0o755)
				if kind == "dirfs-regular" {
					os.WriteFile(filepath.Join(root, "markdown", tpl+".vuego"), []byte(marker(tpl)), 0o644)
				} else {
					os.WriteFile(filepath.Join(root, "shared", "t.vuego"), []byte(marker(tpl)), 0o644)
					if err := os.Symlink(filepath.Join("..", "shared", "t.vuego"), filepath.Join(root, "markdown", tpl+".vuego")); err != nil {
						continue
					}
				}
				cfs = os.DirFS(root)
			case "absent":
				cfs = fstest.MapFS{"markdown/readme.txt": &fstest.MapFile{Data: []byte("x")}, "other/" + tpl + ".vuego": &fstest.MapFile{Data: []byte(marker(tpl))}}
			}
			// the premise, checked: the content filesystem has the path (or has it not)
			has := func() bool {
				f, err := cfs.Open(path)
				if err != nil {
					return false
				}
				f.Close()
				return true
			}
			md := markdown.New(cfs)
			if later != nil {
				later()
			}
			present := has()
			var out bytes.Buffer
			err := md.RenderBytes(&out, []byte(doc))
			name := fmt.Sprintf("markdown-layers %s %s", tpl, kind)
			c := &Case{Name: name, Key: name, Input: map[string]any{"stream": "markdown-layers", "template": tpl, "kind": kind}, Impl: map[string]any{"out": out.String(), "err": err != nil}, Oracle: &Verdict{OK: true},
				Tags: []string{"stream:markdown-layers", "kind:" + kind}}
			if !present {
				c.Key = ""
			}
			switch {
			case err != nil:
				c.Oracle = &Verdict{OK: false, Class: "markdown-layers:render-error:" + kind, Detail: err.Error()}
			case present && !strings.Contains(out.String(), "data-from=\"content\""):
				c.Oracle = &Verdict{OK: false, Class: "markdown-layers:served-from-lower-layer:" + kind, Detail: fmt.Sprintf("%s opens in the content filesystem (%s) but the embedded default was rendered: %q", path, kind, out.String())}
			case !present && out.String() != base.String():
				c.Oracle = &Verdict{OK: false, Class: "markdown-layers:absent-path-changes-output:" + kind, Detail: out.String()}
			}
			r.Add(c)
		}
	}
}
