//go:build verif

package main

import (
	"fmt"
	"strings"

	"github.com/titpetric/vuego"
	"gopkg.in/yaml.v3"
)

// c08FrontMatterSplit: the split of a file into front-matter and template text (extractFrontMatter, loader.go) against the Lean model
// `FrontMatter.extract`, on files put together from fences, near-fences, YAML lines and markup. The model returns the TEXT between the
// fences; the engine returns the decoded map - the harness decodes the model's text with the same YAML library and compares maps, template
// text byte for byte. Oracle beside the correspondence: nothing is lost (fence ++ yaml ++ fence ++ [newline] ++ body is the file), and a
// file that does not begin with the fence is all template.
func c08FrontMatterSplit(r *Run) {
	prev := postModel["C08"]
	postModel["C08"] = func(c *Case, m any) any {
		if prev != nil {
			m = prev(c, m)
		}
		mm, ok := m.(map[string]any)
		if !ok || c.Input["op"] != "extractfm" {
			return m
		}
		if mm["none"] == true {
			return map[string]any{"fm": nil, "body": c.Input["s"]}
		}
		y, _ := mm["yaml"].(string)
		data := map[string]any{}
		if err := yaml.Unmarshal([]byte(y), &data); err != nil {
			return map[string]any{"err": true}
		}
		return canon(map[string]any{"fm": c08YamlCanon(data), "body": mm["body"]})
	}
	pieces := []string{"---", "\n---", "\n", "\n", "a: 1", "title: T", "layout: main", "---\n", " ", "\r\n", "<p>x</p>", "- item", "\n--", "----", "\n---\n", "é: ü", "k: [1, 2]", "\n ---", "#c", "\n----", "x: '---'", "\n- - -", ": : bad: [yaml", "\t"}
	corpus := []string{"", "---", "---\n---", "---\n---\n", "---\na: 1\n---\n<p>x</p>\n", "---\na: 1\n---<p>x</p>", "<p>---</p>\n---\n", "---\nnever closed", "---\na: 1\n---\n---\nb: 2\n---\n", "----\na: 1\n---\n", "---a: 1\n---\n",
		"\n---\na: 1\n---\n", "---\r\na: 1\r\n---\r\n<p>x</p>", "---\na: 1\n----\nrest", "---\n\n---\n\n\n<p>x</p>", "---\na: 1\n --- \n---\nbody", "---\n: : bad: [yaml\n---\n<p>broken</p>"}
	n := 3000
	if r.Thorough() {
		n = 60000
	}
	for i := 0; i < n+len(corpus); i++ {
		var src string
		if i < len(corpus) {
			src = corpus[i]
		} else {
			var sb strings.Builder
			if r.Rng.Intn(3) > 0 {
				sb.WriteString("---")
			}
			for k := r.Rng.Intn(9); k > 0; k-- {
				sb.WriteString(pieces[r.Rng.Intn(len(pieces))])
			}
			src = sb.String()
		}
		fm, body, err := vuego.VerifExtractFrontMatter([]byte(src))
		var impl any
		switch {
		case err != nil:
			impl = map[string]any{"err": true}
		case fm == nil:
			impl = map[string]any{"fm": nil, "body": string(body)}
		default:
			impl = map[string]any{"fm": c08YamlCanon(fm), "body": string(body)}
		}
		c := &Case{Name: "front-matter split", Op: true, Input: map[string]any{"op": "extractfm", "s": src}, Impl: canon(impl), Key: "extractfm|" + src, Oracle: &Verdict{OK: true}, Tags: []string{"stream:extractfm"}}
		if !strings.HasPrefix(src, "---") || !strings.Contains(src[min(3, len(src)):], "\n---") {
			c.Key = ""
			c.Tags = append(c.Tags, "fm:none")
			if err != nil || fm != nil || string(body) != src {
				c.Oracle = &Verdict{OK: false, Class: "front-matter-split:file-without-fences-altered", Detail: fmt.Sprintf("source %q: front-matter %v, template %q, error %v", src, fm, body, err)}
			}
		} else if err == nil {
			c.Tags = append(c.Tags, "fm:some")
			// lossless: the template text is a suffix of the file, preceded by the closing fence and at most one newline
			if !strings.HasSuffix(src, string(body)) || !(strings.HasSuffix(src[:len(src)-len(body)], "\n---") || strings.HasSuffix(src[:len(src)-len(body)], "\n---\n")) {
				c.Oracle = &Verdict{OK: false, Class: "front-matter-split:template-text-not-after-the-fence", Detail: fmt.Sprintf("source %q: template %q", src, body)}
			}
		} else {
			c.Tags = append(c.Tags, "fm:yaml-error")
		}
		r.Add(c)
	}
}

// c08YamlCanon: decoded YAML in a JSON-comparable form (map[any]any keys printed, everything else as it is)
func c08YamlCanon(v any) any {
	switch x := v.(type) {
	case map[string]any:
		if x == nil {
			return nil // a null YAML document decodes to a nil map
		}
		out := map[string]any{}
		for k, e := range x {
			out[k] = c08YamlCanon(e)
		}
		return out
	case map[any]any:
		out := map[string]any{}
		for k, e := range x {
			out[fmt.Sprint(k)] = c08YamlCanon(e)
		}
		return out
	case []any:
		out := make([]any, len(x))
		for i, e := range x {
			out[i] = c08YamlCanon(e)
		}
		return out
	}
	return fmt.Sprint(v)
}
