//go:build verif

package main

import (
	"fmt"
	"strings"
)

// c16ChainHistories: v-once on ANY subset of the members of a v-if chain, the chain instantiated once per row with EVERY sequence of truth
// values, in a loop and as a component included once per row. The rule (C16 with C03): at each instantiation the chain selects its first
// truthy member; a selected member that carries v-once and was already rendered in this render renders nothing, every other selected
// member renders; a member that is not selected is not rendered AND keeps its v-once for a later instantiation. Each page also goes to the
// model (page correspondence).
func c16ChainHistories(r *Run) {
	type member struct{ dir, cond, mark string }
	shapes := [][]member{
		{{"v-if", "fa", "A"}},
		{{"v-if", "fa", "A"}, {"v-else", "", "C"}},
		{{"v-if", "fa", "A"}, {"v-else-if", "fb", "B"}},
		{{"v-if", "fa", "A"}, {"v-else-if", "fb", "B"}, {"v-else", "", "C"}},
	}
	nRows := 3
	if r.Thorough() {
		nRows = 4
	}
	rowsOf := []map[string]any{{"fa": true, "fb": false}, {"fa": false, "fb": true}, {"fa": false, "fb": false}, {"fa": true, "fb": true}}
	nSeq := 1
	for i := 0; i < nRows; i++ {
		nSeq *= 4
	}
	for si, shape := range shapes {
		for mask := 0; mask < 1<<len(shape); mask++ {
			for _, ctxName := range []string{"loop", "include"} {
				var chain strings.Builder
				for mi, m := range shape {
					once := ""
					if mask&(1<<mi) != 0 {
						once = " v-once"
					}
					cond := m.cond
					if ctxName == "loop" && cond != "" {
						cond = "row." + cond
					}
					if m.dir == "v-else" {
						fmt.Fprintf(&chain, `<p v-else%s>[%s]</p>`, once, m.mark)
					} else {
						fmt.Fprintf(&chain, `<p %s="%s"%s>[%s]</p>`, m.dir, cond, once, m.mark)
					}
				}
				chain.WriteString(`<i>[end]</i>`)
				for seq := 0; seq < nSeq; seq++ {
					var rows []any
					var idx []int
					var want []string
					done := map[string]bool{}
					q := seq
					var page strings.Builder
					for n := 0; n < nRows; n++ {
						k := q % 4
						q /= 4
						idx = append(idx, k)
						rows = append(rows, rowsOf[k])
						fmt.Fprintf(&page, `<template include="c.vuego" :fa="rows[%d].fa" :fb="rows[%d].fb"></template>`, n, n)
						for mi, m := range shape {
							sel := m.dir == "v-else" || rowsOf[k][m.cond] == true
							if !sel {
								continue
							}
							if mask&(1<<mi) != 0 {
								if !done[m.mark] {
									want = append(want, m.mark)
								}
								done[m.mark] = true
							} else {
								want = append(want, m.mark)
							}
							break
						}
						want = append(want, "end")
					}
					var files map[string]string
					if ctxName == "loop" {
						files = map[string]string{"p.vuego": `<div v-for="row in rows">` + chain.String() + `</div>`}
					} else {
						files = map[string]string{"p.vuego": page.String(), "c.vuego": chain.String()}
					}
					d := map[string]any{"rows": rows}
					res := renderPage(files, "p.vuego", d)
					var got []string
					for _, m := range c03MarkRe.FindAllStringSubmatch(res.Out, -1) {
						got = append(got, m[1])
					}
					name := fmt.Sprintf("once-chain-history shape=%d mask=%d ctx=%s rows=%v", si, mask, ctxName, idx)
					c := &Case{Name: name, Key: name, Input: map[string]any{"stream": "chain-history", "files": files, "rows": idx}, Impl: res.canon(), Oracle: &Verdict{OK: true},
						Tags: []string{"stream:once-chain-history", "ctx:" + ctxName, fmt.Sprintf("shape:%d", si), fmt.Sprintf("marked:%d", mask)}}
					if res.Err != "" || strings.Join(got, ",") != strings.Join(want, ",") {
						c.Oracle = &Verdict{OK: false, Class: fmt.Sprintf("once-chain-history:%s:members-%d:marked-%d", ctxName, len(shape), mask), Detail: fmt.Sprintf("rows %v: markers %v, expected %v (%s); files %v", idx, got, want, res.Err, files)}
					}
					r.Add(c)
					r.Add(pageCase("once-chain-history", files, nil, "p.vuego", d, "placement:once-chain-history"))
				}
			}
		}
	}
}
