//go:build verif

package main

import (
	"fmt"
	"regexp"
	"strings"
)

// conditions that are plain variable PATHS the expression VM cannot read by itself and the variable stack can: struct fields addressed by
// JSON tag (elements of a slice, values of a map, behind pointers), map keys that are not identifiers, dotted numeric indexes. The chain picks
// the first truthy branch and the same value has the same truthiness in v-if, v-else-if, v-show, a bound attribute and a :class object.

type c03Product struct {
	InStock bool   `json:"in_stock"`
	FewLeft int    `json:"few_left"`
	Name    string `json:"name"`
}

type c03PathShape struct {
	name string
	// tpl with %s = the two condition paths; data for the truth values (a, b)
	cond [2]string
	wrap [2]string // markup around the chain (a loop, nothing)
	data func(a, b bool) map[string]any
}

func c03PathShapes() []c03PathShape {
	few := func(b bool) int {
		if b {
			return 2
		}
		return 0
	}
	return []c03PathShape{
		{"slice-of-structs-by-tag", [2]string{"p.in_stock", "p.few_left"}, [2]string{`<div v-for="p in products">`, `</div>`},
			func(a, b bool) map[string]any { return map[string]any{"products": []c03Product{{a, few(b), "n"}}} }},
		{"slice-of-struct-pointers-by-tag", [2]string{"p.in_stock", "p.few_left"}, [2]string{`<div v-for="p in products">`, `</div>`},
			func(a, b bool) map[string]any { return map[string]any{"products": []*c03Product{{a, few(b), "n"}}} }},
		{"struct-in-map-by-tag", [2]string{"shop.item.in_stock", "shop.item.few_left"}, [2]string{`<div>`, `</div>`},
			func(a, b bool) map[string]any {
				return map[string]any{"shop": map[string]any{"item": c03Product{a, few(b), "n"}}}
			}},
		{"struct-pointer-in-map-by-tag", [2]string{"item.in_stock", "item.few_left"}, [2]string{`<div>`, `</div>`},
			func(a, b bool) map[string]any { return map[string]any{"item": &c03Product{a, few(b), "n"}} }},
		{"dashed-keys", [2]string{"has-stock", "few-left"}, [2]string{`<div>`, `</div>`},
			func(a, b bool) map[string]any { return map[string]any{"has-stock": a, "few-left": few(b)} }},
		{"dotted-numeric-index", [2]string{"items.0.done", "items.1.done"}, [2]string{`<div>`, `</div>`},
			func(a, b bool) map[string]any {
				return map[string]any{"items": []any{map[string]any{"done": a}, map[string]any{"done": few(b)}}}
			}},
		{"nested-dashed-key", [2]string{"cfg.is-on", "cfg.is-half"}, [2]string{`<div>`, `</div>`},
			func(a, b bool) map[string]any {
				return map[string]any{"cfg": map[string]any{"is-on": a, "is-half": few(b)}}
			}},
	}
}

var c03PathRe = regexp.MustCompile(`\[\[(.*?)\]\]`)

func c03PathCase(sh c03PathShape, a, b bool) *Case {
	ca, cb := sh.cond[0], sh.cond[1]
	tpl := `<em>[[pre]]</em>` + sh.wrap[0] +
		`<b v-if="` + ca + `">[[A]]</b><i v-else-if="` + cb + `">[[B]]</i><u v-else>[[C]]</u>` +
		`<s v-show="` + ca + `" :data-on="` + ca + `" :class="{on: ` + ca + `}">x</s>` + sh.wrap[1] + `<em>[[post]]</em>`
	res := renderPage(map[string]string{"p.vuego": tpl}, "p.vuego", sh.data(a, b))
	c := &Case{Name: fmt.Sprintf("path-condition %s a=%v b=%v", sh.name, a, b), Input: map[string]any{"stream": "pathcond", "shape": sh.name, "a": a, "b": b, "tpl": tpl},
		Impl: res.canon(), Oracle: &Verdict{OK: true}, Key: fmt.Sprintf("pathcond|%s|%v|%v", sh.name, a, b), Tags: []string{"stream:pathcond", "shape:" + sh.name}}
	if res.Err != "" || res.Panic != "" || res.Timeout {
		c.Oracle = &Verdict{OK: false, Class: "path-condition-render-failed:" + sh.name, Detail: fmt.Sprintf("%+v", res)}
		return c
	}
	want := "C"
	if a {
		want = "A"
	} else if b {
		want = "B"
	}
	var got []string
	for _, m := range c03PathRe.FindAllStringSubmatch(res.Out, -1) {
		got = append(got, m[1])
	}
	if strings.Join(got, ",") != "pre,"+want+",post" {
		c.Oracle = &Verdict{OK: false, Class: "chain-selection:path-condition:" + sh.name, Detail: fmt.Sprintf("branches rendered %v, expected [pre %s post]; template %q; output %q", got, want, tpl, res.Out)}
		return c
	}
	hidden := strings.Contains(res.Out, "display:none")
	bound := strings.Contains(res.Out, "data-on=")
	class := strings.Contains(res.Out, `class="on"`)
	if hidden == a || bound != a || class != a {
		c.Oracle = &Verdict{OK: false, Class: "truthiness-not-uniform:path-condition:" + sh.name,
			Detail: fmt.Sprintf("value %v: v-if selected %s, v-show hidden=%v, bound attribute present=%v, class object on=%v; output %q", a, want, hidden, bound, class, res.Out)}
	}
	return c
}

func c03PathConds(r *Run) {
	for _, sh := range c03PathShapes() {
		for _, a := range []bool{true, false} {
			for _, b := range []bool{true, false} {
				r.Add(c03PathCase(sh, a, b))
			}
		}
	}
}
