//go:build verif

package main

import (
	"fmt"
	"regexp"
	"strings"
)

// conditions that are plain variable PATHS the expression VM cannot read by itself and the variable stack can: struct fields addressed by
// JSON tag (elements of a slice, values of a map, behind pointers), map keys that are not identifiers, dotted numeric indexes. The chain picks
// the first truthy branch and the same value has the same truthiness in v-if, v-else-if, v-show, a bound attribute and a :class object.

type c03Product struct {
	InStock bool   `json:"in_stock"`
	FewLeft int    `json:"few_left"`
	Name    string `json:"name"`
}

type c03PathShape struct {
	name string
	// tpl with %s = the two condition paths; data for the truth values (a, b)
	cond [2]string
	wrap [2]string // markup around the chain (a loop, nothing)
	data func(a, b bool) map[string]any
}

func c03PathShapes() []c03PathShape {
	few := func(b bool) int {
		if b {
			return 2
		}
		return 0
	}
	return []c03PathShape{
		{"slice-of-structs-by-tag", [2]string{"p.in_stock", "p.few_left"}, [2]string{`<div v-for="p in products">`, `</div>`},
			func(a, b bool) map[string]any { return map[string]any{"products": []c03Product{{a, few(b), "n"}}} }},
		{"slice-of-struct-pointers-by-tag", [2]string{"p.in_stock", "p.few_left"}, [2]string{`<div v-for="p in products">`, `</div>`},
			func(a, b bool) map[string]any { return map[string]any{"products": []*c03Product{{a, few(b), "n"}}} }},
		{"struct-in-map-by-tag", [2]string{"shop.item.in_stock", "shop.item.few_left"}, [2]string{`<div>`, `</div>`},
			func(a, b bool) map[string]any {
				return map[string]any{"shop": map[string]any{"item": c03Product{a, few(b), "n"}}}
			}},
		{"struct-pointer-in-map-by-tag", [2]string{"item.in_stock", "item.few_left"}, [2]string{`<div>`, `</div>`},
			func(a, b bool) map[string]any { return map[string]any{"item": &c03Product{a, few(b), "n"}} }},
		{"dashed-keys", [2]string{"has-stock", "few-left"}, [2]string{`<div>`, `</div>`},
			func(a, b bool) map[string]any { return map[string]any{"has-stock": a, "few-left": few(b)} }},
		{"dotted-numeric-index", [2]string{"items.0.done", "items.1.done"}, [2]string{`<div>`, `</div>`},
			func(a, b bool) map[string]any {
				return map[string]any{"items": []any{map[string]any{"done": a}, map[string]any{"done": few(b)}}}
			}},
		{"nested-dashed-key", [2]string{"cfg.is-on", "cfg.is-half"}, [2]string{`<div>`, `</div>`},
			func(a, b bool) map[string]any {
				return map[string]any{"cfg": map[string]any{"is-on": a, "is-half": few(b)}}
			}},
	}
}

var c03PathRe = regexp.MustCompile(`\[\[(.*?)\]\]`)

func c03PathCase(sh c03PathShape, a, b bool) *Case {
	ca, cb := sh.cond[0], sh.cond[1]
	tpl := `<em>[[pre]]</em>` + sh.wrap[0] +
		`<b v-if="` + ca + `">[[A]]</b><i v-else-if="` + cb + `">[[B]]</i><u v-else>[[C]]</u>` +
		`<s v-show="` + ca + `" :data-on="` + ca + `" :class="{on: ` + ca + `}">x</s>` + sh.wrap[1] + `<em>[[post]]</em>`
	res := renderPage(map[string]string{"p.vuego": tpl}, "p.vuego", sh.data(a, b))
	c := &Case{Name: fmt.Sprintf("path-condition %s a=%v b=%v", sh.name, a, b), Input: map[string]any{"stream": "pathcond", "shape": sh.name, "a": a, "b": b, "tpl": tpl},
		Impl: res.canon(), Oracle: &Verdict{OK: true}, Key: fmt.Sprintf("pathcond|%s|%v|%v", sh.name, a, b), Tags: []string{"stream:pathcond", "shape:" + sh.name}}
	if res.Err != "" || res.Panic != "" || res.Timeout {
		c.Oracle = &Verdict{OK: false, Class: "path-condition-render-failed:" + sh.name, Detail: fmt.Sprintf("%+v", res)}
		return c
	}
	want := "C"
	if a {
		want = "A"
	} else if b {
		want = "B"
	}
	var got []string
	for _, m := range c03PathRe.FindAllStringSubmatch(res.Out, -1) {
		got = append(got, m[1])
	}
	if strings.Join(got, ",") != "pre,"+want+",post" {
		c.Oracle = &Verdict{OK: false, Class: "chain-selection:path-condition:" + sh.name, Detail: fmt.Sprintf("branches rendered %v, expected [pre %s post]; template %q; output %q", got, want, tpl, res.Out)}
		return c
	}
	hidden := strings.Contains(res.Out, "display:none")
	bound := strings.Contains(res.Out, "data-on=")
	class := strings.Contains(res.Out, `class="on"`)
	if hidden == a || bound != a || class != a {
		c.Oracle = &Verdict{OK: false, Class: "truthiness-not-uniform:path-condition:" + sh.name,
			Detail: fmt.Sprintf("value %v: v-if selected %s, v-show hidden=%v, bound attribute present=%v, class object on=%v; output %q", a, want, hidden, bound, class, res.Out)}
	}
	return c
}

func c03PathConds(r *Run) {
	for _, sh := range c03PathShapes() {
		for _, a := range []bool{true, false} {
			for _, b := range []bool{true, false} {
				r.Add(c03PathCase(sh, a, b))
			}
		}
	}
}

// the SAME condition text evaluated on one engine with operands of different Go types from one render to the next (a typed model behind a JSON
// API: int in one request, float64 from decoded JSON in the next; two struct types with the same field names in another order): the chain
// picks the branch the CURRENT values select, whatever an earlier render was given
type c03UserA struct {
	Active bool
	Admin  bool
}
type c03UserB struct {
	Admin  bool
	Active bool
}

func c03TypeHistory(r *Run) {
	tpl := `<ul><li>before</li><li v-if="n == 0">zero</li><li v-else-if="n == 1">one</li><li v-else-if="n != 2">many</li><li v-else>two</li><li>after</li></ul>` +
		`<div><p v-if="u.Active">active</p><p v-else>inactive</p><span v-show="u.Active" :class="{on: u.Active}" :data-a="u.Active">x</span></div>`
	nums := []any{int(1), int64(1), uint8(1), float64(1), int32(1), int(0), float64(0), int64(2), uint16(2), float64(3), int8(3)}
	users := []any{c03UserA{Active: true}, c03UserB{Active: true}, c03UserA{Admin: true}, c03UserB{Admin: true}, map[string]any{"Active": true}, &c03UserB{Active: true}}
	nval := func(v any) float64 {
		switch x := v.(type) {
		case int:
			return float64(x)
		case int8:
			return float64(x)
		case int32:
			return float64(x)
		case int64:
			return float64(x)
		case uint8:
			return float64(x)
		case uint16:
			return float64(x)
		case float64:
			return x
		}
		return -1
	}
	active := func(v any) bool {
		switch x := v.(type) {
		case c03UserA:
			return x.Active
		case c03UserB:
			return x.Active
		case *c03UserB:
			return x.Active
		case map[string]any:
			return x["Active"] == true
		}
		return false
	}
	for i, first := range nums {
		for j, second := range nums {
			u1, u2 := users[i%len(users)], users[j%len(users)]
			res := renderPageAfter(map[string]string{"p.vuego": tpl}, "p.vuego", map[string]any{"n": first, "u": u1}, map[string]any{"n": second, "u": u2}, (i+j)%2 == 0)
			desc := fmt.Sprintf("type history n:%T(%v)->%T(%v) u:%T->%T", first, first, second, second, u1, u2)
			c := &Case{Name: desc, Input: map[string]any{"stream": "typehistory", "desc": desc}, Impl: res.canon(), Oracle: &Verdict{OK: true}, Key: desc, Tags: []string{"stream:typehistory"}}
			want := map[float64]string{0: "zero", 1: "one", 2: "two"}[nval(second)]
			if want == "" {
				want = "many"
			}
			flat := strings.Join(strings.Fields(res.Out), "")
			wantU := "<p>inactive</p>"
			if active(u2) {
				wantU = "<p>active</p>"
			}
			switch {
			case res.Err != "" || res.Panic != "" || res.Timeout:
				c.Oracle = &Verdict{OK: false, Class: "chain-selection:type-history", Detail: fmt.Sprintf("%s: render failed: %+v", desc, res)}
			case !strings.Contains(flat, "<li>before</li><li>"+want+"</li><li>after</li>"):
				c.Oracle = &Verdict{OK: false, Class: "chain-selection:type-history", Detail: fmt.Sprintf("%s: expected the branch %q between before and after; output %q", desc, want, res.Out)}
			case !strings.Contains(flat, wantU) || strings.Contains(flat, "display:none") == active(u2) || strings.Contains(flat, `class="on"`) != active(u2):
				c.Oracle = &Verdict{OK: false, Class: "truthiness-not-uniform:type-history", Detail: fmt.Sprintf("%s: u.Active is %v; output %q", desc, active(u2), res.Out)}
			}
			r.Add(c)
		}
	}
}
