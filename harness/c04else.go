//go:build verif

package main

import (
	"fmt"
	"strings"
)

// c04LoopedElse: a loop followed by a chain member that is itself looped (a fallback list): `<li v-for="x in xs">` then
// `<li v-else v-for="y in alt">` / `<li v-else-if=".." v-for="y in alt">`. The first loop renders one instance per item and nothing else;
// the v-else fallback is rendered only when the first loop produced nothing - also when the pair sits inside an outer loop; a looped
// v-else-if after a loop is a stray chain member and never rendered.
func c04LoopedElse(r *Run) {
	alts := []struct {
		name string
		v    any
		strs []string
	}{{"alt2", []any{"p", "q"}, []string{"p", "q"}}, {"alt0", []any{}, nil}, {"altints", []int{5}, []string{"5"}}}
	members := []struct {
		name, attr string
		fallback   bool // v-else is the fallback of an empty loop; a v-else-if after a loop belongs to no chain: it and what follows it are dropped
	}{{"else", `v-else`, true}, {"elseif-yes", `v-else-if="yes"`, false}, {"elseif-no", `v-else-if="no"`, false}}
	for _, cl := range c04Colls() {
		if !c04PlainItems[cl.name] && cl.name != "mixed" && cl.name != "bools" {
			continue
		}
		for _, alt := range alts {
			for _, mb := range members {
				for _, nested := range []bool{false, true} {
					pair := `<li v-for="x in xs">[[I:{{ x }}]]</li><li ` + mb.attr + ` v-for="(j, y) in alt">[[alt:{{ j }}:{{ y }}]]</li>`
					if mb.name != "else" {
						pair += `<li v-else>[[last]]</li>`
					}
					tpl := `<b>[[before]]</b><ul>` + pair + `</ul><b>[[after:{{ y }}{{ x }}]]</b>`
					if nested {
						tpl = `<b>[[before]]</b><div v-for="g in groups"><ul>` + pair + `</ul><i>[[g:{{ g }}]]</i></div><b>[[after:{{ y }}{{ x }}]]</b>`
					}
					data := map[string]any{"alt": alt.v, "yes": true, "no": false, "groups": []any{"g1", "g2"}}
					if cl.name != "missing" {
						data["xs"] = cl.v
					}
					files := map[string]string{"p.vuego": tpl}
					res := renderPage(files, "p.vuego", data)
					var one []string
					if len(cl.strs) > 0 {
						for _, s := range cl.strs {
							one = append(one, "I:"+s)
						}
					} else if mb.fallback {
						for j, s := range alt.strs {
							one = append(one, fmt.Sprintf("alt:%d:%s", j, s))
						}
					}
					want := []string{"before"}
					if nested {
						for _, g := range []string{"g1", "g2"} {
							want = append(want, one...)
							want = append(want, "g:"+g)
						}
					} else {
						want = append(want, one...)
					}
					want = append(want, "after:")
					var got []string
					for _, mm := range c04Re.FindAllStringSubmatch(res.Out, -1) {
						got = append(got, mm[1])
					}
					name := fmt.Sprintf("looped-else %s over %s alt=%s nested=%v", mb.name, cl.name, alt.name, nested)
					c := &Case{Name: name, Key: name, Input: map[string]any{"loopedelse": true, "tpl": tpl, "coll": cl.name, "alt": alt.name, "member": mb.name, "nested": nested}, Impl: res.canon(), Oracle: &Verdict{OK: true},
						Tags: []string{"form:looped-else", "coll:" + cl.name, "member:" + mb.name}}
					if cl.strs == nil {
						c.Key = ""
					}
					if res.Err != "" || res.Panic != "" || res.Timeout {
						c.Oracle = &Verdict{OK: false, Class: "loop-render-failed:looped-else:" + cl.name, Detail: fmt.Sprintf("%+v", res)}
					} else if strings.Join(got, ",") != strings.Join(want, ",") {
						c.Oracle = &Verdict{OK: false, Class: "loop-markers:looped-else:" + mb.name, Detail: fmt.Sprintf("markers %v, expected %v; template %q", got, want, tpl)}
					}
					r.Add(c)
					if cl.name != "floats" {
						pendingPages = append(pendingPages, pageCase("loop", files, nil, "p.vuego", data, "form:looped-else"))
					}
				}
			}
		}
	}
}

// c04InstancePrivacy: what one instance binds besides the loop variables is bound "inside that instance only" too: a name set by a plain
// `<template name="…">` that only SOME items reach (it sits under the item's own v-if) is that item's; the next item sees the outer value
// again - in text, in a binding, in a condition, as the collection of an inner loop - and so does the content after the loop.
func c04InstancePrivacy(r *Run) {
	for _, cl := range c04Colls() {
		if len(cl.strs) < 2 || !c04PlainItems[cl.name] {
			continue
		}
		for _, hit := range []int{0, 1} {
			for _, where := range []string{"text", "binding", "condition", "inner-loop"} {
				set := fmt.Sprintf(`<b v-if="i == %d"><template outer="LOCAL" more='["m1","m2"]'></template></b>`, hit)
				var read string
				want := func(local bool) string { return map[bool]string{true: "LOCAL", false: "O"}[local] }
				switch where {
				case "text":
					read = `[[I:{{ i }}|{{ outer }}]]`
				case "binding":
					read = `<u :title="outer">[[I:{{ i }}|{{ outer }}]]</u>`
				case "condition":
					read = `<u v-if="outer == 'LOCAL'">[[I:{{ i }}|LOCAL]]</u><u v-else>[[I:{{ i }}|O]]</u>`
				case "inner-loop":
					read = `[[I:{{ i }}|{{ outer }}]]<s v-for="m in more">[[m:{{ m }}]]</s>`
				}
				tpl := `<b>[[before:{{ outer }}]]</b><ul><li v-for="(i, x) in xs">` + set + read + `</li></ul><b>[[after:{{ outer }}]]</b>`
				data := map[string]any{"outer": "O", "xs": cl.v}
				files := map[string]string{"p.vuego": tpl}
				res := renderPage(files, "p.vuego", data)
				wantM := []string{"before:O"}
				for i := range cl.strs {
					wantM = append(wantM, fmt.Sprintf("I:%d|%s", i, want(i == hit)))
					if where == "inner-loop" && i == hit {
						wantM = append(wantM, "m:m1", "m:m2")
					}
				}
				wantM = append(wantM, "after:O")
				var got []string
				for _, mm := range c04Re.FindAllStringSubmatch(res.Out, -1) {
					got = append(got, mm[1])
				}
				name := fmt.Sprintf("instance-privacy %s over %s hit=%d", where, cl.name, hit)
				c := &Case{Name: name, Key: name, Input: map[string]any{"loopedelse": true, "tpl": tpl, "coll": cl.name}, Impl: res.canon(), Oracle: &Verdict{OK: true}, Tags: []string{"form:instance-privacy", "coll:" + cl.name}}
				if res.Err != "" || res.Panic != "" || res.Timeout {
					c.Oracle = &Verdict{OK: false, Class: "loop-render-failed:instance-privacy:" + cl.name, Detail: fmt.Sprintf("%+v", res)}
				} else if strings.Join(got, ",") != strings.Join(wantM, ",") {
					c.Oracle = &Verdict{OK: false, Class: "instance-binding-leaks-into-later-instance:" + where, Detail: fmt.Sprintf("markers %v, expected %v; template %q", got, wantM, tpl)}
				}
				r.Add(c)
				pendingPages = append(pendingPages, pageCase("loop", files, nil, "p.vuego", data, "form:instance-privacy"))
			}
		}
	}
}
