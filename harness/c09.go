package main

// C09 — one engine serves any number of concurrent renders without races or cross-talk.
// (1) cross-talk: N goroutines x mixed calls on ONE engine and ONE base template; every call's bytes/error are compared with the
//     same call made alone on a fresh engine.
// (2) races: the same workload inside a `-race` build of this binary (bin/vharness-race, built by ./check); the race
//     detector's reports are parsed from its log and become failures (validation of the lockset table and failing-schedule search).

import (
	"reflect"
	"bytes"
	"context"
	"fmt"
	"io/fs"
	"os"
	"os/exec"
	"path/filepath"
	"regexp"
	"runtime"
	"strings"
	"sync"
	"testing/fstest"
	"time"

	vuego "github.com/titpetric/vuego"
)

func init() { props["C09"] = runC09 }

// lockedFS lets files change underneath the engine without the harness itself racing.
type lockedFS struct {
	mu sync.RWMutex
	m  fstest.MapFS
}

func (l *lockedFS) Open(name string) (fs.File, error) {
	l.mu.RLock()
	defer l.mu.RUnlock()
	// hand out a private snapshot of the entry so that later edits do not race with readers
	f, ok := l.m[name]
	if !ok {
		return l.m.Open(name)
	}
	snap := fstest.MapFS{name: &fstest.MapFile{Data: append([]byte(nil), f.Data...), Mode: f.Mode, ModTime: f.ModTime}}
	return snap.Open(name)
}

func (l *lockedFS) set(name, content string, mt time.Time) {
	l.mu.Lock()
	defer l.mu.Unlock()
	l.m[name] = &fstest.MapFile{Data: []byte(content), ModTime: mt}
}

type c09Call struct {
	kind string // render | renderfile | renderstring | vuerender | basestring | sharedstring | sharedfile
	prog c10Prog
	tpl  vuego.Template // sharedstring / sharedfile: ONE filled template value used by every goroutine
}

func c09Do(t vuego.Template, c c09Call, shared map[string]any) (string, bool) {
	var buf bytes.Buffer
	var err error
	data := any(c.prog.data())
	if shared != nil {
		data = shared // read-only data shared between requests
	}
	func() {
		defer func() {
			if e := recover(); e != nil {
				err = fmt.Errorf("panic: %v", e)
			}
		}()
		switch c.kind {
		case "render":
			err = t.Load(c.prog.page).Fill(data).Render(context.Background(), &buf)
		case "renderfile":
			err = t.New().Fill(data).RenderFile(context.Background(), &buf, c.prog.page)
		case "renderstring":
			err = t.New().Fill(data).RenderString(context.Background(), &buf, c10Files[c.prog.page])
		case "vuerender":
			err = vuego.VerifVue(t).Render(&buf, c.prog.page, data)
		// the base template itself, and one filled template value, used directly by every goroutine (no New() per request): per-request state
		// must live in the call, not in the template value
		case "basestring":
			err = t.RenderString(context.Background(), &buf, c10Files[c.prog.page])
		case "sharedstring":
			err = c.tpl.RenderString(context.Background(), &buf, c10Files[c.prog.page])
		case "sharedfile":
			err = c.tpl.RenderFile(context.Background(), &buf, c.prog.page)
		}
	}()
	return buf.String(), err != nil
}

func c09Workload(r *Run, rounds int, shareData bool, mutateFiles bool) (calls int, mismatches []string) {
	progs := c10Progs()
	kinds := []string{"render", "renderfile", "renderstring", "vuerender", "basestring", "sharedstring", "sharedfile"}
	sharedTpl := map[string]vuego.Template{}
	lfs := &lockedFS{m: c10FS()}
	base := c10Engine(lfs)
	// expected results: each call alone on a fresh engine
	expect := map[string][2]any{}
	var shared map[string]any
	if shareData {
		shared = c10Data(0)()
	}
	for _, p := range progs {
		for _, k := range kinds {
			if strings.HasSuffix(k, "string") && strings.HasPrefix(c10Files[p.page], "---") {
				continue
			}
			if shareData && strings.HasSuffix(p.name, "/1") || shareData && strings.HasSuffix(p.name, "/2") {
				continue
			}
			fresh := c10Engine(&lockedFS{m: c10FS()})
			call := c09Call{kind: k, prog: p}
			if strings.HasPrefix(k, "shared") {
				d := any(p.data())
				if shared != nil {
					d = shared
				}
				call.tpl = fresh.New().Fill(d)
				sharedTpl[k+"|"+p.name] = base.New().Fill(d)
			}
			out, e := c09Do(fresh, call, shared)
			expect[k+"|"+p.name] = [2]any{out, e}
		}
	}
	var keys []string
	for k := range expect {
		keys = append(keys, k)
	}
	n := runtime.NumCPU()
	if n > 16 {
		n = 16
	}
	var wg sync.WaitGroup
	var mu sync.Mutex
	seedBase := r.Rng.Int63()
	for g := 0; g < n; g++ {
		wg.Add(1)
		go func(g int) {
			defer wg.Done()
			rng := newRand(seedBase + int64(g))
			for i := 0; i < rounds; i++ {
				key := keys[rng.Intn(len(keys))]
				parts := strings.SplitN(key, "|", 2)
				var prog c10Prog
				for _, p := range progs {
					if p.name == parts[1] {
						prog = p
					}
				}
				if mutateFiles && g == 0 && i%5 == 0 {
					// rewrite a file with identical content and a new mtime: forces reloads into the cache while others render
					lfs.set(prog.page, c10Files[prog.page], time.Unix(1700000000+int64(i), 0))
				}
				out, e := c09Do(base, c09Call{kind: parts[0], prog: prog, tpl: sharedTpl[key]}, shared)
				want := expect[key]
				mu.Lock()
				calls++
				if out != want[0] || e != want[1] {
					if len(mismatches) < 20 {
						mismatches = append(mismatches, fmt.Sprintf("%s: got %q/%v alone %q/%v", key, out, e, want[0], want[1]))
					}
				}
				mu.Unlock()
			}
		}(g)
	}
	wg.Wait()
	// cold starts: the moment a template (and every component it reaches) is first loaded, parsed and cached — a NEW engine per round, every
	// goroutine released at once onto pages that include components, nested components and shorthand component tags
	coldPages := []string{"shorthand", "nest", "inc", "slotpage", "once"}
	coldRounds := rounds / 5
	for round := 0; round < coldRounds; round++ {
		eng := c10Engine(&lockedFS{m: c10FS()})
		page := coldPages[round%len(coldPages)]
		var prog c10Prog
		for _, p := range progs {
			if p.name == page+"/0" {
				prog = p
			}
		}
		want, ok := expect["render|"+prog.name]
		if !ok {
			continue
		}
		start := make(chan struct{})
		var cw sync.WaitGroup
		for g := 0; g < n; g++ {
			cw.Add(1)
			go func() {
				defer cw.Done()
				<-start
				out, e := c09Do(eng, c09Call{kind: "render", prog: prog}, shared)
				mu.Lock()
				calls++
				if (out != want[0] || e != want[1]) && len(mismatches) < 20 {
					mismatches = append(mismatches, fmt.Sprintf("cold start of %s: got %q/%v alone %q/%v", prog.name, out, e, want[0], want[1]))
				}
				mu.Unlock()
			}()
		}
		close(start)
		cw.Wait()
	}
	// cold starts of a FILLED base: the base template is filled once, at start-up, with data that is not a plain map - a struct, a pointer
	// to a struct, a typed map - and then used by every goroutine at once, untouched before: Load + Render, New + RenderString, Get
	for round := 0; round < coldRounds+3; round++ {
		mk := c09TypedData[round%len(c09TypedData)]
		page := []string{"attrs", "loop", "chain", "filters"}[round%4] + ".vuego"
		alone := func(kind int) (string, bool) {
			return c09FilledDo(c10Engine(&lockedFS{m: c10FS()}).Fill(mk()), kind, page)
		}
		var wants [3][2]any
		for k := 0; k < 3; k++ {
			o, e := alone(k)
			wants[k] = [2]any{o, e}
		}
		filled := c10Engine(&lockedFS{m: c10FS()}).Fill(mk())
		start := make(chan struct{})
		var cw sync.WaitGroup
		for g := 0; g < n; g++ {
			cw.Add(1)
			go func(g int) {
				defer cw.Done()
				<-start
				out, e := c09FilledDo(filled, g%3, page)
				mu.Lock()
				calls++
				if (out != wants[g%3][0] || e != wants[g%3][1]) && len(mismatches) < 20 {
					mismatches = append(mismatches, fmt.Sprintf("cold use of a base filled with %T (call %d, %s): got %q/%v alone %q/%v", mk(), g%3, page, out, e, wants[g%3][0], wants[g%3][1]))
				}
				mu.Unlock()
			}(g)
		}
		close(start)
		cw.Wait()
	}
	// first use of a STRUCT TYPE: rows of a type the process has never resolved a path on (a fresh type per round, 40 tagged fields),
	// addressed by the JSON tag of their last field, rendered by every goroutine at once - whatever the engine remembers per type is built
	// under contention here
	for round := 0; round < coldRounds+3; round++ {
		var fields []reflect.StructField
		for i := 0; i < 40; i++ {
			fields = append(fields, reflect.StructField{Name: fmt.Sprintf("F%02d", i), Type: reflect.TypeOf(""),
				Tag: reflect.StructTag(fmt.Sprintf(`json:"f%02d_%d_%d,omitempty" yaml:"f%02d" db:"col_%02d_of_the_row"`, i, round, seedBase%1000003, i, i))})
		}
		rt := reflect.StructOf(fields)
		rows := reflect.MakeSlice(reflect.SliceOf(rt), 3, 3)
		want := ""
		for k := 0; k < 3; k++ {
			rows.Index(k).Field(39).SetString(fmt.Sprintf("row-%d", k))
			want += fmt.Sprintf("<i>[row-%d]</i>\n", k)
		}
		tag := fmt.Sprintf("f39_%d_%d", round, seedBase%1000003)
		src := `<i v-for="r in rows">[{{ r.` + tag + ` }}]</i>`
		data := map[string]any{"rows": rows.Interface()}
		start := make(chan struct{})
		var cw sync.WaitGroup
		for g := 0; g < n; g++ {
			cw.Add(1)
			go func() {
				defer cw.Done()
				<-start
				var buf bytes.Buffer
				var err error
				func() {
					defer func() {
						if e := recover(); e != nil {
							err = fmt.Errorf("panic: %v", e)
						}
					}()
					err = base.New().Fill(data).RenderString(context.Background(), &buf, src)
				}()
				mu.Lock()
				calls++
				if (err != nil || buf.String() != want) && len(mismatches) < 20 {
					mismatches = append(mismatches, fmt.Sprintf("first use of a struct type (40 tagged fields, round %d): got %q/%v, alone %q", round, buf.String(), err, want))
				}
				mu.Unlock()
			}()
		}
		close(start)
		cw.Wait()
	}
	return
}

type c09Typed struct {
	A     string `json:"a"`
	B     string `json:"b"`
	C     int    `json:"c"`
	D     bool   `json:"d"`
	F     bool   `json:"f"`
	Items []any  `json:"items"`
}

// data that is not a map[string]any: the typed-data feature of Fill (struct fields by JSON tag, typed maps)
var c09TypedData = []func() any{
	func() any { return c09Typed{A: "x", B: "bee", C: 3, D: true, Items: []any{"p", "q", "r"}} },
	func() any { return &c09Typed{A: "x", B: "bee", C: 3, D: true, Items: []any{"p", "q", "r"}} },
	func() any { return map[string]string{"a": "x", "b": "bee", "c": "3"} },
	func() any { return map[string][]string{"items": {"p", "q"}, "extra": {"e"}} },
}

func c09FilledDo(t vuego.Template, kind int, page string) (out string, failed bool) {
	var buf bytes.Buffer
	var err error
	func() {
		defer func() {
			if e := recover(); e != nil {
				err = fmt.Errorf("panic: %v", e)
			}
		}()
		switch kind {
		case 0:
			err = t.Load(page).Render(context.Background(), &buf)
		case 1:
			err = t.New().RenderString(context.Background(), &buf, c10Files[page])
		case 2:
			buf.WriteString(t.Get("a") + "|" + t.Get("b"))
			err = t.New().RenderFile(context.Background(), &buf, page)
		}
	}()
	return buf.String(), err != nil
}

var raceFuncRe = regexp.MustCompile(`(?m)^\s+(github\.com/titpetric/vuego[^\s(]*)\(`)

func runC09(r *Run, replay *Case) {
	r.Res.Rule = "N = min(cores,16) goroutines x mixed Render/RenderFile/RenderString/Vue.Render calls over the C10 catalogue (every feature) on one engine and one base template; " +
		"variants: per-request data / shared read-only data, stable files / files rewritten underneath (cold and warm cache); cold starts of fresh engines and of a base filled with a struct / pointer / typed map; every result compared with the call made alone; " +
		"the same workload under the race detector; non-trivial = every concurrent call"
	rounds := 150
	if r.Thorough() {
		rounds = 3000
	}
	if os.Getenv("VERIF_RACE_CHILD") == "1" {
		// inside the -race build: just run the workloads; the detector writes its reports to GORACE's log_path
		for _, v := range [][2]bool{{false, false}, {true, false}, {false, true}, {true, true}} {
			c09Workload(r, rounds, v[0], v[1])
		}
		c09PairWorkload(r, rounds/3)
		return
	}
	variants := [][2]bool{{false, false}, {true, false}, {false, true}, {true, true}}
	if replay != nil {
		// one cross-talk variant, in this (child) process
		i := int(replay.Input["variant"].(float64))
		if i == len(variants) {
			calls, mism := c09PairWorkload(r, rounds)
			name := "concurrent pairs of stateful programs"
			c := &Case{Name: name, Input: map[string]any{"variant": i}, Impl: map[string]any{"calls": calls, "mismatches": len(mism)}, Key: name, Oracle: &Verdict{OK: true}}
			if len(mism) > 0 {
				c.Oracle = &Verdict{OK: false, Class: "cross-talk:pairs", Detail: strings.Join(mism[:min(3, len(mism))], "\n")}
			}
			r.Add(c)
			return
		}
		v := variants[i]
		calls, mism := c09Workload(r, rounds, v[0], v[1])
		name := fmt.Sprintf("concurrent workload shared-data=%v files-changing=%v", v[0], v[1])
		c := &Case{Name: name, Input: map[string]any{"variant": i}, Impl: map[string]any{"calls": calls, "mismatches": len(mism)}, Key: name, Oracle: &Verdict{OK: true}}
		if len(mism) > 0 {
			c.Oracle = &Verdict{OK: false, Class: fmt.Sprintf("cross-talk:shared=%v:mutate=%v", v[0], v[1]), Detail: strings.Join(mism[:min(3, len(mism))], "\n")}
		}
		r.Add(c)
		return
	}
	for i, v := range variants {
		// each variant in a child process: a `fatal error: concurrent map …` kills the process and must not take the check down
		name := fmt.Sprintf("concurrent workload shared-data=%v files-changing=%v", v[0], v[1])
		_, verdict := runIsolated("C09", map[string]any{"variant": i}, name, 10*time.Minute)
		c := &Case{Name: name, Input: map[string]any{"variant": i, "rounds": rounds}, Key: name, Oracle: verdict, Tags: []string{"stream:crosstalk"}}
		n := runtime.NumCPU()
		if n > 16 {
			n = 16
		}
		r.Res.Distribution["concurrent-calls"] += n * rounds
		if !verdict.OK && verdict.Class == "crash" {
			verdict.Class = fmt.Sprintf("crash:shared=%v:mutate=%v", v[0], v[1])
			if strings.Contains(verdict.Detail, "concurrent map") {
				verdict.Class = fmt.Sprintf("fatal-concurrent-map-access:shared=%v:mutate=%v", v[0], v[1])
			}
		}
		r.Add(c)
	}
	{
		// every pair of the stateful programs on an engine of its own (child process, like the variants above)
		name := "concurrent pairs of stateful programs"
		_, verdict := runIsolated("C09", map[string]any{"variant": len(variants)}, name, 10*time.Minute)
		c := &Case{Name: name, Input: map[string]any{"variant": len(variants), "rounds": rounds}, Key: name, Oracle: verdict, Tags: []string{"stream:crosstalk-pairs"}}
		if !verdict.OK && verdict.Class == "crash" {
			verdict.Class = "crash:pairs"
			if strings.Contains(verdict.Detail, "concurrent map") {
				verdict.Class = "fatal-concurrent-map-access:pairs"
			}
		}
		r.Add(c)
	}
	// race build
	raceBin := filepath.Join(filepath.Dir(os.Args[0]), "vharness-race")
	if _, err := os.Stat(raceBin); err != nil {
		r.Res.Notes = append(r.Res.Notes, "race build not found: "+raceBin)
		r.Add(&Case{Name: "race detector run", Input: map[string]any{"race": true}, Key: "race", Oracle: &Verdict{OK: false, Class: "race-build-missing", Detail: raceBin}})
		return
	}
	dir, _ := os.MkdirTemp("", "vh-race-")
	defer os.RemoveAll(dir)
	cmd := exec.Command(raceBin, "-prop", "C09", "-tier", r.Tier, "-seed", fmt.Sprint(r.Seed), "-out", filepath.Join(dir, "out.json"), "-driver", "/nonexistent")
	cmd.Env = append(os.Environ(), "VERIF_RACE_CHILD=1", "GORACE=log_path="+filepath.Join(dir, "race")+" halt_on_error=0 exitcode=0 history_size=3")
	outp, err := cmd.CombinedOutput()
	logs, _ := filepath.Glob(filepath.Join(dir, "race.*"))
	var all strings.Builder
	for _, l := range logs {
		b, _ := os.ReadFile(l)
		all.Write(b)
	}
	if strings.Contains(string(outp), "fatal error: concurrent map") {
		all.WriteString("\nWARNING: DATA RACE\n" + string(outp))
	}
	reports := strings.Split(all.String(), "WARNING: DATA RACE")
	c := &Case{Name: "race detector run", Input: map[string]any{"race": true, "rounds": rounds}, Impl: map[string]any{"reports": len(reports) - 1}, Key: "race", Oracle: &Verdict{OK: true}, Tags: []string{"stream:race"}}
	if err != nil && len(reports) <= 1 {
		c.Oracle = &Verdict{OK: false, Class: "race-run-failed", Detail: fmt.Sprintf("%v: %s", err, tail(string(outp), 600))}
	}
	r.Add(c)
	seen := map[string]bool{}
	for _, rep := range reports[1:] {
		fns := raceFuncRe.FindAllStringSubmatch(rep, -1)
		site := "unknown"
		if len(fns) > 0 {
			site = strings.TrimPrefix(fns[0][1], "github.com/titpetric/vuego")
		}
		if seen[site] {
			continue
		}
		seen[site] = true
		r.Add(&Case{Name: "data race at " + site, Input: map[string]any{"race": true, "site": site}, Key: "race:" + site, Tags: []string{"stream:race"},
			Oracle: &Verdict{OK: false, Class: "data-race:" + site, Detail: tail(rep, 1500)}})
	}
}

func tail(s string, n int) string {
	if len(s) <= n {
		return s
	}
	return s[:n]
}
