package main

// C10 — output depends only on the call's own templates and data, byte for byte.
// A catalogue of template programs is rendered on one long-used engine in every ordered pair / random sequences, each result
// compared byte for byte with the same program on a fresh engine; every program is repeated to expose map-order effects;
// caller data is snapshotted before and after; the cached DOM is snapshotted before and after.

import (
	"bytes"
	"context"
	"fmt"
	"io/fs"
	"reflect"
	"strings"
	"testing/fstest"
	"time"

	vuego "github.com/titpetric/vuego"
)

func init() { props["C10"] = runC10 }

type c10Prog struct {
	name string
	page string
	data func() map[string]any
	want string // when set: the output this program has whatever ran before it (process-wide state is shared with "fresh" engines too)
}

// two DIFFERENT struct types with the same package path and the same name (function-local types), their JSON tags on different fields
func c10RowsA() map[string]any {
	type Row struct {
		Label string `json:"label"`
		Count int    `json:"count"`
	}
	return map[string]any{"rows": []Row{{"la", 1}, {"lb", 2}}, "one": Row{"lone", 9}}
}

func c10RowsB() map[string]any {
	type Row struct {
		Count int    `json:"count"`
		Extra string `json:"extra"`
		Label string `json:"label"`
	}
	return map[string]any{"rows": []Row{{3, "x", "lc"}, {4, "y", "ld"}}, "one": Row{8, "z", "ltwo"}}
}

var c10Files = map[string]string{
	"attrs.vuego":    `<p :a="a" :b="b" :c="c" :d="d" :e="e" id="s">x</p>`,
	"style.vuego":    `<p style="color: red; margin: 0; top: 1px" :style="{color: a, fontSize: '3px', left: b, zIndex: c}">x</p><i style="a:1; b:2; c:3; d:4" v-show="f">y</i>`,
	"loop.vuego":     `<ul><li v-for="(i, v) in items" :data-i="i" :class="{odd: v}">{{ i }}={{ v }}</li></ul><p v-else>none</p>`,
	"chain.vuego":    `<p v-if="a == 'x'">A</p><p v-else-if="b">B</p><p v-else>C</p>`,
	"inc.vuego":      `<template include="comp.vuego" :p="a" q="{{ b }}"><b>slot {{ c }}</b></template><template include="comp.vuego" :p="b"></template>`,
	"comp.vuego":     "---\nfm: FM\n---\n<section :data-p=\"p\"><slot>fallback</slot>{{ p }}/{{ q }}/{{ fm }}</section>",
	"once.vuego":     `<div v-for="x in items"><i v-once>once</i><b>{{ x }}</b></div>`,
	"filters.vuego":  `<p>{{ a | upper }} {{ b | default("dflt") }} {{ len(items) }} {{ a | lower | title }}</p>`,
	"fm.vuego":       "---\ntitle: from-fm\nextra: [1, 2]\n---\n<h1>{{ title }}</h1><p>{{ a }}</p><i v-for=\"x in extra\">{{ x }}</i>",
	"layouted.vuego": "---\nlayout: main\n---\n<p>{{ a }} in layout</p>",
	// a page that hands named slots to its layout; the layout places them next to other content
	"slotpage.vuego":      "---\nlayout: slots\n---\n<template #sidebar><nav>menu {{ b }}</nav></template><template v-slot:foot><i>f</i><b>g</b></template><p>Hello {{ a }}</p>",
	"layouts/slots.vuego": `<aside><slot name="sidebar"></slot><footer>signed in as {{ a }}</footer></aside><main v-html="content"></main><div><slot name="foot"></slot><u>{{ b }}</u></div>`,
	// two pages in different directories that name the SAME layout: a sibling file wins over layouts/, so the name means one file for the
	// blog page and another for the docs page - whatever was rendered before
	"blog/hello.vuego":   "---\nlayout: post\n---\n<p>blog {{ a }}</p>",
	"blog/post.vuego":    `<article class="blog-post"><div v-html="content"></div><i>{{ b }}</i></article>`,
	"docs/intro.vuego":   "---\nlayout: post\n---\n<p>docs {{ a }}</p>",
	"layouts/post.vuego": `<section class="site-post"><div v-html="content"></div><u>{{ b }}</u></section>`,
	"layouts/main.vuego": `<html><body><div v-html="content"></div><footer>{{ a }}</footer></body></html>`,
	"fail.vuego":         `<p>{{ a | nosuchfunction }}</p>`,
	"failinc.vuego":      `<b>x</b><template include="missing.vuego"></template>`,
	"fmset.vuego":        "---\ncount: 1\nlabel: L\n---\n<template :count=\"count + 1\" :label=\"a\"></template><p>visit {{ count }} {{ label }}</p>",
	"nest.vuego":         `<template include="card.vuego" :t="a"></template><template include="card.vuego" :t="b"></template><i v-for="x in items"><template include="card.vuego" :t="x"></template></i>`,
	"card.vuego":         `<div class="card"><template include="badge.vuego" :label="t" title="{{ t }}"></template><template v-html="t"></template></div>`,
	"badge.vuego":        `<b :data-t="title">{{ label }}</b>`,
	"failmid.vuego":      `<p title="tok={{ a }} exp={{ b | nosuchfunction }}">x</p>`,
	"failtext.vuego":     `<p>tok={{ a }} and {{ b | nosuchfunction }} tail</p>`,
	"failreq.vuego":      `<template include="req.vuego"></template>`,
	"req.vuego":          `<template :required="zz"><i>{{ zz }}</i></template>`,
	"tpl.vuego":          `<template :n="a"><p>{{ n }}</p></template><p>{{ n }}</p><template v-keep :m="b"><i>{{ m }}</i></template>`,
	// the elements with 3 and 5 attributes have spare capacity in the parsed attribute list (the tokenizer grows it 1, 2, 4, 8): an
	// append to an aliased list would land in the cached node's array
	// conditions whose operands change their dynamic Go type from one render to the next (int / float64 / int64 / uint8; string / nil / absent)
	"types.vuego": `<p v-if="c == 3">three</p><p v-else>not three</p><i v-if="a != 'x'">nx</i><b :class="{on: c == 3}" v-show="c != 0">{{ c == 3 }}</b><u :data-e="c == 3">{{ a == 'x' }}</u>`,
	"vhtml.vuego": `<div v-html="h"></div><p v-text="h"></p><pre v-pre>{{ a }}</pre><div class="box" id="main" v-html="a"></div>` +
		`<p class="k" id="t" data-q="1" lang="en" v-text="b"></p><section class="s" title="t" v-html="b"></section><q class="c" id="i" lang="x" data-a="1" v-text="a"></q>`,
	"map.vuego": `<i v-for="v in one">{{ v }}</i><p>{{ m.k }} {{ m.l[1] }}</p>`,
	// a <template v-html> (evaluated in place on the node it is written on) in a file WITHOUT any include, followed by interpolated siblings
	"tplhtml.vuego": `<main><h1>{{ a }}</h1><template v-html="h"></template><footer>note {{ b }}</footer></main>`,
	// registered shorthand component tags INSIDE an included component (rewritten to include tags when the component is parsed)
	"shorthand.vuego":          `<template include="panel.vuego" :t="a"></template><ui-badge :label="b"></ui-badge><i v-for="x in items"><template include="panel.vuego" :t="x"></template></i>`,
	"panel.vuego":              `<div class="panel"><ui-badge :label="t"></ui-badge><span>{{ t }}</span><ui-badge label="fixed"></ui-badge></div>`,
	"components/UiBadge.vuego": `<b class="badge">{{ label }}</b>`,
	// a program that DEFINES variables in every kind of scope (top level, loop body, included component, bound and plain <template> attributes) and a
	// program that only READS those names, in every kind of scope: nothing the first one defined is visible in the second, whatever ran before
	// one static style text merged with bound styles that do / do not override its declarations, from render to render
	"stylecache.vuego": `<div style="color:red;margin:0" :style="extra">x</div><p style="color:red;margin:0" v-show="d">y</p>`,
	// :class / :style / an ordinary attribute bound to a VARIABLE that holds a map with many entries: whatever is printed for it is printed
	// in one order, render after render (a Go map has no order of its own)
	"mapbound.vuego": `<div :class="cls" :style="sty" :data-m="cls">x</div><p :class="nested.cls" :title="sty">y</p><i v-for="(k, v) in cls">{{ k }}={{ v }};</i><u>{{ cls }}|{{ sty }}</u>`,
	// a loop over a MAP whose values differ: the items come in one order, render after render (the order of the keys)
	"mapiter.vuego": `<ul><li v-for="v in prices">{{ v }}</li></ul><ol><li v-for="(i, row) in people">{{ i }}:{{ row.name }}</li></ol><p v-for="n in byint">{{ n }}</p><i v-for="t in typed">{{ t }};</i>`,
	"rows.vuego":    `<i v-for="r in rows">{{ r.label }}|{{ r.count }};</i><b>{{ one.label }}|{{ one.count }}</b>`,
	"leaksrc.vuego": `<template canary="CANARY-7f3a" other="x"></template><ul><li v-for="p in items"><template canary="CANARY-7f3a" pp="{{ p }}"></template>{{ p }}{{ canary }}</li></ul>` +
		`<template include="leakcomp.vuego" :canary3="'CANARY-7f3a'"></template><div v-for="(i, p) in items"><template :canary2="'CANARY-7f3a'"></template><b>{{ canary2 }}</b></div>`,
	"leakcomp.vuego":     `<template canary="CANARY-7f3a"></template><i v-for="w in items"><template canary4="CANARY-7f3a"></template>c</i>`,
	"leaksink.vuego":     `<b>[{{ canary }}|{{ canary2 }}|{{ canary3 }}|{{ canary4 }}|{{ pp }}]</b><ol><li v-for="q in items">[{{ canary }}|{{ canary2 }}|{{ canary4 }}|{{ p }}|{{ pp }}]</li></ol><template include="leaksinkcomp.vuego"></template>`,
	// components WITHOUT any template syntax of their own (plain markup, includes with literal props only) around a component that reads the
	// includer's variables: what the inner component prints is decided by the scope of each use - per render, per loop iteration
	"staticwrap.vuego": `<template include="wrap.vuego"></template><i v-for="x in items"><template include="wrap.vuego"></template></i><template include="wrap2.vuego"></template><p>{{ a }}</p>`,
	"wrap.vuego":       `<section class="w"><template include="wleaf.vuego" kind="plain"></template></section>`,
	"wrap2.vuego":      `<div><template include="wrap.vuego"></template><ui-badge label="fixed"></ui-badge></div>`,
	"wleaf.vuego":      `<b>{{ kind }}:{{ a }}/{{ b }}/{{ x }}</b>`,
	"leaksinkcomp.vuego": `<u>[{{ canary }}|{{ canary3 }}]</u><s v-for="z in items">[{{ canary }}|{{ canary4 }}|{{ w }}]</s>`,
}

// c10Engine: the engine every C09/C10 stream uses — shorthand component tags registered from components/
func c10Engine(fsys fs.FS) vuego.Template { return vuego.NewFS(fsys, vuego.WithComponents()) }

func c10Data(variant int) func() map[string]any {
	return func() map[string]any {
		d := map[string]any{"a": "x", "b": "bee", "c": 3, "d": true, "e": 1.5, "f": false, "items": []any{"p", "q", "r"}, "h": "<u>raw</u> & co",
			"one": map[string]any{"only": "v"}, "m": map[string]any{"k": "kv", "l": []any{1, 2}}}
		if variant == 1 {
			d["a"], d["b"], d["items"], d["f"] = "other", "", []any{}, true
		}
		if variant == 2 {
			d["a"], d["b"], d["c"] = "SECRET-OF-ANOTHER-RENDER", "bsecret", 0
		}
		if variant == 3 {
			return map[string]any{} // a static page rendered without data
		}
		switch variant {
		case 4:
			d["c"], d["a"] = float64(3), nil
		case 5:
			d["c"] = int64(3)
			delete(d, "a")
		case 6:
			d["c"], d["a"] = uint8(0), "y"
		}
		return d
	}
}

// a page that resolves several hundred DISTINCT dotted paths (a wide table): more than any bounded cache of parsed paths holds at once
func init() {
	var sb strings.Builder
	sb.WriteString("<table>")
	for i := 0; i < 320; i++ {
		fmt.Fprintf(&sb, "<td>{{ wide.k%d }}{{ wide.sub.s%d }}</td>", i, i%40)
	}
	sb.WriteString("</table><p>{{ user.name }}{{ user.address.city }}</p>")
	c10Files["manypaths.vuego"] = sb.String()
}

func c10WideData() map[string]any {
	wide := map[string]any{}
	sub := map[string]any{}
	for i := 0; i < 320; i++ {
		wide[fmt.Sprintf("k%d", i)] = i
		sub[fmt.Sprintf("s%d", i%40)] = "s"
	}
	wide["sub"] = sub
	return map[string]any{"wide": wide, "user": map[string]any{"name": "N", "address": map[string]any{"city": "C"}}}
}

func c10Progs() []c10Prog {
	var out []c10Prog
	for _, f := range []string{"attrs", "style", "loop", "chain", "inc", "once", "filters", "fm", "layouted", "slotpage", "fmset", "nest", "fail", "failinc", "failmid", "failtext", "failreq", "tpl", "vhtml", "map", "tplhtml", "shorthand", "leaksrc", "leaksink", "blog/hello", "docs/intro", "staticwrap"} {
		for v := 0; v < 4; v++ {
			out = append(out, c10Prog{fmt.Sprintf("%s/%d", f, v), f + ".vuego", c10Data(v), ""})
		}
	}
	sc := func(extra string, show bool) func() map[string]any {
		return func() map[string]any { return map[string]any{"extra": extra, "d": show} }
	}
	out = append(out,
		c10Prog{"mapbound", "mapbound.vuego", func() map[string]any {
			cls := map[string]any{}
			sty := map[string]string{}
			flags := map[string]bool{}
			for _, k := range []string{"active", "big", "card", "dark", "error", "flat", "ghost", "hover", "info", "jumbo", "keyed", "light"} {
				cls[k] = true
				sty[k+"Width"] = k + "px"
				flags[k] = true
			}
			return map[string]any{"cls": cls, "sty": sty, "nested": map[string]any{"cls": flags}}
		}, ""},
		c10Prog{"mapiter", "mapiter.vuego", func() map[string]any {
			prices := map[string]any{}
			people := map[string]any{}
			byint := map[int]string{}
			typed := map[string]int{}
			for i, k := range []string{"kiwi", "apple", "fig", "date", "cherry", "banana", "grape", "elder", "lime", "mango", "Zed", "10", "9"} {
				prices[k] = i * 3
				people[k] = map[string]any{"name": "N-" + k}
				byint[100-i*7] = "v" + k
				typed[k] = i
			}
			return map[string]any{"prices": prices, "people": people, "byint": byint, "typed": typed}
		}, "<ul>\n  <li>33</li>\n  <li>36</li>\n  <li>30</li>\n  <li>3</li>\n  <li>15</li>\n  <li>12</li>\n  <li>9</li>\n  <li>21</li>\n  <li>6</li>\n  <li>18</li>\n  <li>0</li>\n  <li>24</li>\n  <li>27</li>\n</ul>\n<ol>\n  <li>0:N-10</li>\n  <li>1:N-9</li>\n  <li>2:N-Zed</li>\n  <li>3:N-apple</li>\n  <li>4:N-banana</li>\n  <li>5:N-cherry</li>\n  <li>6:N-date</li>\n  <li>7:N-elder</li>\n  <li>8:N-fig</li>\n  <li>9:N-grape</li>\n  <li>10:N-kiwi</li>\n  <li>11:N-lime</li>\n  <li>12:N-mango</li>\n</ol>\n<p>v9</p>\n<p>v10</p>\n<p>vZed</p>\n<p>vmango</p>\n<p>vlime</p>\n<p>velder</p>\n<p>vgrape</p>\n<p>vbanana</p>\n<p>vcherry</p>\n<p>vdate</p>\n<p>vfig</p>\n<p>vapple</p>\n<p>vkiwi</p>\n<i>11;</i>\n<i>12;</i>\n<i>10;</i>\n<i>1;</i>\n<i>5;</i>\n<i>4;</i>\n<i>3;</i>\n<i>7;</i>\n<i>2;</i>\n<i>6;</i>\n<i>0;</i>\n<i>8;</i>\n<i>9;</i>\n"},
		c10Prog{"manypaths", "manypaths.vuego", c10WideData, ""},
		c10Prog{"stylecache/add", "stylecache.vuego", sc("padding:1px", true), "<div style=\"color:red;margin:0;padding:1px;\">x</div>\n<p style=\"color:red;margin:0\">y</p>\n"},
		c10Prog{"stylecache/override", "stylecache.vuego", sc("color:blue", false), "<div style=\"color:blue;margin:0;\">x</div>\n<p style=\"color:red;margin:0;display:none;\">y</p>\n"},
		c10Prog{"stylecache/both", "stylecache.vuego", sc("margin:9px;top:1px", true), "<div style=\"color:red;margin:9px;top:1px;\">x</div>\n<p style=\"color:red;margin:0\">y</p>\n"})
	out = append(out, c10Prog{"rows/a", "rows.vuego", c10RowsA, "<i>la|1;</i>\n<i>lb|2;</i>\n<b>lone|9</b>\n"}, c10Prog{"rows/b", "rows.vuego", c10RowsB, "<i>lc|3;</i>\n<i>ld|4;</i>\n<b>ltwo|8</b>\n"})
	for _, f := range []string{"types", "chain"} {
		for v := 0; v < 7; v++ {
			if f == "chain" && v < 4 {
				continue
			}
			out = append(out, c10Prog{fmt.Sprintf("%s/%d", f, v), f + ".vuego", c10Data(v), ""})
		}
	}
	return out
}

func c10FS() fstest.MapFS {
	mfs := fstest.MapFS{}
	for n, s := range c10Files {
		mfs[n] = &fstest.MapFile{Data: []byte(s), ModTime: time.Unix(1700000000, 0)}
	}
	return mfs
}

func c10Render(t vuego.Template, p c10Prog, viaVue bool) (string, bool, map[string]any, map[string]any) {
	data := p.data()
	snap := p.data()
	var buf bytes.Buffer
	var err error
	func() {
		defer func() {
			if e := recover(); e != nil {
				err = fmt.Errorf("panic: %v", e)
			}
		}()
		if viaVue {
			err = vuego.VerifVue(t).Render(&buf, p.page, data)
		} else {
			err = t.Load(p.page).Fill(data).Render(context.Background(), &buf)
		}
	}()
	return buf.String(), err != nil, data, snap
}

func runC10(r *Run, replay *Case) {
	progs := c10Progs()
	r.Res.Rule = "catalogue of 76 programs (19 templates: bound attributes, styles, loops, chains, includes+slots, v-once, filters, front-matter, layouts, failing templates x 4 data variants incl. no data at all); " +
		"every ordered pair on one long-used engine vs a fresh engine, each program repeated 20x (map order), random sequences; caller data and cached DOM snapshotted; non-trivial = every comparison"
	reps := 20
	mfs := c10FS()
	mk := c10Engine
	long := mk(mfs)
	fresh := func(p c10Prog, viaVue bool) (string, bool) {
		out, e, _, _ := c10Render(mk(mfs), p, viaVue)
		return out, e
	}
	check := func(kind string, hist []string, p c10Prog, viaVue bool) {
		out, e, data, snap := c10Render(long, p, viaVue)
		wout, we := fresh(p, viaVue)
		c := &Case{Name: kind + " " + p.name, Input: map[string]any{"kind": kind, "history": hist, "prog": p.name, "vue": viaVue}, Impl: map[string]any{"out": out, "err": e},
			Key: fmt.Sprintf("%s|%v|%s|%v", kind, hist, p.name, viaVue), Tags: []string{"kind:" + kind, "prog:" + p.page}, Oracle: &Verdict{OK: true}}
		if p.want != "" && out != p.want {
			c.Oracle = &Verdict{OK: false, Class: "differs-from-own-inputs:" + p.page, Detail: fmt.Sprintf("after %v: %q, the program's files and data give %q", hist, out, p.want)}
		} else if p.page == "leaksink.vuego" && strings.Contains(out+wout, "CANARY") {
			// (process-wide pools are shared with the fresh engine too: the value must not be there at all)
			c.Oracle = &Verdict{OK: false, Class: "value-of-another-render-visible:" + p.page, Detail: fmt.Sprintf("after %v: %q (fresh engine: %q) shows a value only another program defines", hist, out, wout)}
		} else if out != wout || e != we {
			c.Oracle = &Verdict{OK: false, Class: "differs-from-fresh:" + p.page, Detail: fmt.Sprintf("after %v: %q/%v, fresh engine %q/%v", hist, out, e, wout, we)}
		} else if !reflect.DeepEqual(data, snap) {
			entry := "template"
			if viaVue {
				entry = "vue-render"
			}
			c.Oracle = &Verdict{OK: false, Class: "caller-data-modified:" + entry, Detail: fmt.Sprintf("%s: data passed by the caller changed from %v to %v", p.name, snap, data)}
		}
		r.Add(c)
	}
	if replay != nil && replay.Input["kind"] == "nofs" {
		c10NoFS(r)
		return
	}
	if replay != nil && replay.Input["kind"] == "processor-history" {
		c10ProcessorHistory(r)
		c10InPlaceProcessorHistory(r)
		return
	}
	if replay != nil && replay.Input["steps"] != nil {
		c10FileHistory(r)
		return
	}
	if replay != nil && replay.Input["kind"] == "pair-plain" {
		mk = func(fsys fs.FS) vuego.Template { return vuego.NewFS(fsys) }
		long = mk(mfs)
		byName := map[string]c10Prog{}
		for _, p := range progs {
			byName[p.name] = p
		}
		var hist []string
		if hs, ok := replay.Input["history"].([]any); ok {
			for _, h := range hs {
				hist = append(hist, fmt.Sprint(h))
				c10Render(long, byName[fmt.Sprint(h)], replay.Input["vue"] == true)
			}
		}
		check("pair-plain", hist, byName[fmt.Sprint(replay.Input["prog"])], replay.Input["vue"] == true)
		return
	}
	if replay != nil {
		for _, p := range progs {
			if p.name == replay.Input["prog"] {
				for i := 0; i < reps; i++ {
					check("repeat", nil, p, replay.Input["vue"] == true)
				}
			}
		}
		return
	}
	// repeats (map-order exposure) through both entry points
	for _, p := range progs {
		var first string
		for i := 0; i < reps; i++ {
			out, e, _, _ := c10Render(long, p, i%2 == 1)
			_ = e
			if c10Layouted(p.page) && i%2 == 1 {
				continue // Vue.Render does not apply layouts: a different program
			}
			if i == 0 {
				first = out
			} else if out != first {
				c := &Case{Name: "repeat " + p.name, Input: map[string]any{"kind": "repeat", "prog": p.name, "vue": false}, Key: "rep-fail|" + p.name, Oracle: &Verdict{OK: false, Class: "nondeterministic:" + p.page,
					Detail: fmt.Sprintf("render %d of the same inputs gives %q, the first gave %q", i+1, out, first)}}
				r.Add(c)
				break
			}
		}
		check("repeat", nil, p, false)
		check("repeat", nil, p, true)
	}
	// cached DOM unchanged by rendering
	for _, p := range progs {
		before := jstr(nodesToJSON(vuego.VerifCachedDOM(vuego.VerifVue(long), p.page)))
		c10Render(long, p, true)
		after := jstr(nodesToJSON(vuego.VerifCachedDOM(vuego.VerifVue(long), p.page)))
		c := &Case{Name: "cached DOM " + p.name, Input: map[string]any{"kind": "cached-dom", "prog": p.name}, Key: "dom|" + p.name, Oracle: &Verdict{OK: true}, Tags: []string{"kind:cached-dom"}}
		if before != after && before != "[]" {
			c.Oracle = &Verdict{OK: false, Class: "cached-dom-modified:" + p.page, Detail: fmt.Sprintf("before %s after %s", before, after)}
		}
		r.Add(c)
	}
	// the pure Lean model against the LONG-USED engine: after everything above, each program still renders what the model — a function of
	// (files, data) with no memory — says
	for _, p := range progs {
		if c10Layouted(p.page) {
			continue
		}
		out, e, _, _ := c10Render(long, p, true)
		pc := pageCase("history:"+p.name, c10Files, map[string]string{"ui-badge": "components/UiBadge.vuego"}, p.page, p.data(), "kind:model-vs-long-used-engine")
		if e {
			pc.Impl = map[string]any{"err": true}
		} else {
			pc.Impl = map[string]any{"out": out}
		}
		r.Add(pc)
	}
	// ordered pairs
	for _, p1 := range progs {
		for _, p2 := range progs {
			c10Render(long, p1, false)
			check("pair", []string{p1.name}, p2, false)
		}
	}
	r.Res.Exhaustive = true
	// the same pairs on an engine WITHOUT registered component shorthands (a different path through preprocessing): both entry points
	mk = func(fsys fs.FS) vuego.Template { return vuego.NewFS(fsys) }
	long = mk(mfs)
	for _, p1 := range progs {
		for _, p2 := range progs {
			if p1.page == "shorthand.vuego" || p2.page == "shorthand.vuego" {
				continue
			}
			vue := !c10Layouted(p1.page)
			c10Render(long, p1, vue)
			check("pair-plain", []string{p1.name}, p2, vue)
			check("pair-plain", []string{p1.name, p2.name}, p2, false)
		}
	}
	mk = c10Engine
	long = mk(mfs)
	n := 600
	if r.Thorough() {
		n = 20000
	}
	for i := 0; i < n; i++ {
		var hist []string
		for k := 1 + r.Rng.Intn(4); k > 0; k-- {
			p := progs[r.Rng.Intn(len(progs))]
			hist = append(hist, p.name)
			c10Render(long, p, r.Rng.Intn(2) == 0)
		}
		check("sequence", hist, progs[r.Rng.Intn(len(progs))], r.Rng.Intn(3) == 0)
	}
	c10NoFS(r)
	c10FileHistory(r)
	c10ProcessorHistory(r)
	c10InPlaceProcessorHistory(r)
}

// c10FileHistory: "the call's own templates" are the files as they are NOW. A file that was rendered and is then replaced by another
// revision - with a later, an earlier (a rolled-back release, `cp -p`, an override removed from an overlay) or the zero modification time -
// is rendered from its current content by the engine that rendered the other revision before (the C15 history machinery, every step compared
// with a fresh engine).
func c10FileHistory(r *Run) {
	for _, f := range []string{"page.vuego", "comp.vuego", "layouts/main.vuego"} {
		for _, e := range []string{"template-render", "render-file", "vue-render"} {
			for _, order := range [][]string{{"advance", "back"}, {"back", "back"}, {"back", "advance"}, {"advance", "back-ms"}} {
				steps := []c15Step{{Op: "render", Entry: e}}
				for _, m := range order {
					steps = append(steps, c15Step{Op: "edit", File: f, Mtime: m}, c15Step{Op: "render", Entry: e}, c15Step{Op: "render", Entry: e})
				}
				for _, kind := range []string{"", "overlay"} {
					c := c15Run(steps, kind)
					c.Tags = append(c.Tags, "stream:file-history")
					r.Add(c)
				}
			}
		}
	}
}

// an engine WITHOUT a filesystem (vuego.New()), used through New() / Assign / RenderString: every ordered pair and triple of requests on one
// engine against the last request alone on a fresh engine. A request = optional Assign on a per-request copy + a template string.
type c10Req struct {
	name   string
	assign [2]string // key, value ("" = no Assign)
	tpl    string
}

var c10Reqs = []c10Req{
	{"assign-user", [2]string{"user", "alice"}, `<p>user=[{{ user }}]</p>`},
	{"read-user", [2]string{}, `<p>user=[{{ user }}]</p><i v-if="user">in</i>`},
	{"template-attr", [2]string{}, `<template secret="s3cr3t"></template><b>[{{ secret }}]</b>`},
	{"read-secret", [2]string{}, `<b>[{{ secret }}]</b><i :title="secret">t</i>`},
	{"template-bound", [2]string{"n", "2"}, `<template :k="n"></template><u>{{ k }}</u>`},
	{"read-k", [2]string{}, `<u>[{{ k }}|{{ n }}]</u>`},
	{"pipe-dot", [2]string{"s", "x"}, `<p>{{ s | upper }}</p>`},
	{"loop", [2]string{}, `<li v-for="q in qs">{{ q }}</li><p v-else>none [{{ q }}]</p>`},
}

func c10NoFSRun(t vuego.Template, rq c10Req) string {
	var buf bytes.Buffer
	var err error
	func() {
		defer func() {
			if e := recover(); e != nil {
				err = fmt.Errorf("panic: %v", e)
			}
		}()
		c := t.New()
		if rq.assign[0] != "" {
			c = c.Assign(rq.assign[0], rq.assign[1])
		}
		err = c.RenderString(context.Background(), &buf, rq.tpl)
	}()
	if err != nil {
		return "error"
	}
	return buf.String()
}

func c10NoFS(r *Run) {
	var seqs [][]int
	for i := range c10Reqs {
		for j := range c10Reqs {
			seqs = append(seqs, []int{i, j})
			for k := range c10Reqs {
				if r.Thorough() || (i+2*j+3*k)%5 == 0 {
					seqs = append(seqs, []int{i, j, k})
				}
			}
		}
	}
	for _, sq := range seqs {
		long := vuego.New()
		var hist []string
		var last string
		for _, i := range sq {
			last = c10NoFSRun(long, c10Reqs[i])
			hist = append(hist, c10Reqs[i].name)
		}
		want := c10NoFSRun(vuego.New(), c10Reqs[sq[len(sq)-1]])
		c := &Case{Name: fmt.Sprintf("nofs %v", hist), Input: map[string]any{"kind": "nofs", "history": hist}, Impl: map[string]any{"out": last}, Key: fmt.Sprintf("nofs|%v", hist), Tags: []string{"kind:nofs"}, Oracle: &Verdict{OK: true}}
		if last != want {
			c.Oracle = &Verdict{OK: false, Class: "differs-from-fresh:nofs-engine", Detail: fmt.Sprintf("after %v the request %s gives %q, alone on a fresh engine %q", hist[:len(hist)-1], hist[len(hist)-1], last, want)}
		}
		r.Add(c)
	}
}

// pages that are rendered through a layout chain (Template.Render only; Vue.Render does not apply layouts)
func c10Layouted(page string) bool {
	switch page {
	case "layouted.vuego", "slotpage.vuego", "blog/hello.vuego", "docs/intro.vuego":
		return true
	}
	return false
}
