package main

// C04 — v-for. Each instance prints [i|x|outer] markers; the parsed output must list exactly zip(range n, xs) in order, the marker
// after the loop must show the pre-loop value of every shadowed name, and the v-else marker appears iff the loop produced nothing.

import (
	"reflect"
	"fmt"
	"regexp"
	"strings"
)

func init() { props["C04"] = runC04 }

type c04Coll struct {
	name string
	v    any
	strs []string // fmt.Sprint of the items, in order (nil = not a sequence: produces nothing)
}

func c04Colls() []c04Coll {
	var nilSlice []any
	var nilInts []int
	return []c04Coll{
		{"any3", []any{"a", "b", "c"}, []string{"a", "b", "c"}}, {"any1", []any{"only"}, []string{"only"}}, {"any0", []any{}, []string{}}, {"nilslice", nilSlice, []string{}}, {"nilints", nilInts, []string{}},
		{"ints", []int{10, 20, 30, 40}, []string{"10", "20", "30", "40"}}, {"strings", []string{"x", "y"}, []string{"x", "y"}}, {"array", [3]int{7, 8, 9}, []string{"7", "8", "9"}},
		{"floats", []float64{1.5, 2}, []string{"1.5", "2"}}, {"bools", []bool{true, false}, []string{"true", "false"}}, {"mixed", []any{1, "s", true, nil, 2.5}, []string{"1", "s", "true", "", "2.5"}},
		{"structs", []S2{{1, "p"}, {2, "q"}}, []string{"{1 p}", "{2 q}"}}, {"maps", []map[string]any{{"k": 1}}, []string{"map[k:1]"}}, {"nested", [][]int{{1, 2}, {3}}, []string{"[1 2]", "[3]"}},
		{"nil", nil, nil}, {"missing", "MISSING", nil}, {"int", 5, nil}, {"string", "abc", nil}, {"struct", S2{1, "a"}, nil}, {"bool", true, nil}, {"uint8s", []uint8{1, 2}, []string{"1", "2"}},
	}
}

var c04PlainItems = map[string]bool{"any3": true, "any1": true, "any0": true, "nilslice": true, "nilints": true, "ints": true, "strings": true, "array": true, "nil": true, "missing": true, "int": true, "uint8s": true}

var c04Re = regexp.MustCompile(`\[\[(.*?)\]\]`)

// files besides the page that some loop forms need
var c04Extra = map[string]string{
	"card.vuego": `<b>[[I:{{ i }}|{{ x }}|{{ outer }}]]</b>`,
}

type c04H map[string]any

type c04Form struct {
	name string
	// tpl: loop markup over collection expression `xs`; prints [[I:<idx>|<item>|<outer>] per instance
	tpl    func(varName string) string
	hasIdx bool
	// skip: items the looped element's own v-if rejects (nil = none)
	skip func(i int) bool
}

func c04Forms() []c04Form {
	return []c04Form{
		{"item", func(v string) string { return `<li v-for="` + v + ` in xs">[[I:|{{ ` + v + ` }}|{{ outer }}]]</li>` }, false, nil},
		{"index-item", func(v string) string {
			return `<li v-for="(i, ` + v + `) in xs">[[I:{{ i }}|{{ ` + v + ` }}|{{ outer }}]]</li>`
		}, true, nil},
		{"template", func(v string) string {
			return `<template v-for="(i, ` + v + `) in xs"><b>[[I:{{ i }}|{{ ` + v + ` }}|{{ outer }}]]</b></template>`
		}, true, nil},
		{"with-vif-true", func(v string) string {
			return `<li v-for="(i, ` + v + `) in xs" v-if="yes">[[I:{{ i }}|{{ ` + v + ` }}|{{ outer }}]]</li>`
		}, true, nil},
		// the looped element's own v-if REJECTS an item: that item renders nothing and leaves nothing behind in the scope
		{"with-vif-filter", func(v string) string {
			return `<li v-for="(i, ` + v + `) in xs" v-if="i != 1">[[I:{{ i }}|{{ ` + v + ` }}|{{ outer }}]]</li>`
		}, true, func(i int) bool { return i == 1 }},
		{"with-vif-filter-last", func(v string) string {
			return `<li v-for="(i, ` + v + `) in xs" v-if="i < 1">[[I:{{ i }}|{{ ` + v + ` }}|{{ outer }}]]</li>`
		}, true, func(i int) bool { return i >= 1 }},
		// ... every item rejected: the loop produces nothing at all (and a following v-else is due)
		{"with-vif-none", func(v string) string {
			return `<li v-for="(i, ` + v + `) in xs" v-if="i < 0">[[I:{{ i }}|{{ ` + v + ` }}|{{ outer }}]]</li>`
		}, true, func(i int) bool { return true }},
		{"with-vif-none-template", func(v string) string {
			return `<template v-for="(i, ` + v + `) in xs" v-if="outer == 'never'"><b>[[I:{{ i }}|{{ ` + v + ` }}|{{ outer }}]]</b></template>`
		}, true, func(i int) bool { return true }},
		{"with-binding", func(v string) string {
			return `<li v-for="(i, ` + v + `) in xs" :data-x="` + v + `" :class="{c: i}">[[I:{{ i }}|{{ ` + v + ` }}|{{ outer }}]]</li>`
		}, true, nil},
		{"child-reads", func(v string) string {
			return `<ul v-for="(i, ` + v + `) in xs"><li><em>[[I:{{ i }}|{{ ` + v + ` }}|{{ outer }}]]</em></li></ul>`
		}, true, nil},
		// the looped element is, or contains, a <template> that is evaluated in place (include with per-item props, v-html of the item)
		{"include-bound", func(v string) string {
			return `<template v-for="(i, ` + v + `) in xs" include="card.vuego" :x="` + v + `" :i="i"></template>`
		}, true, nil},
		{"include-nested", func(v string) string {
			return `<div v-for="(i, ` + v + `) in xs"><template include="card.vuego" :x="` + v + `" :i="i"></template></div>`
		}, true, nil},
		{"template-vhtml", func(v string) string {
			return `<div v-for="(i, ` + v + `) in xs">[[I:{{ i }}|<template v-html="` + v + `"></template>|{{ outer }}]]</div>`
		}, true, nil},
		// a bound attribute whose NAME is the loop variable (`<option :value="value">`): only <template :x> writes through to the parent scope
		{"bound-same-name", func(v string) string {
			return `<li v-for="(i, ` + v + `) in xs" :` + v + `="` + v + `" :i="i">[[I:{{ i }}|{{ ` + v + ` }}|{{ outer }}]]</li>`
		}, true, nil},
		{"child-bound-same-name", func(v string) string {
			return `<ul v-for="(i, ` + v + `) in xs"><li :` + v + `="` + v + `" :i="i"><em>[[I:{{ i }}|{{ ` + v + ` }}|{{ outer }}]]</em></li></ul>`
		}, true, nil},
		// the loop variables read THROUGH THE EXPRESSION EVALUATOR (its environment is built by EnvMap, not by Lookup)
		{"expr-reads", func(v string) string {
			return `<li v-for="(i, ` + v + `) in xs">[[I:{{ i + 0 }}|{{ true ? ` + v + ` : 0 }}|{{ outer }}]]</li>`
		}, true, nil},
		{"expr-context", func(v string) string {
			return `<li v-for="(i, ` + v + `) in xs"><em v-if="` + v + ` == ` + v + `">[[I:{{ i }}|{{ ` + v + ` }}|{{ outer }}]]</em></li>`
		}, true, nil},
	}
}

func c04Eval(coll c04Coll, form c04Form, varName string, withElse bool, rootKind string) *Case {
	tpl := `<b>[[before:{{ ` + varName + ` }}]]</b>` + form.tpl(varName)
	if withElse {
		tpl += `<p v-else>[[else]]</p>`
	}
	if form.skip != nil {
		tpl += `<i>[[mid:{{ i }}]]</i>` // the loop's index variable is gone after the loop, rejected items included
	}
	tpl += `<b>[[after:{{ ` + varName + ` }}]]</b>`
	outerVal := "OUTERVAL"
	m := map[string]any{"outer": "O", "yes": true, "item": outerVal, "Name": outerVal, "name": outerVal}
	if coll.name != "missing" {
		m["xs"] = coll.v
	}
	var data any = m
	if rootKind == "struct" {
		// root struct: xs and the shadowed name are struct fields
		type rootT struct {
			Xs    any    `json:"xs"`
			Name  string `json:"name"`
			Outer string `json:"outer"`
			Yes   bool   `json:"yes"`
			Item  string `json:"item"`
		}
		data = rootT{Xs: m["xs"], Name: outerVal, Outer: "O", Yes: true, Item: outerVal}
	}
	if rootKind == "namedmap" {
		// a string-keyed map that is not literally map[string]any (gin.H and the like): reached through the root-data fallback
		data = c04H(m)
	}
	files := map[string]string{"p.vuego": tpl}
	for n, src := range c04Extra {
		files[n] = src
	}
	res := renderPage(files, "p.vuego", data)
	if rootKind == "namedmap" {
		// the Template API flattens its data into a plain map before rendering (a named map arrives there empty); Vue.Render keeps it as root data
		res = renderPageVue(files, "p.vuego", data)
	}
	// not sent to the model: map iteration order (maps), and interface-typed struct fields holding structs (the Val encoding has no static field type)
	if coll.name != "maps" && coll.name != "structs" && coll.name != "floats" && !(coll.name == "struct" && rootKind == "struct") {
		pendingPages = append(pendingPages, pageCase("loop", files, nil, "p.vuego", data, "form:"+form.name))
	}
	c := &Case{Name: fmt.Sprintf("%s over %s var %s else=%v root=%s", form.name, coll.name, varName, withElse, rootKind),
		Input: map[string]any{"coll": coll.name, "form": form.name, "var": varName, "else": withElse, "root": rootKind, "tpl": tpl}, Impl: res.canon(), Oracle: &Verdict{OK: true},
		Tags: []string{"form:" + form.name, "coll:" + coll.name, "root:" + rootKind}}
	c.Key = c.Name
	if res.Err != "" || res.Panic != "" || res.Timeout {
		c.Oracle = &Verdict{OK: false, Class: "loop-render-failed:" + form.name + ":" + coll.name, Detail: fmt.Sprintf("%+v", res)}
		return c
	}
	before := outerVal
	if varName == "x" {
		before = "" // no outer variable of that name
	}
	var want []string
	want = append(want, "before:"+before)
	n := 0
	for i, s := range coll.strs {
		idx := ""
		if form.hasIdx {
			idx = fmt.Sprint(i)
		}
		if form.skip != nil && form.skip(i) {
			continue
		}
		want = append(want, fmt.Sprintf("I:%s|%s|O", idx, s))
		n++
	}
	_ = n
	if withElse && n == 0 {
		want = append(want, "else")
	}
	if form.skip != nil {
		want = append(want, "mid:")
	}
	want = append(want, "after:"+before)
	var got []string
	for _, mm := range c04Re.FindAllStringSubmatch(res.Out, -1) {
		g := mm[1]
		if form.name == "template-vhtml" {
			g = strings.Join(strings.Fields(g), "") // the serialiser lays the <template v-html> content out on its own line: white space around it is not the loop's doing
		}
		got = append(got, g)
	}
	if strings.Join(got, ",") != strings.Join(want, ",") {
		cls := "loop-markers"
		if len(got) == len(want) && got[len(got)-1] != want[len(want)-1] {
			cls = "scope-not-restored"
		}
		c.Oracle = &Verdict{OK: false, Class: cls + ":" + form.name + ":" + rootKind, Detail: fmt.Sprintf("markers %v, expected %v; template %q", got, want, tpl)}
	}
	return c
}

func runC04(r *Run, replay *Case) {
	defer flushPages(r)
	colls := c04Colls()
	forms := c04Forms()
	if replay != nil {
		if replay.Input["nest"] != nil {
			return
		}
		if replay.Input["loopedelse"] != nil {
			c04LoopedElse(r)
			c04InstancePrivacy(r)
			return
		}
		for _, cl := range colls {
			for _, f := range forms {
				if cl.name == replay.Input["coll"] && f.name == replay.Input["form"] {
					r.Add(c04Eval(cl, f, replay.Input["var"].(string), replay.Input["else"] == true, replay.Input["root"].(string)))
				}
			}
		}
		return
	}
	r.Res.Rule = "every Go sequence type (slices of any/int/string/float/bool/struct/map/slice, arrays, nil and empty slices) and every non-sequence (nil, missing, int, string, struct, bool) x " +
		"10 loop forms (item, (i,v), <template>, with v-if, with bindings, child reads, expression context, looped include with per-item props, include nested in the looped element, <template v-html> of the item) x loop variable names that do / do not shadow outer variables and root struct fields x followed or not by v-else x map / struct root; " +
		"nests of depth 2; non-trivial = the collection is a sequence; exhaustive over the catalogue"
	for _, cl := range colls {
		for _, f := range forms {
			for _, v := range []string{"x", "item", "name"} {
				for _, e := range []bool{false, true} {
					for _, root := range []string{"map", "struct", "namedmap"} {
						if root == "namedmap" && f.name != "expr-reads" && f.name != "index-item" && f.name != "with-binding" {
							continue
						}
						if (f.name == "include-bound" || f.name == "include-nested" || f.name == "template-vhtml") && !c04PlainItems[cl.name] {
							continue // these forms print the item through a prop / v-html: only collections whose items print alike everywhere
						}
						c := c04Eval(cl, f, v, e, root)
						if cl.strs == nil {
							c.Key = ""
						}
						r.Add(c)
					}
				}
			}
		}
	}
	c04LoopedElse(r)
	c04InstancePrivacy(r)
	// nested loops with shadowing: the outer loop variable (and index) shadow keys of the root data and are read INSIDE the inner loop, one
	// scope further in; the inner loop shadows the outer one in turn; after both loops the root values are back
	for _, root := range []string{"map", "struct"} {
		for _, names := range [][4]string{{"item", "i", "y", "j"}, {"name", "i", "item", "j"}, {"item", "idx", "item", "j"}} {
			ov, oi, iv, ii := names[0], names[1], names[2], names[3]
			tpl := `<b>[[before:{{ item }}/{{ name }}]]</b><div v-for="(` + oi + `, ` + ov + `) in as"><p v-for="(` + ii + `, ` + iv + `) in bs">[[{{ ` + oi + ` }}.{{ ` + ii + ` }}:{{ ` + ov + ` }}/{{ ` + iv + ` }}]]</p><b>[[row{{ ` + oi + ` }}:{{ ` + ov + ` }}]]</b></div><b>[[after:{{ item }}/{{ name }}]]</b>`
			as, bs := []any{"a", "b"}, []any{"1", "2"}
			var data any = map[string]any{"as": as, "bs": bs, "item": "ROOT-ITEM", "name": "ROOT-NAME", "i": "ROOT-I", "idx": "ROOT-IDX"}
			if root == "struct" {
				type rootN struct {
					As   []any  `json:"as"`
					Bs   []any  `json:"bs"`
					Item string `json:"item"`
					Name string `json:"name"`
					I    string `json:"i"`
					Idx  string `json:"idx"`
				}
				data = rootN{as, bs, "ROOT-ITEM", "ROOT-NAME", "ROOT-I", "ROOT-IDX"}
			}
			res := renderPage(map[string]string{"p.vuego": tpl}, "p.vuego", data)
			pendingPages = append(pendingPages, pageCase("nested-shadow", map[string]string{"p.vuego": tpl}, nil, "p.vuego", data, "form:nested-shadow"))
			want := []string{"before:ROOT-ITEM/ROOT-NAME"}
			for i, x := range as {
				for j, y := range bs {
					outer := fmt.Sprint(x)
					if iv == ov {
						outer = fmt.Sprint(y) // the inner variable shadows the outer one
					}
					want = append(want, fmt.Sprintf("%d.%d:%s/%s", i, j, outer, y))
				}
				want = append(want, fmt.Sprintf("row%d:%s", i, x))
			}
			want = append(want, "after:ROOT-ITEM/ROOT-NAME")
			var got []string
			for _, mm := range c04Re.FindAllStringSubmatch(res.Out, -1) {
				got = append(got, mm[1])
			}
			c := &Case{Name: fmt.Sprintf("nested-shadow %v root=%s", names, root), Input: map[string]any{"nest": true, "names": names, "root": root, "tpl": tpl}, Impl: res.canon(), Oracle: &Verdict{OK: true}, Tags: []string{"form:nested-shadow"}}
			c.Key = c.Name
			if res.Err != "" || strings.Join(got, ",") != strings.Join(want, ",") {
				c.Oracle = &Verdict{OK: false, Class: "nested-shadowing:" + root, Detail: fmt.Sprintf("markers %v, expected %v (%s); template %q", got, want, res.Err, tpl)}
			}
			r.Add(c)
		}
	}
	// the loop variable shadows a root field that holds a RICHER value than the item: a path that the item does not have is absent inside the
	// instance (the item, not the shadowed root value, is what the name means there) - in text, in a binding on the looped element, as the
	// collection of a nested loop, in a condition
	for _, root := range []string{"map", "struct", "struct-goname"} {
		for _, items := range []struct {
			name string
			v    any
		}{{"maps", []any{map[string]any{"name": "ann", "email": "ann@x", "tags": []any{"a"}}, map[string]any{"name": "bob"}, map[string]any{"name": "cid", "email": nil}}},
			{"typed-maps", []map[string]string{{"name": "ann", "email": "ann@x"}, {"name": "bob"}}}, {"nil-pointers", []*c04User{{Name: "ann", Email: "ann@x"}, nil}}} {
			vn := "user"
			if root == "struct-goname" {
				vn = "User"
			}
			tpl := `<ul><li v-for="` + vn + ` in users" :title="` + vn + `.email">[[{{ ` + vn + `.name }}|{{ ` + vn + `.email }}|<i v-for="t in ` + vn + `.tags">{{ t }},</i><u v-else>none</u>|<b v-if="` + vn + `.email">has</b><b v-else>no</b>]]</li></ul><p>[[after:{{ ` + vn + `.name }}|{{ ` + vn + `.email }}]]</p>`
			rootUser := map[string]any{"name": "ROOT", "email": "root@x", "tags": []any{"r1", "r2"}}
			var data any = map[string]any{"users": items.v, "user": rootUser}
			if root != "map" {
				data = c04ShadowRoot{Users: items.v, User: c04User{Name: "ROOT", Email: "root@x", Tags: []string{"r1", "r2"}}}
			}
			res := renderPage(map[string]string{"p.vuego": tpl}, "p.vuego", data)
			pendingPages = append(pendingPages, pageCase("shadow-path", map[string]string{"p.vuego": tpl}, nil, "p.vuego", data, "form:shadow-path"))
			c := &Case{Name: fmt.Sprintf("shadow-path root=%s items=%s", root, items.name), Input: map[string]any{"nest": true, "shadowpath": true, "root": root, "items": items.name, "tpl": tpl}, Impl: res.canon(), Oracle: &Verdict{OK: true}, Tags: []string{"form:shadow-path"}}
			c.Key = c.Name
			// nothing of the shadowed root value may appear inside the list; after the loop it is back
			inside := res.Out
			if i := strings.Index(inside, "</ul>"); i >= 0 {
				inside = inside[:i]
			}
			switch {
			case res.Err != "" || res.Panic != "":
				c.Oracle = &Verdict{OK: false, Class: "shadow-path:render-failed:" + root, Detail: fmt.Sprintf("%+v; template %q", res, tpl)}
			case strings.Contains(inside, "root@x") || strings.Contains(inside, "ROOT") || strings.Contains(inside, "r1,"):
				c.Oracle = &Verdict{OK: false, Class: "shadow-path:root-value-inside-instance:" + root, Detail: fmt.Sprintf("the loop variable %s shadows the root's %s, yet a path on it shows the root's value inside an instance: %q; template %q", vn, vn, res.Out, tpl)}
			case !strings.Contains(res.Out, "[[after:ROOT|root@x]]"):
				c.Oracle = &Verdict{OK: false, Class: "shadow-path:root-value-not-restored:" + root, Detail: fmt.Sprintf("after the loop %s is not the root value again: %q", vn, res.Out)}
			case !strings.Contains(inside, "[[ann|ann@x|") || strings.Count(inside, "<li") != reflect.ValueOf(items.v).Len():
				c.Oracle = &Verdict{OK: false, Class: "shadow-path:item-values:" + root, Detail: fmt.Sprintf("instances do not show their items: %q", res.Out)}
			}
			r.Add(c)
		}
	}
	// nested loops compose
	for _, a := range colls[:8] {
		for _, b := range colls[:8] {
			tpl := `<div v-for="(i, x) in as"><p v-for="(j, y) in bs">[[{{ i }}.{{ j }}:{{ x }}/{{ y }}]]</p><b>[[row{{ i }}:{{ x }}]]</b></div><i>[[end:{{ x }}{{ y }}]]</i>`
			res := renderPage(map[string]string{"p.vuego": tpl}, "p.vuego", map[string]any{"as": a.v, "bs": b.v})
			var want []string
			for i, x := range a.strs {
				for j, y := range b.strs {
					want = append(want, fmt.Sprintf("%d.%d:%s/%s", i, j, x, y))
				}
				want = append(want, fmt.Sprintf("row%d:%s", i, x))
			}
			want = append(want, "end:")
			var got []string
			for _, mm := range c04Re.FindAllStringSubmatch(res.Out, -1) {
				got = append(got, mm[1])
			}
			c := &Case{Name: "nest " + a.name + " x " + b.name, Input: map[string]any{"nest": true, "a": a.name, "b": b.name}, Impl: res.canon(), Oracle: &Verdict{OK: true}, Tags: []string{"form:nested"}}
			c.Key = c.Name
			if res.Err != "" || strings.Join(got, ",") != strings.Join(want, ",") {
				c.Oracle = &Verdict{OK: false, Class: "nested-loop-markers", Detail: fmt.Sprintf("markers %v, expected %v (%s)", got, want, res.Err)}
			}
			r.Add(c)
		}
	}
	r.Res.Exhaustive = true
}

type c04User struct {
	Name  string   `json:"name"`
	Email string   `json:"email"`
	Tags  []string `json:"tags"`
}

type c04ShadowRoot struct {
	Users any     `json:"users"`
	User  c04User `json:"user"`
}
