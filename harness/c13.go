package main

// C13 — an expression means the same everywhere; pipes compose left to right.
// A typed expression generator over the documented grammar G, a reference evaluator written here (conventional semantics),
// five positions ({{ }}, bound attribute, v-if, v-else-if, v-show), printer variants (spacing, quotes, ===).

import (
	"fmt"
	"math/rand"
	"regexp"
	"strings"

	vuego "github.com/titpetric/vuego"
)

func init() { props["C13"] = runC13 }

type c13Expr struct {
	op   string // lit-int lit-str lit-bool var path bin not tern call neg
	ty   string // int | str | bool
	val  any    // literals
	name string // var/path text, operator, function name
	args []*c13Expr
}

var c13Env = map[string]any{
	"n": 7, "m": 3, "z": 0, "digits": "21", "pad": "010", "pad8": "08", "hexs": "0x10", "under": "1_000", "s": "hello", "t": "World", "e": "", "yes": true, "no": false,
	"obj": map[string]any{"k": "kv", "num": 5, "flag": true}, "lst": []any{10, 20, 30}, "st": S2{X: 4, Y: "why"}, "uni": "žába", "fl": 2.5, "negf": -2.75, "bigf": 1234567.89, "tiny": 0.00000015, "big": 1234567,
	"box": map[string]any{"length": 120, "width": 60, "height": 40},
}

type c13Gen struct {
	r *rand.Rand
}

func (g *c13Gen) intE(d int) *c13Expr {
	if d == 0 || g.r.Intn(3) == 0 {
		switch g.r.Intn(6) {
		case 0:
			return &c13Expr{op: "lit-int", ty: "int", val: g.r.Intn(20)}
		case 1:
			return &c13Expr{op: "var", ty: "int", name: []string{"n", "m", "z"}[g.r.Intn(3)]}
		case 2:
			return &c13Expr{op: "path", ty: "int", name: "obj.num"}
		case 3:
			return &c13Expr{op: "path", ty: "int", name: "lst[1]"}
		case 4:
			return &c13Expr{op: "path", ty: "int", name: "st.X"}
		default:
			return &c13Expr{op: "call", ty: "int", name: "len", args: []*c13Expr{{op: "var", ty: "list", name: "lst"}}}
		}
	}
	switch g.r.Intn(6) {
	case 0:
		return &c13Expr{op: "tern", ty: "int", args: []*c13Expr{g.boolE(d - 1), g.intE(d - 1), g.intE(d - 1)}}
	case 1:
		return &c13Expr{op: "neg", ty: "int", args: []*c13Expr{g.intE(0)}}
	case 2:
		return &c13Expr{op: "bin", ty: "int", name: "%", args: []*c13Expr{g.intE(d - 1), {op: "lit-int", ty: "int", val: 1 + g.r.Intn(5)}}}
	default:
		return &c13Expr{op: "bin", ty: "int", name: []string{"+", "-", "*"}[g.r.Intn(3)], args: []*c13Expr{g.intE(d - 1), g.intE(d - 1)}}
	}
}

func (g *c13Gen) strE(d int) *c13Expr {
	if d == 0 || g.r.Intn(2) == 0 {
		switch g.r.Intn(5) {
		case 0:
			return &c13Expr{op: "lit-str", ty: "str", val: []string{"lit", "a b", "", "x-y"}[g.r.Intn(4)]}
		case 1:
			return &c13Expr{op: "var", ty: "str", name: []string{"s", "t", "e"}[g.r.Intn(3)]}
		case 2:
			return &c13Expr{op: "path", ty: "str", name: "obj.k"}
		case 3:
			return &c13Expr{op: "path", ty: "str", name: "st.Y"}
		default:
			return &c13Expr{op: "call", ty: "str", name: "upper", args: []*c13Expr{{op: "var", ty: "str", name: "s"}}}
		}
	}
	if g.r.Intn(2) == 0 {
		return &c13Expr{op: "tern", ty: "str", args: []*c13Expr{g.boolE(d - 1), g.strE(d - 1), g.strE(d - 1)}}
	}
	return &c13Expr{op: "bin", ty: "str", name: "+", args: []*c13Expr{g.strE(d - 1), g.strE(d - 1)}}
}

func (g *c13Gen) boolE(d int) *c13Expr {
	if d == 0 || g.r.Intn(4) == 0 {
		switch g.r.Intn(3) {
		case 0:
			return &c13Expr{op: "lit-bool", ty: "bool", val: g.r.Intn(2) == 0}
		case 1:
			return &c13Expr{op: "var", ty: "bool", name: []string{"yes", "no"}[g.r.Intn(2)]}
		default:
			return &c13Expr{op: "path", ty: "bool", name: "obj.flag"}
		}
	}
	switch g.r.Intn(5) {
	case 0:
		return &c13Expr{op: "not", ty: "bool", args: []*c13Expr{g.boolE(d - 1)}}
	case 1:
		return &c13Expr{op: "bin", ty: "bool", name: []string{"&&", "||"}[g.r.Intn(2)], args: []*c13Expr{g.boolE(d - 1), g.boolE(d - 1)}}
	case 2:
		return &c13Expr{op: "bin", ty: "bool", name: []string{"==", "!="}[g.r.Intn(2)], args: []*c13Expr{g.strE(d - 1), g.strE(d - 1)}}
	default:
		return &c13Expr{op: "bin", ty: "bool", name: []string{"==", "!=", "<", ">", "<=", ">="}[g.r.Intn(6)], args: []*c13Expr{g.intE(d - 1), g.intE(d - 1)}}
	}
}

// reference evaluation (conventional semantics)
func (e *c13Expr) eval() any {
	switch e.op {
	case "lit-int", "lit-str", "lit-bool":
		return e.val
	case "var":
		return c13Env[e.name]
	case "path":
		switch e.name {
		case "obj.num":
			return 5
		case "obj.k":
			return "kv"
		case "obj.flag":
			return true
		case "lst[1]":
			return 20
		case "st.X":
			return 4
		case "st.Y":
			return "why"
		}
	case "call":
		switch e.name {
		case "len":
			return 3
		case "upper":
			return strings.ToUpper(e.args[0].eval().(string))
		}
	case "neg":
		return -e.args[0].eval().(int)
	case "not":
		return !e.args[0].eval().(bool)
	case "tern":
		if e.args[0].eval().(bool) {
			return e.args[1].eval()
		}
		return e.args[2].eval()
	case "bin":
		a, b := e.args[0].eval(), e.args[1].eval()
		switch e.name {
		case "&&":
			return a.(bool) && b.(bool)
		case "||":
			return a.(bool) || b.(bool)
		case "==":
			return a == b
		case "!=":
			return a != b
		}
		if e.ty == "str" {
			return a.(string) + b.(string)
		}
		x, y := a.(int), b.(int)
		switch e.name {
		case "+":
			return x + y
		case "-":
			return x - y
		case "*":
			return x * y
		case "%":
			return x % y
		case "<":
			return x < y
		case ">":
			return x > y
		case "<=":
			return x <= y
		case ">=":
			return x >= y
		}
	}
	return nil
}

type c13Style struct {
	spaces bool
	quote  string
	strict bool // === / !==
}

func (e *c13Expr) print(st c13Style, top bool) string {
	switch e.op {
	case "lit-int", "lit-bool":
		return fmt.Sprint(e.val)
	case "lit-str":
		return st.quote + e.val.(string) + st.quote
	case "var", "path":
		return e.name
	case "call":
		return e.name + "(" + e.args[0].print(st, true) + ")"
	case "neg":
		return "-" + e.args[0].print(st, false)
	case "not":
		return "!" + e.args[0].print(st, false)
	case "tern":
		s := e.args[0].print(st, false) + " ? " + e.args[1].print(st, false) + " : " + e.args[2].print(st, false)
		if !top {
			return "(" + s + ")"
		}
		return s
	case "bin":
		op := e.name
		if st.strict && (op == "==" || op == "!=") {
			op += "="
		}
		sep := ""
		if st.spaces {
			sep = " "
		}
		s := e.args[0].print(st, false) + sep + op + sep + e.args[1].print(st, false)
		if !top {
			return "(" + s + ")"
		}
		return s
	}
	return "?"
}

func (e *c13Expr) features(st c13Style) []string {
	var f []string
	var walk func(x *c13Expr, top bool)
	walk = func(x *c13Expr, top bool) {
		switch x.op {
		case "bin":
			if !st.spaces {
				switch x.name {
				case "+", "-", "*", "%", "<", ">":
					f = append(f, "nospace-arith")
				}
			}
			if !top {
				f = append(f, "paren")
			}
		case "neg":
			f = append(f, "unary-minus")
		case "not":
			f = append(f, "not")
		case "tern":
			f = append(f, "ternary")
		case "call":
			f = append(f, "call:"+x.name)
		case "lit-int", "lit-str", "lit-bool":
			if top {
				f = append(f, "bare-literal")
			}
		}
		for _, a := range x.args {
			walk(a, false)
		}
	}
	walk(e, true)
	return f
}

var c13TitleRe = regexp.MustCompile(`title="([^"]*)"`)

func c13Truthy(v any) bool {
	switch x := v.(type) {
	case nil:
		return false
	case bool:
		return x
	case int:
		return x != 0
	case string:
		return x != "" && x != "false" // the recorded C03 deviation is not re-reported here
	}
	return true
}

func c13ExprCase(e *c13Expr, st c13Style, pos string) *Case {
	src := e.print(st, true)
	attrQ := `"`
	if st.quote == `"` {
		attrQ = `'`
	}
	var tpl string
	switch pos {
	case "text":
		// in text position the author writes &lt; for <, as HTML requires
		tpl = "<p>[[{{ " + strings.ReplaceAll(src, "<", "&lt;") + " }}]]</p>"
	case "attr":
		tpl = "<p :title=" + attrQ + src + attrQ + ">x</p>"
	case "if":
		tpl = "<p v-if=" + attrQ + src + attrQ + ">[[T]]</p><p v-else>[[F]]</p>"
	case "elseif":
		tpl = "<p v-if=\"no\">n</p><p v-else-if=" + attrQ + src + attrQ + ">[[T]]</p><p v-else>[[F]]</p>"
	case "show":
		tpl = "<p v-show=" + attrQ + src + attrQ + ">x</p>"
	// a bound attribute of a <template> tag binds a variable for the children: the same value as anywhere else
	case "tplbound":
		tpl = "<template :bv=" + attrQ + src + attrQ + "><p>[[{{ bv }}]]</p></template>"
	case "tplbound-vif":
		tpl = "<template v-if=\"yes\" :bv=" + attrQ + src + attrQ + "><p>[[{{ bv }}]]</p></template>"
	}
	want := e.eval()
	pendingPages = append(pendingPages, pageCase("expr:"+pos, map[string]string{"p.vuego": tpl}, nil, "p.vuego", c13Env, "pos:"+pos))
	res := renderPage(map[string]string{"p.vuego": tpl}, "p.vuego", c13Env)
	feats := e.features(st)
	c := &Case{Name: pos + ": " + src, Input: map[string]any{"stream": "expr", "src": src, "pos": pos, "tpl": tpl}, Impl: res.canon(), Oracle: &Verdict{OK: true}, Key: pos + "|" + src,
		Tags: append([]string{"pos:" + pos, "type:" + e.ty}, feats...)}
	fail := func(detail string) {
		// class = position + the router-relevant features of the expression (narrow, so a new kind of disagreement is a new class)
		fs := map[string]bool{}
		for _, f := range feats {
			if f == "paren" || strings.HasPrefix(f, "call:") && false {
				continue
			}
			fs[f] = true
		}
		var keys []string
		for _, k := range []string{"bare-literal", "unary-minus", "nospace-arith", "ternary", "not", "paren", "call:len", "call:upper"} {
			if fs[k] {
				keys = append(keys, k)
			}
		}
		if !st.spaces {
			keys = append(keys, "compact")
		}
		c.Oracle = &Verdict{OK: false, Class: "expr:" + pos + ":" + strings.Join(keys, "+"), Detail: detail}
	}
	if res.Panic != "" || res.Timeout {
		fail(fmt.Sprintf("%+v", res))
		return c
	}
	if res.Err != "" {
		fail(fmt.Sprintf("%s in %s fails: %s", src, pos, res.Err))
		return c
	}
	out := res.Out
	switch pos {
	case "text", "tplbound", "tplbound-vif":
		m := regexp.MustCompile(`\[\[(.*?)\]\]`).FindStringSubmatch(out)
		got := ""
		if m != nil {
			got = htmlUnescape(m[1])
		}
		if got != fmt.Sprint(want) {
			fail(fmt.Sprintf("%s: %s prints %q, conventional value %v", pos, src, got, want))
		}
	case "attr":
		m := c13TitleRe.FindStringSubmatch(out)
		if c13Truthy(want) {
			if m == nil || htmlUnescape(m[1]) != fmt.Sprint(want) {
				fail(fmt.Sprintf(":title=%q gives %q, conventional value %v", src, out, want))
			}
		} else if m != nil {
			fail(fmt.Sprintf(":title=%q emitted although the value %v is falsy: %q", src, want, out))
		}
	case "if", "elseif":
		gotT := strings.Contains(out, "[[T]]")
		if gotT != c13Truthy(want) {
			fail(fmt.Sprintf("v-%s=%q takes the %v branch, conventional value %v", pos, src, gotT, want))
		}
	case "show":
		hidden := strings.Contains(out, "display:none")
		if hidden == c13Truthy(want) {
			fail(fmt.Sprintf("v-show=%q hidden=%v, conventional value %v", src, hidden, want))
		}
	}
	return c
}

func htmlUnescape(s string) string {
	r := strings.NewReplacer("&lt;", "<", "&gt;", ">", "&#34;", `"`, "&#39;", "'", "&amp;", "&")
	return r.Replace(s)
}

// ---------------------------------------------------------------- pipes

type c13Pipe struct {
	desc    string
	expr    string
	want    string // expected printed value
	wantErr string // substring the error must contain ("" = must succeed)
}

func c13Funcs() vuego.FuncMap {
	return vuego.FuncMap{
		"double": func(i int) int { return i * 2 },
		"add":    func(a, b int) int { return a + b },
		"repeat": func(s string, n int) string { return strings.Repeat(s, n) },
		"money":  func(f float64) string { return fmt.Sprintf("$%.2f", f) },
		"yesno": func(b bool) string {
			if b {
				return "yes"
			}
			return "no"
		},
		"ident": func(v any) any { return v },
		"sum": func(xs ...int) int {
			t := 0
			for _, x := range xs {
				t += x
			}
			return t
		},
		"joinall": func(sep string, parts ...string) string { return strings.Join(parts, sep) },
		"fail":    func(s string) (string, error) { return "", fmt.Errorf("boom-%s", s) },
		"strict":  func(s string) string { return "<" + s + ">" },
		"u8":      func(u uint8) uint8 { return u + 1 },
		"pair":    func(a any, b any) any { return fmt.Sprint(a, "+", b) },
		// registered under names that expr-lang also has built-ins for: the registered function is the one a template calls
		"abs":   func(i int) string { return fmt.Sprintf("ABS(%d)", i) },
		"max":   func(a, b int) string { return fmt.Sprintf("MAX(%d,%d)", a, b) },
		"first": func(xs []any) string { return fmt.Sprintf("FIRST-OF-%d", len(xs)) },
		"split": func(s string) string { return "SPLIT:" + s },
	}
}

func c13Pipes() []c13Pipe {
	return []c13Pipe{
		{"single filter", "s | upper", "HELLO", ""}, {"chain", "s | upper | lower | title", "Hello", ""}, {"filter with arg", "e | default('dflt')", "dflt", ""},
		{"len of list", "lst | len", "3", ""}, {"custom int", "n | double", "14", ""}, {"custom chain", "n | double | double", "28", ""}, {"arg literal int", "n | add(5)", "12", ""},
		{"arg variable", "n | add(m)", "10", ""}, {"string + int arg", "s | repeat(2)", "hellohello", ""}, {"int to float param", "n | money", "$7.00", ""},
		{"bool param", "yes | yesno", "yes", ""}, {"any param", "obj.k | ident | upper", "KV", ""}, {"variadic none", "n | sum", "7", ""}, {"variadic two", "n | sum(1, 2)", "10", ""},
		{"variadic strings", "s | joinall('a', 'b')", "ahellob", ""}, {"string digits to int", "digits | double", "42", ""}, {"int to string param", "n | strict", "<7>", ""},
		// a map key is a key whatever it is called: `length` (a JavaScript property name) is not the number of keys
		{"key named length", "box.length", "120", ""}, {"key named length in arithmetic", "box.length + 1", "121", ""}, {"key named length times", "box.length * 2", "240", ""},
		{"key named length compared", "box.length > 100", "true", ""}, {"key named length as argument", "n | add(box.length)", "127", ""}, {"sibling key", "box.width + 1", "61", ""},
		// digit strings are DECIMAL, leading zeros included; a base prefix or an underscore makes a string no number
		{"zero-padded digits to int", "pad | double", "20", ""}, {"zero-padded 08 to int", "pad8 | double", "16", ""}, {"zero-padded literal to int", `double("010")`, "20", ""},
		{"zero-padded digits as second argument", "n | add(pad)", "17", ""}, {"hex-looking string is no number", "hexs | double", "", "double"}, {"underscored string is no number", "under | double", "", "double"},
		// a name that no data defines is nil - also when a registered function happens to be called like it
		{"textonly: undefined name spelled like a registered function is nil", "double == nil", "true", ""}, {"textonly: undefined name spelled like a registered function, in a ternary", "yesno == nil ? 'none' : 'some'", "none", ""},
		{"quoted double", `s | repeat("2")`, "hellohello", ""}, {"direct call", "double(n)", "14", ""}, {"direct call 2 args", "add(n, m)", "10", ""}, {"direct then pipe", "double(n) | add(1)", "15", ""},
		{"uint8 param", "m | u8", "4", ""},
		// quoted arguments are string literals: the text between the quotes, also when it spells a variable name, a number, a boolean, or nothing
		{"quoted arg naming a variable", `e | default("s")`, "s", ""}, {"quoted arg naming a variable, single quotes", `e | default('t')`, "t", ""},
		{"empty string arg", `s | default('') | upper`, "HELLO", ""}, {"empty string arg used", `e | default("") | strict`, "<>", ""},
		{"quoted digits stay text", `e | default("007") | strict`, "<007>", ""}, {"quoted boolean stays text", `e | default("true") | strict`, "<true>", ""},
		{"quoted arg with comma", `e | default("a, b") | upper`, "A, B", ""}, {"unquoted arg is the variable", `e | default(s)`, "hello", ""},
		// the other kind of quote inside a string literal is an ordinary character of it (text position only: the attribute positions have their own quoting)
		{"textonly: apostrophe and comma inside a double-quoted literal", `e | default("it's, you")`, "it's, you", ""},
		{"textonly: double quote and comma inside a single-quoted literal", `e | default('5", wide') | upper`, `5", WIDE`, ""},
		{"textonly: apostrophe in the first of two literals", `s | joinall("it's", "b")`, "it'shellob", ""},
		{"textonly: apostrophe in the first of three literals", `s | joinall("it's", "a", "b")`, "it'shelloahellob", ""},
		{"textonly: two apostrophes and a comma", `e | default("rock'n'roll, baby")`, "rock'n'roll, baby", ""},
		// ... also when it is the FIRST or LAST character of the literal's text: the literal is what stands between its own pair of quotes
		{"textonly: literal beginning with an apostrophe", `e | default("'s profile")`, "'s profile", ""},
		{"textonly: literal that is one double quote", `e | default('"') | strict`, `<">`, ""},
		{"textonly: literal that is one apostrophe", `s | joinall("'", "'")`, "'hello'", ""},
		{"textonly: literal wrapped in the other quotes", `e | default("'n/a'")`, "'n/a'", ""},
		{"textonly: literal ending with a double quote", `e | default('say "hi"') | upper`, `SAY "HI"`, ""},
		{"textonly: literal ending with an apostrophe", `s | joinall("the boys'", "x")`, "the boys'hellox", ""},
		{"textonly: direct call with an edge-quoted literal", `pair("'a'", n)`, "'a'+7", ""},
		{"unknown function", "s | nosuch", "", "nosuch"}, {"unknown in chain", "s | upper | nosuch2 | lower", "", "nosuch2"}, {"too many args", "n | double(1)", "", "double"}, {"too few args", "n | add", "", "add"},
		// a wrong argument count is an error also when the missing parameters are declared `any`
		{"too few args, any-typed builtin", "s | default", "", "default"}, {"too few args, any-typed custom", "s | pair", "", "pair"}, {"too few args, any-typed direct call", "pair(s)", "", "pair"},
		{"too few args in a chain", "s | upper | default | lower", "", "default"}, {"exact args, any-typed custom", "s | pair(n)", "hello+7", ""},
		{"impossible conversion", "lst | double", "", "double"}, {"non numeric string", "s | double", "", "double"}, {"function error", "s | fail", "", "fail"}, {"function error text", "s | fail", "", "boom-hello"},
		{"direct unknown", "nosuch3(n)", "", "nosuch3"},
		// functions whose names expr-lang also knows as built-ins: the registered function answers, in every position and call form
		{"registered abs, direct", "abs(n)", "ABS(7)", ""}, {"registered abs, piped", "n | abs", "ABS(7)", ""}, {"registered max, direct", "max(n, m)", "MAX(7,3)", ""},
		{"registered first, direct", "first(lst)", "FIRST-OF-3", ""}, {"registered split, direct", "split(s)", "SPLIT:hello", ""}, {"registered abs then upper", "abs(m) | lower", "abs(3)", ""},
		{"built-in len of a multi-byte string, direct", "len(uni)", "6", ""}, {"built-in len of a multi-byte string, piped", "uni | len", "6", ""},
		{"built-in type of a float, direct", "type(fl)", "float64", ""}, {"built-in type of a map, direct", "type(obj)", "map[string]interface {}", ""}, {"built-in type of a list, piped", "lst | type", "[]interface {}", ""},
		{"built-in upper of a multi-byte string", "upper(uni)", "ŽÁBA", ""},
	}
}

func c13PipeCase(p c13Pipe, pos string) *Case {
	var tpl string
	switch pos {
	case "text":
		tpl = "<p>[[{{ " + p.expr + " }}]]</p>"
	case "attr":
		tpl = `<p :title="` + strings.ReplaceAll(p.expr, `"`, `'`) + `">x</p>`
	case "if":
		tpl = `<p v-if="` + strings.ReplaceAll(p.expr, `"`, `'`) + `">[[T]]</p><p v-else>[[F]]</p>`
	case "show":
		tpl = `<p v-show="` + strings.ReplaceAll(p.expr, `"`, `'`) + `">x</p>`
	case "tplbound":
		tpl = `<template :bv="` + strings.ReplaceAll(p.expr, `"`, `'`) + `"><p>[[{{ bv }}]]</p></template>`
	}
	res := renderPage(map[string]string{"p.vuego": tpl}, "p.vuego", c13Env, vuego.WithFuncs(c13Funcs()))
	c := &Case{Name: "pipe " + pos + ": " + p.desc, Input: map[string]any{"stream": "pipe", "desc": p.desc, "pos": pos}, Impl: res.canon(), Oracle: &Verdict{OK: true}, Key: "pipe|" + pos + "|" + p.desc + p.wantErr, Tags: []string{"stream:pipe", "pos:" + pos}}
	cls := "pipe:" + pos + ":" + strings.ReplaceAll(p.desc, " ", "-")
	if (pos == "if" || pos == "show") && strings.Contains(p.expr, "|") {
		// one root cause: conditions do not go through the pipe interpreter (pinned by TestEvalCondition_ExprCompilationFailureFallback)
		cls = "pipe-in-condition-unsupported:" + pos
	}
	if res.Panic != "" || res.Timeout {
		c.Oracle = &Verdict{OK: false, Class: cls, Detail: fmt.Sprintf("%+v", res)}
		return c
	}
	if p.wantErr != "" {
		if res.Err == "" {
			c.Oracle = &Verdict{OK: false, Class: cls, Detail: fmt.Sprintf("%q must fail the render naming %q but rendered %q", p.expr, p.wantErr, res.Out)}
		} else if !strings.Contains(res.Err, p.wantErr) {
			c.Oracle = &Verdict{OK: false, Class: cls, Detail: fmt.Sprintf("error %q does not mention %q", res.Err, p.wantErr)}
		}
		return c
	}
	if res.Err != "" {
		c.Oracle = &Verdict{OK: false, Class: cls, Detail: fmt.Sprintf("%q fails: %s", p.expr, res.Err)}
		return c
	}
	switch pos {
	case "text", "tplbound":
		m := regexp.MustCompile(`\[\[(.*?)\]\]`).FindStringSubmatch(res.Out)
		if m == nil || htmlUnescape(m[1]) != p.want {
			c.Oracle = &Verdict{OK: false, Class: cls, Detail: fmt.Sprintf("%s: %s prints %q, expected %q", pos, p.expr, res.Out, p.want)}
		}
	case "attr":
		m := c13TitleRe.FindStringSubmatch(res.Out)
		if m == nil || htmlUnescape(m[1]) != p.want {
			c.Oracle = &Verdict{OK: false, Class: cls, Detail: fmt.Sprintf(":title=%q gives %q, expected %q", p.expr, res.Out, p.want)}
		}
	case "if":
		if !strings.Contains(res.Out, "[[T]]") {
			c.Oracle = &Verdict{OK: false, Class: cls, Detail: fmt.Sprintf("v-if=%q is not truthy although its value is %q: %q", p.expr, p.want, res.Out)}
		}
	case "show":
		if strings.Contains(res.Out, "display:none") {
			c.Oracle = &Verdict{OK: false, Class: cls, Detail: fmt.Sprintf("v-show=%q hides although its value is %q", p.expr, p.want)}
		}
	}
	return c
}

func runC13(r *Run, replay *Case) {
	if replay != nil {
		switch replay.Input["op"] {
		case "callconv":
			vi := int(replay.Input["vi"].(float64))
			for _, pt := range c13PTypes {
				if pt.name == replay.Input["p"] && vi < len(c13CallValues()) {
					r.Add(c13CallConvCase(pt, vi, c13CallValues()[vi]))
				}
			}
			return
		case "callvariadic":
			var names []string
			remarshal(replay.Input["names"], &names)
			c13CallVariadic(r)
			_ = names
			return
		case "callarity":
			if c := c13CallArityCase(int(replay.Input["params"].(float64)), replay.Input["variadic"] == true, int(replay.Input["nargs"].(float64))); c != nil {
				r.Add(c)
			}
			return
		}
		switch replay.Input["stream"] {
		case "pipe":
			for _, p := range c13Pipes() {
				if p.desc == replay.Input["desc"] {
					r.Add(c13PipeCase(p, replay.Input["pos"].(string)))
				}
			}
		case "alternation", "alternation-loop":
			c13TypeAlternation(r)
		case "nameclash":
			c13NameClash(r)
		case "missingstep":
			c13MissingStep(r)
		case "varindex":
			c13VarIndex(r)
		case "quotedends":
			c13QuotedEnds(r)
		case "conv":
			d := map[string]any{}
			for _, a := range c13Args {
				d[a.name] = a.v
			}
			res := renderPage(map[string]string{"p.vuego": replay.Input["tpl"].(string)}, "p.vuego", d, vuego.WithFuncs(c13Funcs()))
			r.Add(&Case{Name: "replay " + replay.Input["expr"].(string), Input: replay.Input, Impl: res.canon(), Oracle: &Verdict{OK: true}})
		case "expr":
			res := renderPage(map[string]string{"p.vuego": replay.Input["tpl"].(string)}, "p.vuego", c13Env)
			r.Add(&Case{Name: "replay " + replay.Input["src"].(string), Input: replay.Input, Impl: res.canon(), Oracle: &Verdict{OK: true}})
		}
		return
	}
	r.Res.Rule = "typed expression trees (int/string/bool; paths into maps, slices, structs; literals; comparison, logical, arithmetic, ternary, calls) of depth <= D over a fixed environment x " +
		"5 positions x printer variants (spaces around operators or not, ' or \" quotes, == or ===); pipes: 31 chains over built-ins and 11 registered functions with every parameter kind x 4 positions; " +
		"reference evaluator written in Go; non-trivial = every case; distinct by (position, printed expression)"
	defer flushPages(r)
	g := &c13Gen{r: r.Rng}
	n := 700
	depth := 2
	if r.Thorough() {
		n, depth = 15000, 3
	}
	positions := []string{"text", "attr", "if", "elseif", "show", "tplbound", "tplbound-vif"}
	styles := []c13Style{{true, "'", false}, {false, "'", false}, {true, `"`, false}, {true, "'", true}}
	for i := 0; i < n; i++ {
		var e *c13Expr
		switch i % 3 {
		case 0:
			e = g.intE(g.r.Intn(depth + 1))
		case 1:
			e = g.strE(g.r.Intn(depth + 1))
		default:
			e = g.boolE(g.r.Intn(depth + 1))
		}
		st := styles[g.r.Intn(len(styles))]
		for _, pos := range positions {
			r.Add(c13ExprCase(e, st, pos))
		}
	}
	for _, p := range c13Pipes() {
		for _, pos := range []string{"text", "attr", "if", "show", "tplbound"} {
			if pos != "text" && strings.HasPrefix(p.desc, "textonly:") {
				continue
			}
			// the variable-binding attributes of a plain <template> are an undocumented position: only the VALUE of an expression that has
			// one is compared there (it falls back to nil on errors by design; the error clause of the statement is not demanded of it)
			if pos == "tplbound" && p.wantErr != "" {
				continue
			}
			r.Add(c13PipeCase(p, pos))
		}
	}
	c13ConvCases(r)
	c13CallModel(r)
	c13TypeAlternation(r)
	c13NameClash(r)
	c13MissingStep(r)
	c13VarIndex(r)
	c13QuotedEnds(r)
	// built-in-only pipe chains: real engine vs the Lean pipe interpreter (parsePipeExpr / evalPipe / callBuiltin), byte for byte
	heads := []string{"s", "t", "e", "n", "lst", "obj.k", "st.Y", "missing", "'lit'", "upper(s)", "len(lst)", "digits", "fl", "int(fl)", "int(digits)", "'-12'", "'12abc'", "big"}
	segs := []string{"upper", "lower", "trim", "len", "string", "escape", "int", "int", "default('d')", "default(t)", "default(missing)", "default('')", "default(\"s\")", "default('t')", "default(\"a, b\")", "default(\"it's, x\")", "default('5\", w') | upper", "nosuch", "upper(1)", "default", "upper()"}
	np := 250
	if r.Thorough() {
		np = 4000
	}
	// the built-in `len` counts the bytes of a string; `int` truncates floats and parses decimal strings (non-ASCII text only through the
	// functions the model has for it: its `upper` / `lower` / `title` are the ASCII ones)
	for _, e := range []string{"uni | len", "len(uni)", "uni | string | len", "uni | trim | len", "uni | escape | len", "uni | default('x') | len", "e | default(uni) | len", "uni",
		"fl | int", "int(fl)", "negf | int", "bigf | int", "tiny | int", "digits | int", "'+7' | int", "' 7' | int", "'7.5' | int", "yes | int", "lst | int", "missing | int", "n | int | string | len"} {
		for _, pos := range []string{"text", "attr"} {
			tpl := "<p>[[{{ " + e + " }}]]</p>"
			if pos == "attr" {
				tpl = `<p :title="` + e + `">x</p>`
			}
			r.Add(pageCase("pipe:"+pos, map[string]string{"p.vuego": tpl}, nil, "p.vuego", c13Env, "pos:"+pos, "pipe-builtin-bytes-int"))
		}
	}
	for i := 0; i < np; i++ {
		e := heads[g.r.Intn(len(heads))]
		for k := g.r.Intn(4); k > 0; k-- {
			sep := " | "
			if g.r.Intn(5) == 0 {
				sep = "|"
			}
			e += sep + segs[g.r.Intn(len(segs))]
		}
		for _, pos := range []string{"text", "attr", "if", "show"} {
			if (pos == "if" || pos == "show") && strings.Contains(e, "()") {
				continue // `x | f()` in a condition is expr-lang's own pipe operator, which ExprMini (the model-side stand-in for expr-lang) does not implement
			}
			var tpl string
			switch pos {
			case "text":
				tpl = "<p>[[{{ " + e + " }}]]</p>"
			case "attr":
				tpl = `<p :title="` + e + `">x</p>`
			case "if":
				tpl = `<p v-if="` + e + `">[[T]]</p><p v-else>[[F]]</p>`
			case "show":
				tpl = `<p v-show="` + e + `">x</p>`
			}
			r.Add(pageCase("pipe:"+pos, map[string]string{"p.vuego": tpl}, nil, "p.vuego", c13Env, "pos:"+pos, "pipe-builtin"))
		}
	}
}

// a VARIABLE whose name is also the name of a registered template function (built-in or custom) is the variable wherever a path is allowed:
// only `name(` is a call
func c13NameClash(r *Run) {
	env := map[string]any{"title": "Hello", "type": "kind", "trim": "x y", "default": "dflt", "json": "j", "double": 21, "string": "str", "int": 0, "empty": ""}
	for _, name := range []string{"title", "type", "trim", "default", "json", "double", "string", "int"} {
		want := fmt.Sprint(env[name])
		truthy := want != "" && want != "0"
		for _, pos := range []string{"text", "attr", "if", "elseif", "show", "class", "negated-if"} {
			var tpl string
			switch pos {
			case "text":
				tpl = "<p>[[{{ " + name + " }}]]</p>"
			case "attr":
				tpl = `<p :data-v="` + name + `">x</p>`
			case "if":
				tpl = `<p v-if="` + name + `">[[T]]</p><p v-else>[[F]]</p>`
			case "elseif":
				tpl = `<p v-if="empty">n</p><p v-else-if="` + name + `">[[T]]</p><p v-else>[[F]]</p>`
			case "show":
				tpl = `<p v-show="` + name + `">x</p>`
			case "class":
				tpl = `<p :class="{on: ` + name + `}">x</p>`
			case "negated-if":
				tpl = `<p v-if="!` + name + `">[[F]]</p><p v-else>[[T]]</p>`
			}
			res := renderPage(map[string]string{"p.vuego": tpl}, "p.vuego", env, vuego.WithFuncs(c13Funcs()))
			c := &Case{Name: "name clash " + name + " in " + pos, Input: map[string]any{"stream": "nameclash", "name": name, "pos": pos}, Impl: res.canon(), Oracle: &Verdict{OK: true}, Key: "clash|" + name + "|" + pos, Tags: []string{"stream:nameclash", "pos:" + pos}}
			cls := "variable-named-like-function:" + pos
			switch {
			case res.Err != "" || res.Panic != "" || res.Timeout:
				c.Oracle = &Verdict{OK: false, Class: cls, Detail: fmt.Sprintf("%s with the variable %s=%v: %+v", tpl, name, env[name], res)}
			case pos == "text" && !strings.Contains(res.Out, "[["+want+"]]"):
				c.Oracle = &Verdict{OK: false, Class: cls, Detail: fmt.Sprintf("{{ %s }} prints %q, the variable holds %q", name, res.Out, want)}
			case pos == "attr" && truthy && !strings.Contains(res.Out, `data-v="`+want+`"`):
				c.Oracle = &Verdict{OK: false, Class: cls, Detail: fmt.Sprintf(":data-v=%s gives %q, the variable holds %q", name, res.Out, want)}
			case (pos == "if" || pos == "elseif" || pos == "negated-if") && strings.Contains(res.Out, "[[T]]") != truthy:
				c.Oracle = &Verdict{OK: false, Class: cls, Detail: fmt.Sprintf("%s: branch %q, the variable holds %q", tpl, res.Out, want)}
			case pos == "show" && strings.Contains(res.Out, "display:none") == truthy:
				c.Oracle = &Verdict{OK: false, Class: cls, Detail: fmt.Sprintf("%s: %q, the variable holds %q", tpl, res.Out, want)}
			case pos == "class" && strings.Contains(res.Out, `class="on"`) != truthy:
				c.Oracle = &Verdict{OK: false, Class: cls, Detail: fmt.Sprintf("%s: %q, the variable holds %q", tpl, res.Out, want)}
			}
			r.Add(c)
		}
	}
}

// a path whose step is missing from its container has no value in EVERY position — also when a variable of that name exists and holds a
// key or index of the container (`prod.label` with label = "name"; `row.i` inside `(i, row) in rows`): a step is a literal, and the
// positions served by the path walker and by the expression evaluator agree
func c13MissingStep(r *Run) {
	env := map[string]any{"prod": map[string]any{"name": "Lamp", "price": 3}, "label": "name", "rows": []any{map[string]any{"n": "a0"}, map[string]any{"n": "b1"}}, "i": 0, "k": "price", "n": "n",
		"st": S1{Name: "sn", Count: 2}, "field": "Name"}
	for _, e := range []string{"prod.label", "prod.k", "rows.i", "rows.i.n", "st.field", "prod.label.x", "rows[0].label"} {
		for _, pos := range []string{"text", "pipe-head", "attr", "if", "elseif", "show", "class", "loop-text", "loop-if"} { // (a filter ARGUMENT that does not resolve is its own text: not a position of this rule)
			var tpl string
			switch pos {
			case "text":
				tpl = "<p>[[{{ " + e + " }}]]</p>"
			case "pipe-head":
				tpl = `<p>[[{{ ` + e + ` | default("") }}]]</p>`
			case "pipe-arg":
				tpl = `<p>[[{{ "" | default(` + e + `) }}]]</p>`
			case "attr":
				tpl = `<p :data-v="` + e + `">[[]]</p>`
			case "if":
				tpl = `<p v-if="` + e + `">[[T]]</p><p v-else>[[]]</p>`
			case "elseif":
				tpl = `<p v-if="nope">n</p><p v-else-if="` + e + `">[[T]]</p><p v-else>[[]]</p>`
			case "show":
				tpl = `<p v-show="` + e + `">[[]]</p>`
			case "class":
				tpl = `<p :class="{on: ` + e + `}">[[]]</p>`
			case "loop-text":
				tpl = `<ul><li v-for="(i, row) in rows">[[{{ row.i }}{{ row.label }}]]</li></ul>`
			case "loop-if":
				tpl = `<ul><li v-for="(i, row) in rows"><b v-if="row.i">[[T]]</b><b v-else>[[]]</b></li></ul>`
			}
			res := renderPage(map[string]string{"p.vuego": tpl}, "p.vuego", env)
			c := &Case{Name: "missing step " + e + " in " + pos, Input: map[string]any{"stream": "missingstep", "expr": e, "pos": pos, "tpl": tpl}, Impl: res.canon(), Oracle: &Verdict{OK: true}, Key: "missingstep|" + e + "|" + pos, Tags: []string{"stream:missingstep", "pos:" + pos}}
			cls := "missing-step-has-a-value:" + pos
			switch {
			case res.Err != "" || res.Panic != "" || res.Timeout:
				// expr-lang may reject a path through a string or an int (`prod.label.x`): an error is not a value
			case strings.Contains(res.Out, "[[T]]") || !strings.Contains(res.Out, "[[]]"):
				c.Oracle = &Verdict{OK: false, Class: cls, Detail: fmt.Sprintf("%s renders %q: the path %s has no value", tpl, res.Out, e)}
			case (pos == "attr" && strings.Contains(res.Out, "data-v")) || (pos == "class" && strings.Contains(res.Out, `class="on"`)) || (pos == "show" && !strings.Contains(res.Out, "display:none")):
				c.Oracle = &Verdict{OK: false, Class: cls, Detail: fmt.Sprintf("%s renders %q: the path %s has no value", tpl, res.Out, e)}
			}
			r.Add(c)
			if pos != "pipe-arg" {
				pendingPages = append(pendingPages, pageCase("missingstep:"+pos, map[string]string{"p.vuego": tpl}, nil, "p.vuego", env, "pos:"+pos))
			}
		}
	}
}

// bracketed steps whose index or key is a VARIABLE (`lst[i]`, `obj[key]`) or a key of a container that is not keyed by strings (`byID[7]`):
// the conventional value — the element — in every position, the same in all of them
func c13VarIndex(r *Run) {
	env := map[string]any{"lst": []any{10, 20, 30}, "names": []string{"ann", "bob", "cid"}, "i": 1, "obj": map[string]any{"k": "kv", "num": 5}, "key": "k",
		"byID": map[int]string{7: "seven", 8: "eight"}, "grid": []any{[]any{1, 2}, []any{3, 4}}, "j": 0}
	type ve struct{ expr, want string }
	for _, e := range []ve{{"lst[i]", "20"}, {"names[i]", "bob"}, {"obj[key]", "kv"}, {"byID[7]", "seven"}, {"grid[i][j]", "3"}, {"names[j]", "ann"}} {
		for _, pos := range []string{"text", "attr", "if", "elseif", "show", "class", "loop-text"} {
			var tpl string
			switch pos {
			case "text":
				tpl = "<p>[[{{ " + e.expr + " }}]]</p>"
			case "attr":
				tpl = `<p :data-v="` + e.expr + `">[[]]</p>`
			case "if":
				tpl = `<p v-if="` + e.expr + ` == '` + e.want + `' || ` + e.expr + ` == ` + c13NumOr(e.want) + `">[[T]]</p><p v-else>[[F]]</p>`
			case "elseif":
				tpl = `<p v-if="nope">n</p><p v-else-if="` + e.expr + `">[[T]]</p><p v-else>[[F]]</p>`
			case "show":
				tpl = `<p v-show="` + e.expr + `">[[]]</p>`
			case "class":
				tpl = `<p :class="{on: ` + e.expr + `}">[[]]</p>`
			case "loop-text":
				tpl = `<ul><li v-for="(idx, x) in names">[[{{ lst[idx] }}={{ names[idx] }}]]</li></ul>`
			}
			res := renderPage(map[string]string{"p.vuego": tpl}, "p.vuego", env)
			c := &Case{Name: "variable index " + e.expr + " in " + pos, Input: map[string]any{"stream": "varindex", "expr": e.expr, "pos": pos, "tpl": tpl}, Impl: res.canon(), Oracle: &Verdict{OK: true},
				Key: "varindex|" + e.expr + "|" + pos, Tags: []string{"stream:varindex", "pos:" + pos}}
			bad := ""
			switch {
			case res.Err != "" || res.Panic != "" || res.Timeout:
				bad = fmt.Sprintf("render failed: %+v", res)
			case pos == "text" && !strings.Contains(res.Out, "[["+e.want+"]]"):
				bad = "text"
			case pos == "attr" && !strings.Contains(res.Out, `data-v="`+e.want+`"`):
				bad = "bound attribute"
			case (pos == "if" || pos == "elseif") && !strings.Contains(res.Out, "[[T]]"):
				bad = "condition"
			case pos == "show" && strings.Contains(res.Out, "display:none"):
				bad = "v-show"
			case pos == "class" && !strings.Contains(res.Out, `class="on"`):
				bad = "class object"
			case pos == "loop-text" && !strings.Contains(strings.Join(strings.Fields(res.Out), ""), "[[10=ann]]</li><li>[[20=bob]]</li><li>[[30=cid]]"):
				bad = "loop text"
			}
			if bad != "" {
				c.Oracle = &Verdict{OK: false, Class: "variable-index-value:" + pos, Detail: fmt.Sprintf("%s (%s): %s has the value %s, the render gives %q", tpl, bad, e.expr, e.want, res.Out)}
			}
			r.Add(c)
		}
	}
}

// expressions that BEGIN AND END WITH A QUOTE without being one string literal (string concatenation and comparison written without spaces): the
// conventional value in every position, the same in all of them
func c13QuotedEnds(r *Run) {
	env := map[string]any{"name": "Bob", "s": "mid", "a": "x", "b": "y"}
	type qe struct{ expr, want string }
	for _, e := range []qe{{"'Hello, '+name+'!'", "Hello, Bob!"}, {"'a'+'b'", "ab"}, {"'x'+s+'y'", "xmidy"}, {`"x"+s+"y"`, "xmidy"}, {"'<'+s+'>'", "<mid>"}, {"'p'+a+b+'q'", "pxyq"}, {"'primary'", "primary"}, {"'it''+s+''s'", ""}} {
		if e.want == "" {
			continue
		}
		for _, pos := range []string{"text", "attr", "attr-long", "if", "show", "prop"} {
			q := `"`
			if strings.Contains(e.expr, `"`) {
				q = `'`
			}
			var tpl string
			files := map[string]string{}
			switch pos {
			case "text":
				tpl = "<p>[[{{ " + strings.ReplaceAll(e.expr, "<", "&lt;") + " }}]]</p>"
			case "attr":
				tpl = `<p :data-v=` + q + e.expr + q + `>[[]]</p>`
			case "attr-long":
				tpl = `<p v-bind:data-v=` + q + e.expr + q + `>[[]]</p>`
			case "if":
				tpl = `<p v-if=` + q + `(` + e.expr + `) == '` + e.want + `'` + q + `>[[T]]</p><p v-else>[[F]]</p>`
				if q == `'` {
					continue
				}
			case "show":
				tpl = `<p v-show=` + q + e.expr + q + `>[[]]</p>`
			case "prop":
				tpl = `<template include="c.vuego" :v=` + q + e.expr + q + `></template>`
				files["c.vuego"] = `<i>[[{{ v }}]]</i>`
			}
			files["p.vuego"] = tpl
			res := renderPage(files, "p.vuego", env)
			c := &Case{Name: "quoted ends " + e.expr + " in " + pos, Input: map[string]any{"stream": "quotedends", "expr": e.expr, "pos": pos, "tpl": tpl}, Impl: res.canon(), Oracle: &Verdict{OK: true},
				Key: "quotedends|" + e.expr + "|" + pos, Tags: []string{"stream:quotedends", "pos:" + pos}}
			out := htmlUnescape(res.Out)
			bad := ""
			switch {
			case res.Err != "" || res.Panic != "" || res.Timeout:
				bad = fmt.Sprintf("render failed: %+v", res)
			case (pos == "text" || pos == "prop") && !strings.Contains(out, "[["+e.want+"]]"):
				bad = "text"
			case (pos == "attr" || pos == "attr-long") && !strings.Contains(out, `data-v="`+e.want+`"`):
				bad = "bound attribute"
			case pos == "if" && !strings.Contains(out, "[[T]]"):
				bad = "condition"
			case pos == "show" && strings.Contains(out, "display:none"):
				bad = "v-show"
			}
			if bad != "" {
				c.Oracle = &Verdict{OK: false, Class: "expression-value-differs:" + pos, Detail: fmt.Sprintf("%s (%s): %s has the value %q, the render gives %q", tpl, bad, e.expr, e.want, res.Out)}
			}
			r.Add(c)
		}
	}
}

func c13NumOr(s string) string {
	for _, ch := range s {
		if ch < '0' || ch > '9' {
			return "-1"
		}
	}
	return s
}
