package main

// C14 — attribute binding. Direct oracle: a reference computed from the case description (not from the model) says, per element,
// which attributes with which values must come out; the output is parsed with x/net/html.

import (
	"fmt"
	"sort"
	"strings"

	"golang.org/x/net/html"
)

func init() { props["C14"] = runC14 }

type c14Val struct {
	name   string
	v      any
	truthy bool
	str    string
}

var c14Vals = []c14Val{
	{"true", true, true, "true"}, {"false", false, false, ""}, {"one", 1, true, "1"}, {"zero", 0, false, ""}, {"str", "abc", true, "abc"}, {"empty", "", false, ""},
	{"nil", nil, false, ""}, {"i8zero", int8(0), false, ""}, {"f32", float32(2.5), true, "2.5"}, {"u16", uint16(7), true, "7"}, {"sp", "a b", true, "a b"}, {"amp", "x&y", true, "x&y"},
	// string forms that depend on the Go type: a float32 that is not exact in binary, wide integers, floats in exponent form
	{"f32-0.1", float32(0.1), true, "0.1"}, {"f32-72.3", float32(72.3), true, "72.3"}, {"f32-1.1", float32(1.1), true, "1.1"}, {"f64-0.1", 0.1, true, "0.1"}, {"f64-1e21", 1e21, true, "1e+21"},
	{"f64-1e-7", 1e-7, true, "1e-07"}, {"i64-big", int64(1) << 40, true, "1099511627776"}, {"u64-max", ^uint64(0), true, "18446744073709551615"}, {"i-neg", -12, true, "-12"}, {"u8", uint8(200), true, "200"},
}

type c14Case struct {
	desc  string
	tpl   string
	data  map[string]any
	want  map[string]string // attribute -> value expected on the <p> (absent key = must be absent)
	order []string          // expected relative order of static attributes
	style map[string]string // expected style declarations (compared as a set), nil = not checked
}

func parseStyleDecls(s string) map[string]string {
	out := map[string]string{}
	for _, part := range strings.Split(s, ";") {
		kv := strings.SplitN(part, ":", 2)
		if len(kv) == 2 && strings.TrimSpace(kv[0]) != "" {
			out[strings.TrimSpace(kv[0])] = strings.TrimSpace(kv[1])
		}
	}
	return out
}

func c14Eval(cs c14Case) *Case {
	res := renderPage(map[string]string{"page.vuego": cs.tpl}, "page.vuego", cs.data)
	pendingPages = append(pendingPages, pageCase("attrs", map[string]string{"page.vuego": cs.tpl}, nil, "page.vuego", cs.data))
	c := &Case{Name: cs.desc, Input: map[string]any{"desc": cs.desc, "tpl": cs.tpl, "data": toVal(cs.data)}, Impl: res.canon(), Key: cs.desc + "|" + cs.tpl, Tags: []string{"c14:" + strings.SplitN(cs.desc, ":", 2)[0]}}
	v := &Verdict{OK: true}
	c.Oracle = v
	cls := strings.SplitN(cs.desc, ":", 2)[0]
	if res.Panic != "" {
		v.OK, v.Class, v.Detail = false, "panic:"+cls, res.Panic
		return c
	}
	if res.Err != "" || res.Timeout {
		v.OK, v.Class, v.Detail = false, "error:"+cls, fmt.Sprintf("%+v", res)
		return c
	}
	var p *html.Node
	var find func(n *html.Node)
	find = func(n *html.Node) {
		if p == nil && n.Type == html.ElementNode && n.Data == "p" {
			p = n
		}
		for ch := n.FirstChild; ch != nil; ch = ch.NextSibling {
			find(ch)
		}
	}
	for _, n := range parseFragment(res.Out) {
		find(n)
	}
	if p == nil {
		v.OK, v.Class, v.Detail = false, "element-missing:"+cls, res.Out
		return c
	}
	got := map[string]string{}
	var gotOrder []string
	for _, a := range p.Attr {
		got[a.Key] = a.Val
		gotOrder = append(gotOrder, a.Key)
	}
	for k, w := range cs.want {
		if k == "style" && cs.style != nil {
			continue
		}
		g, ok := got[k]
		if !ok || strings.TrimSpace(g) != strings.TrimSpace(w) {
			v.OK, v.Class, v.Detail = false, "wrong-value:"+cls, fmt.Sprintf("attribute %s = %q (present %v), expected %q; output %q", k, g, ok, w, res.Out)
			return c
		}
	}
	for k := range got {
		if _, ok := cs.want[k]; !ok {
			v.OK, v.Class, v.Detail = false, "unexpected-attribute:"+cls, fmt.Sprintf("attribute %s=%q should not be emitted; output %q", k, got[k], res.Out)
			return c
		}
	}
	if cs.style != nil {
		gs := parseStyleDecls(got["style"])
		if len(cs.style) == 0 {
			if _, has := got["style"]; has && len(gs) > 0 {
				v.OK, v.Class, v.Detail = false, "style:"+cls, fmt.Sprintf("unexpected style %q", got["style"])
			}
		} else if fmt.Sprint(gs) != fmt.Sprint(cs.style) {
			v.OK, v.Class, v.Detail = false, "style:"+cls, fmt.Sprintf("style declarations %v, expected %v; output %q", gs, cs.style, res.Out)
		}
	}
	// static attributes keep their relative order
	if len(cs.order) > 1 {
		pos := map[string]int{}
		for i, k := range gotOrder {
			pos[k] = i
		}
		for i := 0; i+1 < len(cs.order); i++ {
			if pos[cs.order[i]] > pos[cs.order[i+1]] {
				v.OK, v.Class, v.Detail = false, "static-order:"+cls, fmt.Sprintf("static attributes out of place: %v in %q", gotOrder, res.Out)
			}
		}
	}
	return c
}

func c14Cases() []c14Case {
	var out []c14Case
	for _, x := range c14Vals {
		d := map[string]any{"x": x.v, "y": "yy"}
		// a. bound: truthy emits, falsy omits — with :attr and v-bind:attr, statics around stay in place
		for _, pref := range []string{":", "v-bind:"} {
			want := map[string]string{"id": "i", "lang": "en"}
			if x.truthy {
				want["title"] = x.str
			}
			out = append(out, c14Case{desc: "bound:" + pref + x.name, tpl: `<p id="i" ` + pref + `title="x" lang="en">t</p>`, data: d, want: want, order: []string{"id", "lang"}})
		}
		// c. class merge
		wc := map[string]string{"class": "a b"}
		if x.truthy {
			wc["class"] = "a b " + x.str
		}
		out = append(out, c14Case{desc: "class-merge:" + x.name, tpl: `<p class="a b" :class="x">t</p>`, data: d, want: wc})
		// d. class object
		wo := map[string]string{}
		if x.truthy {
			wo["class"] = "on"
		}
		out = append(out, c14Case{desc: "class-object:" + x.name, tpl: `<p :class="{on: x}">t</p>`, data: d, want: wo})
		wo2 := map[string]string{"class": "base always"}
		if x.truthy {
			wo2["class"] = "base on always"
		}
		out = append(out, c14Case{desc: "class-object-merge:" + x.name, tpl: `<p class="base" :class="{on: x, always: true, never: false}">t</p>`, data: d, want: wo2})
		// f. v-show
		ws := map[string]string{"style": ""}
		st := map[string]string{"color": "red"}
		if !x.truthy {
			st["display"] = "none"
		}
		out = append(out, c14Case{desc: "vshow:" + x.name, tpl: `<p style="color: red" v-show="x">t</p>`, data: d, want: ws, style: st})
		st2 := map[string]string{}
		w2 := map[string]string{}
		if !x.truthy {
			st2["display"] = "none"
			w2["style"] = ""
		}
		out = append(out, c14Case{desc: "vshow-nostyle:" + x.name, tpl: `<p v-show="x">t</p>`, data: d, want: w2, style: st2})
		// v-show on chain members
		out = append(out, c14Case{desc: "vshow-on-vif:" + x.name, tpl: `<p v-if="y" v-show="x">t</p>`, data: d, want: w2, style: st2})
		out = append(out, c14Case{desc: "vshow-on-velse:" + x.name, tpl: `<i v-if="nope">n</i><p v-else v-show="x">t</p>`, data: d, want: w2, style: st2})
		out = append(out, c14Case{desc: "vshow-in-vfor:" + x.name, tpl: `<p v-for="q in one" v-show="x">t</p>`, data: map[string]any{"x": x.v, "one": []any{1}}, want: w2, style: st2})
		// several bound attributes on one element + static/bound collision
		wm := map[string]string{"id": "i", "data-b": "yy"}
		if x.truthy {
			wm["title"] = x.str
			wm["data-a"] = x.str
			wm["id"] = x.str
		}
		out = append(out, c14Case{desc: "multi-bound:" + x.name, tpl: `<p id="i" :title="x" :data-a="x" :data-b="y" :id="x">t</p>`, data: d, want: wm})
	}
	// e. style object
	out = append(out,
		// a bound value written with mustaches (wholly or partly): the interpolated text is the value - it is not an object literal although it
		// begins with `{` and ends with `}`
		c14Case{desc: "bound-interpolated:whole", tpl: `<p :title="{{ name }}">t</p>`, data: map[string]any{"name": "Ann"}, want: map[string]string{"title": "Ann"}},
		c14Case{desc: "bound-interpolated:whole-vbind", tpl: `<p v-bind:title="{{ name }}">t</p>`, data: map[string]any{"name": "Ann"}, want: map[string]string{"title": "Ann"}},
		c14Case{desc: "bound-interpolated:two-mustaches", tpl: `<p :title="{{ first }} {{ last }}">t</p>`, data: map[string]any{"first": "Ann", "last": "Lee"}, want: map[string]string{"title": "Ann Lee"}},
		c14Case{desc: "bound-interpolated:over-static", tpl: `<p title="static" :title="{{ name }}">t</p>`, data: map[string]any{"name": "Ann"}, want: map[string]string{"title": "Ann"}},
		c14Case{desc: "bound-interpolated:class-merge", tpl: `<p class="box" :class="{{ cls }}">t</p>`, data: map[string]any{"cls": "active"}, want: map[string]string{"class": "box active"}},
		c14Case{desc: "bound-interpolated:prefix-text", tpl: `<p :title="Dr. {{ name }}">t</p>`, data: map[string]any{"name": "Ann"}, want: map[string]string{"title": "Dr. Ann"}},
		c14Case{desc: "bound-interpolated:suffix-text", tpl: `<p :data-href="{{ base }}/x">t</p>`, data: map[string]any{"base": "/b"}, want: map[string]string{"data-href": "/b/x"}},
		c14Case{desc: "style-object:kebab", tpl: `<p :style="{fontSize: '12px', color: c}">t</p>`, data: map[string]any{"c": "blue"}, want: map[string]string{"style": ""}, style: map[string]string{"font-size": "12px", "color": "blue"}},
		c14Case{desc: "style-object:override", tpl: `<p style="color: red; margin: 0" :style="{color: c, backgroundColor: 'white'}">t</p>`, data: map[string]any{"c": "blue"}, want: map[string]string{"style": ""}, style: map[string]string{"color": "blue", "margin": "0", "background-color": "white"}},
		// a static style that declares a property more than once (the CSS fallback idiom): what counts is the declaration that wins the cascade
		c14Case{desc: "style-object:override-duplicated-static", tpl: `<p style="color: red; margin: 0; color: green" :style="{color: c}">t</p>`, data: map[string]any{"c": "blue"}, want: map[string]string{"style": ""}, style: map[string]string{"color": "blue", "margin": "0"}},
		c14Case{desc: "style-object:override-fallback-pair", tpl: `<p style="background-color: #000; background-color: rgba(0,0,0,.5); margin: 0" :style="{backgroundColor: c}">t</p>`, data: map[string]any{"c": "black"}, want: map[string]string{"style": ""}, style: map[string]string{"background-color": "black", "margin": "0"}},
		c14Case{desc: "style-bound-string-duplicated", tpl: `<p style="top: 0; top: 1px" :style="s">t</p>`, data: map[string]any{"s": "top: 2px; left: 0; left: 3px"}, want: map[string]string{"style": ""}, style: map[string]string{"top": "2px", "left": "3px"}},
		c14Case{desc: "vshow-duplicated-display", tpl: `<p style="display: -webkit-box; display: flex; margin: 0" v-show="f">t</p>`, data: map[string]any{"f": false}, want: map[string]string{"style": ""}, style: map[string]string{"display": "none", "margin": "0"}},
		c14Case{desc: "vshow-duplicated-display-shown", tpl: `<p style="display: -webkit-box; display: flex" v-show="f">t</p>`, data: map[string]any{"f": true}, want: map[string]string{"style": ""}, style: map[string]string{"display": "flex"}},
		// a style value is a CSS value, not a condition: the number 0 is a declaration like any other
		c14Case{desc: "style-object:zero-values", tpl: `<p :style="{opacity: o, zIndex: z, flexGrow: 0}">t</p>`, data: map[string]any{"o": 0, "z": 0.0}, want: map[string]string{"style": ""}, style: map[string]string{"opacity": "0", "z-index": "0", "flex-grow": "0"}},
		c14Case{desc: "style-object:zero-overrides-static", tpl: `<p style="opacity: 1; margin: 2px" :style="{opacity: o}">t</p>`, data: map[string]any{"o": 0}, want: map[string]string{"style": ""}, style: map[string]string{"opacity": "0", "margin": "2px"}},
		c14Case{desc: "style-object:zero-typed", tpl: `<p :style="{order: a, top: b}">t</p>`, data: map[string]any{"a": int8(0), "b": uint(0)}, want: map[string]string{"style": ""}, style: map[string]string{"order": "0", "top": "0"}},
		// the value of an object entry may itself contain a colon (a conditional expression, a URL): the key ends at the FIRST colon
		c14Case{desc: "style-object:ternary-value", tpl: `<p style="padding: 4px" :style="{color: dark ? 'white' : 'black', fontSize: '12px'}">t</p>`, data: map[string]any{"dark": true}, want: map[string]string{"style": ""}, style: map[string]string{"padding": "4px", "color": "white", "font-size": "12px"}},
		c14Case{desc: "style-object:url-value", tpl: `<p style="color: red" :style="{backgroundImage: 'url(https://cdn.example.com/a.png)'}">t</p>`, data: map[string]any{}, want: map[string]string{"style": ""}, style: map[string]string{"color": "red", "background-image": "url(https://cdn.example.com/a.png)"}},
		c14Case{desc: "class-object:ternary-value", tpl: `<p class="btn" :class="{active: kind == 'primary' ? true : false, round: r}">t</p>`, data: map[string]any{"kind": "primary", "r": true}, want: map[string]string{"class": "btn active round"}},
		c14Case{desc: "class-object:ternary-value-false", tpl: `<p class="btn" :class="{active: kind == 'primary' ? true : false, round: r}">t</p>`, data: map[string]any{"kind": "other", "r": true}, want: map[string]string{"class": "btn round"}},
		// a string literal inside an object may contain the OTHER quote character (an apostrophe in a double-quoted name): it is still one
		// literal, and the comma after it still separates two entries
		c14Case{desc: "class-object:apostrophe-in-double-quoted-literal", tpl: `<p :class="{'is-mine': owner == &quot;o'brien&quot;, 'is-open': open}">t</p>`, data: map[string]any{"owner": "o'brien", "open": true}, want: map[string]string{"class": "is-mine is-open"}},
		c14Case{desc: "class-object:apostrophe-literal-false", tpl: `<p class="row" :class="{'is-mine': owner == &quot;o'brien&quot;, 'is-open': open}">t</p>`, data: map[string]any{"owner": "smith", "open": true}, want: map[string]string{"class": "row is-open"}},
		c14Case{desc: "class-object:double-quote-in-single-quoted-literal", tpl: `<p :class="{a: s != '&quot;', b: yes, c: s == '&quot;,'}">t</p>`, data: map[string]any{"s": "x", "yes": true}, want: map[string]string{"class": "a b"}},
		c14Case{desc: "class-object:two-apostrophes", tpl: `<p :class="{a: s == &quot;rock'n'roll&quot;, b: yes}">t</p>`, data: map[string]any{"s": "rock'n'roll", "yes": true}, want: map[string]string{"class": "a b"}},
		c14Case{desc: "style-object:apostrophe-in-double-quoted-value", tpl: `<p style="margin:0;color:blue" :style="{content: &quot;it's&quot;, color: tone}">t</p>`, data: map[string]any{"tone": "red"}, want: map[string]string{"style": ""}, style: map[string]string{"margin": "0", "content": "it's", "color": "red"}},
		// a key that already contains a hyphen is a CSS property name as written - a custom property keeps its capitals (names are case-sensitive)
		c14Case{desc: "style-object:custom-property-keeps-case", tpl: `<p :style="{'--mainColor': c, '--Gap-X': '2px'}">t</p>`, data: map[string]any{"c": "blue"}, want: map[string]string{"style": ""}, style: map[string]string{"--mainColor": "blue", "--Gap-X": "2px"}},
		c14Case{desc: "style-object:custom-property-overrides-static", tpl: `<p style="--mainColor:red;color:var(--mainColor)" :style="{'--mainColor': c}">t</p>`, data: map[string]any{"c": "blue"}, want: map[string]string{"style": ""}, style: map[string]string{"--mainColor": "blue", "color": "var(--mainColor)"}},
		c14Case{desc: "style-object:vendor-prefix-and-camel", tpl: `<p :style="{'-webkit-lineClamp': n, msTransform: 'none'}">t</p>`, data: map[string]any{"n": 3}, want: map[string]string{"style": ""}, style: map[string]string{"-webkit-lineClamp": "3", "ms-transform": "none"}},
		// a key spelled exactly like a static declaration's name overrides that declaration - also when the name begins with a capital
		c14Case{desc: "style-object:capital-key-overrides-static", tpl: `<p style="Color: blue; margin: 0" :style="{Color: 'red'}">t</p>`, data: map[string]any{}, want: map[string]string{"style": ""}, style: map[string]string{"Color": "red", "margin": "0"}},
		c14Case{desc: "style-object:capital-keys-override-static", tpl: `<p style="Top: 1px; Margin: 0; color: blue" :style="{Top: t, Margin: m}">t</p>`, data: map[string]any{"t": "2px", "m": "4px"}, want: map[string]string{"style": ""}, style: map[string]string{"Top": "2px", "Margin": "4px", "color": "blue"}},
		c14Case{desc: "style-object:capital-key-quoted-overrides-static", tpl: `<p style="margin: 0; Display: block" :style="{'Display': d}">t</p>`, data: map[string]any{"d": "flex"}, want: map[string]string{"style": ""}, style: map[string]string{"Display": "flex", "margin": "0"}},
		// the binding written BEFORE the static attribute of the same name: the order of the two in the source does not matter
		c14Case{desc: "bound-before-static:class", tpl: `<p :class="x" class="a">t</p>`, data: map[string]any{"x": "b"}, want: map[string]string{"class": "a b"}},
		c14Case{desc: "bound-before-static:class-object", tpl: `<p :class="{on: x, off: y}" id="i" class="a">t</p>`, data: map[string]any{"x": true, "y": false}, want: map[string]string{"class": "a on", "id": "i"}},
		c14Case{desc: "bound-before-static:style-object", tpl: `<p :style="{color: c}" style="color:red;margin:0">t</p>`, data: map[string]any{"c": "blue"}, want: map[string]string{"style": ""}, style: map[string]string{"color": "blue", "margin": "0"}},
		c14Case{desc: "bound-before-static:title", tpl: `<p v-bind:title="t" title="static">t</p>`, data: map[string]any{"t": "bound title"}, want: map[string]string{"title": "bound title"}},
		c14Case{desc: "bound-before-static:falsy-keeps-static", tpl: `<p :title="t" title="static" :data-k="k" data-k="s">t</p>`, data: map[string]any{"t": "", "k": "K"}, want: map[string]string{"title": "static", "data-k": "K"}},
		c14Case{desc: "bound-between-statics", tpl: `<p id="i" :class="x" lang="en" class="a" :lang="l">t</p>`, data: map[string]any{"x": "b", "l": "de"}, want: map[string]string{"class": "a b", "id": "i", "lang": "de"}},
		// a bracketed attribute is written literally also when the REAL directive of that name stands before it on the element
		c14Case{desc: "bracketed-after-directive", tpl: `<p v-if="show" [v-if]="visible" v-show="open" [v-show]="isOpen" :title="tt" [:title]="raw">t</p>`, data: map[string]any{"show": true, "open": true, "tt": "T"}, want: map[string]string{"v-if": "visible", "v-show": "isOpen", "title": "T", ":title": "raw"}},
		c14Case{desc: "style-object:hyphen-key", tpl: `<p :style="{'font-size': s}">t</p>`, data: map[string]any{"s": "9px"}, want: map[string]string{"style": ""}, style: map[string]string{"font-size": "9px"}},
		c14Case{desc: "style-bound-string", tpl: `<p style="color: red" :style="s">t</p>`, data: map[string]any{"s": "color: green; top: 1px"}, want: map[string]string{"style": ""}, style: map[string]string{"color": "green", "top": "1px"}},
		c14Case{desc: "style-bound-nonstring", tpl: `<p style="color: red" :style="n">t</p>`, data: map[string]any{"n": 5}, want: map[string]string{"style": ""}, style: map[string]string{"color": "red"}},
		c14Case{desc: "vshow-vs-bound-style", tpl: `<p v-show="f" :style="{display: 'block', color: 'red'}">t</p>`, data: map[string]any{"f": false}, want: map[string]string{"style": ""}, style: map[string]string{"display": "none", "color": "red"}},
	)
	// f2. v-show x style: v-show only ever ADDS display:none (when its condition is falsy); a truthy v-show leaves every declaration — a
	// display:none written in the static style or contributed by a bound style included — exactly as it would be without the directive
	statics := []struct{ src string; decl map[string]string }{
		{"", nil}, {"color: red", map[string]string{"color": "red"}}, {"display: none", map[string]string{"display": "none"}},
		{"display:none;color:red", map[string]string{"display": "none", "color": "red"}}, {"color: red; display: none", map[string]string{"color": "red", "display": "none"}},
		{"display: block; margin: 0", map[string]string{"display": "block", "margin": "0"}},
	}
	bounds := []struct{ attr string; decl map[string]string }{
		{"", nil}, {`:style="{display: 'none'}"`, map[string]string{"display": "none"}}, {`:style="{color: 'blue'}"`, map[string]string{"color": "blue"}},
		{`:style="{display: 'none', fontSize: '12px'}"`, map[string]string{"display": "none", "font-size": "12px"}}, {`:style="'display: none'"`, map[string]string{"display": "none"}},
		{`:style="{display: 'flex'}"`, map[string]string{"display": "flex"}},
	}
	for si, st := range statics {
		for bi, b := range bounds {
			for _, show := range []bool{true, false} {
				decl := map[string]string{}
				for k, v := range st.decl {
					decl[k] = v
				}
				for k, v := range b.decl {
					decl[k] = v
				}
				if !show {
					decl["display"] = "none"
				}
				want := map[string]string{}
				if len(decl) > 0 {
					want["style"] = ""
				}
				sa := ""
				if st.src != "" {
					sa = ` style="` + st.src + `"`
				}
				for vi, vs := range []string{`v-show="f"`, `v-show="f" v-if="t"`, `v-show="n > 0"`} {
					if vi > 0 && (si+bi)%3 != 0 {
						continue
					}
					out = append(out, c14Case{desc: fmt.Sprintf("vshow-style:%d:%d:%v:%d", si, bi, show, vi), tpl: `<p` + sa + ` ` + b.attr + ` ` + vs + `>t</p>`,
						data: map[string]any{"f": show, "t": true, "n": map[bool]int{true: 1, false: 0}[show]}, want: want, style: decl})
				}
			}
		}
	}
	// g. directives never serialised
	dirs := []string{`v-if="y"`, `v-for="q in one"`, `v-show="y"`, `v-once`, `v-pre`, `v-html="y"`, `v-text="y"`, `v-keep`, `:title="y"`, `v-bind:title="y"`}
	for i, d1 := range dirs {
		for _, d2 := range dirs[i+1:] {
			want := map[string]string{"id": "i"}
			if strings.Contains(d1+d2, "title") && !strings.Contains(d1+d2, "v-pre") {
				want["title"] = "yy"
			}
			if strings.Contains(d1+d2, "v-pre") {
				// v-pre: nothing evaluated; bound attributes stay as written (documented), other directive attributes are still not emitted
				if strings.Contains(d1+d2, `:title`) && !strings.Contains(d1+d2, "v-bind:title") {
					want[":title"] = "y"
				}
				if strings.Contains(d1+d2, `v-bind:title`) {
					want["v-bind:title"] = "y"
				}
			}
			out = append(out, c14Case{desc: "directives-hidden:" + d1 + "+" + d2, tpl: `<p id="i" ` + d1 + ` ` + d2 + `>t</p>`, data: map[string]any{"y": "yy", "one": []any{1}}, want: want})
		}
	}
	// h. bracketed attributes: literal, value untouched
	for _, val := range []string{"plain", "y", "{{ y }}", "a {{ y }} b", "{on: true}", "x | upper"} {
		out = append(out, c14Case{desc: "bracket:" + val, tpl: `<p [data-k]="` + val + `" [:x]="` + val + `">t</p>`, data: map[string]any{"y": "yy", "x": "xx"}, want: map[string]string{"data-k": val, ":x": val}})
	}
	// b0. static attributes whose NAME contains a colon, an at-sign or a v- prefix that is no directive of this engine are static attributes
	out = append(out,
		c14Case{desc: "static-colon-names", tpl: `<p xml:lang="sl" x-on:click="open = !open" :lang="l" hx-on:click="go" x-bind:hidden="closed">t</p>`, data: map[string]any{"l": "en", "sl": "WRONG", "go": "WRONG", "closed": "WRONG"},
			want: map[string]string{"xml:lang": "sl", "x-on:click": "open = !open", "lang": "en", "hx-on:click": "go", "x-bind:hidden": "closed"}, order: []string{"xml:lang", "x-on:click", "hx-on:click", "x-bind:hidden"}},
		c14Case{desc: "static-odd-names", tpl: `<p @click="go" v-cloak="" v-on:click="go" v-model="m" data-a.b="c" on:x="y">t</p>`, data: map[string]any{"go": "WRONG", "m": "WRONG", "y": "WRONG"},
			want: map[string]string{"@click": "go", "v-cloak": "", "v-on:click": "go", "v-model": "m", "data-a.b": "c", "on:x": "y"}},
	)
	// b1. interior white space of a static value (also next to an interpolation) is part of the value
	out = append(out,
		c14Case{desc: "static-interior-whitespace", tpl: `<p a="x  y" b="l1&#10;l2" c="t&#9;t" e="n  {{ y }}&#10;m" :d="y">t</p>`, data: map[string]any{"y": "yy"},
			want: map[string]string{"a": "x  y", "b": "l1\nl2", "c": "t\tt", "e": "n  yy\nm", "d": "yy"}, order: []string{"a", "b", "c", "e"}},
	)
	// b. statics in place, with interpolated static
	out = append(out, c14Case{desc: "static-in-place:interp", tpl: `<p a="1" b="x{{ y }}z" c="3" :d="y" e="5">t</p>`, data: map[string]any{"y": "yy"}, want: map[string]string{"a": "1", "b": "xyyz", "c": "3", "d": "yy", "e": "5"}, order: []string{"a", "b", "c", "e"}})
	sort.SliceStable(out, func(i, j int) bool { return false })
	return out
}

func runC14(r *Run, replay *Case) {
	defer flushPages(r)
	if replay != nil {
		if replay.Input["op"] != nil {
			return
		}
		for _, cs := range c14Cases() {
			if cs.desc == replay.Input["desc"] {
				r.Add(c14Eval(cs))
			}
		}
		return
	}
	r.Res.Rule = "elements with combinations of static, interpolated, :/v-bind: bound, object-syntax, bracketed and directive attributes x values of every truthiness and kind; " +
		"reference computed from the case; non-trivial = every case; distinct by (sub-claim, template)"
	renderStreams(r, 600, 10000)
	for _, cs := range c14Cases() {
		r.Add(c14Eval(cs))
	}
	r.Res.Exhaustive = true
}
