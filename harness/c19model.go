package main

// C19 model correspondence: the formatter's leaf writers (via the verif hooks in /repo/formatter) against the Lean model
// Vuego/Model/Fmt.lean, and the model's READING side (attribute-value states + reference decoding) against x/net/html.

import (
	"strings"

	"github.com/titpetric/vuego/formatter"
	"golang.org/x/net/html"
)

var c19Alphabet = []string{"a", "b", " ", "  ", "\n", "\t", "&", "&&", "&a", "&amp;", "&quot;", "&#39;", "&#", "&lt", "&copy;", "&x;", `"`, `'`, "<", ">", "=", "{{", "}}", "{", "}", ";", "é", "x1", "-", "|"}

func c19RandStr(g *srcGen, max int) string {
	var sb strings.Builder
	for k := g.r.Intn(max + 1); k > 0; k-- {
		sb.WriteString(c19Alphabet[g.r.Intn(len(c19Alphabet))])
	}
	return sb.String()
}

var c19TreeExtras = []string{
	"<div><!--\n  multi\n  line\n--><p>a</p></div>", "<section><div><!-- first\n        second --><span>x</span></div></section>", "<!--\ntop\n--><ul><li><!--\n in li\n-->x</li></ul>",
	"<div><!-- c --><p>a <b>b</b> <i>c</i>  d</p></div>", "<p>  lead <span> x </span> <em>y</em>tail  </p>", "<div>  text  <p></p><br><img src=\"a.png\"></div>",
	"<span><i>x</i></span>", "<ul>\n  <li>one</li>\n  <li><a href=\"#\">two</a> </li>\n</ul>", "<div><span>a</span> <span>b</span></div>", "<section><h2>T <small>s</small></h2><div><p>x</p>y</div></section>",
	"<script>if (a < b && c > d) { go(); }</script>", "<div><style>ul > li { margin: 0 }</style></div>", "<p><b> </b></p>", "<div> </div>", "<button><span>x</span><div>y</div></button>", "<label>Name <input name=\"n\"></label>", "<pre>\n\nx <b>\ny</b></pre>",
	"<script></script><style>\n\n  a{}\n\n</style><script>\n   x\n     y\n</script>", "<p>a<!-- c -->b</p>", "<td>cell <b>b</b></td>", "<dl><dt>t</dt><dd>d <code>c</code></dd></dl>",
	"<div>{{ a < b }} &amp; <b>{{ x }}</b></div>", "<p>\u00a0x\u00a0</p>", "<my-tag><span>x</span></my-tag>", "<a href=\"x\"><div>block in inline</div></a>",
}

func c19ModelStreams(r *Run) {
	g := &srcGen{r: r.Rng}
	n := 1500
	if r.Thorough() {
		n = 40000
	}
	for i := 0; i < n; i++ {
		// (1) open tag text
		var attrs []html.Attribute
		var aj []any
		for k := g.r.Intn(3) + 1; k > 0; k-- {
			key := []string{"class", "title", ":href", "v-if", "data-x"}[g.r.Intn(5)]
			v := c19RandStr(g, 5)
			if g.r.Intn(4) == 0 {
				v = c19AttrVals[g.r.Intn(len(c19AttrVals))]
			}
			attrs = append(attrs, html.Attribute{Key: key, Val: v})
			aj = append(aj, []any{key, v})
		}
		out := formatter.VerifRenderOpenTag("p", attrs)
		r.Add(&Case{Name: "opentag", Op: true, Input: map[string]any{"op": "fmt", "kind": "opentag", "tag": "p", "attrs": aj}, Impl: map[string]any{"out": out}, Key: "opentag|" + out, Tags: []string{"stream:fmt-opentag"}})

		// (2) the reading model against a real HTML5 parser: write one value, parse the tag back
		v := attrs[0].Val
		if v != "" {
			tag := formatter.VerifRenderOpenTag("p", []html.Attribute{{Key: "k", Val: v}}) + "</p>"
			nodes := parseFragment(tag)
			got, rest := "", "?"
			if len(nodes) == 1 && len(nodes[0].Attr) == 1 && nodes[0].Attr[0].Key == "k" {
				got, rest = nodes[0].Attr[0].Val, ""
			}
			// values containing references outside the model's table (&copy; &x; &lt without ';' ...) are escaped by the writer, so the
			// parser never sees them as references: no restriction on v is needed
			r.Add(&Case{Name: "attrread", Op: true, Input: map[string]any{"op": "fmt", "kind": "attrread", "v": v}, Impl: map[string]any{"value": got, "rest": rest}, Key: "attrread|" + v, Tags: []string{"stream:fmt-attrread"}})
		}

		// (3) text
		s := c19RandStr(g, 8)
		r.Add(&Case{Name: "text", Op: true, Input: map[string]any{"op": "fmt", "kind": "text", "s": s}, Impl: map[string]any{"out": formatter.VerifEscapeText(s)}, Key: "text|" + s, Tags: []string{"stream:fmt-text"}})

		// (5) the tree walk: formatNode over the parsed DOM of a generated source (and of sources with comments, nested inline elements,
		// whitespace-only text between inline elements, empty and void elements), at depths 0-2
		{
			src := c19Generate(g)
			if strings.HasPrefix(src, "---") || strings.Contains(src, "</html>") {
				src = c19TreeExtras[g.r.Intn(len(c19TreeExtras))]
			}
			if i%3 == 0 {
				src = c19TreeExtras[g.r.Intn(len(c19TreeExtras))] + src
			}
			nodes := parseFragment(src)
			depth := g.r.Intn(3)
			out := formatter.VerifFormatNodes(nodes, depth)
			r.Add(&Case{Name: "tree", Op: true, Input: map[string]any{"op": "fmt", "kind": "tree", "nodes": nodesToJSON(nodes), "depth": depth, "src": src}, Impl: map[string]any{"out": out}, Key: "tree|" + src + "|" + string(rune('0'+depth)), Tags: []string{"stream:fmt-tree"}})
		}

		// (4) front-matter split
		var lines []string
		for k := g.r.Intn(7); k > 0; k-- {
			lines = append(lines, []string{"---", "--- x", "a: 1", "", "<p>---</p>", " ---", "----", "t: \"q\""}[g.r.Intn(8)])
		}
		content := strings.Join(lines, "\n")
		fm, body := formatter.VerifSplitFrontmatter(content)
		r.Add(&Case{Name: "fm", Op: true, Input: map[string]any{"op": "fmt", "kind": "fm", "s": content}, Impl: map[string]any{"fm": fm, "body": body}, Key: "fm|" + content, Tags: []string{"stream:fmt-fm"}})
	}
}
