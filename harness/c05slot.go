//go:build verif

package main

import (
	"fmt"
	"strings"

	vuego "github.com/titpetric/vuego"
)

// c05IncludeInSlotContent: an include (tag or shorthand) that is part of the slot content supplied to ANOTHER component, which uses that slot
// several times - once per item of a loop, or at two places - with different slot props each time: every use renders the included component
// with the props that use gives it (bound, interpolated, shorthand; the typed value arrives typed).
func c05IncludeInSlotContent(r *Run) {
	hosts := []struct {
		name, src string
		uses      []string
	}{
		{"slot-per-item", `<ul><li v-for="it in items"><slot name="row" :item="it"></slot></li></ul>`, []string{"ann", "bob", "cid"}},
		{"slot-twice", `<header><slot name="row" :item="first"></slot></header><footer><slot name="row" :item="last"></slot></footer>`, []string{"ann", "cid"}},
		{"slot-per-item-and-once", `<div><p v-for="it in items"><slot name="row" :item="it"></slot></p><slot name="row" :item="first"></slot></div>`, []string{"ann", "bob", "cid", "ann"}},
	}
	inner := []struct{ name, src string }{
		{"bound", `<template include="components/Badge.vuego" :label="p.item.name" :n="p.item.n"></template>`},
		{"interp", `<template include="components/Badge.vuego" label="{{ p.item.name }}" n="{{ p.item.n }}"></template>`},
		{"tag", `<badge :label="p.item.name" :n="p.item.n"></badge>`},
		{"tag-in-element", `<span class="w"><badge label="{{ p.item.name }}" :n="p.item.n"></badge></span>`},
		{"nested-twice", `<template include="components/Wrap.vuego" :label="p.item.name"><badge :label="p.item.name" :n="p.item.n"></badge></template>`},
	}
	mkItem := func(n string, i int) map[string]any { return map[string]any{"name": n, "n": i} }
	d := map[string]any{"items": []any{mkItem("ann", 1), mkItem("bob", 2), mkItem("cid", 3)}, "first": mkItem("ann", 1), "last": mkItem("cid", 3), "label": "OUTER-LABEL"}
	nOf := map[string]int{"ann": 1, "bob": 2, "cid": 3}
	for _, h := range hosts {
		for _, in := range inner {
			files := map[string]string{
				"p.vuego":                `<template include="host.vuego"><template #row="p">` + in.src + `</template></template><i>«after:{{ label }}|{{ n }}»</i>`,
				"host.vuego":             h.src,
				"components/Badge.vuego": `<b>«badge:{{ label }}/{{ n + 1 }}»</b>`,
				"components/Wrap.vuego":  `<u>«wrap:{{ label }}»<slot></slot></u>`,
			}
			res := renderPage(files, "p.vuego", d, vuego.WithComponents())
			pendingPages = append(pendingPages, pageCase("include-in-slot-content", files, map[string]string{"badge": "components/Badge.vuego", "wrap": "components/Wrap.vuego"}, "p.vuego", d, "host:"+h.name))
			var want []string
			for _, u := range h.uses {
				if in.name == "nested-twice" {
					want = append(want, "wrap:"+u)
				}
				// a bound number stays a number (n + 1 is arithmetic); an interpolated one is text, for which `+` is not defined here: only
				// the bound forms carry the sum
				if in.name == "interp" {
					want = append(want, "badge:"+u+"/*")
				} else {
					want = append(want, fmt.Sprintf("badge:%s/%d", u, nOf[u]+1))
				}
			}
			want = append(want, "after:OUTER-LABEL|")
			var got []string
			for _, m := range c05InstRe.FindAllStringSubmatch(res.Out, -1) {
				g := m[1]
				if in.name == "interp" && strings.HasPrefix(g, "badge:") {
					g = g[:strings.Index(g, "/")+1] + "*"
				}
				got = append(got, g)
			}
			name := fmt.Sprintf("include-in-slot-content %s %s", h.name, in.name)
			c := &Case{Name: name, Key: name, Input: map[string]any{"stream": "include-in-slot-content", "files": files}, Impl: res.canon(), Oracle: &Verdict{OK: true}, Tags: []string{"stream:include-in-slot-content", "host:" + h.name, "inner:" + in.name}}
			if in.name != "interp" && res.Err != "" || strings.Join(got, ",") != strings.Join(want, ",") && !(in.name == "interp" && res.Err != "") {
				c.Oracle = &Verdict{OK: false, Class: fmt.Sprintf("include-in-slot-content:%s:%s", h.name, in.name), Detail: fmt.Sprintf("markers %v, expected %v (%s); output %q", got, want, res.Err, res.Out)}
			}
			r.Add(c)
		}
	}
}
