package main

import (
	"bufio"
	"bytes"
	"encoding/json"
	"fmt"
	"io"
	"math/rand"
	"os"
	"os/exec"
	"reflect"
	"sort"
	"time"
)

// Verdict is the direct oracle's judgement of the implementation on one case.
type Verdict struct {
	OK     bool   `json:"ok"`
	Class  string `json:"class,omitempty"`  // narrow failure class (used to match known findings)
	Detail string `json:"detail,omitempty"` // human-readable
}

// Case is one generated or enumerated case.
type Case struct {
	Name   string         `json:"name"`
	Input  map[string]any `json:"input"`            // replayable description (also what is sent to the model driver when Op is set)
	Op     bool           `json:"-"`                // compare with the Lean model
	Impl   any            `json:"impl,omitempty"`   // canonical implementation output
	Model  any            `json:"model,omitempty"`  // canonical model output
	Oracle *Verdict       `json:"oracle,omitempty"` // nil = no oracle for this case
	Key    string         `json:"-"`                // distinctness key ("" = trivial)
	Tags   []string       `json:"-"`                // distribution counters
}

type Failure struct {
	Kind   string `json:"kind"` // "disagreement" | "oracle"
	Class  string `json:"class"`
	Detail string `json:"detail"`
	Case   *Case  `json:"case"`
}

type Result struct {
	Property           string         `json:"property"`
	Tier               string         `json:"tier"`
	Seed               int64          `json:"seed"`
	Evaluations        int            `json:"evaluations"`
	DistinctNontrivial int            `json:"distinct_nontrivial"`
	Rule               string         `json:"rule"`
	Samples            []any          `json:"samples"`
	ModelCompared      int            `json:"model_compared"`
	ModelAgreed        int            `json:"model_agreed"`
	OracleChecked      int            `json:"oracle_checked"`
	Failures           []Failure      `json:"failures"`
	FailureCounts      map[string]int `json:"failure_counts"`
	Distribution       map[string]int `json:"distribution"`
	Exhaustive         bool           `json:"exhaustive"`
	Notes              []string       `json:"notes,omitempty"`
	WallS              float64        `json:"wall_s"`
}

type Run struct {
	Prop     string
	Tier     string
	Seed     int64
	Rng      *rand.Rand
	Driver   string
	Res      *Result
	keys     map[string]bool
	pending  []*Case
	maxFails int
	start    time.Time
}

func NewRun(prop, tier string, seed int64, driver string) *Run {
	return &Run{Prop: prop, Tier: tier, Seed: seed, Rng: rand.New(rand.NewSource(seed)), Driver: driver,
		Res:  &Result{Property: prop, Tier: tier, Seed: seed, Distribution: map[string]int{}, FailureCounts: map[string]int{}},
		keys: map[string]bool{}, maxFails: maxFailsEnv(), start: time.Now()}
}

func (r *Run) Thorough() bool { return r.Tier == "thorough" }

// FailureTotal is the number of failed cases so far (all classes): streams whose damaged runs grow without bound stop early on it
func (r *Run) FailureTotal() int {
	n := 0
	for _, c := range r.Res.FailureCounts {
		n += c
	}
	return n
}

// Add registers a case whose Impl/Oracle have been computed; model comparison is deferred to Flush.
func (r *Run) Add(c *Case) {
	r.Res.Evaluations++
	if c.Key != "" && !r.keys[c.Key] {
		r.keys[c.Key] = true
		r.Res.DistinctNontrivial++
	}
	for _, t := range c.Tags {
		r.Res.Distribution[t]++
	}
	if len(r.Res.Samples) < 5 && (r.Res.Evaluations%97 == 1 || r.Res.Evaluations < 3) {
		r.Res.Samples = append(r.Res.Samples, map[string]any{"name": c.Name, "input": c.Input, "impl": c.Impl})
	}
	if c.Oracle != nil {
		r.Res.OracleChecked++
		if !c.Oracle.OK {
			r.fail(Failure{Kind: "oracle", Class: c.Oracle.Class, Detail: c.Oracle.Detail, Case: c})
		}
	}
	if c.Op {
		r.pending = append(r.pending, c)
		if len(r.pending) >= 20000 {
			r.Flush()
		}
	}
}

func (r *Run) fail(f Failure) {
	key := f.Kind + ":" + f.Class
	r.Res.FailureCounts[key]++
	if (r.Res.FailureCounts[key] <= 3 || os.Getenv("VERIF_ALLFAILS") != "") && len(r.Res.Failures) < r.maxFails {
		r.Res.Failures = append(r.Res.Failures, f)
	}
}

func canon(v any) any {
	b, err := json.Marshal(v)
	if err != nil {
		return fmt.Sprintf("unmarshalable: %v", err)
	}
	var out any
	json.Unmarshal(b, &out)
	return out
}

// Flush pipes pending cases to the Lean driver and compares outputs.
func (r *Run) Flush() {
	if len(r.pending) == 0 {
		return
	}
	pend := r.pending
	r.pending = nil
	var in bytes.Buffer
	for _, c := range pend {
		b, err := json.Marshal(c.Input)
		if err != nil {
			panic(err)
		}
		in.Write(b)
		in.WriteByte('\n')
	}
	cmd := exec.Command(r.Driver)
	cmd.Stdin = &in
	var out bytes.Buffer
	cmd.Stdout = &out
	cmd.Stderr = os.Stderr
	if err := cmd.Run(); err != nil {
		r.fail(Failure{Kind: "disagreement", Class: "driver-crash", Detail: err.Error(), Case: pend[0]})
	}
	sc := bufio.NewReaderSize(&out, 1<<20)
	for _, c := range pend {
		line, err := sc.ReadBytes('\n')
		if err != nil && err != io.EOF || len(line) == 0 {
			r.fail(Failure{Kind: "disagreement", Class: "driver-short-output", Detail: "no output line for case", Case: c})
			continue
		}
		var m any
		if err := json.Unmarshal(line, &m); err != nil {
			r.fail(Failure{Kind: "disagreement", Class: "driver-bad-json", Detail: string(line), Case: c})
			continue
		}
		r.Res.ModelCompared++
		c.Model = m
		ci := canon(c.Impl)
		if post, ok := postModel[r.Prop]; ok {
			m = post(c, m)
			c.Model = m
		}
		if reflect.DeepEqual(ci, m) {
			r.Res.ModelAgreed++
			c.Model = nil
		} else {
			ib, _ := json.Marshal(ci)
			mb, _ := json.Marshal(m)
			r.fail(Failure{Kind: "disagreement", Class: "model-vs-impl", Detail: "impl=" + string(ib) + " model=" + string(mb), Case: c})
		}
	}
}

// postModel lets a property canonicalise the model's answer before comparison.
var postModel = map[string]func(c *Case, m any) any{}

func (r *Run) Finish(out string) {
	r.Flush()
	r.Res.WallS = time.Since(r.start).Seconds()
	if r.Res.Samples == nil {
		r.Res.Samples = []any{}
	}
	sort.Slice(r.Res.Failures, func(i, j int) bool {
		return r.Res.Failures[i].Kind+r.Res.Failures[i].Class < r.Res.Failures[j].Kind+r.Res.Failures[j].Class
	})
	b, _ := json.MarshalIndent(r.Res, "", " ")
	if out == "" {
		os.Stdout.Write(b)
	} else {
		os.WriteFile(out, b, 0o644)
	}
}

type propFn func(r *Run, replay *Case)

var props = map[string]propFn{}

func maxFailsEnv() int {
	if os.Getenv("VERIF_ALLFAILS") != "" {
		return 2000
	}
	return 40
}
