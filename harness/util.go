package main

import (
	"encoding/json"
	mrand "math/rand"
	"reflect"
)

func jsonEq(a, b any) bool { return reflect.DeepEqual(canon(a), canon(b)) }

func jstr(v any) string {
	b, _ := json.Marshal(v)
	return string(b)
}

func remarshal(in any, out any) {
	b, _ := json.Marshal(in)
	json.Unmarshal(b, out)
}

func newRand(seed int64) *mrand.Rand { return mrand.New(mrand.NewSource(seed)) }
