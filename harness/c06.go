package main

// C06 — slots. Every slot position is wrapped in a marker element; supplied content prints instance- and iteration-specific
// values; the oracle compares the text found per position with the expectation written next to the case.
// Cases run in an isolated child process: the pinned code could hang or exhaust memory here.

import (
	"fmt"
	"regexp"
	"strings"
	"time"
)

func init() { props["C06"] = runC06 }

type c06Case struct {
	desc  string
	files map[string]string
	data  map[string]any
	want  string // expected text content with whitespace removed
}

// cases that use expression syntax outside the fragment the Lean stand-in for expr-lang covers (object literals): oracle only
var c06NoModel = map[string]bool{"object-literal-prop/var": true, "object-literal-prop/destructured": true}

const c06Comp = `<section><header><slot name="head"><em>FB-HEAD</em></slot></header><main><slot><em>FB-DEFAULT</em></slot></main></section>`

func c06Cases() []c06Case {
	d := map[string]any{"name": "NAME", "other": "OTHER", "items": []any{"a", "b", "c"}, "n": 7,
		"rows": []any{map[string]any{"t": "first", "note": "S"}, map[string]any{"t": "second"}, map[string]any{"t": "third", "note": "ok"}, map[string]any{"t": "fourth", "note": nil}}}
	cases := []c06Case{
		// content WAS supplied, and renders nothing for this data: the slot stays empty — the fallback is for slots nothing was supplied for
		{"supplied-renders-nothing-vif", map[string]string{"p.vuego": `<template include="c.vuego"><b v-if="nope">X</b></template>`, "c.vuego": `<div>[<slot>FB</slot>]</div>`}, d, "[]"},
		{"supplied-renders-nothing-vfor", map[string]string{"p.vuego": `<template include="c.vuego"><b v-for="q in none">X</b></template>`, "c.vuego": `<div>[<slot>FB</slot>]</div>`}, d, "[]"},
		{"supplied-renders-nothing-named", map[string]string{"p.vuego": `<template include="c.vuego"><template #head><b v-if="nope">X</b></template><i>D</i></template>`, "c.vuego": c06Comp}, d, "D"},
		{"supplied-renders-nothing-per-instance", map[string]string{"p.vuego": `<div v-for="it in items"><template include="c.vuego"><b v-if="it == 'b'">{{ it }}</b></template></div>`, "c.vuego": `<p>[<slot>FB</slot>]</p>`}, d, "[][b][]"},
		// every use of a scoped slot passes ITS OWN props: a prop that is absent or nil in a later use is absent there, whatever an earlier use passed
		{"scoped-props-per-use-var", map[string]string{"p.vuego": `<template include="c.vuego"><template #row="p">[{{ p.item }}|{{ p.note }}]</template></template>`,
			"c.vuego": `<ul><li v-for="r in rows"><slot name="row" :item="r.t" :note="r.note"></slot></li></ul>`}, d, "[first|S][second|][third|ok][fourth|]"},
		{"scoped-props-per-use-destructured", map[string]string{"p.vuego": `<template include="c.vuego"><template v-slot:row="{ item, note }">[{{ item }}|{{ note }}]</template></template>`,
			"c.vuego": `<ul><li v-for="r in rows"><slot name="row" :item="r.t" :note="r.note"></slot></li></ul>`}, d, "[first|S][second|][third|ok][fourth|]"},
		{"scoped-props-same-slot-twice", map[string]string{"p.vuego": `<template include="c.vuego"><template #row="p">[{{ p.item }}|{{ p.note }}]</template></template>`,
			"c.vuego": `<div><slot name="row" :item="'L'" :note="name"></slot><slot name="row" :item="'R'"></slot><slot name="row" :note="n"></slot></div>`}, d, "[L|NAME][R|][|7]"},
		{"scoped-props-two-instances", map[string]string{"p.vuego": `<template include="c.vuego" k="K1"><template #row="p">[{{ p.item }}|{{ p.note }}]</template></template><template include="c.vuego"><template #row="p">[{{ p.item }}|{{ p.note }}]</template></template>`,
			"c.vuego": `<div><slot name="row" :item="n" :note="k"></slot></div>`}, d, "[7|K1][7|]"},
		{"fallback-both", map[string]string{"p.vuego": `<template include="c.vuego"></template>`, "c.vuego": c06Comp}, d, "FB-HEADFB-DEFAULT"},
		{"default-plain-children-dynamic", map[string]string{"p.vuego": `<template include="c.vuego"><b>D-{{ name }}</b></template>`, "c.vuego": c06Comp}, d, "FB-HEADD-NAME"},
		{"default-plain-children-bound-attr", map[string]string{"p.vuego": `<template include="c.vuego"><b :title="name">x{{ n }}</b></template>`, "c.vuego": c06Comp}, d, "FB-HEADx7"},
		{"default-text-child", map[string]string{"p.vuego": `<template include="c.vuego">T-{{ name }}</template>`, "c.vuego": c06Comp}, d, "FB-HEADT-NAME"},
		{"named-vslot", map[string]string{"p.vuego": `<template include="c.vuego"><template v-slot:head>H-{{ name }}</template></template>`, "c.vuego": c06Comp}, d, "H-NAMEFB-DEFAULT"},
		{"named-hash", map[string]string{"p.vuego": `<template include="c.vuego"><template #head>H-{{ other }}</template><i>D-{{ name }}</i></template>`, "c.vuego": c06Comp}, d, "H-OTHERD-NAME"},
		{"default-vslot-template", map[string]string{"p.vuego": `<template include="c.vuego"><template v-slot>D-{{ name }}</template></template>`, "c.vuego": c06Comp}, d, "FB-HEADD-NAME"},
		{"scoped-named-var", map[string]string{"p.vuego": `<template include="c.vuego"><template v-slot:row="p">R-{{ p.item }}-{{ name }}</template></template>`,
			"c.vuego": `<ul><slot name="row" :item="n"><em>FB-ROW</em></slot></ul>`}, d, "R-7-NAME"},
		{"scoped-destructured", map[string]string{"p.vuego": `<template include="c.vuego"><template v-slot:row="{ item }">R-{{ item }}-{{ name }}</template></template>`,
			"c.vuego": `<ul><slot name="row" :item="n"><em>FB-ROW</em></slot></ul>`}, d, "R-7-NAME"},
		{"scoped-destructured-two", map[string]string{"p.vuego": `<template include="c.vuego"><template #row="{ item, idx }">R-{{ item }}-{{ idx }}</template></template>`,
			"c.vuego": `<ul><slot name="row" :item="n" :idx="name"><em>FB-ROW</em></slot></ul>`}, d, "R-7-NAME"},
		{"scoped-no-name", map[string]string{"p.vuego": `<template include="c.vuego"><template v-slot:row>R-{{ item }}</template></template>`,
			"c.vuego": `<ul><slot name="row" :item="n"></slot></ul>`}, d, "R-7"},
		{"slot-in-loop", map[string]string{"p.vuego": `<template include="c.vuego"><template v-slot:row="p">[{{ p.item }}]</template></template>`,
			"c.vuego": `<ul><li v-for="it in items"><slot name="row" :item="it"></slot></li></ul>`}, d, "[a][b][c]"},
		{"default-slot-in-loop", map[string]string{"p.vuego": `<template include="c.vuego"><b>D-{{ name }}</b></template>`,
			"c.vuego": `<ul><li v-for="it in items"><slot></slot></li></ul>`}, d, "D-NAMED-NAMED-NAME"},
		{"two-instances", map[string]string{"p.vuego": `<template include="c.vuego"><b>ONE</b></template><template include="c.vuego"><b>TWO</b></template><template include="c.vuego"></template>`, "c.vuego": `<div><slot>FB</slot></div>`}, d, "ONETWOFB"},
		{"two-instances-named", map[string]string{"p.vuego": `<template include="c.vuego"><template #head>H1</template></template><template include="c.vuego"><i>D2</i></template>`, "c.vuego": c06Comp}, d, "H1FB-DEFAULTFB-HEADD2"},
		{"same-slot-twice", map[string]string{"p.vuego": `<template include="c.vuego"><b>X-{{ name }}</b></template>`, "c.vuego": `<div><slot></slot><slot></slot></div>`}, d, "X-NAMEX-NAME"},
		{"same-slot-twice-apart", map[string]string{"p.vuego": `<template include="c.vuego"><b>X</b><i>Y</i></template>`, "c.vuego": `<div><p><slot></slot></p><q><slot></slot></q></div>`}, d, "XYXY"},
		{"nested-component-own-children", map[string]string{"p.vuego": `<template include="outer.vuego"><b>P-OUTER</b></template>`,
			"outer.vuego": `<div><slot></slot><template include="inner.vuego"><i>O-INNER</i></template></div>`, "inner.vuego": `<span><slot>FB-INNER</slot></span>`}, d, "P-OUTERO-INNER"},
		{"nested-component-fallback", map[string]string{"p.vuego": `<template include="outer.vuego"><b>P-OUTER</b></template>`,
			"outer.vuego": `<div><slot></slot><template include="inner.vuego"></template></div>`, "inner.vuego": `<span><slot>FB-INNER</slot></span>`}, d, "P-OUTERFB-INNER"},
		{"nested-in-slot-content", map[string]string{"p.vuego": `<template include="outer.vuego"><template include="inner.vuego"><i>VIA-{{ name }}</i></template></template>`,
			"outer.vuego": `<div><slot>FB-OUTER</slot></div>`, "inner.vuego": `<span><slot>FB-INNER</slot></span>`}, d, "VIA-NAME"},
		{"component-props-not-in-slot-content", map[string]string{"p.vuego": `<template include="c.vuego" name="PROP"><b>{{ other }}</b></template>`, "c.vuego": `<div>{{ name }}:<slot></slot></div>`}, d, "PROP:OTHER"},
		{"instances-in-loop", map[string]string{"p.vuego": `<div v-for="it in items"><template include="c.vuego"><b>I-{{ it }}</b></template></div>`, "c.vuego": `<p><slot>FB</slot></p>`}, d, "I-aI-bI-c"},
		{"vif-inside-supplied", map[string]string{"p.vuego": `<template include="c.vuego"><b v-if="n">YES</b><b v-else>NO</b></template>`, "c.vuego": `<p><slot>FB</slot></p>`}, d, "YES"},
	}
	cases = append(cases,
		// a <slot> inside supplied content belongs to the includer: at page level there is nothing to fill it, so its fallback shows (and the
		// render terminates: the pinned code recursed into the same content until the process died)
		c06Case{"slot-inside-supplied-content-top-level", map[string]string{"p.vuego": `<template include="c.vuego"><slot>PAGE-FB</slot></template>`, "c.vuego": `<div><slot>FB</slot></div>`}, d, "PAGE-FB"},
		c06Case{"slot-inside-supplied-content-empty", map[string]string{"p.vuego": `<template include="c.vuego"><b>x</b><slot></slot></template>`, "c.vuego": `<div><slot>FB</slot></div>`}, d, "x"},
		// slot forwarding: a wrapper hands the content it was given on to the component it wraps
		c06Case{"slot-forwarded-through-wrapper", map[string]string{"p.vuego": `<template include="wrap.vuego"><b>FROM-PAGE-{{ name }}</b></template>`,
			"wrap.vuego": `<section><template include="inner.vuego"><slot>WRAP-FB</slot></template></section>`, "inner.vuego": `<p><slot>INNER-FB</slot></p>`}, d, "FROM-PAGE-NAME"},
		c06Case{"slot-forwarded-wrapper-unfilled", map[string]string{"p.vuego": `<template include="wrap.vuego"></template>`,
			"wrap.vuego": `<section><template include="inner.vuego"><slot>WRAP-FB</slot></template></section>`, "inner.vuego": `<p><slot>INNER-FB</slot></p>`}, d, "WRAP-FB"},
		c06Case{"named-slot-forwarded", map[string]string{"p.vuego": `<template include="wrap.vuego"><template #head>H-{{ other }}</template></template>`,
			"wrap.vuego": `<section><template include="inner.vuego"><template #title><slot name="head">WRAP-HEAD-FB</slot></template></template></section>`, "inner.vuego": `<h1><slot name="title">T-FB</slot></h1>`}, d, "H-OTHER"},
		// supplied plain children that form a v-if / v-else-if / v-else chain or a v-for with its v-else: evaluated as the includer wrote them —
		// the chain is resolved among the supplied siblings, whichever branch the data selects
		c06Case{"supplied-chain-first-branch", map[string]string{"p.vuego": `<template include="c.vuego"><b v-if="n">ADMIN-{{ name }}</b><i v-else>GUEST-{{ name }}</i></template>`, "c.vuego": `<div>[<slot>FB</slot>]</div>`}, d, "[ADMIN-NAME]"},
		c06Case{"supplied-chain-else-branch", map[string]string{"p.vuego": `<template include="c.vuego"><b v-if="nope">ADMIN-{{ name }}</b><i v-else>GUEST-{{ name }}</i></template>`, "c.vuego": `<div>[<slot>FB</slot>]</div>`}, d, "[GUEST-NAME]"},
		c06Case{"supplied-chain-elseif-branch", map[string]string{"p.vuego": `<template include="c.vuego"><b v-if="nope">A</b><u v-else-if="n">B-{{ n }}</u><i v-else>C</i><s>tail</s></template>`, "c.vuego": `<div>[<slot>FB</slot>]</div>`}, d, "[B-7tail]"},
		c06Case{"supplied-for-else-empty", map[string]string{"p.vuego": `<template include="c.vuego"><span>M</span><em v-for="t in nothing">{{ t }}</em><u v-else>no tags</u></template>`, "c.vuego": `<div>[<slot>FB</slot>]</div>`}, d, "[Mnotags]"},
		c06Case{"supplied-chain-per-instance-in-loop", map[string]string{"p.vuego": `<ul><li v-for="row in rows"><template include="c.vuego"><b v-if="row.note">{{ row.t }}:{{ row.note }}</b><i v-else>{{ row.t }}:none</i></template></li></ul>`, "c.vuego": `<div>[<slot>FB</slot>]</div>`}, d, "[first:S][second:none][third:ok][fourth:none]"},
		// forwarding through TWO levels: the wrapper's own <slot> stands inside an include that is itself content supplied to another include
		c06Case{"slot-forwarded-through-nested-include", map[string]string{"p.vuego": `<template include="panel.vuego"><p>BODY-{{ name }}</p></template>`,
			"panel.vuego": `<section><template include="card.vuego"><template include="box.vuego"><slot>PANEL-FB</slot></template></template></section>`,
			"card.vuego": `<div class="card"><slot>CARD-FB</slot></div>`, "box.vuego": `<div class="box"><slot>BOX-FB</slot></div>`}, d, "BODY-NAME"},
		c06Case{"slot-forwarded-through-nested-include-unfilled", map[string]string{"p.vuego": `<template include="panel.vuego"></template>`,
			"panel.vuego": `<section><template include="card.vuego"><template include="box.vuego"><slot>PANEL-FB</slot></template></template></section>`,
			"card.vuego": `<div class="card"><slot>CARD-FB</slot></div>`, "box.vuego": `<div class="box"><slot>BOX-FB</slot></div>`}, d, "PANEL-FB"},
		c06Case{"named-slot-forwarded-through-nested-include", map[string]string{"p.vuego": `<template include="panel.vuego"><template #head>H-{{ other }}</template><i>D</i></template>`,
			"panel.vuego": `<section><template include="card.vuego"><u>c</u><template include="box.vuego"><template #title><slot name="head">PANEL-HEAD-FB</slot></template><slot>PANEL-FB</slot></template></template></section>`,
			"card.vuego": `<div class="card"><slot>CARD-FB</slot></div>`, "box.vuego": `<div class="box"><h1><slot name="title">T-FB</slot></h1><slot>BOX-FB</slot></div>`}, d, "cH-OTHERD"},
		c06Case{"slot-forwarded-through-three-includes", map[string]string{"p.vuego": `<template include="panel.vuego"><p>BODY</p></template>`,
			"panel.vuego": `<template include="card.vuego"><template include="box.vuego"><template include="card.vuego"><slot>PANEL-FB</slot></template></template></template>`,
			"card.vuego": `<div class="card"><slot>CARD-FB</slot></div>`, "box.vuego": `<div class="box"><slot>BOX-FB</slot></div>`}, d, "BODY"},
		// a <slot> that is itself a member of a v-if chain: it is a slot when the chain selects it (supplied content, else fallback) and nothing otherwise
		c06Case{"slot-vif-false-supplied", map[string]string{"p.vuego": `<template include="c.vuego"><b>S-{{ name }}</b></template>`, "c.vuego": `<div>[<slot v-if="nope">FB</slot>]</div>`}, d, "[]"},
		c06Case{"slot-vif-false-unsupplied", map[string]string{"p.vuego": `<template include="c.vuego"></template>`, "c.vuego": `<div>[<slot v-if="nope">FB</slot>]</div>`}, d, "[]"},
		c06Case{"slot-vif-true-supplied", map[string]string{"p.vuego": `<template include="c.vuego"><b>S-{{ name }}</b></template>`, "c.vuego": `<div>[<slot v-if="n">FB</slot><u v-else>E</u>]</div>`}, d, "[S-NAME]"},
		c06Case{"slot-vif-true-unsupplied", map[string]string{"p.vuego": `<template include="c.vuego"></template>`, "c.vuego": `<div>[<slot v-if="n">FB</slot><u v-else>E</u>]</div>`}, d, "[FB]"},
		c06Case{"slot-velse-supplied", map[string]string{"p.vuego": `<template include="c.vuego"><b>S-{{ name }}</b></template>`, "c.vuego": `<div>[<i v-if="nope">n</i><slot v-else>FB</slot>]</div>`}, d, "[S-NAME]"},
		c06Case{"slot-velse-unsupplied", map[string]string{"p.vuego": `<template include="c.vuego"></template>`, "c.vuego": `<div>[<i v-if="nope">n</i><slot v-else>FB</slot>]</div>`}, d, "[FB]"},
		c06Case{"slot-velse-not-reached", map[string]string{"p.vuego": `<template include="c.vuego"><b>S</b></template>`, "c.vuego": `<div>[<i v-if="n">y</i><slot v-else>FB</slot>]</div>`}, d, "[y]"},
		c06Case{"named-slot-velseif-supplied", map[string]string{"p.vuego": `<template include="c.vuego"><template #x>X-{{ name }}</template><b>D</b></template>`, "c.vuego": `<div>[<i v-if="nope">n</i><slot v-else-if="n" name="x">FBX</slot><u v-else>E</u>|<slot>FB</slot>]</div>`}, d, "[X-NAME|D]"},
		c06Case{"named-slot-velseif-false", map[string]string{"p.vuego": `<template include="c.vuego"><template #x>X-{{ name }}</template><b>D</b></template>`, "c.vuego": `<div>[<i v-if="nope">n</i><slot v-else-if="nope" name="x">FBX</slot><u v-else>E</u>|<slot>FB</slot>]</div>`}, d, "[E|D]"},
		// the DECLARED NAME of a scoped slot is bound at every use, also when the slot binds nothing (or only null values) at that use: it names the
		// empty props object and hides a same-named variable of the page or of an enclosing scoped slot
		c06Case{"declared-name-no-props-hides-page-var", map[string]string{"p.vuego": `<template include="c.vuego"><template #foot="row">({{ row.meta }})</template></template>`, "c.vuego": `<div><slot name="foot">FB</slot></div>`}, map[string]any{"row": map[string]any{"meta": "PAGE"}}, "()"},
		c06Case{"declared-name-null-props-in-loop", map[string]string{"p.vuego": `<template include="c.vuego"><template #cell="row">({{ row.meta }})</template></template>`, "c.vuego": `<ul><li v-for="r in rows"><slot name="cell" :meta="r.meta">FB</slot></li></ul>`},
			map[string]any{"row": map[string]any{"meta": "PAGE"}, "rows": []any{map[string]any{"meta": "m1"}, map[string]any{"meta": nil}, map[string]any{"meta": "m3"}}}, "(m1)()(m3)"},
		c06Case{"declared-name-nested-same-name", map[string]string{"p.vuego": `<template include="list.vuego"><template v-slot="sp"><template include="card.vuego">{{ sp.item }}<template #footer="sp">[footer:{{ sp.item }}]</template></template></template></template>`,
			"list.vuego": `<ul><li v-for="it in items"><slot :item="it">FB</slot></li></ul>`, "card.vuego": `<div><slot>FB</slot><footer><slot name="footer">FF</slot></footer></div>`}, map[string]any{"items": []any{"Apple", "Banana"}}, "Apple[footer:]Banana[footer:]"},
		c06Case{"scoped-slot-vif-in-loop", map[string]string{"p.vuego": `<template include="c.vuego"><template #row="p">({{ p.item }})</template></template>`, "c.vuego": `<ul><li v-for="it in items"><slot v-if="it != 'b'" name="row" :item="it">FB</slot><u v-else>skip</u></li></ul>`}, map[string]any{"items": []any{"a", "b", "c"}}, "(a)skip(c)"},
		c06Case{"slot-velse-after-empty-loop", map[string]string{"p.vuego": `<template include="c.vuego"><b>S</b></template>`, "c.vuego": `<div>[<i v-for="q in nothing">q</i><slot v-else>FB</slot>]</div>`}, d, "[S]"},
		// content a page hands to its layout, used by the layout itself: evaluated with the layout-visible data; a <slot> inside it finds nothing
		c06Case{"layout-direct-dynamic", map[string]string{"p.vuego": "---\nlayout: main\ntitle: T\n---\n<template #side><nav>side-{{ title }}-{{ name }}</nav></template>", "layouts/main.vuego": `<aside>[<slot name="side">FB</slot>]</aside>`}, d, "[side-T-NAME]"},
		c06Case{"layout-direct-self-slot", map[string]string{"p.vuego": "---\nlayout: main\n---\n<template #side>a<slot name=\"side\">inner-fb</slot>b</template>", "layouts/main.vuego": `<aside>[<slot name="side">FB</slot>]</aside>`}, d, "[ainner-fbb]"},
		c06Case{"layout-direct-unsupplied", map[string]string{"p.vuego": "---\nlayout: main\n---\n<template #other>x</template>", "layouts/main.vuego": `<aside>[<slot name="side">FB-{{ name }}</slot>]</aside>`}, d, "[FB-NAME]"},
		// nested instance with nothing supplied keeps its own fallback although the outer instance was given content for the same slot name
		c06Case{"nested-unsupplied-keeps-fallback", map[string]string{"p.vuego": `<template include="panel.vuego"><i>hello</i></template>`,
			"panel.vuego": `<div><template include="badge.vuego"></template><slot>PANEL-FB</slot></div>`, "badge.vuego": `<span><slot>new</slot></span>`}, d, "newhello"},
	)
	cases = append(cases, c06PropNames()...)
	cases = append(cases, c06UnicodeSpaceContent()...)
	return append(cases, c06Generated()...)
}

// c06Generated: every way of USING a slot (once, twice with different props, inside v-for, inside v-for and once more) x every shape of supplied
// content that reads the slot props (text, bound attribute, nested component with a bound / interpolated prop, <template v-html>, v-if, v-for,
// a nested component whose own slot content reads them) x the two ways of receiving props (named variable, destructuring).
// The expectation is computed: one rendering of the content per use, with that use's props.
func c06Generated() []c06Case {
	d := map[string]any{"name": "NAME", "items": []any{"a", "b", "c"}, "ks": []any{1, 2}, "n": 7}
	type use struct {
		comp string   // component body with <slot name="row" …> uses
		vals []string // the :item value of every use, in output order
	}
	uses := []use{
		{`<ul><slot name="row" :item="n"></slot></ul>`, []string{"7"}},
		{`<div><p><slot name="row" :item="'L'"></slot></p><q><slot name="row" :item="'R'"></slot></q></div>`, []string{"L", "R"}},
		{`<ul><li v-for="it in items"><slot name="row" :item="it"></slot></li></ul>`, []string{"a", "b", "c"}},
		{`<ul><li v-for="it in items"><slot name="row" :item="it"></slot></li><li><slot name="row" :item="name"></slot></li></ul>`, []string{"a", "b", "c", "NAME"}},
		// the <slot> element itself carries the v-for: one use per item
		{`<ul><slot v-for="it in items" name="row" :item="it"></slot></ul>`, []string{"a", "b", "c"}},
		{`<ul><slot v-for="(i, it) in items" name="row" :item="it"></slot><slot name="row" :item="n"></slot></ul>`, []string{"a", "b", "c", "7"}},
	}
	type content struct {
		name string
		src  func(item string) string // item = the expression naming the slot prop ("p.item" or "item")
		text func(v string) string
	}
	contents := []content{
		{"text", func(e string) string { return `[{{ ` + e + ` }}]` }, func(v string) string { return "[" + v + "]" }},
		{"bound-attr", func(e string) string { return `<b :title="` + e + `">({{ ` + e + ` }})</b>` }, func(v string) string { return "(" + v + ")" }},
		{"nested-bound-prop", func(e string) string { return `<template include="leaf.vuego" :label="` + e + `"></template>` }, func(v string) string { return "/" + v + "/" }},
		{"nested-interp-prop", func(e string) string { return `<template include="leaf.vuego" label="{{ ` + e + ` }}"></template>` }, func(v string) string { return "/" + v + "/" }},
		{"template-vhtml", func(e string) string { return `<u><template v-html="` + e + `"></template></u>` }, func(v string) string { return v }},
		{"vif", func(e string) string { return `<b v-if="` + e + `">Y{{ ` + e + ` }}</b><b v-else>N</b>` }, func(v string) string { return "Y" + v }},
		{"vfor", func(e string) string { return `<u v-for="k in ks">{{ ` + e + ` }}{{ k }}</u>` }, func(v string) string { return v + "1" + v + "2" }},
		{"nested-own-slot", func(e string) string { return `<template include="wrap.vuego"><s>{{ ` + e + ` }}</s></template>` }, func(v string) string { return "{" + v + "}" }},
	}
	var out []c06Case
	for ui, u := range uses {
		for _, ct := range contents {
			for _, recv := range []struct{ attr, expr string }{{`v-slot:row="p"`, "p.item"}, {`#row="{ item }"`, "item"}} {
				want := ""
				for _, v := range u.vals {
					want += ct.text(v)
				}
				// the same content handed over by a PAGE to its LAYOUT (a named slot template at the top of the page) and used by a component
				// the layout includes without supplying that slot itself: the component instance inherits it — same names, same props per use
				out = append(out, c06Case{
					desc: fmt.Sprintf("gen-via-layout use%d/%s/%s", ui, ct.name, recv.expr),
					files: map[string]string{
						"p.vuego":            "---\nlayout: main\n---\n<template " + recv.attr + ">" + ct.src(recv.expr) + "</template>\n",
						"layouts/main.vuego": `<article><template include="c.vuego"></template></article>`,
						"c.vuego":            u.comp,
						"leaf.vuego":         `<i>/{{ label }}/</i>`,
						"wrap.vuego":         `<q>{<slot></slot>}</q>`,
					},
					data: d, want: want,
				})
				// ... and by a page that names NO layout and gets the default one (layouts/base.vuego), with and without a front-matter block
				for di, fm := range []string{"", "---\ntitle: t\n---\n"} {
					if (ui+di)%2 == 0 {
						out = append(out, c06Case{
							desc: fmt.Sprintf("gen-via-default-layout%d use%d/%s/%s", di, ui, ct.name, recv.expr),
							files: map[string]string{
								"p.vuego":            fm + "<template " + recv.attr + ">" + ct.src(recv.expr) + "</template>\n",
								"layouts/base.vuego": `<article><template include="c.vuego"></template></article>`,
								"c.vuego":            u.comp,
								"leaf.vuego":         `<i>/{{ label }}/</i>`,
								"wrap.vuego":         `<q>{<slot></slot>}</q>`,
							},
							data: d, want: want,
						})
					}
				}
				// ... and used by the LAYOUT ITSELF: the `<slot>` elements stand in the layout file, not in a component it includes
				out = append(out, c06Case{
					desc: fmt.Sprintf("gen-layout-direct use%d/%s/%s", ui, ct.name, recv.expr),
					files: map[string]string{
						"p.vuego":            "---\nlayout: main\n---\n<template " + recv.attr + ">" + ct.src(recv.expr) + "</template>\n",
						"layouts/main.vuego": `<article>` + u.comp + `</article>`,
						"leaf.vuego":         `<i>/{{ label }}/</i>`,
						"wrap.vuego":         `<q>{<slot></slot>}</q>`,
					},
					data: d, want: want,
				})
				out = append(out, c06Case{
					desc: fmt.Sprintf("gen use%d/%s/%s", ui, ct.name, recv.expr),
					files: map[string]string{
						"p.vuego":    `<template include="c.vuego"><template ` + recv.attr + `>` + ct.src(recv.expr) + `</template></template>`,
						"c.vuego":    u.comp,
						"leaf.vuego": `<i>/{{ label }}/</i>`,
						"wrap.vuego": `<q>{<slot></slot>}</q>`,
					},
					data: d, want: want,
				})
			}
		}
	}
	return out
}

var c06TagRe = regexp.MustCompile(`<[^>]*>`)
var c06WsRe = regexp.MustCompile(`\s+`)

func c06Eval(cs c06Case) *Case {
	c := &Case{Name: cs.desc, Input: map[string]any{"desc": cs.desc, "files": cs.files}, Key: cs.desc, Tags: []string{"c06:" + cs.desc}}
	res := renderPage(cs.files, "p.vuego", cs.data)
	c.Impl = res.canon()
	v := &Verdict{OK: true}
	c.Oracle = v
	if res.Timeout || res.Panic != "" || res.Err != "" {
		v.OK, v.Class, v.Detail = false, "render-failed:"+cs.desc, fmt.Sprintf("%+v", res)
		return c
	}
	text := c06WsRe.ReplaceAllString(c06TagRe.ReplaceAllString(res.Out, ""), "")
	if text != cs.want {
		v.OK, v.Class = false, "slot-content:"+cs.desc
		v.Detail = fmt.Sprintf("text %q, expected %q; output %q", text, cs.want, res.Out)
	}
	return c
}

func runC06(r *Run, replay *Case) {
	if replay != nil && replay.Input["stream"] == "history" {
		c06History(r)
		return
	}
	if replay != nil {
		for _, cs := range c06Cases() {
			if cs.desc == replay.Input["desc"] {
				r.Add(c06Eval(cs))
			}
		}
		return
	}
	r.Res.Rule = "components with default/named slots, fallback, scoped props (named variable, destructured, none), supplied in v-slot:, # and plain-children form with dynamic content; " +
		"1-3 instances side by side, slot inside v-for, nested components, the same slot used twice; each case runs in an isolated child process; non-trivial = every case"
	for _, cs := range c06Cases() {
		if c06NoModel[cs.desc] {
			// no correspondence case
		} else if _, viaLayout := cs.files["layouts/main.vuego"]; !viaLayout {
			r.Add(pageCase("slots:"+cs.desc, cs.files, nil, "p.vuego", cs.data))
		} else {
			r.Add(layoutPageCase("slots:"+cs.desc, cs.files, "p.vuego", cs.data))
		}
		sub, verdict := runIsolated("C06", map[string]any{"desc": cs.desc}, cs.desc, 20*time.Second)
		c := &Case{Name: cs.desc, Input: map[string]any{"desc": cs.desc, "files": cs.files}, Key: cs.desc, Tags: []string{"isolated"}}
		if sub != nil {
			c.Impl = sub.Impl
		}
		if !verdict.OK && (verdict.Class == "hang" || verdict.Class == "crash") {
			verdict.Class = verdict.Class + ":" + cs.desc
		}
		c.Oracle = verdict
		r.Add(c)
	}
	c06History(r)
	r.Res.Exhaustive = true
	_ = strings.TrimSpace
}
