module verifharness

go 1.25.5

require (
	github.com/titpetric/vuego v0.0.0
	github.com/yuin/goldmark v1.7.16
	golang.org/x/net v0.51.0
	gopkg.in/yaml.v3 v3.0.1
)

require (
	github.com/davecgh/go-spew v1.1.2-0.20180830191138-d8f796af33cc // indirect
	github.com/expr-lang/expr v1.17.8 // indirect
	github.com/oklog/ulid/v2 v2.1.1 // indirect
	github.com/pmezard/go-difflib v1.0.1-0.20181226105442-5d4384ee4fb2 // indirect
	github.com/stretchr/testify v1.11.1 // indirect
	github.com/titpetric/lessgo v0.1.0 // indirect
	github.com/titpetric/platform v0.2.3 // indirect
)

replace github.com/titpetric/vuego => /repo
