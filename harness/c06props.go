//go:build verif

package main

import "fmt"

// c06PropNames: every bound attribute of a <slot> is a prop of that slot use - whatever the prop is called. Prop names that mean
// something on OTHER tags (name, slot, is, key, include, required ...) are plain props here: the unnamed slot stays the unnamed slot,
// a statically named slot keeps its static name, and the content receives the prop under that name.
func c06PropNames() []c06Case {
	d := map[string]any{"users": []any{map[string]any{"n": "Ann", "e": "ann@x"}, map[string]any{"n": "Bob", "e": "bob@x"}}, "hd": map[string]any{"n": "head", "e": "E"}}
	var out []c06Case
	for _, pn := range []string{"name", "slot", "is", "key", "include", "required", "title", "id", "item"} {
		for _, recv := range []struct{ name, open, close, expr string }{
			{"destructured", `<template v-slot="{ ` + pn + `, email }">`, `</template>`, pn},
			{"var-default", `<template #default="p">`, `</template>`, "p." + pn},
			{"var-vslot", `<template v-slot:default="p">`, `</template>`, "p." + pn},
		} {
			em := "email"
			if recv.expr != pn {
				em = "p.email"
			}
			content := recv.open + `[{{ ` + recv.expr + ` }}|{{ ` + em + ` }}]` + recv.close
			// the unnamed slot, in a loop and once more with a value that is the name of ANOTHER slot of the same component ("head")
			out = append(out, c06Case{
				desc: fmt.Sprintf("prop-named %s/%s/unnamed", pn, recv.name),
				files: map[string]string{
					"p.vuego": `<template include="c.vuego">` + content + `<template #head>H</template></template>`,
					"c.vuego": `<div><h1><slot name="head">FB-HEAD</slot></h1><p v-for="u in users"><slot :` + pn + `="u.n" :email="u.e">FB</slot></p><q><slot :` + pn + `="hd.n" :email="hd.e">FB2</slot></q></div>`,
				},
				data: d, want: "H[Ann|ann@x][Bob|bob@x][head|E]",
			})
		}
		// a statically named slot that also binds the prop: the static name selects the slot
		out = append(out, c06Case{
			desc: fmt.Sprintf("prop-named %s/named-row", pn),
			files: map[string]string{
				"p.vuego": `<template include="c.vuego"><template #row="p">[{{ p.` + pn + ` }}]</template><template #head>H</template></template>`,
				"c.vuego": `<div><h1><slot name="head">FB-HEAD</slot></h1><p v-for="u in users"><slot name="row" :` + pn + `="u.n">FB</slot></p><q><slot name="row" :` + pn + `="hd.n">FB2</slot></q></div>`,
			},
			data: d, want: "H[Ann][Bob][head]",
		})
	}
	return out
}
