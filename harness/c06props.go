//go:build verif

package main

import (
	"bytes"
	"context"
	"fmt"
	"testing/fstest"
	"time"

	"github.com/titpetric/vuego"
)

// c06PropNames: every bound attribute of a <slot> is a prop of that slot use - whatever the prop is called. Prop names that mean
// something on OTHER tags (name, slot, is, key, include, required ...) are plain props here: the unnamed slot stays the unnamed slot,
// a statically named slot keeps its static name, and the content receives the prop under that name.
func c06PropNames() []c06Case {
	d := map[string]any{"users": []any{map[string]any{"n": "Ann", "e": "ann@x"}, map[string]any{"n": "Bob", "e": "bob@x"}}, "hd": map[string]any{"n": "head", "e": "E"}}
	var out []c06Case
	for _, pn := range []string{"name", "slot", "is", "key", "include", "required", "title", "id", "item"} {
		for _, recv := range []struct{ name, open, close, expr string }{
			{"destructured", `<template v-slot="{ ` + pn + `, email }">`, `</template>`, pn},
			{"var-default", `<template #default="p">`, `</template>`, "p." + pn},
			{"var-vslot", `<template v-slot:default="p">`, `</template>`, "p." + pn},
		} {
			em := "email"
			if recv.expr != pn {
				em = "p.email"
			}
			content := recv.open + `[{{ ` + recv.expr + ` }}|{{ ` + em + ` }}]` + recv.close
			// the unnamed slot, in a loop and once more with a value that is the name of ANOTHER slot of the same component ("head")
			out = append(out, c06Case{
				desc: fmt.Sprintf("prop-named %s/%s/unnamed", pn, recv.name),
				files: map[string]string{
					"p.vuego": `<template include="c.vuego">` + content + `<template #head>H</template></template>`,
					"c.vuego": `<div><h1><slot name="head">FB-HEAD</slot></h1><p v-for="u in users"><slot :` + pn + `="u.n" :email="u.e">FB</slot></p><q><slot :` + pn + `="hd.n" :email="hd.e">FB2</slot></q></div>`,
				},
				data: d, want: "H[Ann|ann@x][Bob|bob@x][head|E]",
			})
		}
		// a statically named slot that also binds the prop: the static name selects the slot
		out = append(out, c06Case{
			desc: fmt.Sprintf("prop-named %s/named-row", pn),
			files: map[string]string{
				"p.vuego": `<template include="c.vuego"><template #row="p">[{{ p.` + pn + ` }}]</template><template #head>H</template></template>`,
				"c.vuego": `<div><h1><slot name="head">FB-HEAD</slot></h1><p v-for="u in users"><slot name="row" :` + pn + `="u.n">FB</slot></p><q><slot name="row" :` + pn + `="hd.n">FB2</slot></q></div>`,
			},
			data: d, want: "H[Ann][Bob][head]",
		})
	}
	return out
}

// c06History: what one render supplied for a slot is supplied for THAT render only. On one engine (and on a second engine of the same
// process) a page hands a named slot to its layout, which passes it on to a component included without any content of its own; afterwards
// the same component is included - again without content - by pages that supply nothing: it renders its fallback, exactly as on a fresh
// engine, whatever was rendered before.
func c06History(r *Run) {
	for _, inc := range []struct{ name, tag string }{
		{"childless", `<template include="box.vuego"></template>`}, {"newline-child", "<template include=\"box.vuego\">\n</template>"},
		{"shorthand", `<note-box></note-box>`}, {"with-prop", `<template include="box.vuego" k="v"></template>`},
	} {
		files := map[string]string{
			"a.vuego":                 "---\nlayout: main\n---\n<template #note><b>note of {{ who }}</b></template><p>body {{ who }}</p>",
			"layouts/main.vuego":      `<div>` + inc.tag + `<i>{{ who }}</i></div>`,
			"box.vuego":               `<aside><slot name="note"><em>default note</em></slot></aside>`,
			"components/NoteBox.vuego": `<aside><slot name="note"><em>default note</em></slot></aside>`,
			"b.vuego":                 `<section>` + inc.tag + `</section>`,
			"c.vuego":                 "---\nlayout: main\n---\n<p>page without slots {{ who }}</p>",
		}
		mfs := fstest.MapFS{}
		for n, c := range files {
			mfs[n] = &fstest.MapFile{Data: []byte(c), ModTime: time.Unix(1700000000, 0)}
		}
		render := func(t vuego.Template, page, who string) string {
			var buf bytes.Buffer
			if err := t.Load(page).Fill(map[string]any{"who": who}).Render(context.Background(), &buf); err != nil {
				return "ERROR: " + err.Error()
			}
			return c06WsRe.ReplaceAllString(c06TagRe.ReplaceAllString(buf.String(), ""), "")
		}
		one := vuego.NewFS(mfs, vuego.WithComponents())
		steps := []struct{ page, who, want string }{
			{"b.vuego", "x", "defaultnote"}, {"a.vuego", "A", "noteofAA"}, {"b.vuego", "x", "defaultnote"}, {"c.vuego", "C", "defaultnoteC"},
			{"a.vuego", "B", "noteofBB"}, {"b.vuego", "y", "defaultnote"}, {"c.vuego", "D", "defaultnoteD"},
		}
		for i, st := range steps {
			got := render(one, st.page, st.who)
			fresh := render(vuego.NewFS(mfs, vuego.WithComponents()), st.page, st.who) // another engine of the same process
			name := fmt.Sprintf("slot history %s step %d (%s)", inc.name, i, st.page)
			c := &Case{Name: name, Key: name, Input: map[string]any{"stream": "history", "include": inc.name, "step": i}, Impl: map[string]any{"out": got, "fresh": fresh}, Oracle: &Verdict{OK: true}, Tags: []string{"stream:history", "include:" + inc.name}}
			if got != st.want || fresh != st.want {
				c.Oracle = &Verdict{OK: false, Class: "slot-content-outlives-its-render:" + inc.name, Detail: fmt.Sprintf("step %d renders %s: the engine in use gives %q, a new engine %q, expected %q (the steps before: %v)", i, st.page, got, fresh, st.want, steps[:i])}
			}
			r.Add(c)
		}
	}
}

// c06UnicodeSpaceContent: content supplied for a slot is content whatever characters it is made of - a text node of no-break / em /
// ideographic spaces only, alone or between two elements, is supplied content (it is not layout: HTML does not collapse it), so the slot
// shows it and not its fallback.
func c06UnicodeSpaceContent() []c06Case {
	var out []c06Case
	// a slot prop bound to an OBJECT LITERAL reaches the content as an object: its fields are read there, under the declared name and
	// destructured
	dd := map[string]any{"items": []any{"a", "b", "c"}, "n": 7}
	out = append(out,
		c06Case{desc: "object-literal-prop/var", files: map[string]string{"p.vuego": `<template include="c.vuego"><template #row="p">[{{ p.cell.label }}|{{ p.cell.pos }}|{{ p.plain }}]</template></template>`,
			"c.vuego": `<ul><li v-for="(i, it) in items"><slot name="row" :cell="{ pos: i, label: it }" :plain="it"></slot></li></ul>`}, data: dd, want: "[a|0|a][b|1|b][c|2|c]"},
		c06Case{desc: "object-literal-prop/destructured", files: map[string]string{"p.vuego": `<template include="c.vuego"><template v-slot:row="{ cell }">[{{ cell.label }}|{{ cell.n }}]</template></template>`,
			"c.vuego": `<ul><slot name="row" :cell="{ n: n, label: 'L' }"></slot></ul>`}, data: dd, want: "[L|7]"},
	)
	for _, sp := range []struct{ name, src, text string }{{"nbsp", "&nbsp;", " "}, {"emsp", "&emsp;", " "}, {"ideographic", "　", "　"}, {"nbsp-blank-nbsp", "&nbsp; &nbsp;", "  "}} {
		out = append(out,
			c06Case{desc: "unicode-space-content " + sp.name + "/alone", files: map[string]string{"p.vuego": `<template include="c.vuego">` + sp.src + `</template>`, "c.vuego": `<div>[<slot>FB</slot>]</div>`}, data: map[string]any{}, want: "[" + sp.text + "]"},
			c06Case{desc: "unicode-space-content " + sp.name + "/between", files: map[string]string{"p.vuego": `<template include="c.vuego"><b>a</b>` + sp.src + `<b>b</b></template>`, "c.vuego": `<div>[<slot>FB</slot>]</div>`}, data: map[string]any{}, want: "[a" + sp.text + "b]"},
			c06Case{desc: "unicode-space-content " + sp.name + "/named", files: map[string]string{"p.vuego": `<template include="c.vuego"><template #head>` + sp.src + `</template></template>`, "c.vuego": `<div>[<slot name="head">FB</slot>|<slot>D</slot>]</div>`}, data: map[string]any{}, want: "[" + sp.text + "|D]"},
		)
	}
	_ = 0
	// ASCII white space alone is layout: nothing was supplied, the fallback shows
	out = append(out, c06Case{desc: "unicode-space-content ascii-blank/alone", files: map[string]string{"p.vuego": "<template include=\"c.vuego\"> \n\t </template>", "c.vuego": `<div>[<slot>FB</slot>]</div>`}, data: map[string]any{}, want: "[FB]"})
	return out
}
