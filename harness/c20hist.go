//go:build verif

package main

import (
	"bytes"
	"fmt"

	"github.com/titpetric/vuego/markdown"
	"strings"
	"sync"
)

// c20History: SEVERAL documents through ONE renderer value. What a document renders to is decided by the document alone: the same document
// through a fresh renderer is the reference. The documents use the parser state a renderer could keep between calls - link reference
// definitions (defined, redefined with another destination, used without a definition), footnote-like brackets, headings (auto ids),
// tables, raw HTML - and generated documents in between.
func c20History(r *Run) {
	fixed := []string{
		"[home]: /first \"First\"\n\nGo [home] or [Home][].\n",
		"[home]: /second \"Second\"\n\nGo [home] or [Home][] or ![pic][home].\n",
		"Brackets [home] and [Home][] and [text][home] are just text here.\n",
		"# Title\n\n## Title\n\n[a]: /a\n\n[a] [b]\n",
		"# Title\n\n[b]: /b 'B'\n\n[a] [b] ![i][b]\n",
		"| h |\n|---|\n| [a] |\n\n<div>[b]</div>\n\n[c]: <c>\n",
		"[c] and [C] and [a][] stay text; [d]\n\n[d]: /d\n",
	}
	g := &mdGen{r: r.Rng}
	rounds := 6
	if r.Thorough() {
		rounds = 60
	}
	for round := 0; round < rounds; round++ {
		long := markdown.New(nil)
		var docs []string
		for i, f := range fixed {
			docs = append(docs, f)
			if (i+round)%2 == 0 {
				docs = append(docs, g.doc())
			}
		}
		// another order every round
		for i := len(docs) - 1; i > 0; i-- {
			j := r.Rng.Intn(i + 1)
			docs[i], docs[j] = docs[j], docs[i]
		}
		for i, d := range docs {
			render := func(m *markdown.Markdown) (out string, err error) {
				defer func() {
					if e := recover(); e != nil {
						err = fmt.Errorf("panic: %v", e)
					}
				}()
				var b bytes.Buffer
				err = m.RenderBytes(&b, []byte(d))
				return b.String(), err
			}
			got, gerr := render(long)
			want, werr := render(markdown.New(nil))
			name := fmt.Sprintf("history round %d document %d", round, i)
			c := &Case{Name: name, Key: fmt.Sprintf("hist|%d|%d|%s", round, i, d), Input: map[string]any{"stream": "history", "docs": docs[:i+1]}, Impl: map[string]any{"out": got, "err": gerr != nil}, Oracle: &Verdict{OK: true},
				Tags: []string{"stream:history"}}
			if got != want || (gerr != nil) != (werr != nil) {
				c.Oracle = &Verdict{OK: false, Class: "document-depends-on-earlier-documents", Detail: fmt.Sprintf("document %q rendered after %d other document(s) by the same renderer gives %q (%v); a fresh renderer gives %q (%v)", d, i, got, gerr, want, werr)}
			}
			r.Add(c)
		}
	}
}

func c20HistoryReplay(r *Run, docs []string) {
	long := markdown.New(nil)
	for i, d := range docs {
		var b, f bytes.Buffer
		gerr := long.RenderBytes(&b, []byte(d))
		werr := markdown.New(nil).RenderBytes(&f, []byte(d))
		if i == len(docs)-1 {
			c := &Case{Name: "history replay", Key: "hist-replay", Input: map[string]any{"stream": "history", "docs": docs}, Impl: map[string]any{"out": b.String()}, Oracle: &Verdict{OK: true}}
			if b.String() != f.String() || (gerr != nil) != (werr != nil) {
				c.Oracle = &Verdict{OK: false, Class: "document-depends-on-earlier-documents", Detail: fmt.Sprintf("%q after %d documents: %q, fresh renderer %q", d, i, b.String(), f.String())}
			}
			r.Add(c)
		}
	}
}

// c20Concurrent: one renderer used by several goroutines at once (a server holding one renderer): every document comes out as it does
// alone - no text, list item, destination or title of a document rendered at the same time shows in it. Each goroutine renders its own
// documents (recognisable by their number) over and over; every result is compared with the same document rendered alone.
func c20Concurrent(r *Run) {
	rounds := 40
	if r.Thorough() {
		rounds = 400
	}
	const n = 8
	docs := make([]string, n)
	alone := make([]string, n)
	for i := range docs {
		docs[i] = fmt.Sprintf("# Title %02d\n\npara *em%02d* **strong%02d** [link%02d](http://x/%02d \"t%02d\") `code%02d`\n\n3. first-doc%02d\n4. second-doc%02d\n\n> quote%02d\n\n| h%02d |\n|---|\n| c%02d |\n", i, i, i, i, i, i, i, i, i, i, i, i)
		var b bytes.Buffer
		markdown.New(nil).RenderBytes(&b, []byte(docs[i]))
		alone[i] = b.String()
	}
	shared := markdown.New(nil)
	var mu sync.Mutex
	var bad []string
	var wg sync.WaitGroup
	for g := 0; g < n; g++ {
		wg.Add(1)
		go func(g int) {
			defer wg.Done()
			for k := 0; k < rounds; k++ {
				var b bytes.Buffer
				var err error
				func() {
					defer func() {
						if e := recover(); e != nil {
							err = fmt.Errorf("panic: %v", e)
						}
					}()
					err = shared.RenderBytes(&b, []byte(docs[g]))
				}()
				if err != nil || b.String() != alone[g] {
					mu.Lock()
					if len(bad) < 5 {
						bad = append(bad, fmt.Sprintf("document %d, round %d, rendered while %d other goroutines render through the same renderer: %q (%v); alone: %q", g, k, n-1, b.String(), err, alone[g]))
					}
					mu.Unlock()
				}
			}
		}(g)
	}
	wg.Wait()
	c := &Case{Name: "one renderer, concurrent documents", Key: "concurrent", Input: map[string]any{"stream": "concurrent", "goroutines": n, "rounds": rounds}, Impl: map[string]any{"mismatches": len(bad)}, Oracle: &Verdict{OK: true}, Tags: []string{"stream:concurrent"}}
	if len(bad) > 0 {
		c.Oracle = &Verdict{OK: false, Class: "document-depends-on-concurrent-documents", Detail: strings.Join(bad, "\n")}
	}
	r.Add(c)
}
