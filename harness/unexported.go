package main

import (
	"reflect"
	"unsafe"
)

// setUnexported writes an unexported struct field (test data construction only).
func setUnexported(fv reflect.Value, val any) {
	if val == nil || !fv.CanAddr() {
		return
	}
	p := reflect.NewAt(fv.Type(), unsafe.Pointer(fv.UnsafeAddr())).Elem()
	vv := reflect.ValueOf(val)
	if vv.Type().ConvertibleTo(fv.Type()) {
		p.Set(vv.Convert(fv.Type()))
	}
}
