package main

// C20 model correspondence: goldmark's AST (the trusted parser's output) is exported as JSON, rendered by the Lean glue model
// (Vuego/Model/Md.lean) through the Lean evaluator on the real template files, and the bytes are compared with markdown.RenderBytes.
// The exporter mirrors nothing of vuego's rendering: it only names node kinds and copies the leaf strings the glue obtains from
// goldmark (through the verif hooks, so the leaf helpers themselves stay tied to the source).

import (
	"bytes"
	"fmt"
	"io/fs"
	"sort"
	"testing/fstest"

	vuego "github.com/titpetric/vuego"
	"github.com/titpetric/vuego/markdown"
	"github.com/yuin/goldmark/ast"
	east "github.com/yuin/goldmark/extension/ast"
)

func c20Inlines(n ast.Node, src []byte) []any {
	out := []any{}
	for c := n.FirstChild(); c != nil; c = c.NextSibling() {
		out = append(out, c20Inline(c, src))
	}
	return out
}

func c20Inline(node ast.Node, src []byte) map[string]any {
	switch n := node.(type) {
	case *ast.Text:
		return map[string]any{"k": "text", "escaped": markdown.VerifWriteText(n.Segment.Value(src), n.IsRaw()), "hard": n.HardLineBreak(), "soft": n.SoftLineBreak() && !n.HardLineBreak()}
	case *ast.String:
		return map[string]any{"k": "str", "v": string(n.Value)}
	case *ast.CodeSpan:
		return map[string]any{"k": "codespan", "content": markdown.VerifCodeSpanContent(n, src)}
	case *ast.Emphasis:
		return map[string]any{"k": "emphasis", "level": n.Level, "kids": c20Inlines(n, src)}
	case *ast.Link:
		return map[string]any{"k": "link", "href": string(n.Destination), "title": string(n.Title), "kids": c20Inlines(n, src)}
	case *ast.Image:
		return map[string]any{"k": "image", "src": string(n.Destination), "alt": markdown.VerifInlineText(n, src), "title": string(n.Title)}
	case *ast.AutoLink:
		url := string(n.URL(src))
		href := url
		if n.AutoLinkType == ast.AutoLinkEmail {
			href = "mailto:" + url
		}
		return map[string]any{"k": "autolink", "href": href, "label": string(n.Label(src))}
	case *ast.RawHTML:
		var buf bytes.Buffer
		for i := 0; i < n.Segments.Len(); i++ {
			seg := n.Segments.At(i)
			buf.Write(seg.Value(src))
		}
		return map[string]any{"k": "rawhtml", "content": buf.String()}
	case *east.Strikethrough:
		return map[string]any{"k": "strike", "kids": c20Inlines(n, src)}
	case *east.TaskCheckBox:
		return map[string]any{"k": "checkbox", "checked": n.IsChecked}
	}
	return map[string]any{"k": "other", "kids": c20Inlines(node, src)}
}

func c20Blocks(n ast.Node, src []byte) []any {
	out := []any{}
	for c := n.FirstChild(); c != nil; c = c.NextSibling() {
		out = append(out, c20Block(c, src))
	}
	return out
}

func c20Cells(row ast.Node, src []byte) []any {
	out := []any{}
	for cell := row.FirstChild(); cell != nil; cell = cell.NextSibling() {
		if tc, ok := cell.(*east.TableCell); ok {
			out = append(out, map[string]any{"align": markdown.VerifAlignString(tc.Alignment), "kids": c20Inlines(tc, src)})
		}
	}
	return out
}

func c20Block(node ast.Node, src []byte) map[string]any {
	switch n := node.(type) {
	case *ast.Heading:
		return map[string]any{"k": "heading", "level": n.Level, "inl": c20Inlines(n, src)}
	case *ast.Paragraph:
		return map[string]any{"k": "paragraph", "inl": c20Inlines(n, src)}
	case *ast.FencedCodeBlock:
		return map[string]any{"k": "code", "language": markdown.VerifPlainText(n.Language(src)), "code": markdown.VerifCodeBlockContent(n, src)}
	case *ast.CodeBlock:
		return map[string]any{"k": "code", "language": "", "code": markdown.VerifCodeBlockContent(n, src)}
	case *ast.Blockquote:
		return map[string]any{"k": "blockquote", "kids": c20Blocks(n, src)}
	case *ast.List:
		return map[string]any{"k": "list", "ordered": n.IsOrdered(), "start": n.Start, "kids": c20Blocks(n, src)}
	case *ast.ListItem:
		return map[string]any{"k": "listitem", "kids": c20Blocks(n, src)}
	case *ast.ThematicBreak:
		return map[string]any{"k": "hr"}
	case *ast.HTMLBlock:
		var buf bytes.Buffer
		for i := 0; i < n.Lines().Len(); i++ {
			line := n.Lines().At(i)
			buf.Write(line.Value(src))
		}
		// blocks that end with a line of their own (<script>, <pre>, <style>, comments, processing instructions, declarations, CDATA)
		if n.HasClosure() {
			buf.Write(n.ClosureLine.Value(src))
		}
		return map[string]any{"k": "htmlblock", "raw": buf.String()}
	case *ast.TextBlock:
		return map[string]any{"k": "textblock", "inl": c20Inlines(n, src)}
	case *east.Table:
		var headers []any
		rows := []any{}
		for child := n.FirstChild(); child != nil; child = child.NextSibling() {
			switch row := child.(type) {
			case *east.TableHeader:
				headers = c20Cells(row, src)
			case *east.TableRow:
				rows = append(rows, c20Cells(row, src))
			}
		}
		if headers == nil {
			headers = []any{}
		}
		return map[string]any{"k": "table", "headers": headers, "rows": rows}
	}
	if node.HasChildren() {
		return map[string]any{"k": "other", "kids": c20Blocks(node, src)}
	}
	return map[string]any{"k": "other", "kids": []any{}}
}

// the template files (defaults overlaid by overrides), parsed with vuego's own parser, in the `page` op's format
func c20TemplateFiles(overrides map[string]string) map[string]any {
	fj := map[string]any{}
	tfs := markdown.Templates()
	names, _ := fs.Glob(tfs, "markdown/*.vuego")
	sort.Strings(names)
	srcs := map[string]string{}
	for _, n := range names {
		b, _ := fs.ReadFile(tfs, n)
		srcs[n] = string(b)
	}
	for n, s := range overrides {
		srcs["markdown/"+n+".vuego"] = s
	}
	for n, s := range srcs {
		fm, body, err := vuego.VerifExtractFrontMatter([]byte(s))
		if err != nil {
			continue
		}
		nodes, err := vuego.VerifParseTemplateBytes(body)
		if err != nil {
			continue
		}
		fmPairs := []any{}
		var keys []string
		for k := range fm {
			keys = append(keys, k)
		}
		sort.Strings(keys)
		for _, k := range keys {
			fmPairs = append(fmPairs, []any{k, toVal(fm[k])})
		}
		fj[n] = map[string]any{"fm": fmPairs, "dom": nodesToJSON(nodes)}
	}
	return fj
}

func c20ModelCase(src string, overrides map[string]string) *Case {
	var got bytes.Buffer
	var err error
	var m *markdown.Markdown
	func() {
		defer func() {
			if e := recover(); e != nil {
				err = fmt.Errorf("panic: %v", e)
			}
		}()
		if overrides != nil {
			cfs := fstest.MapFS{}
			for n, s := range overrides {
				cfs["markdown/"+n+".vuego"] = &fstest.MapFile{Data: []byte(s)}
			}
			m = markdown.New(cfs)
		} else {
			m = markdown.New(nil)
		}
		err = m.RenderBytes(&got, []byte(src))
	}()
	impl := map[string]any{"out": got.String()}
	if err != nil {
		impl = map[string]any{"err": true}
	}
	doc := markdown.VerifParse(m, []byte(src))
	return &Case{Name: "md model", Op: true, Input: map[string]any{"op": "md", "files": c20TemplateFiles(overrides), "comps": []any{}, "doc": c20Blocks(doc, []byte(src)), "src": src}, Impl: impl,
		Key: "mdmodel|" + src + fmt.Sprint(overrides), Tags: append([]string{"stream:md-model"}, c20Features(src)...)}
}

// headingID: the Lean definition against the real one on generated inline HTML
func c20HeadingIDs(r *Run) {
	alpha := []string{"a", "B", "z9", " ", "  ", "-", "--", "<b>", "</b>", "<", ">", "&amp;", "\"", "'", "{{", "}}", "_", ".", "<a href=\"x>y\">", "é", "Q"}
	n := 400
	if r.Thorough() {
		n = 20000
	}
	for i := 0; i < n; i++ {
		var sb bytes.Buffer
		for k := r.Rng.Intn(9); k > 0; k-- {
			sb.WriteString(alpha[r.Rng.Intn(len(alpha))])
		}
		s := sb.String()
		r.Add(&Case{Name: "headingID", Op: true, Input: map[string]any{"op": "headingid", "s": s}, Impl: map[string]any{"id": markdown.VerifHeadingID(s)}, Key: "hid|" + s, Tags: []string{"stream:heading-id"}})
	}
}
