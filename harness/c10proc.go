//go:build verif

package main

import (
	"bytes"
	"context"
	"fmt"
	"strings"
	"testing/fstest"
	"time"

	"github.com/titpetric/vuego"
	"golang.org/x/net/html"
)

// a node processor WITH working state (it numbers the headings it sees and collects their text): the interface promises a fresh
// instance per render (`New`), so what it gathered in one render never shows in the next
type c10Numberer struct {
	count int
	seen  []string
}

func (p *c10Numberer) New() vuego.NodeProcessor             { return &c10Numberer{} }
func (p *c10Numberer) PreProcess(nodes []*html.Node) error { return nil }
func (p *c10Numberer) PostProcess(nodes []*html.Node) error {
	var walk func(n *html.Node)
	walk = func(n *html.Node) {
		if n.Type == html.ElementNode && n.Data == "h2" {
			p.count++
			n.Attr = append(n.Attr, html.Attribute{Key: "id", Val: fmt.Sprintf("section-%d", p.count)})
			if n.FirstChild != nil {
				p.seen = append(p.seen, strings.TrimSpace(n.FirstChild.Data))
			}
		}
		if n.Type == html.ElementNode && n.Data == "nav" {
			n.Attr = append(n.Attr, html.Attribute{Key: "data-seen", Val: strings.Join(p.seen, "|")})
		}
		for c := n.FirstChild; c != nil; c = c.NextSibling {
			walk(c)
		}
	}
	for _, n := range nodes {
		walk(n)
	}
	return nil
}

// c10ProcessorHistory: an engine with a registered stateful node processor renders pages one after the other (both entry points): every
// render equals the same render on a fresh engine with the same processor registered.
func c10ProcessorHistory(r *Run) {
	files := map[string]string{
		"a.vuego": `<h2>{{ t }}</h2><h2>Pricing</h2><nav>toc</nav>`,
		"b.vuego": `<h2>Contact {{ t }}</h2><nav>toc</nav>`,
		"c.vuego": "---\nlayout: main\n---\n<h2>In layout {{ t }}</h2>",
		"layouts/main.vuego": `<main v-html="content"></main><h2>Footer</h2><nav>toc</nav>`,
	}
	mfs := fstest.MapFS{}
	for n, c := range files {
		mfs[n] = &fstest.MapFile{Data: []byte(c), ModTime: time.Unix(1700000000, 0)}
	}
	mk := func() vuego.Template { return vuego.NewFS(mfs, vuego.WithProcessor(&c10Numberer{})) }
	render := func(t vuego.Template, page, val string, viaVue bool) string {
		var buf bytes.Buffer
		var err error
		if viaVue {
			err = vuego.VerifVue(t).Render(&buf, page, map[string]any{"t": val})
		} else {
			err = t.Load(page).Fill(map[string]any{"t": val}).Render(context.Background(), &buf)
		}
		if err != nil {
			return "ERROR: " + err.Error()
		}
		return buf.String()
	}
	for _, viaVue := range []bool{false, true} {
		long := mk()
		var hist []string
		for i, st := range []struct{ page, val string }{{"a.vuego", "Features"}, {"a.vuego", "Features"}, {"b.vuego", "x"}, {"c.vuego", "y"}, {"a.vuego", "Secret roadmap"}, {"b.vuego", "z"}, {"c.vuego", "w"}} {
			got := render(long, st.page, st.val, viaVue)
			want := render(mk(), st.page, st.val, viaVue)
			name := fmt.Sprintf("processor-history vue=%v step %d (%s)", viaVue, i, st.page)
			c := &Case{Name: name, Key: name, Input: map[string]any{"kind": "processor-history", "step": i}, Impl: map[string]any{"out": got}, Oracle: &Verdict{OK: true}, Tags: []string{"stream:processor-history"}}
			if got != want {
				c.Oracle = &Verdict{OK: false, Class: "differs-from-fresh:processor-state", Detail: fmt.Sprintf("step %d renders %s after %v: the engine in use gives %q, a fresh engine %q", i, st.page, hist, got, want)}
			}
			r.Add(c)
			hist = append(hist, st.page)
		}
	}
}

// a node processor that EDITS EXISTING ATTRIBUTE VALUES IN PLACE (`n.Attr[i].Val = ...`, the way docs/nodeprocessor.md shows): what it
// is handed are the render's own nodes, so the edit never reaches the loaded template or the caller's nodes
type c10Rewriter struct{}

func (p *c10Rewriter) New() vuego.NodeProcessor { return &c10Rewriter{} }
func (p *c10Rewriter) rewrite(nodes []*html.Node) {
	var walk func(n *html.Node)
	walk = func(n *html.Node) {
		if n.Type == html.ElementNode {
			for i := range n.Attr {
				if (n.Attr[i].Key == "src" || n.Attr[i].Key == "href") && strings.HasPrefix(n.Attr[i].Val, "/") {
					n.Attr[i].Val = "/cdn" + n.Attr[i].Val
				}
			}
		}
		for c := n.FirstChild; c != nil; c = c.NextSibling {
			walk(c)
		}
	}
	for _, n := range nodes {
		walk(n)
	}
}
func (p *c10Rewriter) PreProcess(nodes []*html.Node) error  { p.rewrite(nodes); return nil }
func (p *c10Rewriter) PostProcess(nodes []*html.Node) error { return nil }

// c10InPlaceProcessorHistory: an engine with the in-place rewriting processor renders the same pages repeatedly (all entry points, the
// caller-parsed nodes of RenderNodes included): every render equals the same render on a fresh engine, and the caller's nodes are unchanged.
func c10InPlaceProcessorHistory(r *Run) {
	files := map[string]string{
		"a.vuego":            `<div class="card"><a href="/docs/{{ t }}">Intro</a><img src="/img/logo.png" alt="logo"></div>`,
		"b.vuego":            `<pre v-pre><a href="/raw/{{ not_evaluated }}">source</a></pre><p>{{ t }}</p>`,
		"c.vuego":            "---\nlayout: main\n---\n<a href=\"/in-layout/{{ t }}\">x</a>",
		"layouts/main.vuego": `<main v-html="content"></main><a href="/footer">f</a>`,
		"d.vuego":            `<ul><li v-for="x in xs"><a href="/item" :title="x">i</a></li></ul><template include="a.vuego"></template>`,
	}
	mfs := fstest.MapFS{}
	for n, c := range files {
		mfs[n] = &fstest.MapFile{Data: []byte(c), ModTime: time.Unix(1700000000, 0)}
	}
	mk := func() vuego.Template { return vuego.NewFS(mfs, vuego.WithProcessor(&c10Rewriter{})) }
	data := func(val string) map[string]any { return map[string]any{"t": val, "xs": []any{"p", "q"}} }
	render := func(t vuego.Template, page, val, entry string) string {
		var buf bytes.Buffer
		var err error
		switch entry {
		case "vue":
			err = vuego.VerifVue(t).Render(&buf, page, data(val))
		case "fragment":
			err = vuego.VerifVue(t).RenderFragment(&buf, page, data(val))
		default:
			err = t.Load(page).Fill(data(val)).Render(context.Background(), &buf)
		}
		if err != nil {
			return "ERROR: " + err.Error()
		}
		return buf.String()
	}
	for _, entry := range []string{"template", "vue", "fragment"} {
		long := mk()
		var hist []string
		for i, st := range []struct{ page, val string }{{"a.vuego", "one"}, {"a.vuego", "one"}, {"b.vuego", "x"}, {"b.vuego", "x"}, {"c.vuego", "y"}, {"c.vuego", "y"}, {"d.vuego", "z"}, {"d.vuego", "z"}, {"a.vuego", "two"}} {
			if entry != "template" && strings.HasPrefix(files[st.page], "---") {
				continue
			}
			got := render(long, st.page, st.val, entry)
			want := render(mk(), st.page, st.val, entry)
			name := fmt.Sprintf("inplace-processor-history %s step %d (%s)", entry, i, st.page)
			c := &Case{Name: name, Key: name, Input: map[string]any{"kind": "processor-history", "step": i}, Impl: map[string]any{"out": got}, Oracle: &Verdict{OK: true}, Tags: []string{"stream:inplace-processor-history", "entry:" + entry}}
			if got != want || strings.Contains(got, "/cdn/cdn") {
				c.Oracle = &Verdict{OK: false, Class: "differs-from-fresh:processor-inplace-edit", Detail: fmt.Sprintf("step %d renders %s via %s after %v: the engine in use gives %q, a fresh engine %q", i, st.page, entry, hist, got, want)}
			}
			r.Add(c)
			hist = append(hist, st.page)
		}
	}
	// RenderNodes: the caller's own nodes, rendered twice
	src := `<img src="/img/{{ t }}.png" alt="x"><a href="/n">n</a>`
	nodes, perr := vuego.VerifParseTemplateBytes([]byte(src))
	if perr == nil {
		before := renderNodesToString(nodes)
		eng := vuego.VerifVue(mk())
		var o1, o2 bytes.Buffer
		e1 := eng.RenderNodes(&o1, nodes, data("logo"))
		e2 := eng.RenderNodes(&o2, nodes, data("logo"))
		after := renderNodesToString(nodes)
		name := "inplace-processor-history render-nodes"
		c := &Case{Name: name, Key: name, Input: map[string]any{"kind": "processor-history", "step": -1}, Impl: map[string]any{"out": o1.String(), "second": o2.String()}, Oracle: &Verdict{OK: true}, Tags: []string{"stream:inplace-processor-history", "entry:render-nodes"}}
		if e1 != nil || e2 != nil || before != after || o1.String() != o2.String() {
			c.Oracle = &Verdict{OK: false, Class: "differs-from-fresh:processor-inplace-edit", Detail: fmt.Sprintf("RenderNodes twice over the caller's nodes: errors %v %v; nodes before %q after %q; first %q second %q", e1, e2, before, after, o1.String(), o2.String())}
		}
		r.Add(c)
	}
}

func renderNodesToString(nodes []*html.Node) string {
	var b bytes.Buffer
	for _, n := range nodes {
		_ = html.Render(&b, n)
	}
	return b.String()
}
