//go:build verif

package main

import (
	"bytes"
	"context"
	"fmt"
	"strings"
	"testing/fstest"
	"time"

	"github.com/titpetric/vuego"
	"golang.org/x/net/html"
)

// a node processor WITH working state (it numbers the headings it sees and collects their text): the interface promises a fresh
// instance per render (`New`), so what it gathered in one render never shows in the next
type c10Numberer struct {
	count int
	seen  []string
}

func (p *c10Numberer) New() vuego.NodeProcessor             { return &c10Numberer{} }
func (p *c10Numberer) PreProcess(nodes []*html.Node) error { return nil }
func (p *c10Numberer) PostProcess(nodes []*html.Node) error {
	var walk func(n *html.Node)
	walk = func(n *html.Node) {
		if n.Type == html.ElementNode && n.Data == "h2" {
			p.count++
			n.Attr = append(n.Attr, html.Attribute{Key: "id", Val: fmt.Sprintf("section-%d", p.count)})
			if n.FirstChild != nil {
				p.seen = append(p.seen, strings.TrimSpace(n.FirstChild.Data))
			}
		}
		if n.Type == html.ElementNode && n.Data == "nav" {
			n.Attr = append(n.Attr, html.Attribute{Key: "data-seen", Val: strings.Join(p.seen, "|")})
		}
		for c := n.FirstChild; c != nil; c = c.NextSibling {
			walk(c)
		}
	}
	for _, n := range nodes {
		walk(n)
	}
	return nil
}

// c10ProcessorHistory: an engine with a registered stateful node processor renders pages one after the other (both entry points): every
// render equals the same render on a fresh engine with the same processor registered.
func c10ProcessorHistory(r *Run) {
	files := map[string]string{
		"a.vuego": `<h2>{{ t }}</h2><h2>Pricing</h2><nav>toc</nav>`,
		"b.vuego": `<h2>Contact {{ t }}</h2><nav>toc</nav>`,
		"c.vuego": "---\nlayout: main\n---\n<h2>In layout {{ t }}</h2>",
		"layouts/main.vuego": `<main v-html="content"></main><h2>Footer</h2><nav>toc</nav>`,
	}
	mfs := fstest.MapFS{}
	for n, c := range files {
		mfs[n] = &fstest.MapFile{Data: []byte(c), ModTime: time.Unix(1700000000, 0)}
	}
	mk := func() vuego.Template { return vuego.NewFS(mfs, vuego.WithProcessor(&c10Numberer{})) }
	render := func(t vuego.Template, page, val string, viaVue bool) string {
		var buf bytes.Buffer
		var err error
		if viaVue {
			err = vuego.VerifVue(t).Render(&buf, page, map[string]any{"t": val})
		} else {
			err = t.Load(page).Fill(map[string]any{"t": val}).Render(context.Background(), &buf)
		}
		if err != nil {
			return "ERROR: " + err.Error()
		}
		return buf.String()
	}
	for _, viaVue := range []bool{false, true} {
		long := mk()
		var hist []string
		for i, st := range []struct{ page, val string }{{"a.vuego", "Features"}, {"a.vuego", "Features"}, {"b.vuego", "x"}, {"c.vuego", "y"}, {"a.vuego", "Secret roadmap"}, {"b.vuego", "z"}, {"c.vuego", "w"}} {
			got := render(long, st.page, st.val, viaVue)
			want := render(mk(), st.page, st.val, viaVue)
			name := fmt.Sprintf("processor-history vue=%v step %d (%s)", viaVue, i, st.page)
			c := &Case{Name: name, Key: name, Input: map[string]any{"kind": "processor-history", "step": i}, Impl: map[string]any{"out": got}, Oracle: &Verdict{OK: true}, Tags: []string{"stream:processor-history"}}
			if got != want {
				c.Oracle = &Verdict{OK: false, Class: "differs-from-fresh:processor-state", Detail: fmt.Sprintf("step %d renders %s after %v: the engine in use gives %q, a fresh engine %q", i, st.page, hist, got, want)}
			}
			r.Add(c)
			hist = append(hist, st.page)
		}
	}
}
