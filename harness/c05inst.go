//go:build verif

package main

import (
	"fmt"
	"regexp"
	"strings"

	"github.com/titpetric/vuego"
)

// One component included several times with props of DIFFERENT dynamic types (a bound number literal, a float from decoded JSON, a string,
// a bool, nil, sized integers): every instance renders exactly what it renders as the only instance — what an earlier instance was given
// (its value or its TYPE) does not show in a later one. The component reads the prop in typed operators, where an expression evaluator
// that specialises on the operand types it saw first would show.
var c05InstRe = regexp.MustCompile(`(?s)«(.*?)»`)

func c05InstanceIndependence(r *Run) {
	type pv struct {
		name string
		v    any
	}
	vals := []pv{{"int3", 3}, {"int1", 1}, {"f1", float64(1)}, {"f2.5", 2.5}, {"str1", "1"}, {"strx", "x"}, {"true", true}, {"nil", nil}, {"i64", int64(1)}, {"u8", uint8(1)}, {"list", []any{1}}}
	comps := map[string]string{
		"eq":       `<li>«{{ label }}:<b v-if="qty == 1">last</b><b v-else>{{ qty }} left</b>»</li>`,
		"ternary":  `<li>«{{ label }}:{{ qty == 1 ? "last one" : "more" }}»</li>`,
		"neq-attr": `<li :data-more="qty != 1">«{{ label }}:{{ qty }}»</li>`,
		"show":     `<li>«{{ label }}:<i v-show="qty == 1">one</i><u :class="{one: qty == 1}">c</u>»</li>`,
	}
	render := func(comp string, insts []pv, tag bool) renderResult {
		var page strings.Builder
		page.WriteString("<ul>")
		d := map[string]any{}
		for i, in := range insts {
			key := fmt.Sprintf("v%d", i)
			d[key] = in.v
			if tag {
				page.WriteString(fmt.Sprintf(`<stock :qty="%s" label="%s"></stock>`, key, in.name))
			} else {
				page.WriteString(fmt.Sprintf(`<template include="components/Stock.vuego" :qty="%s" label="%s"></template>`, key, in.name))
			}
		}
		page.WriteString("</ul>")
		return renderPage(map[string]string{"p.vuego": page.String(), "components/Stock.vuego": comps[comp]}, "p.vuego", d, vuego.WithComponents())
	}
	items := func(res renderResult) []string {
		var out []string
		for _, m := range c05InstRe.FindAllStringSubmatch(res.Out, -1) {
			out = append(out, strings.Join(strings.Fields(m[1]), " "))
		}
		return out
	}
	for cn := range comps {
		alone := map[string]string{}
		for _, a := range vals {
			res := render(cn, []pv{a}, false)
			if res.Err != "" || res.Panic != "" {
				alone[a.name] = "ERROR"
			} else {
				alone[a.name] = strings.Join(items(res), "|") + "|" + fmt.Sprint(strings.Contains(res.Out, "display:none"), strings.Contains(res.Out, `class="one"`), strings.Contains(res.Out, "data-more"))
			}
		}
		for _, a := range vals {
			for _, b := range vals {
				for _, tag := range []bool{false, true} {
					if tag && (a.name > b.name) { // the shorthand form on half of the pairs
						continue
					}
					desc := fmt.Sprintf("instances comp=%s first=%s second=%s tag=%v", cn, a.name, b.name, tag)
					c := &Case{Name: desc, Input: map[string]any{"stream": "instances", "desc": desc}, Oracle: &Verdict{OK: true}, Key: desc, Tags: []string{"stream:instances", "comp:" + cn}}
					if alone[a.name] == "ERROR" || alone[b.name] == "ERROR" {
						continue // an operator the value's type does not support fails the render alone as well: not this rule
					}
					res := render(cn, []pv{a, b}, tag)
					c.Impl = res.canon()
					// the second instance alone, on its own page
					resB := render(cn, []pv{b}, tag)
					got := items(res)
					wantB := items(resB)
					switch {
					case res.Err != "" || res.Panic != "" || res.Timeout:
						c.Oracle = &Verdict{OK: false, Class: "instance-depends-on-earlier-instance:" + cn, Detail: fmt.Sprintf("%s: the page fails (%s%s) although each instance renders alone", desc, res.Err, res.Panic)}
					case len(got) != 2 || len(wantB) != 1 || got[1] != wantB[0]:
						c.Oracle = &Verdict{OK: false, Class: "instance-depends-on-earlier-instance:" + cn, Detail: fmt.Sprintf("%s: after an instance given %T the instance given %T(%v) renders %v; alone it renders %v", desc, a.v, b.v, b.v, got, wantB)}
					}
					r.Add(c)
				}
			}
		}
	}
}
