package main

// C12 — all-or-nothing output; writer failures reported. Instrumented io.Writer failing from byte offset k, every k.

import (
	"bytes"
	"context"
	"errors"
	"fmt"
	"io"
	"net"
	"os"
	"strings"
	"syscall"
	"testing/fstest"
	"time"

	vuego "github.com/titpetric/vuego"
)

func init() { props["C12"] = runC12 }

type failWriter struct {
	failCall int // 1-based number of the single Write call that fails (transient failure: later calls succeed again); 0 = none
	failAt   int // first byte offset that fails; -1 never
	written  bytes.Buffer
	calls    int
	chunks   []any // every Write's payload (healthy runs): the chunk list handed to the model
	err      error // what the failing Write reports (nil = errSink)
	onWrite  func() // called at the first Write (e.g. cancels the caller's context while the document is being delivered)
}

// what a destination reports when it fails: a sentinel, the errors of a closed pipe and a short write, the end-of-file value, a cancelled
// context's error, and the errors of a connection whose peer has hung up (wrapped the way net.Conn and http.ResponseWriter wrap them)
var c12SinkErrors = []struct {
	name string
	err  error
}{
	{"closed-pipe", io.ErrClosedPipe}, {"short-write", io.ErrShortWrite}, {"eof", io.EOF}, {"unexpected-eof", io.ErrUnexpectedEOF}, {"canceled", context.Canceled}, {"deadline", os.ErrDeadlineExceeded},
	{"epipe", syscall.EPIPE}, {"epipe-wrapped", &net.OpError{Op: "write", Net: "tcp", Err: os.NewSyscallError("write", syscall.EPIPE)}},
	{"econnreset-wrapped", &net.OpError{Op: "write", Net: "tcp", Err: os.NewSyscallError("write", syscall.ECONNRESET)}}, {"econnaborted", fmt.Errorf("write: %w", syscall.ECONNABORTED)},
	{"enospc", &os.PathError{Op: "write", Path: "/out/page.html", Err: syscall.ENOSPC}}, {"net-closed", net.ErrClosed},
}

func (w *failWriter) fail() error {
	if w.err != nil {
		return w.err
	}
	return errSink
}

var errSink = errors.New("sink failed")

func (w *failWriter) Write(p []byte) (int, error) {
	w.calls++
	if w.calls == 1 && w.onWrite != nil {
		w.onWrite()
	}
	if w.failCall > 0 && w.calls == w.failCall {
		return 0, w.fail()
	}
	if w.failAt < 0 {
		w.chunks = append(w.chunks, string(p))
		return w.written.Write(p)
	}
	room := w.failAt - w.written.Len()
	if room >= len(p) {
		return w.written.Write(p)
	}
	if room > 0 {
		w.written.Write(p[:room])
	} else {
		room = 0
	}
	return room, w.fail()
}

type c12Prog struct {
	desc    string
	files   map[string]string
	page    string
	src     string // for string entry points
	wantErr bool
}

// c12LoopFailures: a failure inside the body of a loop, for every kind of collection a loop can range over (the iteration is done by
// reflection for everything that is not []any or map[string]any) and every kind of failure: the render fails and nothing is written
func c12LoopFailures() []c12Prog {
	var out []c12Prog
	for _, coll := range []string{"items", "structs", "ptrs", "arr", "tmap", "smap", "floats", "strs", "amap", "nested"} {
		for _, f := range []struct{ name, body string }{
			{"filter", `{{ i | nosuchfn }}`}, {"missing-include", `<template include="nope.vuego"></template>`}, {"required", `<template include="c.vuego"></template>`},
			{"failing-function", `{{ x | fail }}`}, {"bad-inner-for", `<u v-for="oops">x</u>`},
		} {
			src := `<h1>start</h1><ul><li v-for="i in ` + coll + `">` + f.body + `</li></ul><p>footer</p>`
			files := map[string]string{"p.vuego": src, "c.vuego": `<template :required="must"><i>x</i></template>`}
			str := src
			if f.name == "required" || f.name == "missing-include" {
				str = "" // the string entry points have no files to include from
			}
			out = append(out, c12Prog{"err-in-loop-over-" + coll + "-" + f.name, files, "p.vuego", str, true})
		}
		// the same loop succeeding: complete output
		ok := `<h1>start</h1><ul><li v-for="i in ` + coll + `">{{ x }}</li></ul><p>footer</p>`
		out = append(out, c12Prog{"ok-loop-over-" + coll, map[string]string{"p.vuego": ok}, "p.vuego", ok, false})
	}
	return out
}

func c12Progs() []c12Prog {
	return append(c12BaseProgs(), c12LoopFailures()...)
}

func c12BaseProgs() []c12Prog {
	ok := `<div class="a"><p v-for="i in items">{{ i }}</p><span v-if="t">yes</span></div><footer>end</footer>`
	return []c12Prog{
		{"ok-plain", map[string]string{"p.vuego": ok}, "p.vuego", ok, false},
		{"ok-include", map[string]string{"p.vuego": `<main><template include="c.vuego" :n="items"></template></main>`, "c.vuego": `<i v-for="x in n">{{ x }}</i>`}, "p.vuego", "", false},
		{"ok-layout", map[string]string{"p.vuego": "---\nlayout: main\n---\n" + ok, "layouts/main.vuego": `<html><body><div v-html="content"></div></body></html>`}, "p.vuego", "", false},
		{"ok-default-layout", map[string]string{"p.vuego": ok, "layouts/base.vuego": `<section v-html="content"></section>`}, "p.vuego", "", false},
		{"ok-vhtml-vtext", map[string]string{"p.vuego": `<div v-html="h"></div><p v-text="h"></p><template v-keep><b>k</b></template>`}, "p.vuego", `<div v-html="h"></div><p v-text="h"></p>`, false},
		{"err-early-filter", map[string]string{"p.vuego": `<p>{{ x | nosuchfn }}</p>` + ok}, "p.vuego", `<p>{{ x | nosuchfn }}</p>` + ok, true},
		{"err-late-filter", map[string]string{"p.vuego": ok + `<p>{{ x | nosuchfn }}</p>`}, "p.vuego", ok + `<p>{{ x | nosuchfn }}</p>`, true},
		{"err-in-loop", map[string]string{"p.vuego": `<b>start</b><p v-for="i in items">{{ i | nosuchfn }}</p>`}, "p.vuego", `<b>start</b><p v-for="i in items">{{ i | nosuchfn }}</p>`, true},
		{"err-in-include", map[string]string{"p.vuego": `<b>start</b><template include="c.vuego"></template>`, "c.vuego": `<i>{{ x | nosuchfn }}</i>`}, "p.vuego", "", true},
		{"err-missing-include", map[string]string{"p.vuego": `<b>start</b><template include="nope.vuego"></template>`}, "p.vuego", "", true},
		{"err-required", map[string]string{"p.vuego": `<b>start</b><template include="c.vuego"></template>`, "c.vuego": `<template :required="must"><i>x</i></template>`}, "p.vuego", "", true},
		{"err-in-layout", map[string]string{"p.vuego": "---\nlayout: main\n---\n" + ok, "layouts/main.vuego": `<div v-html="content"></div><p>{{ x | nosuchfn }}</p>`}, "p.vuego", "", true},
		// failures INSIDE the default layout (the one the page did not ask for), and inside a layout named by the page: a missing include, a
		// failing filter, an unsatisfied :required - errors of the render like any other
		{"err-missing-include-in-default-layout", map[string]string{"p.vuego": ok, "layouts/base.vuego": `<html><template include="components/nav.vuego"></template><main v-html="content"></main></html>`}, "p.vuego", "", true},
		{"err-filter-in-default-layout", map[string]string{"p.vuego": ok, "layouts/base.vuego": `<main v-html="content"></main><p>{{ x | nosuchfn }}</p>`}, "p.vuego", "", true},
		{"err-missing-include-in-component-of-default-layout", map[string]string{"p.vuego": ok, "layouts/base.vuego": `<html><template include="nav.vuego"></template><main v-html="content"></main></html>`, "nav.vuego": `<nav><template include="gone.vuego"></template></nav>`}, "p.vuego", "", true},
		{"err-missing-include-in-named-layout", map[string]string{"p.vuego": "---\nlayout: main\n---\n" + ok, "layouts/main.vuego": `<template include="gone.vuego"></template><div v-html="content"></div>`}, "p.vuego", "", true},
		{"err-required-in-default-layout", map[string]string{"p.vuego": ok, "layouts/base.vuego": `<template include="c.vuego"></template><main v-html="content"></main>`, "c.vuego": `<template :required="must"><i>x</i></template>`}, "p.vuego", "", true},
		{"err-bad-for", map[string]string{"p.vuego": ok + `<p v-for="oops">x</p>`}, "p.vuego", ok + `<p v-for="oops">x</p>`, true},
		{"err-missing-file", map[string]string{"other.vuego": ok}, "p.vuego", "", true},
		// documents nested far deeper than any indentation table: a page file of 140 nested elements, and a recursive component 48 levels
		// deep with three elements per level (the fail-at sweep of these two is sparse: every 211th offset)
		{"ok-deep-page", map[string]string{"p.vuego": strings.Repeat("<div>", 140) + "<p>{{ items }}</p>" + strings.Repeat("</div>", 140)}, "p.vuego", strings.Repeat("<div>", 140) + "<p>x</p>" + strings.Repeat("</div>", 140), false},
		{"ok-deep-recursion", map[string]string{"p.vuego": `<section><template include="t.vuego" :n="48"></template></section>`,
			"t.vuego": `<div><ul><li>level {{ n }}<template v-if="n > 1" include="t.vuego" :n="n - 1"></template></li></ul></div>`}, "p.vuego", "", false},
	}
}

var c12Entries = []string{"Render", "RenderFile", "RenderString", "RenderByte", "RenderReader"}

func c12Call(p c12Prog, entry string, ctx context.Context, w *failWriter) (err error, applicable bool) {
	mfs := fstest.MapFS{}
	for n, s := range p.files {
		mfs[n] = &fstest.MapFile{Data: []byte(s), ModTime: time.Unix(1700000000, 0)}
	}
	data := map[string]any{"items": []any{1, 2, 3}, "t": true, "h": "<u>raw & html</u>", "x": "v",
		"structs": []S2{{1, "a"}, {2, "b"}}, "ptrs": []*S2{{X: 1}, {X: 2}}, "arr": [2]S2{{1, "a"}, {2, "b"}}, "tmap": map[string]S2{"k": {1, "a"}, "l": {2, "b"}}, "smap": map[string]string{"k": "v", "l": "w"},
		"floats": []float64{1.5, 2.5}, "strs": []string{"a", "b"}, "amap": map[string]any{"k": 1, "l": 2}, "nested": [][]int{{1}, {2}}}
	t := vuego.NewFS(mfs, vuego.WithFuncs(vuego.FuncMap{"fail": func(s string) (string, error) { return "", errors.New("boom") }}))
	defer func() {
		if e := recover(); e != nil {
			err = fmt.Errorf("panic: %v", e)
		}
	}()
	switch entry {
	case "Render":
		return t.Load(p.page).Fill(data).Render(ctx, w), true
	case "RenderFile":
		return t.Fill(data).RenderFile(ctx, w, p.page), true
	case "RenderString":
		if p.src == "" {
			return nil, false
		}
		return t.New().Fill(data).RenderString(ctx, w, p.src), true
	case "RenderByte":
		if p.src == "" {
			return nil, false
		}
		return t.New().Fill(data).RenderByte(ctx, w, []byte(p.src)), true
	case "RenderReader":
		if p.src == "" {
			return nil, false
		}
		return t.New().Fill(data).RenderReader(ctx, w, strings.NewReader(p.src)), true
	}
	return nil, false
}

func runC12(r *Run, replay *Case) {
	only := ""
	if replay != nil {
		only = replay.Input["prog"].(string) + "|" + replay.Input["entry"].(string)
	}
	r.Res.Rule = "every entry point (Render with/without layout, RenderFile, RenderString, RenderByte, RenderReader) x 14 programs (succeeding, failing early/late/in loop/include/layout/required/missing) x " +
		"writer failing at EVERY byte offset 0..len(output), writer failing at the first, a middle and the last offset with 12 kinds of error value (sentinel, closed pipe, short write, EOF, cancelled, deadline, EPIPE / ECONNRESET / ECONNABORTED / ENOSPC plain and wrapped as net.Conn and os do), writer failing transiently at EVERY single Write call x pre-cancelled context; non-trivial = every (program, entry, offset); distinct likewise"
	for _, p := range c12Progs() {
		for _, e := range c12Entries {
			if only != "" && only != p.desc+"|"+e {
				continue
			}
			if r.FailureTotal() > 200 {
				break // a damaged tree (e.g. a staging buffer that keeps what a failed write left) grows every later case: enough witnesses
			}
			// 1. healthy writer
			w := &failWriter{failAt: -1}
			err, ok := c12Call(p, e, context.Background(), w)
			if !ok {
				continue
			}
			full := w.written.String()
			mkind := "string"
			if e == "Render" || e == "RenderFile" {
				mkind = "file"
				if strings.Contains(p.desc, "layout") {
					mkind = "layout"
				}
			}
			chunks := w.chunks
			if chunks == nil {
				chunks = []any{}
			}
			mk := func(kind string, k int) *Case {
				var failAt any
				if kind == "fail-at" {
					failAt = k
				}
				return &Case{Name: fmt.Sprintf("%s via %s, %s %d", p.desc, e, kind, k), Op: true,
					Input: map[string]any{"op": "writer", "prog": p.desc, "entry": e, "kind": mkind, "case": kind, "k": k, "fails": err != nil, "chunks": chunks, "failAt": failAt, "cancelled": kind == "cancelled"},
					Key:   fmt.Sprintf("%s|%s|%s|%d", p.desc, e, kind, k), Tags: []string{"entry:" + e, "prog:" + p.desc, "kind:" + kind}, Oracle: &Verdict{OK: true}}
			}
			c := mk("healthy", -1)
			c.Impl = map[string]any{"err": err != nil, "len": len(full)}
			switch {
			case p.wantErr && err == nil:
				c.Oracle = &Verdict{OK: false, Class: "expected-error-missing:" + p.desc + ":" + e, Detail: full}
			case !p.wantErr && err != nil:
				c.Oracle = &Verdict{OK: false, Class: "unexpected-error:" + p.desc + ":" + e, Detail: err.Error()}
			case err != nil && len(full) > 0:
				c.Oracle = &Verdict{OK: false, Class: "partial-output-on-error:" + e, Detail: fmt.Sprintf("error %v but %d bytes were written: %q", err, len(full), full)}
			case err == nil && len(full) == 0:
				c.Oracle = &Verdict{OK: false, Class: "empty-output-no-error:" + e, Detail: p.desc}
			}
			r.Add(c)
			// 2. cancelled context
			cctx, cancel := context.WithCancel(context.Background())
			cancel()
			w2 := &failWriter{failAt: -1}
			err2, _ := c12Call(p, e, cctx, w2)
			c2 := mk("cancelled", -1)
			c2.Impl = map[string]any{"err": err2 != nil, "len": w2.written.Len()}
			if err2 == nil || w2.written.Len() > 0 {
				c2.Oracle = &Verdict{OK: false, Class: "cancelled-context:" + e, Detail: fmt.Sprintf("err=%v written=%d", err2, w2.written.Len())}
			}
			r.Add(c2)
			// 3. failing writer at every offset (only meaningful when the program succeeds)
			if err != nil {
				continue
			}
			step := 1
			if strings.HasPrefix(p.desc, "ok-deep") {
				step = 211
			}
			for k := 0; k <= len(full) && r.FailureTotal() <= 200; k += step {
				if step > 1 && k+step > len(full) {
					k = len(full) // always end on the complete document
				}
				wk := &failWriter{failAt: k}
				errk, _ := c12Call(p, e, context.Background(), wk)
				ck := mk("fail-at", k)
				ck.Impl = map[string]any{"err": errk != nil, "len": wk.written.Len()}
				if k < len(full) && errk == nil {
					layout := "no-layout"
					if strings.Contains(p.desc, "layout") {
						layout = "layout"
					}
					ck.Oracle = &Verdict{OK: false, Class: "writer-failure-swallowed:" + e + ":" + layout, Detail: fmt.Sprintf("writer failed at offset %d of %d but the render returned nil (wrote %d bytes)", k, len(full), wk.written.Len())}
				}
				if k == len(full) && errk != nil {
					// a writer that accepted the whole document did not fail
					ck.Oracle = &Verdict{OK: false, Class: "spurious-writer-error:" + e, Detail: errk.Error()}
				}
				r.Add(ck)
			}
			// 3b. the same for every KIND of error a destination reports, at the first, a middle and the last offset: whatever the error
			//     says, the document did not arrive
			for _, se := range c12SinkErrors {
				for _, k := range []int{0, len(full) / 2, len(full) - 1} {
					if k < 0 || r.FailureTotal() > 200 {
						continue
					}
					wk := &failWriter{failAt: k, err: se.err}
					errk, _ := c12Call(p, e, context.Background(), wk)
					ck := &Case{Name: fmt.Sprintf("%s via %s, writer fails at %d with %s", p.desc, e, k, se.name), Input: map[string]any{"prog": p.desc, "entry": e, "case": "fail-kind", "k": k, "kind": se.name},
						Key: fmt.Sprintf("%s|%s|fail-kind|%d|%s", p.desc, e, k, se.name), Tags: []string{"entry:" + e, "prog:" + p.desc, "kind:fail-kind", "sinkerr:" + se.name}, Oracle: &Verdict{OK: true},
						Impl: map[string]any{"err": errk != nil, "len": wk.written.Len()}}
					if errk == nil {
						ck.Oracle = &Verdict{OK: false, Class: "writer-failure-swallowed:" + e + ":" + se.name, Detail: fmt.Sprintf("writer failed at offset %d of %d with %q but the render returned nil (wrote %d bytes)", k, len(full), se.err, wk.written.Len())}
					}
					r.Add(ck)
				}
			}
			// 3c. the context is cancelled WHILE the document is being delivered (at the destination's first Write): whatever the call answers,
			//     an error never comes with a complete document, and nil never with an incomplete one
			{
				ctxc, cancel := context.WithCancel(context.Background())
				wc := &failWriter{failAt: -1, onWrite: cancel}
				errc, _ := c12Call(p, e, ctxc, wc)
				cancel()
				cc := &Case{Name: fmt.Sprintf("%s via %s, context cancelled at the first write", p.desc, e), Input: map[string]any{"prog": p.desc, "entry": e, "case": "cancel-during"},
					Key: fmt.Sprintf("%s|%s|cancel-during", p.desc, e), Tags: []string{"entry:" + e, "prog:" + p.desc, "kind:cancel-during"}, Oracle: &Verdict{OK: true},
					Impl: map[string]any{"err": errc != nil, "len": wc.written.Len()}}
				if err == nil && errc != nil && wc.written.String() == full && full != "" {
					cc.Oracle = &Verdict{OK: false, Class: "error-with-complete-document:" + e, Detail: fmt.Sprintf("the context was cancelled while the destination received the document; the render returned %q although the destination holds all %d bytes", errc, len(full))}
				}
				if errc == nil && wc.written.String() != full {
					cc.Oracle = &Verdict{OK: false, Class: "writer-failure-swallowed:" + e + ":cancel-during", Detail: fmt.Sprintf("nil with %d of %d bytes", wc.written.Len(), len(full))}
				}
				r.Add(cc)
			}
			// 4. a TRANSIENT failure: exactly one Write call fails (nothing accepted), every other call succeeds. nil must still imply that the
			//    destination received the complete document.
			for i := 1; i <= w.calls; i++ {
				wi := &failWriter{failAt: -1, failCall: i}
				erri, _ := c12Call(p, e, context.Background(), wi)
				ci := &Case{Name: fmt.Sprintf("%s via %s, write call %d of %d fails once", p.desc, e, i, w.calls), Input: map[string]any{"prog": p.desc, "entry": e, "case": "fail-call", "k": i},
					Key: fmt.Sprintf("%s|%s|fail-call|%d", p.desc, e, i), Tags: []string{"entry:" + e, "prog:" + p.desc, "kind:fail-call"}, Oracle: &Verdict{OK: true}, Impl: map[string]any{"err": erri != nil, "len": wi.written.Len()}}
				if erri == nil && wi.written.String() != full {
					ci.Oracle = &Verdict{OK: false, Class: "writer-failure-swallowed:" + e + ":transient", Detail: fmt.Sprintf("write call %d of %d failed, the render returned nil, and the destination holds %d of %d bytes: %q", i, w.calls, wi.written.Len(), len(full), wi.written.String())}
				}
				r.Add(ci)
			}
		}
	}
	r.Res.Exhaustive = true
}
