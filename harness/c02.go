package main

// C02 — rendering is faithful. Streams:
//  render    : generated evaluated DOMs -> real serialiser vs Lean `render` (byte for byte)
//  tokenize  : the serialiser's outputs -> x/net/html tokenizer vs the Lean tokenizer model
//  roundtrip : directive-free sources -> vuego -> parse, compared with parsing the source (direct oracle)
//  interp    : value substituted into text / attribute / v-html -> parsed value equals neighbours ++ string form

import (
	"bytes"
	"context"
	"fmt"
	"math/rand"
	"regexp"
	"strings"

	vuego "github.com/titpetric/vuego"
	"golang.org/x/net/html"
)

func init() { props["C02"] = runC02 }

var domTags = []string{"div", "p", "span", "b", "i", "ul", "li", "a", "br", "img", "input", "hr", "pre", "table", "tr", "td", "section", "h1", "em", "button"}
var domSpecialTags = []string{"template", "script", "style"}
var domAttrNames = []string{"class", "id", "title", "href", "data-x", "alt", "style", "name", "value", "aria-label", "x:y"}
var domDirectiveAttrs = []string{"v-if", "v-for", "v-html", "v-show", "v-once", "v-once-id", "v-keep", "v-pre", "[lit]", "[v-if]", ":bound", "v-bind:x", "@click"}
var hostileStrings = []string{"", "word", "a b", "a < b", "a > b", "x & y", "&amp;", "&lt;b&gt;", "<b>x</b>", `"q"`, "'s'", `"><script>x</script>`, "a;b", "&#39;", "&#", "{{ x }}", "  padded  ", "\n", "line1\nline2", "&copy;", "&amp", "é☃", "</p>", "\u00a0", "\u2003", "\u3000", " \u00a0 ", "\t\n\f ", "\u0085", "\u00a0x", "<!-- c -->", "a&b;c", "1 < 2 && 3 > 2", "a\rb", "\r", "x\r\ny", "a\r&b", "\rlead", "trail\r"}

type domGen struct {
	r       *rand.Rand
	special bool // allow template/script/style, content attributes, directive attributes
	n       int
}

func (g *domGen) str() string {
	if g.r.Intn(4) == 0 {
		var sb strings.Builder
		for k := 1 + g.r.Intn(8); k > 0; k-- {
			sb.WriteString(c01Symbols[g.r.Intn(len(c01Symbols))])
		}
		return sb.String()
	}
	return hostileStrings[g.r.Intn(len(hostileStrings))]
}

func (g *domGen) node(depth int) map[string]any {
	g.n++
	switch x := g.r.Intn(10); {
	case x < 3 || depth > 3:
		d := g.str()
		if g.r.Intn(5) == 0 {
			d = strings.Repeat(" ", g.r.Intn(3)) + strings.Repeat("\n", g.r.Intn(2))
		}
		return map[string]any{"t": "text", "d": d}
	case x == 3 && g.special:
		if g.r.Intn(2) == 0 {
			return map[string]any{"t": "comment", "d": g.str()}
		}
		return map[string]any{"t": "doctype", "d": "html"}
	}
	tag := domTags[g.r.Intn(len(domTags))]
	if g.special && g.r.Intn(6) == 0 {
		tag = domSpecialTags[g.r.Intn(len(domSpecialTags))]
	}
	attrs := []any{}
	for k := g.r.Intn(4); k > 0; k-- {
		name := domAttrNames[g.r.Intn(len(domAttrNames))]
		if g.special && g.r.Intn(3) == 0 {
			name = domDirectiveAttrs[g.r.Intn(len(domDirectiveAttrs))]
		}
		val := g.str()
		if g.r.Intn(8) == 0 {
			val = name // a value spelled like the attribute's name
		}
		attrs = append(attrs, []any{name, val})
	}
	if g.special && g.r.Intn(8) == 0 {
		key := "data-v-html-content"
		if g.r.Intn(2) == 0 {
			key = "data-v-text-content"
		}
		attrs = append(attrs, []any{key, g.str()})
	}
	kids := []any{}
	for k := g.r.Intn(4); k > 0 && g.n < 40; k-- {
		kids = append(kids, g.node(depth+1))
	}
	return map[string]any{"t": "elem", "tag": tag, "attrs": attrs, "kids": kids}
}

func (g *domGen) forest() []any {
	g.n = 0
	out := []any{}
	for k := 1 + g.r.Intn(3); k > 0; k-- {
		out = append(out, g.node(0))
	}
	return out
}

var engineForHooks = vuego.NewVue(nil)

func renderCorrespondenceCase(forest []any, special bool) (*Case, string) {
	nodes := nodesFromJSON(forest)
	out, err := vuego.VerifSerialise(engineForHooks, nodes)
	c := &Case{Name: "render evaluated DOM", Op: true, Input: map[string]any{"op": "render", "nodes": forest}, Impl: out,
		Tags: []string{"stream:render", fmt.Sprintf("special:%v", special)}}
	if err != nil {
		c.Impl = map[string]any{"err": err.Error()}
	}
	if strings.ContainsAny(out, "&<") {
		c.Key = "render:" + out
	}
	return c, out
}

func tokenizeCase(out string) *Case {
	return &Case{Name: "tokenize serialiser output", Op: true, Input: map[string]any{"op": "tokenize", "s": out}, Impl: xnetTokens(out),
		Key: "tok:" + out, Tags: []string{"stream:tokenize"}}
}

// ---------------------------------------------------------------- roundtrip oracle

type srcGen struct {
	r *rand.Rand
	n int
}

var srcBlock = []string{"div", "p", "section", "ul", "h1", "article", "blockquote", "pre"}
var srcInline = []string{"span", "b", "i", "em", "a", "strong", "code"}
var srcVoid = []string{"br", "img", "input", "hr"}
var srcTexts = []string{"word", "two words", "a &lt; b", "x &amp; y", "&quot;q&quot;", "it&#39;s", "&lt;b&gt;bold&lt;/b&gt;", "a &lt; b &amp; c;", "semi; colon", "caf&eacute;", "1 &gt; 0", "&copy; 2024", "tab\there",
	// text that consists of spaces HTML does not collapse (no-break space, em space, ideographic space): content, like any other character
	"&nbsp;", "&#160;", "&emsp;", "\u3000", "&nbsp;&nbsp;", "a&nbsp;b", "&nbsp;x"}
var srcAttrVals = []string{"v", "a b", "a &amp; b", "&quot;q&quot;", "say &quot;hi&quot; &amp; bye", "&lt;tag&gt;", "x=1&amp;y=2", "it&#39;s", "", "  padded  ", "a;b", "&amp;amp;",
	// interior white space is part of the value: runs of blanks, tabs and line breaks, written literally or as character references
	"John  Smith", "dd  mm   yyyy", "line 1&#10;line 2", "a&#9;b", "first line\nsecond line", "a\tb", "x &#32; y", "p1\n\n  p2"}

// attribute names of a directive-free template: plain ones, and names that merely LOOK like template syntax — a namespace or event
// prefix with a colon inside (xml:lang, x-on:click), an at-sign, a dot, a v- prefix that is no vuego directive — all of them are static
var srcAttrNames = []string{"class", "id", "title", "data-x", "alt", "href", "class", "id", "title", "data-x", "alt", "href", "aria-label", "xml:lang", "xlink:href", "x-on:click", "x-bind:hidden", "hx-on:click",
	"@click", "data-a.b", "v-cloak", "v-on:click", "v-model", "on:x", "_k", "x-data"}

func (g *srcGen) attrs() string {
	var sb strings.Builder
	used := map[string]bool{}
	for k := g.r.Intn(3); k > 0; k-- {
		n := srcAttrNames[g.r.Intn(len(srcAttrNames))]
		if used[n] {
			continue
		}
		used[n] = true
		val := srcAttrVals[g.r.Intn(len(srcAttrVals))]
		// one attribute in six has a value that is spelled like its own NAME (name="name", class="Class", the XHTML checked="checked"): a value
		// like any other
		switch g.r.Intn(12) {
		case 0:
			val = n
		case 1:
			val = strings.ToUpper(n[:1]) + n[1:]
		}
		fmt.Fprintf(&sb, ` %s="%s"`, n, val)
	}
	return sb.String()
}

func (g *srcGen) inline(depth int) string {
	g.n++
	switch x := g.r.Intn(6); {
	case x < 3 || depth > 2:
		return srcTexts[g.r.Intn(len(srcTexts))]
	case x == 3:
		return "<" + srcVoid[g.r.Intn(len(srcVoid))] + g.attrs() + ">"
	}
	t := srcInline[g.r.Intn(len(srcInline))]
	var sb strings.Builder
	sb.WriteString("<" + t + g.attrs() + ">")
	for k := g.r.Intn(3); k > 0; k-- {
		sb.WriteString(g.inline(depth + 1))
		if g.r.Intn(2) == 0 {
			sb.WriteString(" ")
		}
	}
	sb.WriteString("</" + t + ">")
	return sb.String()
}

// text of an escapable raw-text element (textarea, title): character references are decoded there, markup is not
var srcRcdata = []string{"plain", "a &amp; b", "write &amp;lt; for less-than", "type &amp;copy; for the sign", "&lt;b&gt;not bold&lt;/b&gt;", "close with &lt;/textarea&gt; please", "Q&amp;amp;A", "x &lt; y &gt; z", "&quot;q&quot; &#39;s&#39;", "<b>raw tag text</b>"}

func (g *srcGen) block(depth int) string {
	g.n++
	if g.r.Intn(12) == 0 {
		return `<textarea name="t">` + srcRcdata[g.r.Intn(len(srcRcdata))] + `</textarea>`
	}
	t := srcBlock[g.r.Intn(len(srcBlock))]
	var sb strings.Builder
	sb.WriteString("<" + t + g.attrs() + ">")
	switch {
	case t == "ul":
		for k := 1 + g.r.Intn(3); k > 0; k-- {
			sb.WriteString("<li" + g.attrs() + ">" + g.inline(depth+1) + "</li>")
		}
	case t == "p" || t == "h1" || t == "pre" || depth > 1:
		for k := g.r.Intn(4); k > 0; k-- {
			sb.WriteString(g.inline(depth + 1))
			if g.r.Intn(2) == 0 {
				sb.WriteString(" ")
			}
		}
	default:
		for k := g.r.Intn(3); k > 0 && g.n < 25; k-- {
			if g.r.Intn(3) == 0 {
				sb.WriteString(g.inline(depth + 1))
			} else {
				sb.WriteString(g.block(depth + 1))
			}
		}
	}
	sb.WriteString("</" + t + ">")
	return sb.String()
}

func (g *srcGen) table() string {
	var sb strings.Builder
	sb.WriteString("<table><tbody>")
	for r := 1 + g.r.Intn(2); r > 0; r-- {
		sb.WriteString("<tr>")
		for c := 1 + g.r.Intn(3); c > 0; c-- {
			sb.WriteString("<td" + g.attrs() + ">" + g.inline(2) + "</td>")
		}
		sb.WriteString("</tr>")
	}
	sb.WriteString("</tbody></table>")
	return sb.String()
}

func (g *srcGen) fragment() string {
	g.n = 0
	var sb strings.Builder
	for k := 1 + g.r.Intn(3); k > 0; k-- {
		if g.r.Intn(8) == 0 {
			sb.WriteString(g.table())
		} else {
			sb.WriteString(g.block(0))
		}
	}
	return sb.String()
}

// c02Lorem: n bytes of words (no markup, no character that needs escaping)
func c02Lorem(n int) string {
	words := []string{"lorem", "ipsum", "dolor", "sit", "amet", "consectetur", "adipiscing", "elit", "sed", "do"}
	var b strings.Builder
	for i := 0; b.Len() < n; i++ {
		if i > 0 {
			b.WriteByte(' ')
		}
		b.WriteString(words[i%len(words)])
	}
	return b.String()[:n]
}

var wsRe = regexp.MustCompile(`\s+`)

// normText: runs of ASCII white space (what HTML collapses) become one blank, ASCII white space at the ends goes; every other character -
// the no-break space and the other Unicode spaces included - is content
func normText(s string) string { return strings.Trim(wsRe.ReplaceAllString(s, " "), " \t\n\r\f") }

// canonTree: elements, attribute names and (trimmed) values, non-whitespace text runs, doctype; comments dropped.
func canonTree(nodes []*html.Node) []any {
	var out []any
	var walk func(n *html.Node) any
	walk = func(n *html.Node) any {
		switch n.Type {
		case html.TextNode:
			t := normText(n.Data)
			if t == "" {
				return nil
			}
			return "T:" + t
		case html.DoctypeNode:
			return "DOCTYPE:" + n.Data
		case html.ElementNode:
			var attrs []string
			for _, a := range n.Attr {
				attrs = append(attrs, a.Key+"="+strings.TrimSpace(a.Val))
			}
			kids := []any{}
			pendingText := ""
			for c := n.FirstChild; c != nil; c = c.NextSibling {
				if c.Type == html.TextNode {
					pendingText += c.Data
					continue
				}
				if t := normText(pendingText); t != "" {
					kids = append(kids, "T:"+t)
				}
				pendingText = ""
				if k := walk(c); k != nil {
					kids = append(kids, k)
				}
			}
			if t := normText(pendingText); t != "" {
				kids = append(kids, "T:"+t)
			}
			return map[string]any{"e": n.Data, "a": attrs, "k": kids}
		case html.DocumentNode:
			kids := []any{}
			for c := n.FirstChild; c != nil; c = c.NextSibling {
				if k := walk(c); k != nil {
					kids = append(kids, k)
				}
			}
			return map[string]any{"doc": kids}
		}
		return nil
	}
	for _, n := range nodes {
		if k := walk(n); k != nil {
			out = append(out, k)
		}
	}
	return out
}

func referenceParse(src string, document bool) []*html.Node {
	if !document {
		return parseFragment(src)
	}
	doc, err := html.Parse(strings.NewReader(src))
	if err != nil {
		return nil
	}
	var out []*html.Node
	for c := doc.FirstChild; c != nil; c = c.NextSibling {
		out = append(out, c)
	}
	return out
}

func parseLikeVuego(src string) []*html.Node {
	ns, _ := vuego.VerifParseTemplateBytes([]byte(src))
	return ns
}

func roundtripCase(src string, viaFile bool) *Case {
	c := &Case{Name: "roundtrip", Input: map[string]any{"stream": "roundtrip", "src": src, "file": viaFile}, Tags: []string{"stream:roundtrip"}, Key: "rt:" + src}
	var out string
	var errs string
	if viaFile {
		res := renderPage(map[string]string{"page.vuego": src}, "page.vuego", map[string]any{})
		out, errs = res.Out, res.Err+res.Panic
	} else {
		var buf bytes.Buffer
		err := vuego.New().RenderString(context.Background(), &buf, src)
		out = buf.String()
		if err != nil {
			errs = err.Error()
		}
	}
	c.Impl = out
	v := &Verdict{OK: true}
	c.Oracle = v
	if errs != "" {
		v.OK, v.Class, v.Detail = false, "roundtrip-render-error", errs
		return c
	}
	// the reference parse is an HTML5 parser used independently of the library's own choice between document and fragment parsing:
	// a source with an </html> end tag is a document (the documented rule), anything else a fragment in a <body>
	want := canonTree(referenceParse(src, strings.Contains(src, "</html>")))
	got := canonTree(referenceParse(out, strings.Contains(src, "</html>")))
	if !jsonEq(want, got) {
		v.OK = false
		v.Class = "roundtrip-differs"
		ws, gs := jstr(want), jstr(got)
		switch {
		case strings.Contains(ws, "DOCTYPE") && !strings.Contains(gs, "DOCTYPE"):
			v.Class = "doctype-dropped"
		case strings.Count(gs, `"e":"br"`) > strings.Count(ws, `"e":"br"`):
			v.Class = "void-br-end-tag"
		}
		v.Detail = fmt.Sprintf("source %q\n parses to %s\n output %q\n parses to %s", src, ws, out, gs)
	}
	return c
}

// typed values for the interpolation stream: "the value's string form" is fmt's default form of the value, whatever its Go type
type c02Typed struct {
	name string
	v    any
}

func c02TypedVals() []c02Typed {
	type label string
	return []c02Typed{{"int", 42}, {"int-neg", -7}, {"int8", int8(-8)}, {"int16", int16(300)}, {"int32", int32(-70000)}, {"int64", int64(1) << 40}, {"uint", uint(3)}, {"uint8", uint8(200)},
		{"uint16", uint16(65535)}, {"uint32", uint32(4000000000)}, {"uint64", uint64(1) << 63}, {"bool-true", true},
		{"f32-0.1", float32(0.1)}, {"f32-19.99", float32(19.99)}, {"f32-4.35", float32(4.35)}, {"f32-0.5", float32(0.5)}, {"f32-1e10", float32(1e10)}, {"f32-3.14", float32(3.14)},
		{"f64-0.1", 0.1}, {"f64-19.99", 19.99}, {"f64-1e21", 1e21}, {"f64-1e-7", 1e-7}, {"f64-2.50", 2.50}, {"f64-neg", -0.75}, {"f64-third", 1.0 / 3.0}, {"f64-big", 123456789.125},
		{"named-string", label("lbl")}, {"bytes-as-list", []int{1, 2, 3}}, {"strings", []string{"a", "b"}}, {"map", map[string]int{"k": 1}}, {"rune", 'x'}}
}

func interpTypedCase(kind string, t c02Typed) *Case {
	c := interpCaseV(kind, "price: ", t.v, fmt.Sprint(t.v), " EUR")
	c.Name = "interp-typed " + kind + " " + t.name
	c.Input = map[string]any{"stream": "interp-typed", "kind": kind, "typed": t.name}
	c.Tags = []string{"stream:interp-typed", "interp:" + kind}
	c.Key = "typed|" + kind + "|" + t.name
	return c
}

func interpCase(kind, pre, val, post string) *Case {
	return interpCaseV(kind, pre, val, val, post)
}

// interpCaseV: `data` is what the template sees as v, `val` its string form
func interpCaseV(kind, pre string, data any, val string, post string) *Case {
	c := &Case{Name: "interp " + kind, Input: map[string]any{"stream": "interp", "kind": kind, "pre": pre, "val": val, "post": post}, Tags: []string{"stream:interp", "interp:" + kind}, Key: kind + pre + val + post}
	var src string
	switch kind {
	case "text":
		src = "<p>" + pre + "{{ v }}" + post + "</p>"
	case "attr":
		src = `<p title="` + pre + `{{ v }}` + post + `">t</p>`
	case "bound":
		src = `<p :title="v">t</p>`
	case "vhtml":
		src = `<div v-html="v"></div>`
	case "vhtml-nested":
		// the carrying element sits three levels deep: what the serialiser does to lay nested elements out must not reach into the value
		src = `<article><section><div v-html="v"></div></section></article>`
	case "vtext-nested":
		src = `<article><section><pre v-text="v"></pre></section></article>`
	case "tplvhtml":
		// the documented <template v-html> form (the node is evaluated in place), followed by an interpolated sibling
		src = `<div><template v-html="v"></template><p>` + pre + `{{ v }}` + post + `</p></div>`
	case "textarea":
		src = `<div><textarea name="t">` + pre + `{{ v }}` + post + `</textarea></div>`
	case "title":
		src = `<div><title>` + pre + `{{ v }}` + post + `</title></div>`
	}
	// every third case is preceded by renders that FAIL in the middle of an interpolation (text and attribute): what a failed render
	// leaves behind in process-wide state (pooled buffers) must not show in the next one
	if len(val)%3 == 0 {
		renderPage(map[string]string{"page.vuego": `<p title="STALE-ATTR {{ v | nosuchfilter }}">STALE-TEXT {{ v | nosuchfilter }} tail</p>`}, "page.vuego", map[string]any{"v": val})
		renderPage(map[string]string{"page.vuego": `<p>STALE-TEXT {{ v | nosuchfilter }}</p>`}, "page.vuego", map[string]any{"v": val})
	}
	res := renderPage(map[string]string{"page.vuego": src}, "page.vuego", map[string]any{"v": data})
	if kind == "tplvhtml" {
		// … rendered on an engine that has rendered the same page before, with another value, through the cached entry point
		res = renderPageAfter(map[string]string{"page.vuego": src}, "page.vuego", map[string]any{"v": "<em>EARLIER</em> value"}, map[string]any{"v": data}, len(val)%2 == 0)
	}
	c.Impl = res.canon()
	v := &Verdict{OK: true}
	c.Oracle = v
	if res.Err != "" || res.Panic != "" || res.Timeout {
		v.OK, v.Class, v.Detail = false, "interp-render-error:"+kind, fmt.Sprintf("%+v", res)
		return c
	}
	// static neighbours as the parser decodes them
	dec := func(s string) string { return html.UnescapeString(s) }
	nodes := parseFragment(res.Out)
	var p *html.Node
	var find func(n *html.Node)
	find = func(n *html.Node) {
		if p == nil && n.Type == html.ElementNode && (n.Data == "p" || n.Data == "div" || n.Data == "pre") {
			p = n
		}
		for c := n.FirstChild; c != nil; c = c.NextSibling {
			find(c)
		}
	}
	for _, n := range nodes {
		find(n)
	}
	if p == nil {
		v.OK, v.Class, v.Detail = false, "interp-element-lost:"+kind, res.Out
		return c
	}
	switch kind {
	case "textarea", "title":
		// the element holds exactly one text node with the decoded neighbours around the value, and nothing follows it inside the div
		var host *html.Node
		for ch := p.FirstChild; ch != nil; ch = ch.NextSibling {
			if ch.Type == html.ElementNode && ch.Data == kind && host == nil {
				host = ch
			} else if ch.Type == html.ElementNode || (ch.Type == html.TextNode && strings.TrimSpace(ch.Data) != "") {
				v.OK, v.Class, v.Detail = false, "interp-text-value:"+kind, fmt.Sprintf("the value escaped from <%s>: %q", kind, res.Out)
				return c
			}
		}
		got := ""
		if host != nil && host.FirstChild != nil {
			got = host.FirstChild.Data
		}
		if host == nil || normText(got) != normText(dec(pre)+val+dec(post)) {
			v.OK, v.Class = false, "interp-text-value:"+kind
			v.Detail = fmt.Sprintf("<%s> text %q, expected %q; output %q", kind, got, dec(pre)+val+dec(post), res.Out)
		}
	case "text":
		var sb strings.Builder
		for ch := p.FirstChild; ch != nil; ch = ch.NextSibling {
			if ch.Type == html.TextNode {
				sb.WriteString(ch.Data)
			}
		}
		if p.FirstChild != nil && p.FirstChild.NextSibling != nil || normText(sb.String()) != normText(dec(pre)+val+dec(post)) {
			v.OK, v.Class = false, "interp-text-value"
			v.Detail = fmt.Sprintf("text %q, expected %q; output %q", sb.String(), dec(pre)+val+dec(post), res.Out)
		}
	case "attr", "bound":
		// the template's attribute text is trimmed, then the value is substituted; values are compared trimmed (DESIGN §5.0)
		want := strings.Replace(strings.TrimSpace(dec(pre)+"\x00"+dec(post)), "\x00", val, 1)
		if kind == "bound" {
			want = val
		}
		got := ""
		has := false
		for _, a := range p.Attr {
			if a.Key == "title" {
				got, has = a.Val, true
			}
		}
		if kind == "bound" && !c03Documented(data) {
			if has {
				v.OK, v.Class, v.Detail = false, "interp-bound-falsy-emitted", res.Out
			}
		} else if strings.TrimSpace(got) != strings.TrimSpace(want) {
			v.OK, v.Class = false, "interp-attr-value:"+kind
			v.Detail = fmt.Sprintf("title %q, expected %q; output %q", got, want, res.Out)
		}
	case "tplvhtml":
		if strings.Contains(res.Out, "EARLIER") {
			v.OK, v.Class, v.Detail = false, "interp-shows-earlier-render:tplvhtml", fmt.Sprintf("the page was rendered before with another value, which shows again: %q", res.Out)
		} else if val != "" && !strings.Contains(res.Out, strings.TrimSpace(val)) {
			v.OK, v.Class, v.Detail = false, "vhtml-not-verbatim:tplvhtml", fmt.Sprintf("value %q not found verbatim in %q", val, res.Out)
		}
	case "vtext-nested":
		// the parsed <pre> holds the value as text, line breaks and indentation included (the parser drops one newline right after <pre>)
		var pre *html.Node
		var fp func(n *html.Node)
		fp = func(n *html.Node) {
			if pre == nil && n.Type == html.ElementNode && n.Data == "pre" {
				pre = n
			}
			for c := n.FirstChild; c != nil; c = c.NextSibling {
				fp(c)
			}
		}
		for _, n := range nodes {
			fp(n)
		}
		got := ""
		if pre != nil {
			for ch := pre.FirstChild; ch != nil; ch = ch.NextSibling {
				if ch.Type == html.TextNode {
					got += ch.Data
				}
			}
		}
		norm := func(x string) string { return strings.TrimPrefix(strings.ReplaceAll(x, "\r", ""), "\n") }
		same := norm(got) == norm(val)
		if !strings.Contains(strings.TrimSpace(val), "\n") {
			same = same || strings.TrimSpace(got) == strings.TrimSpace(val) // one-line values: edge white space is the layout's
		}
		if pre == nil || (pre.FirstChild != nil && pre.FirstChild.NextSibling != nil) || !same {
			v.OK, v.Class, v.Detail = false, "interp-text-value:vtext-nested", fmt.Sprintf("<pre v-text> text %q, expected %q; output %q", got, val, res.Out)
		}
	case "vhtml", "vhtml-nested":
		if val != "" && !strings.Contains(res.Out, val) {
			v.OK, v.Class, v.Detail = false, "vhtml-not-verbatim", fmt.Sprintf("value %q not found verbatim in %q", val, res.Out)
			if strings.Contains(res.Out, strings.TrimSpace(val)) {
				v.Class = "vhtml-edge-whitespace-trimmed"
			}
		}
	}
	return c
}

func runC02(r *Run, replay *Case) {
	if replay != nil {
		switch {
		case replay.Input["op"] == "render":
			c, _ := renderCorrespondenceCase(replay.Input["nodes"].([]any), true)
			r.Add(c)
		case replay.Input["op"] == "tokenize":
			r.Add(tokenizeCase(replay.Input["s"].(string)))
		case replay.Input["stream"] == "roundtrip":
			r.Add(roundtripCase(replay.Input["src"].(string), replay.Input["file"] == true))
		case replay.Input["stream"] == "interp-typed":
			for _, t := range c02TypedVals() {
				if t.name == replay.Input["typed"] {
					r.Add(interpTypedCase(replay.Input["kind"].(string), t))
				}
			}
		case replay.Input["stream"] == "interp":
			r.Add(interpCase(replay.Input["kind"].(string), replay.Input["pre"].(string), replay.Input["val"].(string), replay.Input["post"].(string)))
		}
		return
	}
	r.Res.Rule = "render: random evaluated DOMs <= 40 nodes over a 23-tag vocabulary with hostile strings, directive attributes, template/script/style, content attributes; " +
		"tokenize: every output of the plain sub-stream; roundtrip: generated parser-stable fragments and documents (block/inline/void/table, character references in text and attributes); " +
		"interp: neighbours x values; non-trivial = output/source contains a character reference or markup-significant character; distinct by content"
	renderStreams(r, 1500, 25000)
	nRT := 1500
	if r.Thorough() {
		nRT = 30000
	}
	// corpus first
	for _, src := range []string{
		"<p>a &lt; b &amp; c;</p>", `<p title="say &quot;hi&quot; &amp; bye">x</p>`, "<p>line<br>break</p>", "<img alt=\"a\"><hr><input value=\"&lt;\">",
		"<!DOCTYPE html><html><head><title>t</title></head><body><p>x</p></body></html>", "<pre>  keep\n  this </pre>", "<ul><li>a</li><li>b &amp; c</li></ul>",
	} {
		r.Add(roundtripCase(src, true))
		r.Add(roundtripCase(src, false))
	}
	// LONG pieces: one text node, one attribute value, one start tag of several kilobytes (whatever buffering sits between the serialiser and
	// the destination, the pieces arrive in the order they were written)
	for _, n := range []int{4000, 4095, 4096, 4097, 5000, 9000, 20000} {
		for _, src := range []string{
			`<div class="post"><h1>Title</h1><p>` + c02Lorem(n) + `</p><footer>end</footer></div>`,
			`<div><p title="` + c02Lorem(n) + `">x</p><i>after</i></div>`,
			"<!DOCTYPE html><html><head><title>t</title></head><body><h1>Title</h1><p>" + c02Lorem(n) + "</p><p>tail</p></body></html>",
		} {
			r.Add(roundtripCase(src, true))
			r.Add(roundtripCase(src, false))
		}
	}
	g := &srcGen{r: r.Rng}
	for i := 0; i < nRT; i++ {
		src := g.fragment()
		if i%10 == 0 {
			title := strings.ReplaceAll(srcRcdata[g.r.Intn(len(srcRcdata))], "textarea", "title")
			src = "<!DOCTYPE html><html><head><title>" + title + "</title></head><body>" + src + "</body></html>"
		}
		if i%40 == 0 {
			// documents whose root elements carry attributes, and documents followed by something after </html>
			tails := []string{"", "\n", "\n<!-- rendered by vuego -->", "<!-- a --><!-- b -->\n"}
			src = "<!DOCTYPE html>\n<html lang=\"en\">\n<head><meta charset=\"utf-8\"><title>t &amp; u</title></head>\n<body class=\"home\" data-x=\"1\">" + g.fragment() + "</body>\n</html>" + tails[(i/40)%len(tails)]
		}
		r.Add(roundtripCase(src, i%2 == 0))
	}
	vals := append([]string{}, hostileStrings...)
	nbs := []c01Nb{{"plain", "a ", " b"}, {"none", "", ""}, {"entity", "a &amp; b; ", " c"}, {"lt", "&lt;b&gt; ", " &lt;/b&gt;"}, {"quote", "say &quot;hi&quot; ", " &#39;x&#39;"},
		// a static brace directly after the placeholder's closing braces (the last member of an object literal, the last declaration of a rule)
		{"brace-after", "{n:", "}"}, {"brace-after-semi", ".b{color:", "};"}}
	vals = append(vals, "</textarea><b>x</b>", "</title><meta name=x>", "Q&amp;A", "&lt;")
	// values of several lines: their line breaks and the indentation of their continuation lines are part of the value
	vals = append(vals, c02Lorem(4096), c02Lorem(5000), "<b>"+c02Lorem(9000)+"</b>")
	vals = append(vals, "<pre>if x {\n\treturn\n}</pre>", "line one\nline two\n  indented three", "<ul>\n<li>a</li>\n</ul>", "a\n\nb", "<textarea>x\ny</textarea>")
	for _, kind := range []string{"text", "attr", "bound", "vhtml", "textarea", "title", "tplvhtml", "vhtml-nested", "vtext-nested"} {
		for _, nb := range nbs {
			for _, v := range vals {
				r.Add(interpCase(kind, nb.pre, v, nb.post))
			}
		}
		// values that are not strings: the string form is fmt's, whatever the Go type (widths, float32, named types, lists)
		for _, t := range c02TypedVals() {
			r.Add(interpTypedCase(kind, t))
		}
	}
}

// renderStreams is shared with C01 and C14: the tie of the serialiser model and of the tokenizer model.
func renderStreams(r *Run, quickN, thoroughN int) {
	n := quickN
	if r.Thorough() {
		n = thoroughN
	}
	gp := &domGen{r: r.Rng, special: false}
	gs := &domGen{r: r.Rng, special: true}
	for i := 0; i < n; i++ {
		if i%2 == 0 {
			c, out := renderCorrespondenceCase(gp.forest(), false)
			r.Add(c)
			if !strings.Contains(out, "<pre") || true {
				r.Add(tokenizeCase(out))
			}
		} else {
			c, _ := renderCorrespondenceCase(gs.forest(), true)
			r.Add(c)
		}
	}
}
