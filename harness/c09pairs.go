//go:build verif

package main

import (
	"fmt"
	"runtime"
	"strings"
	"sync"
)

// c09PairWorkload: the mixed workload spreads its calls over the whole catalogue, so two particular programs meet only now and then. Here
// every PAIR of the programs that keep per-render state in scopes, slots and bookkeeping maps (layout slots, loops, nested includes,
// v-once, chains, map-bound attributes) has one engine to itself: every goroutine renders the one and the other in turn, out of step with its neighbours, and
// every result is compared with the same call run alone. State that one render leaves where another render finds it - a recycled scope, a
// shared slot table - shows as cross-talk here, and as a report in the race build.
func c09PairWorkload(r *Run, rounds int) (calls int, mismatches []string) {
	focus := []string{"slotpage", "loop", "nest", "inc", "once", "chain", "layouted", "map"}
	byName := map[string]c10Prog{}
	for _, p := range c10Progs() {
		byName[p.name] = p
	}
	n := runtime.NumCPU()
	if n > 16 {
		n = 16
	}
	if n < 4 {
		n = 4
	}
	var mu sync.Mutex
	for i := 0; i < len(focus); i++ {
		for j := i + 1; j < len(focus); j++ {
			pa, okA := byName[focus[i]+"/0"]
			pb, okB := byName[focus[j]+"/1"]
			if !okA || !okB {
				continue
			}
			base := c10Engine(&lockedFS{m: c10FS()})
			var want [2][2]any
			for k, p := range []c10Prog{pa, pb} {
				out, e := c09Do(c10Engine(&lockedFS{m: c10FS()}), c09Call{kind: "render", prog: p}, nil)
				want[k] = [2]any{out, e}
			}
			var wg sync.WaitGroup
			for g := 0; g < n; g++ {
				wg.Add(1)
				go func(g int) {
					defer wg.Done()
					for it := 0; it < rounds; it++ {
						// every goroutine ALTERNATES between the two programs (what one render hands back to a pool or a cache, the next render
						// on the same processor picks up), and the goroutines are out of step with one another
						k := (g + it) % 2
						p := []c10Prog{pa, pb}[k]
						out, e := c09Do(base, c09Call{kind: "render", prog: p}, nil)
						mu.Lock()
						calls++
						if out != want[k][0] || e != want[k][1] {
							if len(mismatches) < 20 {
								mismatches = append(mismatches, fmt.Sprintf("pair %s + %s: %s gave %q/%v, alone %q/%v", pa.name, pb.name, p.name, tail(out, 300), e, tail(fmt.Sprint(want[k][0]), 300), want[k][1]))
							}
						}
						mu.Unlock()
					}
				}(g)
			}
			wg.Wait()
		}
	}
	_ = strings.TrimSpace
	return calls, mismatches
}
