package main

// C01 — data values are inert. Direct oracle: render a template with a hostile value and with a harmless word at the same
// sink; an HTML5 parser (x/net/html) must find the same elements and attribute names; a canary bound elsewhere in scope
// must never appear (mustache syntax inside data is never evaluated).

import (
	"encoding/json"
	"fmt"
	"strings"
)

func init() { props["C01"] = runC01 }

const c01Canary = "CANARY7391"

type c01Sink struct {
	name string
	// tpl builds the sink with static neighbours pre/post (already HTML source) around the value bound to variable `x`
	tpl func(pre, post string) string
	// attrSink: neighbours are attribute text, else element text
	attr bool
}

var c01Sinks = []c01Sink{
	{"text", func(pre, post string) string { return "<p>" + pre + "{{ x }}" + post + "</p>" }, false},
	{"vtext", func(pre, post string) string { return `<p v-text="x">old</p>` }, false},
	// escaped sinks fed by a filter pipeline or a function call instead of a plain variable path (a different branch of every directive)
	{"vtext-pipe", func(pre, post string) string { return `<p v-text="x | trim">old</p>` }, false},
	{"vtext-call", func(pre, post string) string { return `<p v-text="trim(x)">old</p>` }, false},
	{"vtext-default", func(pre, post string) string { return `<p v-text="nope | default(x)">old</p>` }, false},
	{"text-pipe", func(pre, post string) string { return "<p>" + pre + "{{ x | trim }}" + post + "</p>" }, false},
	{"attr-bound-pipe", func(pre, post string) string { return `<p :title="x | default('zz')">t</p>` }, true},
	{"attr-interp-pipe", func(pre, post string) string {
		return `<p title="` + pre + `{{ nope | default(x) }}` + post + `">t</p>`
	}, true},
	{"attr-interp", func(pre, post string) string { return `<p title="` + pre + `{{ x }}` + post + `">t</p>` }, true},
	// the SAME placeholder several times in one text run / one attribute value (each occurrence is the value, written once more)
	{"text-repeated", func(pre, post string) string { return "<p>" + pre + "{{ x }}" + post + "</p><q>{{ x }} wrote: {{ x }} ({{ x }})</q>" }, false},
	// a text sink that is NOT the first text of its element after evaluation: it stands in an unwrapped <template v-if> / <template v-for>
	// behind static text, so the element ends up with a RUN of text nodes
	{"text-in-template-run", func(pre, post string) string {
		return "<p>" + pre + `<template v-if="t">{{ x }}</template>` + post + `</p><q>Hello, <template v-if="t">{{ x }}</template></q><s>go <template v-for="y in items">{{ y }} </template>end</s>`
	}, false},
	{"attr-repeated", func(pre, post string) string {
		return `<p title="` + pre + `{{ x }}` + post + `">t</p><a class="btn-{{ x }} icon-{{ x }}" data-k="{{ kk }}-{{ kk }}">l</a>`
	}, true},
	{"attr-bound", func(pre, post string) string { return `<p :title="x">t</p>` }, true},
	{"attr-bound-interp", func(pre, post string) string { return `<p :title="` + pre + `{{ x }}` + post + `">t</p>` }, true},
	// attribute NAMES other than title (the serialiser treats every name alike): data-*, href, value, alt; values that are JSON documents
	{"attr-data-interp", func(pre, post string) string { return `<p data-x="` + pre + `{{ x }}` + post + `">t</p>` }, true},
	{"attr-data-bound", func(pre, post string) string { return `<p :data-props="x" :data-i="kk">t</p>` }, true},
	{"attr-data-json-pipe", func(pre, post string) string { return `<p data-rows='{{ rows | json }}' data-x="{{ x | json }}">t</p>` }, true},
	{"attr-href-value-bound", func(pre, post string) string {
		return `<p><a :href="x" alt="` + pre + `{{ x }}` + post + `">l</a><input :value="x" :placeholder="x"></p>`
	}, true},
	{"class-bound", func(pre, post string) string { return `<p class="c" :class="x">t</p>` }, true},
	// a bound value MERGED into a static attribute that itself contains a mustache (class and style are merged, not replaced)
	{"class-interp-bound", func(pre, post string) string { return `<p class="c {{ kk }}" :class="x">t</p>` }, true},
	{"style-interp-bound", func(pre, post string) string { return `<p style="color: {{ kk }}" :style="x">t</p>` }, true},
	{"class-interp-bound-object", func(pre, post string) string { return `<p class="{{ kk }}" :class="{on: x}" :title="x">t</p>` }, true},
	// text sinks inside elements whose content an HTML parser reads as raw text or RCDATA: only script and style bodies are exempt from the property
	{"text-noscript", func(pre, post string) string { return "<p>a</p><noscript>" + pre + "{{ x }}" + post + "</noscript>" }, false},
	{"text-iframe", func(pre, post string) string { return "<p>a</p><iframe>" + pre + "{{ x }}" + post + "</iframe>" }, false},
	{"text-xmp", func(pre, post string) string { return "<p>a</p><xmp>" + pre + "{{ x }}" + post + "</xmp>" }, false},
	{"text-textarea", func(pre, post string) string { return "<p>a</p><textarea>" + pre + "{{ x }}" + post + "</textarea>" }, false},
	{"text-title", func(pre, post string) string { return "<p>a</p><title>" + pre + "{{ x }}" + post + "</title>" }, false},
	{"attr-in-noscript", func(pre, post string) string {
		return `<p>a</p><noscript><img alt="` + pre + `{{ x }}` + post + `"></noscript>`
	}, true},
}

type c01Nb struct{ name, pre, post string }

var c01TextNbs = []c01Nb{
	{"plain", "a ", " b"}, {"none", "", ""}, {"entity", "a &amp; b; ", " c"}, {"lt", "&lt;b&gt; ", " &lt;/b&gt;"}, {"quote", `say "hi" `, ` 'x'`}, {"semi", "x; ", " &amp; y"},
}
var c01AttrNbs = []c01Nb{
	{"plain", "a ", " b"}, {"none", "", ""}, {"entity", "a &amp; b ", " c"}, {"ltent", "&lt;b&gt; ", ""}, {"quote", "say &quot;hi&quot; ", " 'x'"}, {"numref", "&#39;q&#39; ", ""},
}

type c01Construct struct {
	name string
	// wrap returns the file set and the data, given the sink markup (which reads variable x) and the value
	wrap func(sink string, v any) (map[string]string, map[string]any)
}

func c01Data(v any) map[string]any {
	return map[string]any{"x": v, "kk": "kv", "secret": c01Canary, "t": true, "items": []any{v}, "rows": []any{map[string]any{"x": v}}}
}

var c01Constructs = []c01Construct{
	{"top", func(s string, v any) (map[string]string, map[string]any) {
		return map[string]string{"page.vuego": "<div>" + s + "</div>"}, c01Data(v)
	}},
	{"vif", func(s string, v any) (map[string]string, map[string]any) {
		return map[string]string{"page.vuego": `<div v-if="t">` + s + `</div><div v-else>no</div>`}, c01Data(v)
	}},
	{"vfor-child", func(s string, v any) (map[string]string, map[string]any) {
		return map[string]string{"page.vuego": `<ul><li v-for="x in items">` + s + `</li></ul>`}, c01Data(v)
	}},
	{"vfor-root", func(s string, v any) (map[string]string, map[string]any) {
		// the sink element itself carries v-for
		return map[string]string{"page.vuego": strings.Replace(s, "<p", `<p v-for="x in items"`, 1)}, c01Data(v)
	}},
	// the sink element carries a v-for whose variables the sink does NOT mention (the sink's expression is invariant over the loop)
	{"vfor-root-invariant", func(s string, v any) (map[string]string, map[string]any) {
		return map[string]string{"page.vuego": strings.Replace(s, "<p", `<p v-for="q in rows"`, 1)}, c01Data(v)
	}},
	{"vfor-root-invariant-index", func(s string, v any) (map[string]string, map[string]any) {
		return map[string]string{"page.vuego": `<ul>` + strings.Replace(s, "<p", `<p v-for="(i, q) in items" :data-i="i"`, 1) + `</ul>`}, c01Data(v)
	}},
	// the sink element ITSELF is a member of a conditional chain (evaluated by evaluateNodeAsElement, a second copy of the directive sequence)
	{"vif-root", func(s string, v any) (map[string]string, map[string]any) {
		return map[string]string{"page.vuego": strings.Replace(s, "<p", `<p v-if="t"`, 1) + `<i v-else>no</i>`}, c01Data(v)
	}},
	{"velseif-root", func(s string, v any) (map[string]string, map[string]any) {
		return map[string]string{"page.vuego": `<i v-if="none">n</i>` + strings.Replace(s, "<p", `<p v-else-if="t"`, 1) + `<i v-else>no</i>`}, c01Data(v)
	}},
	{"velse-root", func(s string, v any) (map[string]string, map[string]any) {
		return map[string]string{"page.vuego": `<i v-if="none">n</i>` + strings.Replace(s, "<p", `<p v-else`, 1)}, c01Data(v)
	}},
	{"forelse-root", func(s string, v any) (map[string]string, map[string]any) {
		return map[string]string{"page.vuego": `<i v-for="q in none">q</i>` + strings.Replace(s, "<p", `<p v-else`, 1)}, c01Data(v)
	}},
	{"vfor-else", func(s string, v any) (map[string]string, map[string]any) {
		return map[string]string{"page.vuego": `<i v-for="q in none">q</i>` + strings.Replace(s, "<p", `<p v-else v-for="x in items"`, 1)}, c01Data(v)
	}},
	{"include-bound", func(s string, v any) (map[string]string, map[string]any) {
		d := c01Data(v)
		d["y"] = v
		delete(d, "x")
		return map[string]string{"page.vuego": `<template include="comp.vuego" :x="y"></template>`, "comp.vuego": "<section>" + s + "</section>"}, d
	}},
	{"include-interp", func(s string, v any) (map[string]string, map[string]any) {
		d := c01Data(v)
		d["y"] = v
		delete(d, "x")
		return map[string]string{"page.vuego": `<template include="comp.vuego" x="{{ y }}"></template>`, "comp.vuego": "<section>" + s + "</section>"}, d
	}},
	// the include tag is itself a member of a conditional chain (it takes the chain walker's path to evalTemplate)
	{"include-interp-vif", func(s string, v any) (map[string]string, map[string]any) {
		d := c01Data(v)
		d["y"] = v
		delete(d, "x")
		return map[string]string{"page.vuego": `<template v-if="t" include="comp.vuego" x="{{ y }}"></template><i v-else>no</i>`, "comp.vuego": "<section>" + s + "</section>"}, d
	}},
	{"include-interp-velse", func(s string, v any) (map[string]string, map[string]any) {
		d := c01Data(v)
		d["y"] = v
		delete(d, "x")
		return map[string]string{"page.vuego": `<i v-if="none">n</i><template v-else include="comp.vuego" x="{{ y }}"></template>`, "comp.vuego": "<section>" + s + "</section>"}, d
	}},
	{"include-bound-velseif", func(s string, v any) (map[string]string, map[string]any) {
		d := c01Data(v)
		d["y"] = v
		delete(d, "x")
		return map[string]string{"page.vuego": `<i v-if="none">n</i><template v-else-if="t" include="comp.vuego" :x="y"></template>`, "comp.vuego": "<section>" + s + "</section>"}, d
	}},
	// the component file has FRONT-MATTER of its own (merged over the props it was included with)
	{"include-bound-fm", func(s string, v any) (map[string]string, map[string]any) {
		d := c01Data(v)
		d["y"] = v
		delete(d, "x")
		return map[string]string{"page.vuego": `<template include="comp.vuego" :x="y"></template>`, "comp.vuego": "---\nheading: H\nkk: fm-kv\n---\n<section>" + s + "</section>"}, d
	}},
	{"include-interp-fm-looped", func(s string, v any) (map[string]string, map[string]any) {
		d := c01Data(v)
		d["y"] = v
		delete(d, "x")
		return map[string]string{"page.vuego": `<div v-for="r in rows"><template include="comp.vuego" x="{{ r.x }}"></template></div>`, "comp.vuego": "---\nheading: \"{{ not a template }}\"\n---\n<section>" + s + "</section>"}, d
	}},
	{"include-wrapped", func(s string, v any) (map[string]string, map[string]any) {
		d := c01Data(v)
		d["y"] = v
		delete(d, "x")
		return map[string]string{"page.vuego": `<template include="comp.vuego" :x="y"></template>`, "comp.vuego": `<template :required="x"><section>` + s + `</section></template>`}, d
	}},
	{"slot-prop", func(s string, v any) (map[string]string, map[string]any) {
		d := c01Data(v)
		d["y"] = v
		delete(d, "x")
		return map[string]string{
			"page.vuego": `<template include="comp.vuego" :val="y"><template v-slot:body="p"><b :title="p.x">{{ p.x }}</b></template></template>`,
			"comp.vuego": `<section><slot name="body" :x="val"></slot></section>`}, d
	}},
	// the value forwarded as a bound prop by an include tag that is itself slot content, the slot being used more than once
	{"slot-content-include-twice", func(s string, v any) (map[string]string, map[string]any) {
		d := c01Data(v)
		d["y"] = v
		delete(d, "x")
		return map[string]string{
			"page.vuego": `<template include="wrap.vuego"><template include="comp.vuego" :x="y"></template></template>`,
			"wrap.vuego": `<header><slot></slot></header><footer><slot></slot></footer>`,
			"comp.vuego": "<section>" + s + "</section>"}, d
	}},
	{"slot-content-include-looped", func(s string, v any) (map[string]string, map[string]any) {
		d := c01Data(v)
		d["y"] = v
		delete(d, "x")
		return map[string]string{
			"page.vuego": `<template include="wrap.vuego"><template include="comp.vuego" x="{{ y }}"></template><i :title="y">t</i></template>`,
			"wrap.vuego": `<ul><li v-for="n in rows"><slot></slot></li><li><slot></slot></li></ul>`,
			"comp.vuego": "<section>" + s + "</section>"}, d
	}},
	// a KEPT template tag (v-keep) is an element of the output: the value reaches its attributes — through an include tag's bound and
	// interpolated props (evaluated in place before the tag is copied) or not at all (a plain kept template keeps its attributes as written)
	{"keep-include", func(s string, v any) (map[string]string, map[string]any) {
		d := c01Data(v)
		d["y"] = v
		delete(d, "x")
		return map[string]string{"page.vuego": `<div><template v-keep include="comp.vuego" :x="y" title="by {{ y }}" data-k="{{ kk }}"></template></div>`, "comp.vuego": "<section>" + s + "</section>"}, d
	}},
	{"keep-include-looped", func(s string, v any) (map[string]string, map[string]any) {
		d := c01Data(v)
		return map[string]string{"page.vuego": `<ul><li v-for="r in rows"><template v-keep include="comp.vuego" :x="r.x" label="{{ r.x }}"></template></li></ul>`, "comp.vuego": "<section>" + s + "</section>"}, d
	}},
	{"keep-plain", func(s string, v any) (map[string]string, map[string]any) {
		return map[string]string{"page.vuego": `<div><template v-keep :q="x" label="{{ x }}">` + s + `</template></div>`}, c01Data(v)
	}},
	// the value comes from a FILE of the template filesystem, read by a template function while rendering (file / jsonFile / yamlFile)
	{"file-content", func(s string, v any) (map[string]string, map[string]any) {
		d := c01Data("unused")
		delete(d, "x")
		return map[string]string{"page.vuego": `<template :x="file('val.txt')"></template><div>` + s + `</div>`, "val.txt": fmt.Sprint(v)}, d
	}},
	{"jsonfile-content", func(s string, v any) (map[string]string, map[string]any) {
		d := c01Data("unused")
		delete(d, "x")
		b, _ := json.Marshal(map[string]any{"v": v, "kk": "kv"})
		return map[string]string{"page.vuego": `<template :x="jsonFile('val.json').v"></template><div>` + s + `</div>`, "val.json": string(b)}, d
	}},
	{"layout-var", func(s string, v any) (map[string]string, map[string]any) {
		return map[string]string{"page.vuego": "---\nlayout: main\n---\n<em>page</em>", "layouts/main.vuego": `<main><div v-html="content"></div>` + s + `</main>`}, c01Data(v)
	}},
}

var c01Symbols = []string{"<", ">", "&", `"`, "'", ";", "#", "{{", "}}", "&amp;", "&lt;", "&#", "b", "/", " ", "=", "secret", "{{secret}}"}

var c01Nasty = []string{
	"a\rb", "\r<b>x</b>", "x\r\n{{secret}}",
	"<b>x</b>", `"><script>alert(1)</script>`, `"><script>x</script>&amp;`, "&", "&amp;", "a & b;", "&lt;b&gt;", "</p><i>", "'", `"`, `" onmouseover="x`, "{{secret}}", "{{ secret }}", "}}{{secret}}{{",
	"&#", "&#60;b&#62;", "<!--", "-->", "<![CDATA[", "a;b&c<d", "{{", "}}", "{{ x }}", `v-if="secret"`, "<template include=comp.vuego>", "&lt", "&quot;><b>", "x' y=\"z",
	// values that close the element the sink sits in
	// values that are themselves JSON documents holding quotes (what ends up in data-* attributes)
	`["' onmouseover=alert(1) x='"]`, `{"name":"' onmouseover=alert(1) x='"}`, `{"a":"\" onmouseover=\"x"}`, `[1,"<b>","'"]`, "' onmouseover=alert(1) x='",
	"</noscript><b>x</b>", "</iframe><a href=x>y</a>", "</xmp><i>", "</textarea><i>", "</title><i>", "\"></noscript><img src=x>",
}

func c01Eval(sink c01Sink, nb c01Nb, con c01Construct, val string) *Case {
	markup := sink.tpl(nb.pre, nb.post)
	files, data := con.wrap(markup, val)
	filesW, dataW := con.wrap(markup, "word")
	got := renderPage(files, "page.vuego", data)
	ref := renderPage(filesW, "page.vuego", dataW)
	if con.name != "layout-var" && con.name != "file-content" && con.name != "jsonfile-content" && sink.name != "attr-data-json-pipe" { // (the pipe model has no json filter)
		pendingPages = append(pendingPages, pageCase("inert:"+sink.name+"/"+con.name, files, nil, "page.vuego", data, "construct:"+con.name))
	}
	c := &Case{Name: fmt.Sprintf("%s/%s/%s value %q", sink.name, nb.name, con.name, val),
		Input: map[string]any{"sink": sink.name, "nb": nb.name, "construct": con.name, "value": val, "files": files},
		Tags:  []string{"sink:" + sink.name, "construct:" + con.name, "nb:" + nb.name}}
	c.Impl = got.canon()
	v := &Verdict{OK: true}
	c.Oracle = v
	fail := func(kind, f string, a ...any) {
		if v.OK {
			v.OK = false
			v.Class = fmt.Sprintf("%s:%s:%s:%s", kind, sink.name, con.name, nb.name)
			v.Detail = fmt.Sprintf(f, a...)
		}
	}
	if ref.Err != "" || ref.Panic != "" || ref.Timeout {
		// the harmless reference must render; otherwise the case is a harness error, reported loudly
		fail("reference-render-failed", "reference render failed: %+v", ref)
		return c
	}
	if got.Panic != "" || got.Timeout {
		fail("crash", "render with the hostile value crashed: %+v", got)
		return c
	}
	if got.Err != "" {
		fail("error-from-data", "render fails because of the data value: %s", got.Err)
		return c
	}
	if strings.Contains(got.Out, c01Canary) {
		fail("evaluated", "mustache syntax inside the data value was evaluated: output contains the canary: %q", got.Out)
	}
	sg, sr := skeletonOf(got.Out), skeletonOf(ref.Out)
	if strings.Join(sg, " ") != strings.Join(sr, " ") {
		fail("structure", "parser finds %v with the value, %v with a harmless word; output %q", sg, sr, got.Out)
	}
	if strings.ContainsAny(val, "<>&\"'{}") {
		c.Key = c.Name
	}
	return c
}

func runC01(r *Run, replay *Case) {
	defer flushPages(r)
	find := func(name string) (c01Sink, bool) {
		for _, s := range c01Sinks {
			if s.name == name {
				return s, true
			}
		}
		return c01Sink{}, false
	}
	if replay != nil {
		s, _ := find(replay.Input["sink"].(string))
		nbs := c01TextNbs
		if s.attr {
			nbs = c01AttrNbs
		}
		for _, nb := range nbs {
			if nb.name == replay.Input["nb"] {
				for _, con := range c01Constructs {
					if con.name == replay.Input["construct"] {
						r.Add(c01Eval(s, nb, con, replay.Input["value"].(string)))
					}
				}
			}
		}
		return
	}
	r.Res.Rule = "hostile value x sink (text, v-text, interpolated/bound attribute, bound class) x static neighbourhood (plain, entities, quotes, angle brackets) x enclosing construct " +
		"(top, v-if, v-for child/root/else, include bound/interpolated/wrapped, slot prop, layout); values: all strings of <= N symbols over an 18-symbol hostile alphabet plus a nasty list plus random; " +
		"non-trivial = the value contains an HTML- or mustache-special character; distinct by (sink, neighbourhood, construct, value)"
	// tie of the serialiser and tokenizer models that the C01 theorems are about
	renderStreams(r, 1000, 20000)
	var values []string
	values = append(values, c01Nasty...)
	values = append(values, c01Symbols...)
	maxSym := 2
	if r.Thorough() {
		maxSym = 3
	}
	var gen func(prefix string, n int)
	gen = func(prefix string, n int) {
		if n == 0 {
			return
		}
		for _, s := range c01Symbols {
			values = append(values, prefix+s)
			gen(prefix+s, n-1)
		}
	}
	if r.Thorough() {
		gen("", maxSym)
	} else {
		gen("", 2)
	}
	// quick: every (sink, nb, construct) with the nasty list; the alphabet enumeration on a rotating subset
	idx := 0
	for _, s := range c01Sinks {
		nbs := c01TextNbs
		if s.attr {
			nbs = c01AttrNbs
		}
		for _, nb := range nbs {
			if (s.name == "vtext" || s.name == "attr-bound" || s.name == "class-bound" || strings.HasSuffix(s.name, "-interp-bound") || s.name == "class-interp-bound-object") && nb.name != "plain" {
				continue // these sinks have no static neighbours
			}
			hostSink := strings.HasPrefix(s.name, "text-") || s.name == "attr-in-noscript"
			if hostSink && nb.name != "plain" && nb.name != "none" && nb.name != "entity" {
				continue // the raw-text / RCDATA hosts: three neighbourhoods
			}
			for _, con := range c01Constructs {
				for vi, val := range values {
					if !r.Thorough() && vi >= len(c01Nasty) && (vi+idx)%23 != 0 {
						continue
					}
					// thorough: the nasty list and every single symbol everywhere; the alphabet enumeration of length 2 on a rotating quarter and
					// of length 3 on a rotating 61st of the (sink, neighbourhood, construct) combinations — about 600 000 cases in all
					if r.Thorough() && vi >= len(c01Nasty)+len(c01Symbols) {
						mod := 4
						if vi >= len(c01Nasty)+len(c01Symbols)+18*19 {
							mod = 61
						}
						if (vi+idx)%mod != 0 {
							continue
						}
					}
					r.Add(c01Eval(s, nb, con, val))
				}
				idx++
				flushPages(r)
			}
		}
	}
	n := 1500
	if r.Thorough() {
		n = 60000
	}
	for i := 0; i < n; i++ {
		s := c01Sinks[r.Rng.Intn(len(c01Sinks))]
		nbs := c01TextNbs
		if s.attr {
			nbs = c01AttrNbs
		}
		var sb strings.Builder
		for k := 1 + r.Rng.Intn(10); k > 0; k-- {
			sb.WriteString(c01Symbols[r.Rng.Intn(len(c01Symbols))])
		}
		r.Add(c01Eval(s, nbs[r.Rng.Intn(len(nbs))], c01Constructs[r.Rng.Intn(len(c01Constructs))], sb.String()))
	}
}
