package main

// C19 — formatting is idempotent and preserves what the template means.
// Corpus: every .vuego file of the repository and every fenced html/vue snippet of docs/; plus generated sources.

import (
	"fmt"
	"os"
	"path/filepath"
	"regexp"
	"sort"
	"strings"

	"github.com/titpetric/vuego/formatter"
	"golang.org/x/net/html"
	"golang.org/x/net/html/atom"
)

func init() { props["C19"] = runC19 }

var c19Mustache = regexp.MustCompile(`\{\{.*?\}\}`)

func c19Corpus() map[string]string {
	out := map[string]string{}
	root := os.Getenv("VERIF_REPO")
	if root == "" {
		root = "/repo"
	}
	filepath.Walk(root, func(p string, info os.FileInfo, err error) error {
		if err != nil || info.IsDir() {
			if info != nil && info.IsDir() && (info.Name() == ".git" || info.Name() == "node_modules") {
				return filepath.SkipDir
			}
			return nil
		}
		if strings.HasSuffix(p, ".vuego") && info.Size() < 200000 {
			b, _ := os.ReadFile(p)
			out["file:"+strings.TrimPrefix(p, root+"/")] = string(b)
		}
		if strings.HasSuffix(p, ".md") && strings.Contains(p, "/docs/") {
			b, _ := os.ReadFile(p)
			parts := strings.Split(string(b), "```")
			for i := 1; i < len(parts); i += 2 {
				body := parts[i]
				nl := strings.Index(body, "\n")
				if nl < 0 {
					continue
				}
				lang := strings.TrimSpace(body[:nl])
				if lang == "html" || lang == "vue" || lang == "vuego" {
					out[fmt.Sprintf("doc:%s#%d", strings.TrimPrefix(p, root+"/"), i/2)] = body[nl+1:]
				}
			}
		}
		return nil
	})
	return out
}

type c19Tree struct {
	elems     []string // tag + sorted "name=value(ws-collapsed)" in document order
	texts     []string // non-whitespace text runs, whitespace-collapsed, mustaches removed, concatenated per element
	mustaches []string // sorted multiset
	pres      []string // the exact text content of every <pre> element (nested elements' text included), in document order
}

func c19Parse(src string) c19Tree {
	var t c19Tree
	_, body := c19SplitFM(src)
	var nodes []*html.Node
	tb := strings.TrimSpace(body)
	if strings.HasPrefix(tb, "<!DOCTYPE") || strings.HasPrefix(tb, "<html") {
		doc, _ := html.Parse(strings.NewReader(body))
		nodes = []*html.Node{doc}
	} else if ctx := c19FragmentContext(body); ctx != "" {
		// a partial that starts with a table-scoped element only means something inside its table context (HTML fragment parsing)
		nodes, _ = html.ParseFragment(strings.NewReader(body), &html.Node{Type: html.ElementNode, Data: ctx, DataAtom: atom.Lookup([]byte(ctx))})
	} else {
		nodes = parseFragment(body)
	}
	var allText strings.Builder
	var walk func(n *html.Node, raw bool)
	walk = func(n *html.Node, raw bool) {
		switch n.Type {
		case html.ElementNode:
			var as []string
			for _, a := range n.Attr {
				as = append(as, a.Key+"="+normText(a.Val))
				for _, m := range c19Mustache.FindAllString(a.Val, -1) {
					t.mustaches = append(t.mustaches, normText(m))
				}
			}
			sort.Strings(as)
			t.elems = append(t.elems, n.Data+"["+strings.Join(as, "|")+"]")
		case html.TextNode:
			for _, m := range c19Mustache.FindAllString(n.Data, -1) {
				t.mustaches = append(t.mustaches, normText(m))
			}
			allText.WriteString(n.Data)
			allText.WriteString(" ")
		}
		for c := n.FirstChild; c != nil; c = c.NextSibling {
			walk(c, raw)
		}
	}
	var preText func(n *html.Node, sb *strings.Builder)
	preText = func(n *html.Node, sb *strings.Builder) {
		if n.Type == html.TextNode {
			sb.WriteString(n.Data)
		}
		for c := n.FirstChild; c != nil; c = c.NextSibling {
			preText(c, sb)
		}
	}
	var findPre func(n *html.Node)
	findPre = func(n *html.Node) {
		if n.Type == html.ElementNode && n.Data == "pre" {
			var sb strings.Builder
			preText(n, &sb)
			t.pres = append(t.pres, sb.String())
			return
		}
		for c := n.FirstChild; c != nil; c = c.NextSibling {
			findPre(c)
		}
	}
	for _, n := range nodes {
		walk(n, false)
		findPre(n)
	}
	// runs of the white space HTML collapses count as one blank; every other character - the no-break space included - is text
	t.texts = []string{strings.Join(strings.FieldsFunc(allText.String(), func(r rune) bool { return strings.ContainsRune(" \t\n\f\r", r) }), " ")}
	sort.Strings(t.mustaches)
	return t
}

var c19FirstTag = regexp.MustCompile(`^\s*<([a-zA-Z][a-zA-Z0-9]*)[\s/>]`)

// c19FragmentContext: the element a fragment has to be parsed in when its first tag is table-scoped ("" = body), independent of the library
func c19FragmentContext(body string) string {
	m := c19FirstTag.FindStringSubmatch(body)
	if m == nil {
		return ""
	}
	switch strings.ToLower(m[1]) {
	case "td", "th":
		return "tr"
	case "tr":
		return "tbody"
	case "thead", "tbody", "tfoot", "caption", "colgroup":
		return "table"
	case "col":
		return "colgroup"
	}
	return ""
}

func c19SplitFM(src string) (string, string) {
	if !strings.HasPrefix(src, "---") {
		return "", src
	}
	lines := strings.Split(src, "\n")
	for i := 1; i < len(lines); i++ {
		if strings.HasPrefix(lines[i], "---") {
			return strings.Join(lines[:i+1], "\n") + "\n", strings.Join(lines[i+1:], "\n")
		}
	}
	return "", src
}

func c19Doctype(src string) string {
	_, body := c19SplitFM(src)
	tb := strings.TrimSpace(body)
	if len(tb) >= 9 && strings.EqualFold(tb[:9], "<!DOCTYPE") {
		var q byte
		for i := 0; i < len(tb); i++ {
			switch c := tb[i]; {
			case q != 0:
				if c == q {
					q = 0
				}
			case c == '"' || c == '\'':
				q = c
			case c == '>':
				return tb[:i+1]
			}
		}
	}
	return ""
}

func c19Eval(name, src string) *Case {
	c := &Case{Name: name, Input: map[string]any{"name": name, "src": src}, Oracle: &Verdict{OK: true}, Key: "c19:" + src}
	kind := strings.SplitN(name, ":", 2)[0]
	c.Tags = []string{"src:" + kind}
	fail := func(cls, f string, a ...any) {
		if c.Oracle.OK {
			c.Oracle = &Verdict{OK: false, Class: cls, Detail: fmt.Sprintf(f, a...)}
		}
	}
	var f1, f2 string
	var err1, err2 error
	func() {
		defer func() {
			if e := recover(); e != nil {
				err1 = fmt.Errorf("panic: %v", e)
			}
		}()
		f1, err1 = formatter.FormatString(src)
		if err1 == nil {
			f2, err2 = formatter.FormatString(f1)
		}
	}()
	c.Impl = map[string]any{"formatted": f1}
	if err1 != nil || err2 != nil {
		fail("format-error", "%v %v", err1, err2)
		return c
	}
	if f1 != f2 {
		cls := "not-idempotent"
		if strings.Contains(src, `"`) && (strings.Contains(src, `='`) || strings.Contains(src, "&quot;") || strings.Contains(src, "&#34;")) {
			cls = "not-idempotent:quote-in-attribute"
		}
		fail(cls, "formatting the formatted output changes it:\n first %q\nsecond %q", f1, f2)
	}
	a, b := c19Parse(src), c19Parse(f1)
	if strings.Join(a.elems, " ") != strings.Join(b.elems, " ") {
		cls := "meaning-changed:elements-or-attributes"
		if strings.Contains(src, `='`) || strings.Contains(src, "&quot;") || strings.Contains(src, "&#34;") {
			cls = "meaning-changed:quote-in-attribute"
		}
		fail(cls, "elements/attributes differ:\n source %v\n formatted %v\n formatted text %q", a.elems, b.elems, f1)
	}
	if strings.Join(a.texts, "|") != strings.Join(b.texts, "|") {
		fail("meaning-changed:text", "text differs:\n source %q\n formatted %q\n formatted text %q", a.texts, b.texts, f1)
	}
	if strings.Join(a.pres, "\x00") != strings.Join(b.pres, "\x00") {
		fail("meaning-changed:pre-content", "<pre> content altered by formatting:\n source %q\n formatted %q\n formatted text %q", a.pres, b.pres, f1)
	}
	if strings.Join(a.mustaches, "|") != strings.Join(b.mustaches, "|") {
		fail("meaning-changed:mustaches", "mustache expressions differ: %v vs %v", a.mustaches, b.mustaches)
	}
	fm, _ := c19SplitFM(src)
	fm2, _ := c19SplitFM(f1)
	if fm != fm2 {
		fail("front-matter-changed", "front-matter %q became %q", fm, fm2)
	}
	if c19Doctype(src) != c19Doctype(f1) {
		fail("doctype-changed", "doctype %q became %q", c19Doctype(src), c19Doctype(f1))
	}
	return c
}

var c19AttrVals = []string{`v`, `a b`, `say &quot;hi&quot;`, `it&#39;s`, `a &amp; b`, `x &amp;&amp; y`, `n &lt; 3`, `n > 2 &amp;&amp; m < 4`, "line1\nline2", `  padded  `, `{{ a < b }}`, `{{ x | f("q") }}`, `{"id":123}`, `a&b`, `&copy;`, `x=1&amp;y=2`, `'single'`, `a;b`,
	// characters whose UTF-8 encoding contains bytes that are white space when read as Latin-1 (0x85, 0xA0): a value is text, not bytes
	"10\u00a0km", `10&nbsp;km`, "Voilà, déjà vu", "Århus – Ålborg", "✅ done", "日本語 テキスト", "x\u2003y"}

func (g *srcGen) c19Attrs() string {
	var sb strings.Builder
	used := map[string]bool{}
	for k := g.r.Intn(3); k > 0; k-- {
		n := []string{"class", "id", "title", "data-x", "v-if", ":href", "@click", "v-for"}[g.r.Intn(8)]
		if used[n] {
			continue
		}
		used[n] = true
		v := c19AttrVals[g.r.Intn(len(c19AttrVals))]
		q := `"`
		if strings.Contains(v, `"`) {
			q = `'`
			if strings.Contains(v, `'`) {
				continue
			}
		} else if g.r.Intn(6) == 0 && !strings.Contains(v, `'`) {
			q = `'`
		}
		fmt.Fprintf(&sb, ` %s=%s%s%s`, n, q, v, q)
	}
	return sb.String()
}

// doctypes as authors write them: the HTML5 one in both letter cases, the HTML 4.01 and XHTML declarations, single-quoted identifiers, a ">" inside an identifier
var c19Doctypes = []string{
	"<!DOCTYPE html>", "<!doctype html>", "<!DOCTYPE HTML>", "<!Doctype Html>",
	`<!DOCTYPE HTML PUBLIC "-//W3C//DTD HTML 4.01//EN" "http://www.w3.org/TR/html4/strict.dtd">`,
	`<!DOCTYPE html PUBLIC "-//W3C//DTD XHTML 1.0 Transitional//EN" "http://www.w3.org/TR/xhtml1/DTD/xhtml1-transitional.dtd">`,
	`<!DOCTYPE html SYSTEM 'about:legacy-compat'>`, `<!DOCTYPE html SYSTEM "a>b">`, "<!DOCTYPE  html >",
}

var c19Rcdata = []string{"t", "plain words", "a &amp; b", "Using &amp;amp; and &amp;lt; in HTML", "Write &amp;copy; for the sign", "x &lt; y &gt; z",
	"&amp;lt;/textarea&amp;gt;&amp;lt;script&amp;gt;x()&amp;lt;/script&amp;gt;", "&lt;/title&gt; is how a title ends", "Q&amp;amp;A", "&amp;#38; twice"}

func c19Generate(g *srcGen) string {
	g.n = 0
	var sb strings.Builder
	if g.r.Intn(5) == 0 {
		sb.WriteString("---\ntitle: T\nlayout: main\n---\n")
	}
	full := g.r.Intn(8) == 0
	if full {
		sb.WriteString(c19Doctypes[g.r.Intn(len(c19Doctypes))] + "\n<html><head><title>" + c19Rcdata[g.r.Intn(len(c19Rcdata))] + "</title></head><body>")
	}
	texts := []string{"word", "two words", "a &lt; b", "x &amp; y", "{{ a < b }}", "{{ x > 1 && y }}", "{{ name }}", "1 &gt; 0", "&copy; 2024", "{{ a & b }} tail",
		// braces that do not form a mustache, next to character references: the text after them is still text
		"{{ open &lt;b&gt; after", "a }} &amp; {{ b", "{ single } &lt; brace", "{{ x }} &lt; {{ unclosed &gt; end", "&amp;#38; twice",
		// spaces HTML does NOT collapse are content: alone in an element, between two elements, at the edge of a text
		"&nbsp;", "&#160;", "&emsp;", "\u3000", "10&nbsp;km", "&nbsp;lead", "trail&nbsp;", "a &nbsp; b"}
	var block func(d int, inline bool) string
	block = func(d int, inline bool) string {
		g.n++
		t := []string{"div", "p", "section", "ul", "h1", "span", "b", "a", "pre", "script", "style", "table", "textarea"}[g.r.Intn(13)]
		switch t {
		case "textarea":
			// <textarea> and <title> hold text in which character references ARE decoded: text that spells a reference, or the element's own
			// end tag, has to be written escaped again
			return "<textarea name=\"t\">" + c19Rcdata[g.r.Intn(len(c19Rcdata))] + "</textarea>"
		case "script":
			// raw text is never escaped, whether the author wrote it on lines of its own or on the line of the tags
			return []string{"<script>\n  if (a < b && c > d) { x = \"</div>\"; }\n</script>", "<script>if (a < b && c > d) { go(); }</script>", "<script>items.forEach(i => init(i));</script>", "<script>lucide.createIcons();</script>"}[g.r.Intn(4)]
		case "style":
			return []string{"<style>\n  a > b { color: red; }\n</style>", "<style>ul > li { margin: 0 }</style>", "<style>a{b:c}</style>"}[g.r.Intn(3)]
		case "pre":
			// elements NESTED in the <pre> hold whitespace that matters just as much (a highlighted code block: <pre><code>…, <span>s)
			nested := []string{"<b>bold</b>", "<code>func main() {\n    if a &lt; b {\n        x(\"a   b\")\n    }\n}\n</code>", "<span class=\"k\">name      value</span>\n<span>id          42</span>", "<code>  {{ codeExample }}\n\n</code>", "<em> lead and trail </em>"}[g.r.Intn(5)]
			return "<pre" + g.c19Attrs() + ">" + []string{"", "\n", "\n\n", "  "}[g.r.Intn(4)] + "  keep   this\n   {{ a < b }} &lt;tag&gt; " + nested + "\n</pre>"
		case "table":
			if g.r.Intn(3) == 0 {
				return "<table><tbody><tr><td><template v-if=\"code\"><pre>col   one\n  col two</pre></template></td><th>h <template v-if=\"js\"><script>if (a < b) { x(); }</script></template></th></tr></tbody></table>"
			}
			return "<table><tbody><tr><td" + g.c19Attrs() + ">" + texts[g.r.Intn(len(texts))] + "</td><td>2</td></tr></tbody></table>"
		case "ul":
			return "<ul><li" + g.c19Attrs() + ">" + texts[g.r.Intn(len(texts))] + "</li><li><b>x</b> y</li></ul>"
		}
		var in strings.Builder
		phrasing := t == "p" || t == "h1" || t == "span" || t == "b" || t == "a" || inline
		for k := g.r.Intn(4); k > 0 && g.n < 20; k-- {
			switch {
			case d > 2 || g.r.Intn(3) == 0:
				in.WriteString(texts[g.r.Intn(len(texts))])
			case g.r.Intn(7) == 0:
				// comments, also ones that span several lines (their text is data: no line of it is touched)
				in.WriteString([]string{"<!-- c -->", "<!--\n  multi\n  line\n-->", "<!-- first\n        second -->", "<!---->", "<!-- {{ x }} <b>not a tag</b> &amp; -->", "<!--\n\ttabbed\n-->"}[g.r.Intn(6)])
			case g.r.Intn(6) == 0:
				// a <template> wrapper (v-if / v-for) as a child of any container, phrasing ones included, around content whose white space
				// or raw text matters: the wrapper is transparent, its content keeps the treatment it has anywhere else
				wrapped := []string{"<pre>  two   spaces\n    indented {{ a < b }}\n</pre>", "<script>if (a < b && c > d) { go(\"&amp;\"); }</script>", "<style>a > b { color: red; }</style>",
					"<span>in wrapper</span>", texts[g.r.Intn(len(texts))], "<pre><code>x   y\n\tz</code></pre><b>after</b>"}[g.r.Intn(6)]
				in.WriteString("<template " + []string{`v-if="show"`, `v-for="it in items"`, `v-else`, ``}[g.r.Intn(4)] + ">" + wrapped + "</template>")
			case g.r.Intn(5) == 0:
				in.WriteString("<br>")
			case g.r.Intn(5) == 0:
				in.WriteString("<img" + g.c19Attrs() + ">")
			case phrasing && g.r.Intn(6) == 0:
				// raw-text elements are phrasing content too: a script or style among the inline children of a paragraph, a cell, a span -
				// its text is raw text wherever it stands
				in.WriteString([]string{"<script>document.write(y < 2000 ? \"19\" + y : y)</script>", "<script>if (a && b || c > 0) { go(\"&lt;\") }</script>", "<style>p > b { color: red }</style>",
					"<script>\n  var s = \"a   b\";\n  x(s)\n</script>", "<script>plain()</script>"}[g.r.Intn(5)])
			case phrasing:
				// parser-stable sources only: phrasing content holds phrasing content (and no <a> inside <a>)
				it := []string{"span", "b", "em", "code"}[g.r.Intn(4)]
				in.WriteString("<" + it + g.c19Attrs() + ">" + texts[g.r.Intn(len(texts))] + "</" + it + ">")
			default:
				in.WriteString(block(d+1, false))
			}
			if g.r.Intn(2) == 0 {
				in.WriteString(" ")
			}
		}
		return "<" + t + g.c19Attrs() + ">" + in.String() + "</" + t + ">"
	}
	for k := 1 + g.r.Intn(3); k > 0; k-- {
		sb.WriteString(block(0, false))
		if g.r.Intn(2) == 0 {
			sb.WriteString("\n")
		}
	}
	if full {
		sb.WriteString("</body></html>")
	}
	return sb.String()
}

func runC19(r *Run, replay *Case) {
	if replay != nil {
		r.Add(c19Eval(replay.Input["name"].(string), replay.Input["src"].(string)))
		return
	}
	r.Res.Rule = "corpus: every .vuego file of the repository and every fenced html/vue snippet of docs/; generated fragments and full documents over block/inline/void/table/raw-text/pre elements, " +
		"attribute values with quotes, entities, operators, newlines and mustaches, mustaches containing < > &, front-matter; non-trivial = every source; distinct by source text"
	corpus := c19Corpus()
	var names []string
	for n := range corpus {
		names = append(names, n)
	}
	sort.Strings(names)
	for _, n := range names {
		r.Add(c19Eval(n, corpus[n]))
	}
	r.Res.Distribution["corpus-size"] = len(names)
	// explicit attribute cases
	for _, v := range c19AttrVals {
		q := `"`
		if strings.Contains(v, `"`) {
			q = `'`
		}
		r.Add(c19Eval("attr:"+v, `<p title=`+q+v+q+`>x</p>`))
	}
	r.Add(c19Eval("attr:both-quotes", `<p title="it&#39;s &quot;q&quot;">x</p>`))
	for _, dt := range c19Doctypes {
		r.Add(c19Eval("doctype", dt+"\n<html><head><title>t</title></head><body><p>x</p></body></html>"))
		r.Add(c19Eval("doctype", "---\ntitle: T\n---\n"+dt+"\n<html>\n<head></head>\n<body><p>x</p></body>\n</html>\n"))
	}
	// front-matter with lines that resemble the fence: an indented `---` inside a block scalar, a longer dashed line
	for _, fm := range []string{
		"---\ntitle: Notes\nsummary: |\n  First paragraph.\n  ---\n  Second paragraph.\ntags: [a, b]\n---\n<div><p>{{ title }}</p></div>\n",
		"---\ntitle: T\nnote: \"a --- b\"\n---\n<p>x</p>\n",
		"---\na: 1\n  ---\nb: 2\n---\n<ul><li>x</li></ul>\n",
	} {
		r.Add(c19Eval("frontmatter-fence-like", fm))
	}
	// partials that begin with a table-scoped element, and tags written one attribute per line: whatever white space follows the tag name
	for _, first := range []string{"tr", "td", "th", "thead", "tbody", "tfoot", "caption", "colgroup", "col", "div", "li", "p"} {
		for _, sep := range []string{" ", "\n", "\t", "\n  ", "\r\n  "} {
			inner := map[string]string{"tr": "<td>{{ row.name }}</td><td>{{ row.total }}</td>", "td": "{{ n }}", "th": "H", "thead": "<tr><th>a</th></tr>", "tbody": "<tr><td>1</td></tr>", "tfoot": "<tr><td>f</td></tr>",
				"caption": "cap {{ t }}", "colgroup": "<col span=\"2\">", "col": "", "div": "<b>x</b> y", "li": "item", "p": "text"}[first]
			src := "<" + first + sep + `v-for="row in rows"` + sep + `:key="row.id"` + sep + ">" + inner + "</" + first + ">"
			if first == "col" {
				src = "<" + first + sep + `span="2"` + sep + ">"
			}
			r.Add(c19Eval("tag-layout:"+first, src+"\n"))
		}
	}
	for _, raw := range []string{"<script>if (a < b && c > d) { go(); }</script>", "<div><script>items.forEach(i => init(i));</script></div>", "<style>ul > li { margin: 0 }</style>", "<script>x = 1 & 2;</script><p>t</p>", "<script>  padded <b>  </script>"} {
		r.Add(c19Eval("raw-one-line", raw))
	}
	for _, pre := range []string{"<pre>\n\nfirst</pre>", "<pre>\nfirst</pre>", "<pre>first\n\n</pre>", "<div><pre>\n\n  a\n   b\n</pre></div>", "<pre>\n\n\nthree</pre>", "<pre><b>\nx</b></pre>"} {
		r.Add(c19Eval("pre", pre))
	}
	n := 2000
	if r.Thorough() {
		n = 50000
	}
	g := &srcGen{r: r.Rng}
	for i := 0; i < n; i++ {
		src := c19Generate(g)
		r.Add(c19Eval("gen", src))
		if i%8 == 0 {
			// the same source as a Windows checkout stores it
			r.Add(c19Eval("gen-crlf", strings.ReplaceAll(src, "\n", "\r\n")))
		}
	}
	c19ModelStreams(r)
}
