package main

// C11 — every built-in template function (enumerated at run time from Vue.DefaultFuncMap, so a new one is covered automatically) applied to
// values of every shape, including TYPED nils (nil *time.Time, nil *struct, nil slice, nil map), as pipe and as call, with and without
// extra arguments: the render must return — output or error — and must not panic or hang.

import (
	"fmt"
	"sort"
	"testing/fstest"
	"time"

	vuego "github.com/titpetric/vuego"
)

type c11Arg struct {
	name string
	v    any
}

func c11BuiltinArgs() []c11Arg {
	now := time.Date(2024, 5, 17, 10, 0, 0, 0, time.UTC)
	var nilTime *time.Time
	var nilS2 *S2
	var nilInts []int
	var nilMap map[string]any
	var nilAny any
	var nilFn func()
	return []c11Arg{
		{"untypedNil", nilAny}, {"nilTimePtr", nilTime}, {"nilStructPtr", nilS2}, {"nilSlice", nilInts}, {"nilMap", nilMap}, {"nilFunc", nilFn},
		{"timeVal", now}, {"timePtr", &now}, {"zeroTime", time.Time{}}, {"i", 7}, {"z", 0}, {"neg", -3}, {"f", 2.5}, {"u8", uint8(200)}, {"i64", int64(1) << 40},
		{"s", "hello"}, {"e", ""}, {"ts", "2024-01-02T15:04:05Z"}, {"unix", "1700000000"}, {"path", "../../etc/passwd"}, {"missingFile", "nope.json"}, {"t", true},
		{"lst", []any{1, "x", nil}}, {"ints", []int{1, 2}}, {"m", map[string]any{"k": "v", "n": nil}}, {"mi", map[int]string{1: "a"}}, {"st", S2{1, "y"}}, {"pst", &S2{2, "z"}},
		{"ch", make(chan int)}, {"fn", func() {}}, {"nested", map[string]any{"a": []any{map[string]any{"b": nilTime}}}},
	}
}

func c11Builtins(r *Run) {
	names := []string{}
	for n := range vuego.NewVue(fstest.MapFS{}).DefaultFuncMap() {
		names = append(names, n)
	}
	sort.Strings(names)
	r.Res.Distribution["builtins"] = len(names)
	args := c11BuiltinArgs()
	data := map[string]any{}
	for _, a := range args {
		data[a.name] = a.v
	}
	for _, fn := range names {
		for _, a := range args {
			for _, form := range []string{"%[2]s | %[1]s", "%[1]s(%[2]s)", `%[2]s | %[1]s("2006-01-02")`, "%[2]s | %[1]s(i)", "%[2]s | %[1]s(nilTimePtr)", "%[1]s(%[2]s, %[2]s)", "%[2]s | %[1]s | %[1]s"} {
				expr := fmt.Sprintf(form, fn, a.name)
				for _, pos := range []string{"text", "if"} {
					tpl := "<p>{{ " + expr + " }}</p>"
					if pos == "if" {
						tpl = `<p v-if="` + expr + `">y</p><p :title="` + expr + `">z</p>`
					}
					res := renderPage(map[string]string{"p.vuego": tpl, "data.json": `{"a":1}`, "data.yml": "a: 1\n"}, "p.vuego", data)
					c := &Case{Name: "builtin " + expr + " in " + pos, Input: map[string]any{"stream": "builtin", "expr": expr, "pos": pos, "tpl": tpl}, Impl: res.canon(), Oracle: &Verdict{OK: true},
						Key: "builtin|" + pos + "|" + expr, Tags: []string{"stream:builtin", "fn:" + fn}}
					if res.Panic != "" {
						c.Oracle = &Verdict{OK: false, Class: "panic:builtin:" + fn, Detail: fmt.Sprintf("%s with %s = %#v panicked: %s", expr, a.name, a.v, res.Panic)}
					} else if res.Timeout {
						c.Oracle = &Verdict{OK: false, Class: "hang:builtin:" + fn, Detail: expr}
					}
					r.Add(c)
				}
			}
		}
	}
}
