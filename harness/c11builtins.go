package main

// C11 — every built-in template function (enumerated at run time from Vue.DefaultFuncMap, so a new one is covered automatically) applied to
// values of every shape, including TYPED nils (nil *time.Time, nil *struct, nil slice, nil map), as pipe and as call, with and without
// extra arguments: the render must return — output or error — and must not panic or hang.

import (
	"fmt"
	"sort"
	"testing/fstest"
	"time"

	vuego "github.com/titpetric/vuego"
)

type c11Arg struct {
	name string
	v    any
}

func c11BuiltinArgs() []c11Arg {
	now := time.Date(2024, 5, 17, 10, 0, 0, 0, time.UTC)
	var nilTime *time.Time
	var nilS2 *S2
	var nilInts []int
	var nilMap map[string]any
	var nilAny any
	var nilFn func()
	return []c11Arg{
		{"untypedNil", nilAny}, {"nilTimePtr", nilTime}, {"nilStructPtr", nilS2}, {"nilSlice", nilInts}, {"nilMap", nilMap}, {"nilFunc", nilFn},
		{"timeVal", now}, {"timePtr", &now}, {"zeroTime", time.Time{}}, {"i", 7}, {"z", 0}, {"neg", -3}, {"f", 2.5}, {"u8", uint8(200)}, {"i64", int64(1) << 40},
		{"s", "hello"}, {"e", ""}, {"ts", "2024-01-02T15:04:05Z"}, {"unix", "1700000000"}, {"path", "../../etc/passwd"}, {"missingFile", "nope.json"}, {"t", true},
		{"lst", []any{1, "x", nil}}, {"ints", []int{1, 2}}, {"m", map[string]any{"k": "v", "n": nil}}, {"mi", map[int]string{1: "a"}}, {"st", S2{1, "y"}}, {"pst", &S2{2, "z"}},
		{"ch", make(chan int)}, {"fn", func() {}}, {"nested", map[string]any{"a": []any{map[string]any{"b": nilTime}}}},
	}
}

// c11BuiltinInputs: every (expression, position) of the builtin stream
func c11BuiltinInputs() ([]map[string]any, map[string]any) {
	names := []string{}
	for n := range vuego.NewVue(fstest.MapFS{}).DefaultFuncMap() {
		names = append(names, n)
	}
	sort.Strings(names)
	args := c11BuiltinArgs()
	data := map[string]any{}
	for _, a := range args {
		data[a.name] = a.v
	}
	var ins []map[string]any
	for _, fn := range names {
		for _, a := range args {
			for _, form := range []string{"%[2]s | %[1]s", "%[1]s(%[2]s)", `%[2]s | %[1]s("2006-01-02")`, "%[2]s | %[1]s(i)", "%[2]s | %[1]s(nilTimePtr)", "%[1]s(%[2]s, %[2]s)", "%[2]s | %[1]s | %[1]s",
				// a call that is only the beginning of the expression (operators written without spaces), alone and as the head of a pipe
				"%[1]s(%[2]s)-1", "%[1]s(%[2]s)%%2 | string", "%[1]s(%[2]s)+%[1]s(%[2]s)", "%[1]s(%[2]s).x", "%[1]s(%[2]s)[0]", "%[1]s(%[2]s) %[1]s(%[2]s)"} {
				expr := fmt.Sprintf(form, fn, a.name)
				for _, pos := range []string{"text", "if"} {
					tpl := "<p>{{ " + expr + " }}</p>"
					if pos == "if" {
						tpl = `<p v-if="` + expr + `">y</p><p :title="` + expr + `">z</p><i v-text="` + expr + `"></i>`
					}
					ins = append(ins, map[string]any{"stream": "builtin", "expr": expr, "pos": pos, "tpl": tpl, "fn": fn, "arg": a.name})
				}
			}
		}
	}
	return ins, data
}

func c11BuiltinEval(in map[string]any, data map[string]any) *Case {
	expr, pos, tpl, fn := in["expr"].(string), in["pos"].(string), in["tpl"].(string), in["fn"].(string)
	res := renderPage(map[string]string{"p.vuego": tpl, "data.json": `{"a":1}`, "data.yml": "a: 1\n"}, "p.vuego", data)
	c := &Case{Name: "builtin " + expr + " in " + pos, Input: map[string]any{"stream": "builtin", "expr": expr, "pos": pos, "tpl": tpl}, Impl: res.canon(), Oracle: &Verdict{OK: true},
		Key: "builtin|" + pos + "|" + expr, Tags: []string{"stream:builtin", "fn:" + fn}}
	if res.Panic != "" {
		c.Oracle = &Verdict{OK: false, Class: "panic:builtin:" + fn, Detail: fmt.Sprintf("%s with %s = %#v panicked: %s", expr, in["arg"], data[fmt.Sprint(in["arg"])], res.Panic)}
	} else if res.Timeout {
		c.Oracle = &Verdict{OK: false, Class: "hang:builtin:" + fn, Detail: expr}
	}
	return c
}

func c11Builtins(r *Run) {
	ins, data := c11BuiltinInputs()
	r.Res.Distribution["builtins"] = len(ins)
	c11Guarded(r, "builtin", len(ins), func(i int) *Case { return c11BuiltinEval(ins[i], data) }, func(i int) map[string]any { return ins[i] })
}

// c11Guarded runs a stream of in-process cases that may KILL the process (a stack overflow is fatal, not a panic): a child process runs the
// whole range first; if it dies, the range is halved in further children until the cases that kill it are known — those are reported with
// their input and left out of the in-process run.
func c11Guarded(r *Run, stream string, n int, eval func(i int) *Case, describe func(i int) map[string]any) {
	if isChild() {
		for i := 0; i < n; i++ {
			r.Add(eval(i))
		}
		return
	}
	fatal := map[int]string{}
	skip := map[int]bool{} // once three killing cases are known, a range that still kills a child is left out as a whole
	var probe func(from, to int)
	probe = func(from, to int) {
		if from >= to {
			return
		}
		_, v := runIsolated("C11", map[string]any{"stream": "guard", "which": stream, "from": from, "to": to}, fmt.Sprintf("guard %s %d-%d", stream, from, to), 180*time.Second)
		if v.OK || (v.Class != "crash" && v.Class != "hang") {
			return // survived (ordinary verdicts are the in-process run's business)
		}
		if to-from == 1 {
			fatal[from] = v.Class + ": " + v.Detail
			return
		}
		if len(fatal) >= 3 {
			for i := from; i < to; i++ {
				skip[i] = true
			}
			return
		}
		mid := (from + to) / 2
		probe(from, mid)
		probe(mid, to)
	}
	probe(0, n)
	for i := 0; i < n; i++ {
		if why, bad := fatal[i]; bad {
			in := describe(i)
			r.Add(&Case{Name: fmt.Sprintf("%s case %d kills the process", stream, i), Input: in, Key: fmt.Sprintf("fatal|%s|%d", stream, i), Tags: []string{"stream:" + stream, "isolated"},
				Oracle: &Verdict{OK: false, Class: "crash:" + stream, Detail: fmt.Sprintf("rendering %v in a child process: %s", in["tpl"], why)}})
			continue
		}
		if skip[i] {
			continue
		}
		r.Add(eval(i))
	}
}

// c11GuardedInputs is c11Guarded for a stream whose inputs the child cannot regenerate (they come from the parent's random stream): the
// parent hands each probed range over as a list
func c11GuardedInputs(r *Run, stream string, n int, eval func(i int) *Case, describe func(i int) map[string]any) {
	if isChild() {
		for i := 0; i < n; i++ {
			r.Add(eval(i))
		}
		return
	}
	fatal := map[int]string{}
	skip := map[int]bool{}
	var probe func(from, to int)
	probe = func(from, to int) {
		if from >= to {
			return
		}
		items := make([]any, 0, to-from)
		for i := from; i < to; i++ {
			items = append(items, describe(i))
		}
		limit := 120*time.Second + time.Duration(to-from)*20*time.Millisecond
		_, v := runIsolated("C11", map[string]any{"stream": "guard", "which": "list", "items": items}, fmt.Sprintf("guard %s %d-%d", stream, from, to), limit)
		if v.OK || (v.Class != "crash" && v.Class != "hang") {
			return
		}
		if to-from == 1 {
			fatal[from] = v.Class + ": " + v.Detail
			return
		}
		if len(fatal) >= 3 {
			for i := from; i < to; i++ {
				skip[i] = true
			}
			return
		}
		mid := (from + to) / 2
		probe(from, mid)
		probe(mid, to)
	}
	probe(0, n)
	for i := 0; i < n; i++ {
		if why, bad := fatal[i]; bad {
			in := describe(i)
			r.Add(&Case{Name: fmt.Sprintf("%s case %d kills the process", stream, i), Input: in, Key: fmt.Sprintf("fatal|%s|%d", stream, i), Tags: []string{"stream:" + stream, "isolated"},
				Oracle: &Verdict{OK: false, Class: "crash:" + stream, Detail: fmt.Sprintf("rendering %q in a child process: %s", in["tpl"], why)}})
			continue
		}
		if skip[i] {
			continue
		}
		r.Add(eval(i))
	}
}
