//go:build verif

package main

// C13 — the call machinery of registered functions against the Lean model `Vuego.Call` (Model/Call.lean): for every parameter type the
// model knows (string, the ten integer kinds, float32/64, bool, any) a registered function records the argument it RECEIVES; it is called
// through a pipe with argument values of every Go kind. The model computes the converted value (or "cannot convert") from the value and the
// parameter type alone; where it abstains (float truncation, float widths, the full ParseFloat grammar, named types) the case is counted
// and skipped. The argument-count rule is compared the same way, message text included.

import (
	"fmt"
	"math"
	"reflect"
	"strings"
	"time"

	vuego "github.com/titpetric/vuego"
)

func c13Recorder[T any](got *any) func(T) string {
	return func(x T) string { *got = x; return "called" }
}

type c13PT struct {
	name string
	mk   func(got *any) any
}

var c13PTypes = []c13PT{
	{"string", func(g *any) any { return c13Recorder[string](g) }}, {"bool", func(g *any) any { return c13Recorder[bool](g) }}, {"any", func(g *any) any { return c13Recorder[any](g) }},
	{"int", func(g *any) any { return c13Recorder[int](g) }}, {"int8", func(g *any) any { return c13Recorder[int8](g) }}, {"int16", func(g *any) any { return c13Recorder[int16](g) }},
	{"int32", func(g *any) any { return c13Recorder[int32](g) }}, {"int64", func(g *any) any { return c13Recorder[int64](g) }}, {"uint", func(g *any) any { return c13Recorder[uint](g) }},
	{"uint8", func(g *any) any { return c13Recorder[uint8](g) }}, {"uint16", func(g *any) any { return c13Recorder[uint16](g) }}, {"uint32", func(g *any) any { return c13Recorder[uint32](g) }},
	{"uint64", func(g *any) any { return c13Recorder[uint64](g) }}, {"float32", func(g *any) any { return c13Recorder[float32](g) }}, {"float64", func(g *any) any { return c13Recorder[float64](g) }},
}

func c13CallValues() []any {
	var np *S2
	vals := []any{nil, true, false,
		0, 1, -1, 7, 127, 128, 255, 256, -128, -129, 300, 65535, 65536, 1 << 31, -(1 << 31) - 1, math.MaxInt64, math.MinInt64, 1e15 - 1, 1e15,
		int8(-5), int8(127), int16(-300), int32(70000), int64(1) << 40, uint(9), uint8(200), uint16(65535), uint32(1 << 31), uint64(math.MaxUint64), uint64(1 << 63), uintptr(3),
		0.0, 2.5, 3.0, -1.0, 1e15, 1e21, -0.5, float32(1.5), float32(0), float32(0.1), math.Inf(1),
		"", "42", "-7", "+5", "007", " 42", "42 ", "4_2", "0x10", "9223372036854775807", "9223372036854775808", "-9223372036854775808", "-9223372036854775809", "18446744073709551615",
		"18446744073709551616", "255", "256", "-1", "true", "T", "t", "TRUE", "True", "tRUE", "yes", "1", "0", "f", "F", "False", "FALSE", "false", "abc", "1e3", "2.5", "inf", "-Inf", "NaN", "nan", "infinity",
		"-0", "+0", "٣", "１２", "--1", "+", "-", ".", "1.", "999999999999999", "1000000000000000", "-999999999999999",
		[]any{1, "x"}, []any{}, []int{1}, []string{"a"}, map[string]any{"k": 1}, map[string]string{}, S2{X: 1, Y: "y"}, &S2{X: 2}, np, time.Unix(0, 0).UTC(), MyStr("m"), MyInt(2),
	}
	return vals
}

var c13CallRun *Run

func init() {
	prev := postModel["C13"]
	postModel["C13"] = func(c *Case, m any) any {
		if prev != nil {
			m = prev(c, m)
		}
		if mm, ok := m.(map[string]any); ok && mm["unmodelled"] == true {
			if c13CallRun != nil {
				c13CallRun.Res.Distribution["callconv:model-abstains"]++
			}
			return canon(c.Impl)
		}
		return m
	}
}

func c13CallConvCase(pt c13PT, vi int, v any) *Case {
	var got any
	called := false
	fn := pt.mk(&got)
	res := renderPage(map[string]string{"p.vuego": `<p>[[{{ v | rec }}]]</p>`}, "p.vuego", map[string]any{"v": v}, vuego.WithFuncs(vuego.FuncMap{"rec": fn}))
	called = strings.Contains(res.Out, "[[called]]")
	var impl any
	switch {
	case res.Panic != "" || res.Timeout:
		impl = map[string]any{"panic": res.Panic}
	case res.Err != "":
		impl = map[string]any{"err": true}
	case called:
		impl = map[string]any{"ok": c13StripTy(toVal(got))}
	default:
		impl = map[string]any{"not-called": res.Out}
	}
	name := fmt.Sprintf("callconv %T(%v) -> %s", v, v, pt.name)
	c := &Case{Name: name, Key: fmt.Sprintf("callconv|%s|%d", pt.name, vi), Op: true, Input: map[string]any{"op": "callconv", "p": pt.name, "v": toVal(v), "vi": vi}, Impl: impl, Oracle: &Verdict{OK: true},
		Tags: []string{"stream:callconv", "param:" + pt.name, fmt.Sprintf("arg:%T", v)}}
	if res.Panic != "" || res.Timeout {
		c.Oracle = &Verdict{OK: false, Class: "callconv-crash:" + pt.name, Detail: fmt.Sprintf("%T(%v) passed for a %s parameter: %+v", v, v, pt.name, res)}
	} else if s, isStr := got.(string); called && pt.name == "string" && isStr && c13IsScalar(v) && s != fmt.Sprint(v) {
		// a number or boolean passed for a string parameter is printed (docs/funcmap.md: "automatically converted when possible")
		c.Oracle = &Verdict{OK: false, Class: fmt.Sprintf("callconv-string-param-not-printed:%T", v), Detail: fmt.Sprintf("%T(%v) passed for a string parameter arrives as %q, its printed form is %q", v, v, s, fmt.Sprint(v))}
	} else if res.Err != "" && !strings.Contains(res.Err, "rec") {
		// an impossible conversion fails the render with an error that names the function
		c.Oracle = &Verdict{OK: false, Class: "callconv-error-lacks-name:" + pt.name, Detail: res.Err}
	}
	return c
}

// the argument-count rule: functions of 0..3 parameters, variadic or not, called with 0..4 arguments (direct call form)
func c13CallArityCase(params int, variadic bool, nargs int) *Case {
	var fn any
	switch {
	case !variadic && params == 0:
		fn = func() string { return "called" }
	case !variadic && params == 1:
		fn = func(a any) string { return "called" }
	case !variadic && params == 2:
		fn = func(a, b any) string { return "called" }
	case !variadic && params == 3:
		fn = func(a, b, c any) string { return "called" }
	case variadic && params == 1:
		fn = func(xs ...any) string { return "called" }
	case variadic && params == 2:
		fn = func(a any, xs ...any) string { return "called" }
	case variadic && params == 3:
		fn = func(a, b any, xs ...any) string { return "called" }
	default:
		return nil
	}
	args := []string{"1", "2", "3", "4"}[:nargs]
	res := renderPage(map[string]string{"p.vuego": `<p>[[{{ fn(` + strings.Join(args, ", ") + `) }}]]</p>`}, "p.vuego", map[string]any{}, vuego.WithFuncs(vuego.FuncMap{"fn": fn}))
	var impl any
	switch {
	case res.Panic != "" || res.Timeout:
		impl = map[string]any{"panic": res.Panic}
	case res.Err != "":
		msg := res.Err
		if i := strings.Index(msg, "function expects"); i >= 0 {
			msg = msg[i:]
		}
		impl = map[string]any{"err": msg}
	default:
		impl = map[string]any{"ok": true}
	}
	name := fmt.Sprintf("callarity params=%d variadic=%v nargs=%d", params, variadic, nargs)
	c := &Case{Name: name, Key: name, Op: true, Input: map[string]any{"op": "callarity", "params": params, "variadic": variadic, "nargs": nargs}, Impl: impl, Oracle: &Verdict{OK: true}, Tags: []string{"stream:callarity"}}
	if res.Panic != "" || res.Timeout {
		c.Oracle = &Verdict{OK: false, Class: "callarity-crash", Detail: fmt.Sprintf("%+v", res)}
	} else if res.Err != "" && !strings.Contains(res.Err, "fn") {
		c.Oracle = &Verdict{OK: false, Class: "callarity-error-lacks-name", Detail: res.Err}
	}
	return c
}

// variadic functions: what the function RECEIVES (every element of its variadic parameter, after the fixed ones) for calls with 0..3
// arguments drawn from scalars, nil and lists of every kind; direct call and pipe form. A `...any` parameter receives every argument as one
// element - a list too.
func c13CallVariadicCase(shape string, argNames []string, pipe bool, data map[string]any) *Case {
	var got []any
	called := false
	var fn any
	var fixed []string
	elem := "any"
	switch shape {
	case "...any":
		fn = func(xs ...any) string { called = true; got = append([]any{}, xs...); return "called" }
	case "any,...any":
		fixed = []string{"any"}
		fn = func(a any, xs ...any) string { called = true; got = append([]any{a}, xs...); return "called" }
	case "string,...any":
		fixed = []string{"string"}
		fn = func(a string, xs ...any) string { called = true; got = append([]any{a}, xs...); return "called" }
	case "...string":
		elem = "string"
		fn = func(xs ...string) string {
			called = true
			got = nil
			for _, x := range xs {
				got = append(got, x)
			}
			return "called"
		}
	case "...int":
		elem = "int"
		fn = func(xs ...int) string {
			called = true
			got = nil
			for _, x := range xs {
				got = append(got, x)
			}
			return "called"
		}
	}
	var expr string
	if pipe && len(argNames) > 0 {
		expr = argNames[0] + " | fn"
		if len(argNames) > 1 {
			expr += "(" + strings.Join(argNames[1:], ", ") + ")"
		}
	} else {
		expr = "fn(" + strings.Join(argNames, ", ") + ")"
	}
	res := renderPage(map[string]string{"p.vuego": `<p>[[{{ ` + expr + ` }}]]</p>`}, "p.vuego", data, vuego.WithFuncs(vuego.FuncMap{"fn": fn}))
	var args []any
	for _, n := range argNames {
		args = append(args, toVal(data[n]))
	}
	if args == nil {
		args = []any{}
	}
	var impl any
	switch {
	case res.Panic != "" || res.Timeout:
		impl = map[string]any{"panic": res.Panic}
	case res.Err != "":
		impl = map[string]any{"err": true}
	case called:
		lst := []any{}
		for _, g := range got {
			lst = append(lst, c13StripTy(toVal(g)))
		}
		impl = map[string]any{"ok": lst}
	default:
		impl = map[string]any{"not-called": res.Out}
	}
	name := fmt.Sprintf("callvariadic %s: %s", shape, expr)
	var stripped []any
	for _, a := range args {
		stripped = append(stripped, c13StripTy(a))
	}
	c := &Case{Name: name, Key: name, Op: true, Input: map[string]any{"op": "callvariadic", "fixed": fixed, "elem": elem, "args": args, "shape": shape, "names": argNames, "pipe": pipe}, Impl: impl, Oracle: &Verdict{OK: true},
		Tags: []string{"stream:callvariadic", "shape:" + shape}}
	if fixed == nil {
		c.Input["fixed"] = []string{}
	}
	switch {
	case res.Panic != "" || res.Timeout:
		c.Oracle = &Verdict{OK: false, Class: "callvariadic-crash:" + shape, Detail: fmt.Sprintf("%s: %+v", expr, res)}
	case (shape == "...any" || shape == "any,...any") && len(argNames) >= len(fixed) && (res.Err != "" || !called || len(got) != len(argNames) || !reflect.DeepEqual(impl.(map[string]any)["ok"], stripped) && len(stripped) > 0):
		// every argument is one element of what the function receives
		c.Oracle = &Verdict{OK: false, Class: "callvariadic-arguments-not-one-each:" + shape, Detail: fmt.Sprintf("%s with %v: the function received %d value(s) %v (%s); the call has %d argument(s)", expr, argNames, len(got), got, res.Err, len(argNames))}
	}
	return c
}

func c13CallVariadic(r *Run) {
	data := map[string]any{"lst": []any{1, 2, 3}, "strs": []string{"a", "b"}, "ints": []int{4, 5}, "empty": []any{}, "one": []any{"x"}, "nested": []any{[]any{1}, "y"}, "s": "str", "n": 7, "nilv": nil, "m": map[string]any{"k": "v"}, "digits": "12"}
	names := []string{"lst", "strs", "ints", "empty", "one", "nested", "s", "n", "nilv", "m", "digits"}
	for _, shape := range []string{"...any", "any,...any", "string,...any", "...string", "...int"} {
		for _, pipe := range []bool{false, true} {
			if !pipe {
				r.Add(c13CallVariadicCase(shape, nil, false, data))
			}
			for _, a := range names {
				r.Add(c13CallVariadicCase(shape, []string{a}, pipe, data))
				for _, b := range []string{"lst", "s", "n", "strs"} {
					r.Add(c13CallVariadicCase(shape, []string{a, b}, pipe, data))
				}
			}
			r.Add(c13CallVariadicCase(shape, []string{"s", "lst", "n"}, pipe, data))
		}
	}
}

func c13CallModel(r *Run) {
	c13CallRun = r
	c13CallVariadic(r)
	for _, pt := range c13PTypes {
		for vi, v := range c13CallValues() {
			r.Add(c13CallConvCase(pt, vi, v))
		}
	}
	for params := 0; params <= 3; params++ {
		for _, variadic := range []bool{false, true} {
			for nargs := 0; nargs <= 4; nargs++ {
				if c := c13CallArityCase(params, variadic, nargs); c != nil {
					r.Add(c)
				}
			}
		}
	}
}

// the Go type name that the Val encoding carries for lists and pointers is not part of the model's answer
func c13StripTy(v any) any {
	switch x := v.(type) {
	case map[string]any:
		out := map[string]any{}
		for k, e := range x {
			if k != "ty" && k != "name" {
				out[k] = c13StripTy(e)
			}
		}
		return out
	case []any:
		out := make([]any, len(x))
		for i, e := range x {
			out[i] = c13StripTy(e)
		}
		return out
	}
	return v
}

func c13IsScalar(v any) bool {
	switch v.(type) {
	case bool, int, int8, int16, int32, int64, uint, uint8, uint16, uint32, uint64, uintptr, float64, string:
		return true
	}
	return false
}
