package main

import (
	"bytes"
	"context"
	"fmt"
	"io"
	"os"
	"regexp"
	"sort"
	"strings"
	"testing/fstest"
	"time"

	vuego "github.com/titpetric/vuego"
	"golang.org/x/net/html"
)

// skeleton: elements and attribute names in document order, as an HTML5 parser finds them (fragment parse in <body>).
func parseFragment(src string) []*html.Node {
	body := &html.Node{Type: html.ElementNode, Data: "body", DataAtom: 0}
	doc, _ := html.Parse(strings.NewReader("<html><body></body></html>"))
	var find func(*html.Node) *html.Node
	find = func(n *html.Node) *html.Node {
		if n.Type == html.ElementNode && n.Data == "body" {
			return n
		}
		for c := n.FirstChild; c != nil; c = c.NextSibling {
			if r := find(c); r != nil {
				return r
			}
		}
		return nil
	}
	body = find(doc)
	nodes, _ := html.ParseFragment(strings.NewReader(src), body)
	return nodes
}

func skeletonOf(src string) []string {
	var out []string
	var walk func(n *html.Node, depth int)
	walk = func(n *html.Node, depth int) {
		if n.Type == html.ElementNode {
			var names []string
			for _, a := range n.Attr {
				names = append(names, a.Key)
			}
			sort.Strings(names)
			out = append(out, fmt.Sprintf("%d:%s[%s]", depth, n.Data, strings.Join(names, ",")))
		}
		if n.Type == html.CommentNode {
			out = append(out, fmt.Sprintf("%d:#comment", depth))
		}
		for c := n.FirstChild; c != nil; c = c.NextSibling {
			walk(c, depth+1)
		}
	}
	for _, n := range parseFragment(src) {
		walk(n, 0)
	}
	return out
}

// renderFiles renders `page` from an in-memory file set through the Template API, with a time limit.
type renderResult struct {
	Out     string
	Err     string
	Panic   string
	Timeout bool
}

// Every second call of renderPage / renderPageVue first renders the SAME page on the SAME engine with DECOY data — every string replaced,
// every number given another Go type and value, every boolean flipped — and throws that output away. The property checks then look at the
// second render: by C10 it is a function of its own inputs, so a decoy changes nothing on a tree where that holds, and a change that makes a
// render depend on what the engine evaluated before (a cache keyed too coarsely, a template node edited in place, a program specialised on
// the types it saw first) shows in whatever property's oracle looks at the output.
var decoyCounter int

// altEngine builds the engine for one harness render. Every third engine is built the other documented way — New(WithFS(fs), …) instead of
// NewFS(fs, …): the two constructors are the same engine
var engineCounter int

func altEngine(mfs fstest.MapFS, opts ...vuego.LoadOption) vuego.Template {
	engineCounter++
	if engineCounter%3 == 0 && os.Getenv("VERIF_NO_DECOY") == "" {
		return vuego.New(append([]vuego.LoadOption{vuego.WithFS(mfs)}, opts...)...)
	}
	return vuego.NewFS(mfs, opts...)
}

func decoyOf(v any) any {
	switch x := v.(type) {
	case nil:
		return "DECOY"
	case string:
		return "DECOY " + x + " YOCED"
	case bool:
		return !x
	case int:
		return float64(x) + 1.5
	case int8:
		return int(x) + 1
	case int16:
		return int(x) + 1
	case int32:
		return int64(x) + 1
	case int64:
		return int(x) + 1
	case uint:
		return int(x) + 1
	case uint8:
		return int(x) + 1
	case uint16:
		return int(x) + 1
	case uint32:
		return int(x) + 1
	case uint64:
		return float64(x) + 1
	case float32:
		return float64(x) + 0.25
	case float64:
		return int(x) + 1
	case []any:
		out := make([]any, len(x))
		for i, e := range x {
			out[i] = decoyOf(e)
		}
		return out
	case map[string]any:
		out := make(map[string]any, len(x))
		for k, e := range x {
			out[k] = decoyOf(e)
		}
		return out
	}
	return v // structs, typed slices and maps: as they are (same types, same values)
}

var wideNameRe = regexp.MustCompile(`^[a-z][a-z0-9_]*$`)

// wideScopeDecoy renders, on an engine of its own, a page whose loop instances each bind a wide scope: every top-level name of the data
// of the render that follows, and the loop-variable names the generated pages use, all bound to STALE values by a <template> inside the
// loop. Scope maps are recycled process-wide; one that comes back still holding a name would bind it in some later scope of the render
// under test - where the page expects the root value, or nothing.
func wideScopeDecoy(data any) {
	names := []string{"x", "y", "i", "j", "k", "v", "q", "n", "t", "a", "b", "c", "item", "it", "row", "idx", "key", "val", "name", "index"}
	if m, ok := data.(map[string]any); ok {
		for k := range m {
			if wideNameRe.MatchString(k) {
				names = append(names, k)
			}
		}
	}
	sort.Strings(names)
	var sb strings.Builder
	sb.WriteString(`<u v-for="(wi, wv) in wide"><template`)
	seen := map[string]bool{}
	for _, n := range names {
		if !seen[n] {
			seen[n] = true
			sb.WriteString(" " + n + `="STALE-` + n + `"`)
		}
	}
	sb.WriteString(`>{{ wv }}</template></u><s v-for="w2 in wide">{{ w2 }}</s>`)
	func() {
		defer func() { recover() }()
		mfs := fstest.MapFS{"wide.vuego": &fstest.MapFile{Data: []byte(sb.String())}}
		var buf bytes.Buffer
		_ = vuego.NewFS(mfs).Load("wide.vuego").Fill(map[string]any{"wide": []any{1, 2, 3}}).Render(context.Background(), &buf)
	}()
}

func decoyRender(render func(data any)) func(data any) {
	return func(data any) {
		decoyCounter++
		if decoyCounter%3 == 0 && os.Getenv("VERIF_NO_DECOY") == "" {
			wideScopeDecoy(data)
		}
		if m, ok := data.(map[string]any); ok && decoyCounter%2 == 0 && os.Getenv("VERIF_NO_DECOY") == "" {
			func() {
				defer func() { recover() }()
				render(decoyOf(m))
			}()
		}
	}
}

func renderPage(files map[string]string, page string, data any, opts ...vuego.LoadOption) renderResult {
	mfs := fstest.MapFS{}
	for n, c := range files {
		mfs[n] = &fstest.MapFile{Data: []byte(c), ModTime: time.Unix(1700000000, 0)}
	}
	done := make(chan renderResult, 1)
	go func() {
		var res renderResult
		defer func() {
			if e := recover(); e != nil {
				res.Panic = fmt.Sprint(e)
			}
			done <- res
		}()
		var buf bytes.Buffer
		t := altEngine(mfs, opts...)
		decoyRender(func(d any) { _ = t.Load(page).Fill(d).Render(context.Background(), io.Discard) })(data)
		err := t.Load(page).Fill(data).Render(context.Background(), &buf)
		res.Out = buf.String()
		if err != nil {
			res.Err = err.Error()
		}
	}()
	select {
	case r := <-done:
		return r
	case <-time.After(10 * time.Second):
		return renderResult{Timeout: true}
	}
}

// renderPageAfter renders the page with `first` and then with `data` on ONE engine (both entry points alternate by `viaVue`) and returns the
// second result: what a render gives after the engine has seen the same templates with other values and other Go types
func renderPageAfter(files map[string]string, page string, first, data any, viaVue bool, opts ...vuego.LoadOption) renderResult {
	mfs := fstest.MapFS{}
	for n, c := range files {
		mfs[n] = &fstest.MapFile{Data: []byte(c), ModTime: time.Unix(1700000000, 0)}
	}
	done := make(chan renderResult, 1)
	go func() {
		var res renderResult
		defer func() {
			if e := recover(); e != nil {
				res.Panic = fmt.Sprint(e)
			}
			done <- res
		}()
		t := altEngine(mfs, opts...)
		run := func(d any, w io.Writer) error {
			if viaVue {
				return vuego.VerifVue(t).Render(w, page, d)
			}
			return t.Load(page).Fill(d).Render(context.Background(), w)
		}
		func() {
			defer func() { recover() }()
			_ = run(first, io.Discard)
		}()
		var buf bytes.Buffer
		err := run(data, &buf)
		res.Out = buf.String()
		if err != nil {
			res.Err = err.Error()
		}
	}()
	select {
	case r := <-done:
		return r
	case <-time.After(10 * time.Second):
		return renderResult{Timeout: true}
	}
}

// renderPageVue is renderPage through the engine's own entry point (Vue.Render): the data stays the root data of the stack
func renderPageVue(files map[string]string, page string, data any, opts ...vuego.LoadOption) renderResult {
	mfs := fstest.MapFS{}
	for n, c := range files {
		mfs[n] = &fstest.MapFile{Data: []byte(c), ModTime: time.Unix(1700000000, 0)}
	}
	done := make(chan renderResult, 1)
	go func() {
		var res renderResult
		defer func() {
			if e := recover(); e != nil {
				res.Panic = fmt.Sprint(e)
			}
			done <- res
		}()
		var buf bytes.Buffer
		vv := vuego.VerifVue(altEngine(mfs, opts...))
		decoyRender(func(d any) { _ = vv.Render(io.Discard, page, d) })(data)
		err := vv.Render(&buf, page, data)
		res.Out = buf.String()
		if err != nil {
			res.Err = err.Error()
		}
	}()
	select {
	case r := <-done:
		return r
	case <-time.After(10 * time.Second):
		return renderResult{Timeout: true}
	}
}

func (r renderResult) canon() map[string]any {
	switch {
	case r.Timeout:
		return map[string]any{"hang": true}
	case r.Panic != "":
		return map[string]any{"panic": true}
	case r.Err != "":
		return map[string]any{"err": true}
	}
	return map[string]any{"out": r.Out}
}

// newEngine / renderOn: a long-lived engine over a fixed file set, for checks that need several renders on ONE engine
func newEngine(files map[string]string, opts ...vuego.LoadOption) vuego.Template {
	mfs := fstest.MapFS{}
	for n, c := range files {
		mfs[n] = &fstest.MapFile{Data: []byte(c), ModTime: time.Unix(1700000000, 0)}
	}
	return vuego.NewFS(mfs, opts...)
}

func renderOn(t vuego.Template, page string, data any) (res renderResult) {
	defer func() {
		if e := recover(); e != nil {
			res.Panic = fmt.Sprint(e)
		}
	}()
	var buf bytes.Buffer
	err := t.Load(page).Fill(data).Render(context.Background(), &buf)
	res.Out = buf.String()
	if err != nil {
		res.Err = err.Error()
	}
	return res
}
