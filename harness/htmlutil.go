package main

import (
	"bytes"
	"context"
	"fmt"
	"sort"
	"strings"
	"testing/fstest"
	"time"

	vuego "github.com/titpetric/vuego"
	"golang.org/x/net/html"
)

// skeleton: elements and attribute names in document order, as an HTML5 parser finds them (fragment parse in <body>).
func parseFragment(src string) []*html.Node {
	body := &html.Node{Type: html.ElementNode, Data: "body", DataAtom: 0}
	doc, _ := html.Parse(strings.NewReader("<html><body></body></html>"))
	var find func(*html.Node) *html.Node
	find = func(n *html.Node) *html.Node {
		if n.Type == html.ElementNode && n.Data == "body" {
			return n
		}
		for c := n.FirstChild; c != nil; c = c.NextSibling {
			if r := find(c); r != nil {
				return r
			}
		}
		return nil
	}
	body = find(doc)
	nodes, _ := html.ParseFragment(strings.NewReader(src), body)
	return nodes
}

func skeletonOf(src string) []string {
	var out []string
	var walk func(n *html.Node, depth int)
	walk = func(n *html.Node, depth int) {
		if n.Type == html.ElementNode {
			var names []string
			for _, a := range n.Attr {
				names = append(names, a.Key)
			}
			sort.Strings(names)
			out = append(out, fmt.Sprintf("%d:%s[%s]", depth, n.Data, strings.Join(names, ",")))
		}
		if n.Type == html.CommentNode {
			out = append(out, fmt.Sprintf("%d:#comment", depth))
		}
		for c := n.FirstChild; c != nil; c = c.NextSibling {
			walk(c, depth+1)
		}
	}
	for _, n := range parseFragment(src) {
		walk(n, 0)
	}
	return out
}

// renderFiles renders `page` from an in-memory file set through the Template API, with a time limit.
type renderResult struct {
	Out     string
	Err     string
	Panic   string
	Timeout bool
}

func renderPage(files map[string]string, page string, data any, opts ...vuego.LoadOption) renderResult {
	mfs := fstest.MapFS{}
	for n, c := range files {
		mfs[n] = &fstest.MapFile{Data: []byte(c), ModTime: time.Unix(1700000000, 0)}
	}
	done := make(chan renderResult, 1)
	go func() {
		var res renderResult
		defer func() {
			if e := recover(); e != nil {
				res.Panic = fmt.Sprint(e)
			}
			done <- res
		}()
		var buf bytes.Buffer
		t := vuego.NewFS(mfs, opts...)
		err := t.Load(page).Fill(data).Render(context.Background(), &buf)
		res.Out = buf.String()
		if err != nil {
			res.Err = err.Error()
		}
	}()
	select {
	case r := <-done:
		return r
	case <-time.After(10 * time.Second):
		return renderResult{Timeout: true}
	}
}

// renderPageVue is renderPage through the engine's own entry point (Vue.Render): the data stays the root data of the stack
func renderPageVue(files map[string]string, page string, data any, opts ...vuego.LoadOption) renderResult {
	mfs := fstest.MapFS{}
	for n, c := range files {
		mfs[n] = &fstest.MapFile{Data: []byte(c), ModTime: time.Unix(1700000000, 0)}
	}
	done := make(chan renderResult, 1)
	go func() {
		var res renderResult
		defer func() {
			if e := recover(); e != nil {
				res.Panic = fmt.Sprint(e)
			}
			done <- res
		}()
		var buf bytes.Buffer
		err := vuego.VerifVue(vuego.NewFS(mfs, opts...)).Render(&buf, page, data)
		res.Out = buf.String()
		if err != nil {
			res.Err = err.Error()
		}
	}()
	select {
	case r := <-done:
		return r
	case <-time.After(10 * time.Second):
		return renderResult{Timeout: true}
	}
}

func (r renderResult) canon() map[string]any {
	switch {
	case r.Timeout:
		return map[string]any{"hang": true}
	case r.Panic != "":
		return map[string]any{"panic": true}
	case r.Err != "":
		return map[string]any{"err": true}
	}
	return map[string]any{"out": r.Out}
}

// newEngine / renderOn: a long-lived engine over a fixed file set, for checks that need several renders on ONE engine
func newEngine(files map[string]string, opts ...vuego.LoadOption) vuego.Template {
	mfs := fstest.MapFS{}
	for n, c := range files {
		mfs[n] = &fstest.MapFile{Data: []byte(c), ModTime: time.Unix(1700000000, 0)}
	}
	return vuego.NewFS(mfs, opts...)
}

func renderOn(t vuego.Template, page string, data any) (res renderResult) {
	defer func() {
		if e := recover(); e != nil {
			res.Panic = fmt.Sprint(e)
		}
	}()
	var buf bytes.Buffer
	err := t.Load(page).Fill(data).Render(context.Background(), &buf)
	res.Out = buf.String()
	if err != nil {
		res.Err = err.Error()
	}
	return res
}
