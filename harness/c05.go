package main

// C05 — components. The component prints every prop / front-matter / outer name; the includer prints the same names after the
// include. A reference computed from the case (not from the model) says which value, or none, each position must show.

import (
	"fmt"
	"regexp"
	"strings"

	vuego "github.com/titpetric/vuego"
)

func init() { props["C05"] = runC05 }

var c05Re = regexp.MustCompile(`«(.*?)»`)

type c05Prop struct {
	name string
	form string // "static" | "interp" | "bound" | "omit"
}

type c05Case struct {
	desc     string
	props    []c05Prop
	fmKeys   []string // front-matter keys of the component
	required []string
	wrapped  bool // component wrapped in <template :required=…>
	tagForm  bool // use the registered shorthand tag instead of <template include>
	times    int  // how many times the component is included
}

var c05Names = []string{"a", "b", "outerv", "fmk"}

func c05Eval(cs c05Case) *Case {
	// includer variables
	data := map[string]any{"outerv": "OUTER", "src": "SRCVAL", "num": 42, "lst": []any{1, "two"}, "obj": map[string]any{"k": "v"}, "a": "A-OUTER", "todo": "[ ] Buy milk"}
	var attrs []string
	want := map[string]string{"outerv": "OUTER", "a": "A-OUTER", "b": "", "fmk": ""}
	for _, p := range cs.props {
		switch p.form {
		case "static":
			attrs = append(attrs, fmt.Sprintf(`%s="S-%s"`, p.name, p.name))
			want[p.name] = "S-" + p.name
		case "interp":
			attrs = append(attrs, fmt.Sprintf(`%s="I-{{ src }}"`, p.name))
			want[p.name] = "I-SRCVAL"
		case "bound":
			attrs = append(attrs, fmt.Sprintf(`:%s="src"`, p.name))
			want[p.name] = "SRCVAL"
		case "bound-num":
			attrs = append(attrs, fmt.Sprintf(`:%s="num"`, p.name))
			want[p.name] = "42"
		case "bound-list":
			attrs = append(attrs, fmt.Sprintf(`:%s="lst"`, p.name))
			want[p.name] = "[1 two]"
		case "bound-obj":
			attrs = append(attrs, fmt.Sprintf(`:%s="obj"`, p.name))
			want[p.name] = "map[k:v]"
		// a prop whose text IS a JSON document is decoded; one that only BEGINS like JSON is the string it is
		case "static-json":
			attrs = append(attrs, fmt.Sprintf(`%s='[1,"two"]'`, p.name))
			want[p.name] = "[1 two]"
		case "static-jsonish":
			attrs = append(attrs, fmt.Sprintf(`%s="[1] Introduction"`, p.name))
			want[p.name] = "[1] Introduction"
		case "bound-jsonish":
			attrs = append(attrs, fmt.Sprintf(`:%s="todo"`, p.name))
			want[p.name] = "[ ] Buy milk"
		case "interp-jsonish":
			attrs = append(attrs, fmt.Sprintf(`%s="{} is {{ src }}"`, p.name))
			want[p.name] = "{} is SRCVAL"
		}
	}
	fm := ""
	if len(cs.fmKeys) > 0 {
		fm = "---\n"
		for _, k := range cs.fmKeys {
			fm += k + ": FM-" + k + "\n"
			want[k] = "FM-" + k
		}
		fm += "---\n"
	}
	body := ""
	for _, n := range c05Names {
		body += fmt.Sprintf("<i>«in:%s={{ %s }}»</i>", n, n)
	}
	// type of a bound prop as the component sees it
	body += `<u>«type:{{ a | type }}»</u>`
	comp := fm + body
	if cs.wrapped {
		comp = fm + `<template :required="` + strings.Join(cs.required, ",") + `">` + body + `</template>`
	} else if len(cs.required) > 0 {
		comp = fm + `<template :required="` + strings.Join(cs.required, ",") + `">` + body + `</template>`
	}
	inc := `<template include="components/MyComp.vuego" ` + strings.Join(attrs, " ") + `></template>`
	if cs.tagForm {
		inc = `<my-comp ` + strings.Join(attrs, " ") + `></my-comp>`
	}
	page := "<b>«before»</b>"
	for i := 0; i < cs.times; i++ {
		page += inc
	}
	for _, n := range c05Names {
		page += fmt.Sprintf("<i>«after:%s={{ %s }}»</i>", n, n)
	}
	files := map[string]string{"p.vuego": page, "components/MyComp.vuego": comp}
	res := renderPage(files, "p.vuego", data, vuego.WithComponents())
	{
		// correspondence: the same case without the `type` filter (not among the modelled built-ins)
		f2 := map[string]string{"p.vuego": page, "components/MyComp.vuego": strings.Replace(comp, `<u>«type:{{ a | type }}»</u>`, "", 1)}
		pendingPages = append(pendingPages, pageCase("component", f2, map[string]string{"my-comp": "components/MyComp.vuego"}, "p.vuego", data, fmt.Sprintf("tag:%v", cs.tagForm)))
	}
	c := &Case{Name: cs.desc, Input: map[string]any{"desc": cs.desc, "files": files}, Impl: res.canon(), Oracle: &Verdict{OK: true}, Key: cs.desc, Tags: []string{fmt.Sprintf("tag:%v", cs.tagForm), fmt.Sprintf("wrapped:%v", cs.wrapped)}}
	// required: fails iff a listed name is absent from the merged environment the component sees
	missing := ""
	for _, rq := range cs.required {
		if want[rq] == "" {
			if _, outer := data[rq]; !outer {
				missing = rq
				break
			}
		}
	}
	if res.Panic != "" || res.Timeout {
		c.Oracle = &Verdict{OK: false, Class: "component-crash", Detail: fmt.Sprintf("%+v", res)}
		return c
	}
	if missing != "" {
		if res.Err == "" {
			c.Oracle = &Verdict{OK: false, Class: "required-not-enforced", Detail: fmt.Sprintf("%s: required %q is not provided but the render succeeded: %q", cs.desc, missing, res.Out)}
		} else if !strings.Contains(res.Err, missing) {
			c.Oracle = &Verdict{OK: false, Class: "required-error-lacks-name", Detail: fmt.Sprintf("error %q does not name %q", res.Err, missing)}
		}
		return c
	}
	if res.Err != "" {
		c.Oracle = &Verdict{OK: false, Class: "spurious-component-error", Detail: cs.desc + ": " + res.Err}
		return c
	}
	var wantSeq []string
	wantSeq = append(wantSeq, "before")
	for i := 0; i < cs.times; i++ {
		for _, n := range c05Names {
			wantSeq = append(wantSeq, fmt.Sprintf("in:%s=%s", n, want[n]))
		}
		ty := "string"
		for _, p := range cs.props {
			if p.name == "a" {
				switch p.form {
				case "bound-num":
					ty = "int"
				case "bound-list", "static-json":
					ty = "[]interface {}"
				case "bound-obj":
					ty = "map[string]interface {}"
				}
			}
		}
		for _, k := range cs.fmKeys {
			if k == "a" {
				ty = "string"
			}
		}
		wantSeq = append(wantSeq, "type:"+ty)
	}
	// nothing leaks back: after the include the includer sees its own values
	for _, n := range c05Names {
		v := ""
		if x, ok := data[n]; ok {
			v = fmt.Sprint(x)
		}
		wantSeq = append(wantSeq, fmt.Sprintf("after:%s=%s", n, v))
	}
	var got []string
	for _, m := range c05Re.FindAllStringSubmatch(res.Out, -1) {
		got = append(got, m[1])
	}
	if strings.Join(got, ",") != strings.Join(wantSeq, ",") {
		cls := "component-values"
		for i := range got {
			if i < len(wantSeq) && got[i] != wantSeq[i] {
				if strings.HasPrefix(wantSeq[i], "after:") {
					cls = "binding-leaks-to-includer"
				}
				if strings.HasPrefix(wantSeq[i], "type:") {
					cls = "bound-prop-type"
				}
				break
			}
		}
		c.Oracle = &Verdict{OK: false, Class: cls, Detail: fmt.Sprintf("%s: markers %v, expected %v", cs.desc, got, wantSeq)}
	}
	return c
}

func c05Cases() []c05Case {
	var out []c05Case
	forms := []string{"omit", "static", "interp", "bound", "bound-num", "bound-list", "bound-obj", "static-json", "static-jsonish", "bound-jsonish", "interp-jsonish"}
	for _, fa := range forms {
		for _, fb := range []string{"omit", "static", "bound"} {
			for _, fmk := range [][]string{nil, {"fmk"}, {"a"}, {"a", "fmk"}, {"outerv"}} {
				for _, req := range [][]string{nil, {"a"}, {"b"}, {"a", "b"}, {"fmk"}, {"outerv"}, {"nope"}} {
					for _, wrapped := range []bool{false, true} {
						if !wrapped && len(req) > 0 {
							continue
						}
						var ps []c05Prop
						if fa != "omit" {
							ps = append(ps, c05Prop{"a", fa})
						}
						if fb != "omit" {
							ps = append(ps, c05Prop{"b", fb})
						}
						for _, tag := range []bool{false, true} {
							for _, times := range []int{1, 2} {
								if times == 2 && (len(req) > 1 || tag) {
									continue
								}
								out = append(out, c05Case{desc: fmt.Sprintf("a=%s b=%s fm=%v req=%v wrapped=%v tag=%v x%d", fa, fb, fmk, req, wrapped, tag, times), props: ps, fmKeys: fmk, required: req, wrapped: wrapped, tagForm: tag, times: times})
							}
						}
					}
				}
			}
		}
	}
	return out
}

func runC05(r *Run, replay *Case) {
	defer flushPages(r)
	cases := c05Cases()
	if replay != nil {
		if replay.Input["stream"] == "instances" {
			c05InstanceIndependence(r)
			return
		}
		if replay.Input["stream"] == "include-in-slot-content" {
			c05IncludeInSlotContent(r)
			return
		}
		if replay.Input["stream"] == "null-front-matter" {
			c05NullFrontMatter(r)
			return
		}
		if replay.Input["stream"] == "required-provided-empty" {
			c05RequiredProvidedEmpty(r)
			return
		}
		if replay.Input["stream"] == "conditional-include" {
			c05ConditionalIncludes(r)
			return
		}
		for _, cs := range cases {
			if cs.desc == replay.Input["desc"] {
				r.Add(c05Eval(cs))
			}
		}
		return
	}
	r.Res.Rule = "component included via <template include> and via its registered shorthand tag, 1-2 times (same props) and 3 times with DIFFERENT props forwarded to nested components (4 ways of writing the instances x 4 ways of forwarding x depth 2-3), with props a/b in every form (omitted, static, interpolated, bound string/int/list/map), " +
		"front-matter colliding with props / includer variables or not, :required lists over provided, omitted, front-matter, includer and unknown names, wrapped or unwrapped component file; " +
		"reference computed from the case; non-trivial = every case; exhaustive over the catalogue"
	for _, cs := range cases {
		r.Add(c05Eval(cs))
	}
	c05InstanceIndependence(r)
	c05ConditionalIncludes(r)
	c05IncludeInSlotContent(r)
	c05RequiredProvidedEmpty(r)
	c05NullFrontMatter(r)
	// the same component several times with DIFFERENT props, the component forwarding them to a nested component: every instance receives
	// exactly its own props at every level (how the instances are written x how the props are forwarded x depth)
	for _, how := range []string{"separate", "loop", "loop-tag", "separate-tag", "loop-samename", "loop-tag-samename"} {
		for _, fwd := range []string{"bound", "interp", "tag-bound", "vhtml"} {
			for _, depth := range []int{2, 3} {
				vals := []string{"one", "two", "three"}
				var page strings.Builder
				page.WriteString("<b>«before»</b>")
				switch how {
				case "separate":
					for _, v := range vals {
						page.WriteString(`<template include="components/Card.vuego" t="` + v + `"></template>`)
					}
				case "separate-tag":
					for _, v := range vals {
						page.WriteString(`<card t="` + v + `"></card>`)
					}
				case "loop":
					page.WriteString(`<template v-for="v in vals" include="components/Card.vuego" :t="v"></template>`)
				case "loop-tag":
					page.WriteString(`<div v-for="v in vals"><card :t="v"></card></div>`)
				// the bound prop is NAMED like the loop variable: it is a binding of the component instance, not of the includer
				case "loop-samename":
					page.WriteString(`<template v-for="t in vals" include="components/Card.vuego" :t="t"></template>`)
				case "loop-tag-samename":
					page.WriteString(`<div v-for="t in vals"><card :t="t"></card></div>`)
				}
				page.WriteString(`<i>«after:{{ t }}|{{ v }}»</i>`)
				var inner string
				switch fwd {
				case "bound":
					inner = `<template include="components/Badge.vuego" :label="t"></template>`
				case "interp":
					inner = `<template include="components/Badge.vuego" label="{{ t }}"></template>`
				case "tag-bound":
					inner = `<badge :label="t"></badge>`
				case "vhtml":
					inner = `<template include="components/Badge.vuego" :label="t"></template><template v-html="t"></template>`
				}
				badge := `<i>«badge:{{ label }}»</i>`
				if depth == 3 {
					badge = `<template include="components/Leaf.vuego" :v="label"></template>`
				}
				ff := map[string]string{"p.vuego": page.String(), "components/Card.vuego": `<section>«card:{{ t }}»` + inner + `</section>`, "components/Badge.vuego": badge, "components/Leaf.vuego": `<u>«leaf:{{ v }}»</u>`}
				d := map[string]any{"vals": []any{"one", "two", "three"}, "t": "OT"}
				rr := renderPage(ff, "p.vuego", d, vuego.WithComponents())
				pendingPages = append(pendingPages, pageCase("forwarding", ff, map[string]string{"card": "components/Card.vuego", "badge": "components/Badge.vuego", "leaf": "components/Leaf.vuego"}, "p.vuego", d, "forward:"+fwd))
				var want, got []string
				want = append(want, "before")
				for _, v := range vals {
					want = append(want, "card:"+v)
					if depth == 3 {
						want = append(want, "leaf:"+v)
					} else {
						want = append(want, "badge:"+v)
					}
				}
				want = append(want, "after:OT|")
				for _, m := range c05Re.FindAllStringSubmatch(rr.Out, -1) {
					got = append(got, m[1])
				}
				desc := fmt.Sprintf("forward how=%s fwd=%s depth=%d", how, fwd, depth)
				cf := &Case{Name: desc, Input: map[string]any{"desc": desc, "files": ff}, Impl: rr.canon(), Oracle: &Verdict{OK: true}, Key: desc, Tags: []string{"forwarding"}}
				if rr.Err != "" || strings.Join(got, ",") != strings.Join(want, ",") {
					cf.Oracle = &Verdict{OK: false, Class: "instance-props-not-own:" + how + ":" + fwd, Detail: fmt.Sprintf("%s: markers %v, expected %v (%s)", desc, got, want, rr.Err)}
				}
				r.Add(cf)
			}
		}
	}
	// a static default next to a bound override of the same name (`n="0" :n="count"`): a truthy bound value arrives exactly as it does without
	// the default — same value, same TYPE —, a falsy one leaves the default in place
	for vi, v := range []any{"str", 4, 2.5, true, []any{"a", "b"}, map[string]any{"k": "v"}, int64(7), uint8(3), "", 0, false, nil, []any{}} {
		for _, tag := range []bool{false, true} {
			mk := func(attrs string) map[string]string {
				inc := `<template include="components/Typed.vuego" ` + attrs + `></template>`
				if tag {
					inc = `<typed ` + attrs + `></typed>`
				}
				return map[string]string{"p.vuego": "<b>«before»</b>" + inc + inc + "<i>«after:{{ n }}»</i>",
					"components/Typed.vuego": `<i>«{{ n | type }}:{{ n }}»</i><u v-for="x in n">«item:{{ x }}»</u><s v-if="n">«truthy»</s>`}
			}
			d := map[string]any{"v": v}
			both := renderPage(mk(`n="D" :n="v" other="o"`), "p.vuego", d, vuego.WithComponents())
			ref := renderPage(mk(`:n="v" other="o"`), "p.vuego", d, vuego.WithComponents())
			if !c03Documented(v) {
				ref = renderPage(mk(`n="D" other="o"`), "p.vuego", d, vuego.WithComponents())
			}
			mf := mk(`n="D" :n="v" other="o"`) // the model has no `type` function: `len` tells a list from its printed form and a number from a numeric string
			mf["components/Typed.vuego"] = strings.Replace(mf["components/Typed.vuego"], "n | type", "n | len", 1)
			pendingPages = append(pendingPages, pageCase("default-override", mf, map[string]string{"typed": "components/Typed.vuego"}, "p.vuego", d))
			desc := fmt.Sprintf("default-override v#%d tag=%v", vi, tag)
			cd := &Case{Name: desc, Input: map[string]any{"desc": desc, "files": mk(`n="D" :n="v" other="o"`), "v": toVal(v)}, Impl: both.canon(), Oracle: &Verdict{OK: true}, Key: desc, Tags: []string{"default-override"}}
			if both.Out != ref.Out || both.Err != ref.Err {
				cd.Oracle = &Verdict{OK: false, Class: fmt.Sprintf("bound-override-loses-type:%T", v), Detail: fmt.Sprintf("n=\"D\" :n=\"v\" with v=%#v gives %q/%s; the reference form gives %q/%s", v, both.Out, both.Err, ref.Out, ref.Err)}
			}
			r.Add(cd)
		}
	}
	// props whose NAMES are also words of the template language on other tags (`required`, `require` — the validation list of a plain
	// <template>) are ordinary props on an include tag, in every form; the includer's variable of the same name is shadowed inside only
	for pi, pc := range []struct{ attrs, comp, want string }{
		{`:required="flag" name="n"`, `<i>«{{ required }}|{{ name }}»</i>`, "true|n"},
		{`required="R" name="n"`, `<i>«{{ required }}|{{ name }}»</i>`, "R|n"},
		{`:require="num" required="yes"`, `<i>«{{ require }}|{{ required }}»</i>`, "42|yes"},
		{`v-bind:required="flag"`, `<i>«{{ required }}»</i>`, "true"},
		{`:required="flag" name="n"`, `<template :required="required,name"><i>«{{ required }}|{{ name }}»</i></template>`, "true|n"},
		{`required="{{ src }}"`, `<i>«{{ required }}»</i>`, "SRCVAL"},
	} {
		for _, tag := range []bool{false, true} {
			inc := `<template include="components/Field.vuego" ` + pc.attrs + `></template>`
			if tag {
				inc = `<field ` + pc.attrs + `></field>`
			}
			ff := map[string]string{"p.vuego": `<b>«before:{{ required }}»</b>` + inc + `<b>«after:{{ required }}»</b>`, "components/Field.vuego": pc.comp}
			d := map[string]any{"flag": true, "num": 42, "src": "SRCVAL", "required": "PAGE"}
			rr := renderPage(ff, "p.vuego", d, vuego.WithComponents())
			pendingPages = append(pendingPages, pageCase("propnames", ff, map[string]string{"field": "components/Field.vuego"}, "p.vuego", d))
			var got []string
			for _, m := range c05Re.FindAllStringSubmatch(rr.Out, -1) {
				got = append(got, m[1])
			}
			want := []string{"before:PAGE", pc.want, "after:PAGE"}
			desc := fmt.Sprintf("propnames #%d tag=%v", pi, tag)
			cp := &Case{Name: desc, Input: map[string]any{"desc": desc, "files": ff}, Impl: rr.canon(), Oracle: &Verdict{OK: true}, Key: desc, Tags: []string{"propnames"}}
			if rr.Err != "" || strings.Join(got, ",") != strings.Join(want, ",") {
				cp.Oracle = &Verdict{OK: false, Class: "prop-named-like-a-directive", Detail: fmt.Sprintf("%s: markers %v, expected %v (%s); include tag %s", desc, got, want, rr.Err, inc)}
			}
			r.Add(cp)
		}
	}
	// nested includes: props do not leak across levels
	files := map[string]string{
		"p.vuego": `<template include="o.vuego" x="PX"></template><i>«p:x={{ x }} y={{ y }}»</i>`,
		"o.vuego": `<i>«o1:x={{ x }} y={{ y }}»</i><template include="n.vuego" y="OY" :x="x"></template><i>«o2:x={{ x }} y={{ y }}»</i>`,
		"n.vuego": "---\nx: NX\n---\n<i>«n:x={{ x }} y={{ y }}»</i>",
	}
	res := renderPage(files, "p.vuego", map[string]any{})
	var got []string
	for _, m := range c05Re.FindAllStringSubmatch(res.Out, -1) {
		got = append(got, m[1])
	}
	want := []string{"o1:x=PX y=", "n:x=NX y=OY", "o2:x=PX y=", "p:x= y="}
	c := &Case{Name: "nested includes", Input: map[string]any{"desc": "nested", "files": files}, Impl: res.canon(), Oracle: &Verdict{OK: true}, Key: "nested"}
	if strings.Join(got, ",") != strings.Join(want, ",") {
		c.Oracle = &Verdict{OK: false, Class: "nested-include-values", Detail: fmt.Sprintf("markers %v, expected %v (%s)", got, want, res.Err)}
	}
	r.Add(c)
	// the shorthand tag is equivalent to <template include> wherever it is written: inside a component file, in slot content, in a loop
	for _, variant := range []struct{ name, tagged, plain string }{
		{"inside-component", `<my-comp a="IN"></my-comp>`, `<template include="components/MyComp.vuego" a="IN"></template>`},
		{"in-loop", `<div v-for="q in two"><my-comp :a="q"></my-comp></div>`, `<div v-for="q in two"><template include="components/MyComp.vuego" :a="q"></template></div>`},
	} {
		mk := func(inner string) map[string]string {
			return map[string]string{"p.vuego": `<template include="outer.vuego"></template>`, "outer.vuego": "<section>" + inner + "</section>", "components/MyComp.vuego": `<i>«c:{{ a }}»</i>`}
		}
		d := map[string]any{"two": []any{"x", "y"}}
		rt := renderPage(mk(variant.tagged), "p.vuego", d, vuego.WithComponents())
		rp := renderPage(mk(variant.plain), "p.vuego", d, vuego.WithComponents())
		cc := &Case{Name: "shorthand " + variant.name, Input: map[string]any{"desc": "shorthand-" + variant.name, "files": mk(variant.tagged)}, Impl: rt.canon(), Oracle: &Verdict{OK: true}, Key: "shorthand-" + variant.name}
		if rt.Out != rp.Out || rt.Err != rp.Err {
			cc.Oracle = &Verdict{OK: false, Class: "shorthand-not-equivalent:" + variant.name, Detail: fmt.Sprintf("tag form gives %q/%s, <template include> gives %q/%s", rt.Out, rt.Err, rp.Out, rp.Err)}
		}
		r.Add(cc)
	}
	// a RECURSIVE component: it refers to itself through its own shorthand tag (a tree node, a nested menu, a comment thread); the same tree
	// written with <template include> is the reference, and the nodes' names fix the expected markers
	{
		tree := map[string]any{"name": "root", "children": []any{
			map[string]any{"name": "child-a", "children": []any{map[string]any{"name": "grandchild-a1"}}},
			map[string]any{"name": "child-b"}}}
		mk := func(tagged bool) map[string]string {
			inner := `<template v-for="c in node.children" include="components/TreeNode.vuego" :node="c"></template>`
			page := `<ul><template include="components/TreeNode.vuego" :node="tree"></template></ul>`
			if tagged {
				inner = `<tree-node v-for="c in node.children" :node="c"></tree-node>`
				page = `<ul><tree-node :node="tree"></tree-node></ul>`
			}
			return map[string]string{"p.vuego": page, "components/TreeNode.vuego": `<li>«node:{{ node.name }}»<ul>` + inner + `</ul></li>`}
		}
		d := map[string]any{"tree": tree}
		rt := renderPage(mk(true), "p.vuego", d, vuego.WithComponents())
		rp := renderPage(mk(false), "p.vuego", d, vuego.WithComponents())
		cc := &Case{Name: "shorthand recursive", Input: map[string]any{"desc": "shorthand-recursive", "files": mk(true)}, Impl: rt.canon(), Oracle: &Verdict{OK: true}, Key: "shorthand-recursive"}
		var got []string
		for _, m := range c05Re.FindAllStringSubmatch(rt.Out, -1) {
			got = append(got, m[1])
		}
		want := "node:root,node:child-a,node:grandchild-a1,node:child-b"
		switch {
		case rt.Err != "" || strings.Join(got, ",") != want:
			cc.Oracle = &Verdict{OK: false, Class: "shorthand-not-equivalent:recursive", Detail: fmt.Sprintf("a component using its own shorthand tag renders %v (%s), expected %s; output %q", got, rt.Err, want, rt.Out)}
		case strings.Join(strings.Fields(rt.Out), "") != strings.Join(strings.Fields(rp.Out), ""):
			cc.Oracle = &Verdict{OK: false, Class: "shorthand-not-equivalent:recursive", Detail: fmt.Sprintf("tag form gives %q, <template include> gives %q", rt.Out, rp.Out)}
		}
		r.Add(cc)
		pendingPages = append(pendingPages, pageCase("shorthand-recursive", mk(true), map[string]string{"tree-node": "components/TreeNode.vuego"}, "p.vuego", d, "shorthand:recursive"))
	}
	r.Res.Exhaustive = true
}
