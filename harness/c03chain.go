package main

// placeholder until the evaluator model lands: chain enumeration is added in c03chain.go
func c03Chains(r *Run)                   {}
func c03ReplayChain(r *Run, replay *Case) {}
