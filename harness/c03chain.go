package main

// C03, stream 2 — chains. Every chain member and every neighbour is a marker element; the parsed output must list exactly the
// expected markers in order. Chain shapes <= N members x all truth assignments x placements x separators.

import (
	"fmt"
	"regexp"
	"strings"

	"github.com/titpetric/vuego"
)

var c03MarkRe = regexp.MustCompile(`\[([A-Za-z0-9-]+)\]`)

type c03Chain struct {
	kinds []string // "if", "elseif", "else"
	truth []bool   // per member (ignored for else)
}

func (c c03Chain) markup(sep string, tag string, prefix string) string {
	var sb strings.Builder
	// "tag|extra attributes": the members also carry these attributes (v-once, …)
	closeTag := tag
	if i := strings.Index(tag, "|"); i >= 0 {
		closeTag = tag[:i]
		tag = tag[:i] + " " + tag[i+1:]
	}
	for i, k := range c.kinds {
		if i > 0 {
			sb.WriteString(sep)
		}
		cond := fmt.Sprintf("%sc%d", prefix, i)
		// members that ARE includes ("@include", "@shorthand"): the branch that is rendered is the component, which prints the marker
		if inc, ok := c03IncludeMember[tag]; ok {
			dir := map[string]string{"if": `v-if="` + cond + `"`, "elseif": `v-else-if="` + cond + `"`, "else": "v-else"}[k]
			fmt.Fprintf(&sb, inc, dir, fmt.Sprintf("%sm%d", prefix, i))
			continue
		}
		switch k {
		case "if":
			fmt.Fprintf(&sb, `<%s v-if="%s">[%sm%d]</%s>`, tag, cond, prefix, i, closeTag)
		case "elseif":
			fmt.Fprintf(&sb, `<%s v-else-if="%s">[%sm%d]</%s>`, tag, cond, prefix, i, closeTag)
		case "else":
			fmt.Fprintf(&sb, `<%s v-else>[%sm%d]</%s>`, tag, prefix, i, closeTag)
		}
	}
	return sb.String()
}

func (c c03Chain) data(prefix string, d map[string]any) {
	for i := range c.kinds {
		if i < len(c.truth) {
			d[fmt.Sprintf("%sc%d", prefix, i)] = c.truth[i]
		}
	}
}

// expected: first member whose condition is truthy (else always), members after a complete chain that are orphans are dropped
func (c c03Chain) expect(prefix string) []string {
	// the chain starts at the first "if"; members before it (orphans) are dropped; after an "else" the chain ends: later members are orphans
	started := false
	done := false
	var out []string
	for i, k := range c.kinds {
		if k == "if" {
			started, done = true, false
		}
		if !started {
			continue
		}
		if done {
			if k == "if" {
				done = false
			} else {
				continue
			}
		}
		t := k == "else" || c.truth[i]
		if k == "if" || !done {
			if t {
				out = append(out, fmt.Sprintf("%sm%d", prefix, i))
				done = true
			}
		}
		if k == "else" {
			started = false
		}
	}
	return out
}

func c03ChainShapes(maxLen int) []c03Chain {
	var shapes [][]string
	var rec func(prefix []string, n int)
	rec = func(prefix []string, n int) {
		if len(prefix) > 0 {
			shapes = append(shapes, append([]string{}, prefix...))
		}
		if n == 0 {
			return
		}
		for _, k := range []string{"if", "elseif", "else"} {
			rec(append(prefix, k), n-1)
		}
	}
	rec(nil, maxLen)
	var out []c03Chain
	for _, s := range shapes {
		n := len(s)
		for mask := 0; mask < 1<<n; mask++ {
			skip := false
			truth := make([]bool, n)
			for i := range s {
				truth[i] = mask&(1<<i) != 0
				if s[i] == "else" && truth[i] {
					skip = true // else has no condition: one assignment only
				}
			}
			if !skip {
				out = append(out, c03Chain{s, truth})
			}
		}
	}
	return out
}

// chain members that are includes: format strings taking the chain directive and the marker name
var c03IncludeMember = map[string]string{
	"@include":       `<template %s include="mark.vuego" mark="%s"></template>`,
	"@include-bound": `<template %s include="mark.vuego" :mark="'%s'"></template>`,
	"@shorthand":     `<mark-it %s mark="%s"></mark-it>`,
}

const c03MarkComponent = `<i>[{{ mark }}]</i>`

type c03Placement struct {
	name string
	wrap func(chain string) string
	rep  int // how many times the chain is instantiated
}

var c03Placements = []c03Placement{
	{"top", func(c string) string { return "<b>[pre]</b>" + c + "<b>[post]</b>" }, 1},
	{"nested", func(c string) string { return "<div><b>[pre]</b>" + c + "<b>[post]</b></div>" }, 1},
	// the chain is the LAST content of its parent (nothing between the last member and the closing tag)
	{"nested-tail", func(c string) string { return "<div><b>[pre]</b> " + c + "</div><b>[post]</b>" }, 1},
	{"nested-only", func(c string) string { return "<b>[pre]</b><ul>" + c + "</ul><b>[post]</b>" }, 1},
	{"in-vfor", func(c string) string { return `<div v-for="q in two"><b>[pre]</b>` + c + `<b>[post]</b></div>` }, 2},
	{"in-vif-branch", func(c string) string {
		return `<div v-if="yes"><b>[pre]</b>` + c + `<b>[post]</b></div><div v-else>[never]</div>`
	}, 1},
	{"in-template", func(c string) string { return `<template><b>[pre]</b>` + c + `<b>[post]</b></template>` }, 1},
	{"no-neighbours", func(c string) string { return c }, 1},
	// the chain follows a node that is evaluated IN PLACE (<template v-html>) and is the last content of its parent: when the chain renders
	// nothing, that node is the last evaluated child
	{"after-inplace-template-tail", func(c string) string {
		return `<div><b>[pre]</b><template v-html="hv"></template>` + c + `</div><b>[post]</b>`
	}, 1},
	// ... the parent being itself the selected member of a chain (its children are linked by other code)
	{"after-inplace-template-in-chain-member", func(c string) string {
		return `<b>[pre]</b><section v-if="yes"><template v-html="hv"></template>` + c + `</section><i v-else>[never]</i><b>[post]</b>`
	}, 1},
	{"after-inplace-template-in-vfor", func(c string) string {
		return `<div v-for="q in two"><b>[pre]</b><section><template v-html="hv"></template>` + c + `</section><b>[post]</b></div>`
	}, 2},
}

var c03Seps = []struct{ name, s string }{{"none", ""}, {"ws", "\n  "}, {"comment", "<!-- c -->"}, {"text", " txt "}}

func c03ChainCase(ch c03Chain, pl c03Placement, sep string, sepName string, tag string) *Case {
	tpl := pl.wrap(ch.markup(sep, tag, ""))
	d := map[string]any{"two": []any{1, 2}, "yes": true, "hv": "<u>raw</u>"}
	ch.data("", d)
	files := map[string]string{"p.vuego": tpl}
	var comps map[string]string
	var opts []vuego.LoadOption
	if _, ok := c03IncludeMember[tag]; ok {
		files["mark.vuego"] = c03MarkComponent
		if tag == "@shorthand" {
			files = map[string]string{"p.vuego": tpl, "components/MarkIt.vuego": c03MarkComponent}
			comps = map[string]string{"mark-it": "components/MarkIt.vuego"}
			opts = append(opts, vuego.WithComponents())
		}
	}
	res := renderPage(files, "p.vuego", d, opts...)
	pendingPages = append(pendingPages, pageCase("chain", files, comps, "p.vuego", d, "placement:"+pl.name))
	c := &Case{Name: fmt.Sprintf("chain %v %v in %s sep %s tag %s", ch.kinds, ch.truth, pl.name, sepName, tag),
		Input: map[string]any{"stream": "chain", "kinds": ch.kinds, "truth": ch.truth, "placement": pl.name, "sep": sepName, "tag": tag, "tpl": tpl},
		Impl:  res.canon(), Oracle: &Verdict{OK: true}, Tags: []string{"stream:chain", "placement:" + pl.name, "sep:" + sepName, fmt.Sprintf("len:%d", len(ch.kinds))}}
	c.Key = c.Name
	if res.Err != "" || res.Panic != "" || res.Timeout {
		c.Oracle = &Verdict{OK: false, Class: "chain-render-failed:" + pl.name, Detail: fmt.Sprintf("%+v", res)}
		return c
	}
	var want []string
	inner := ch.expect("")
	for i := 0; i < pl.rep; i++ {
		if pl.name != "no-neighbours" {
			want = append(want, "pre")
		}
		want = append(want, inner...)
		if pl.name != "no-neighbours" {
			want = append(want, "post")
		}
	}
	var got []string
	for _, m := range c03MarkRe.FindAllStringSubmatch(res.Out, -1) {
		got = append(got, m[1])
	}
	// a text separator between members is ordinary content only when it is not swallowed by the chain: see DESIGN B.2 (Q8) — the
	// statement says "siblings before and after the chain are rendered unchanged"; text between members is part of the chain's extent
	if strings.Join(got, ",") != strings.Join(want, ",") {
		c.Oracle = &Verdict{OK: false, Class: fmt.Sprintf("chain-markers:%s:%s", pl.name, sepName), Detail: fmt.Sprintf("markers %v, expected %v; template %q; output %q", got, want, tpl, res.Out)}
	}
	return c
}

// page-correspondence cases produced while building oracle cases; flushed into the run by the caller
var pendingPages []*Case

func flushPages(r *Run) {
	pages := pendingPages
	pendingPages = nil
	for _, c := range pages {
		r.Add(c)
	}
	// the same pages once more, each placed in another CONTEXT (a v-if branch, a v-else template, a loop body, a component file, supplied slot
	// content): the engine and the model are compared on the wrapped page. An element is evaluated by different code depending on how it is
	// reached; a page that renders right at the top level and wrong inside a loop shows here. Sampled so that a flush adds a bounded number.
	budget, total := 400, 3000
	if r.Thorough() {
		budget, total = 4000, 30000
	}
	if left := total - ctxVariantsUsed; left < budget {
		budget = left
	}
	if budget <= 0 {
		return
	}
	step := len(pages)/budget + 1
	for i, c := range pages {
		if i%step != 0 {
			continue
		}
		if v := pageInContext(c, pageContexts[(i/step)%len(pageContexts)]); v != nil {
			r.Add(v)
			ctxVariantsUsed++
		}
	}
}

// context variants added so far in this run (one run per process)
var ctxVariantsUsed int

func c03Chains(r *Run) {
	defer flushPages(r)
	maxLen := 3
	if r.Thorough() {
		maxLen = 4
	}
	chains := c03ChainShapes(maxLen)
	for _, ch := range chains {
		for _, pl := range c03Placements {
			for _, sp := range c03Seps {
				if !r.Thorough() && len(ch.kinds) == 3 && pl.name != "top" && sp.name != "ws" {
					continue
				}
				r.Add(c03ChainCase(ch, pl, sp.s, sp.name, "p"))
			}
		}
		r.Add(c03ChainCase(ch, c03Placements[0], "", "none", "template"))
		// members that also carry v-once: each member is a distinct element reached once per render, so the chain renders as without it
		r.Add(c03ChainCase(ch, c03Placements[0], "", "none", "template|v-once"))
		r.Add(c03ChainCase(ch, c03Placements[1], " ", "ws", "p|v-once"))
		r.Add(c03ChainCase(ch, c03Placements[1], "", "none", "template|v-once"))
		// members that are includes or component tags: the selected branch is the component
		for _, inc := range []string{"@include", "@include-bound", "@shorthand"} {
			r.Add(c03ChainCase(ch, c03Placements[0], "", "none", inc))
			r.Add(c03ChainCase(ch, c03Placements[1], "\n  ", "ws", inc))
			r.Add(c03ChainCase(ch, c03Placements[4], "", "none", inc))
		}
		// (v-pre members are not generated: an element with v-pre is exempt from directive processing, so whether it is a member of a chain at
		// all is v-pre's business, not this property's)
	}
	// adjacent chains
	for _, a := range c03ChainShapes(2) {
		for _, b := range c03ChainShapes(2) {
			if b.kinds[0] != "if" {
				continue
			}
			tpl := "<b>[pre]</b>" + a.markup("", "p", "a") + b.markup("", "p", "b") + "<b>[post]</b>"
			d := map[string]any{}
			a.data("a", d)
			b.data("b", d)
			res := renderPage(map[string]string{"p.vuego": tpl}, "p.vuego", d)
			c := &Case{Name: fmt.Sprintf("adjacent %v%v + %v%v", a.kinds, a.truth, b.kinds, b.truth), Input: map[string]any{"stream": "adjacent", "tpl": tpl, "data": toVal(d)}, Impl: res.canon(), Oracle: &Verdict{OK: true}, Tags: []string{"stream:chain", "placement:adjacent"}}
			c.Key = c.Name
			// a's trailing orphans continue into b only if b starts with "if" (it does): expectation = concatenation, except that a's
			// chain may be open at its end and b's leading if starts a new chain
			want := append([]string{"pre"}, a.expect("a")...)
			want = append(want, b.expect("b")...)
			want = append(want, "post")
			var got []string
			for _, m := range c03MarkRe.FindAllStringSubmatch(res.Out, -1) {
				got = append(got, m[1])
			}
			if strings.Join(got, ",") != strings.Join(want, ",") {
				c.Oracle = &Verdict{OK: false, Class: "chain-markers:adjacent", Detail: fmt.Sprintf("markers %v, expected %v; template %q", got, want, tpl)}
			}
			r.Add(c)
		}
	}
	// chain members that also carry v-for (never the head: `v-if` + `v-for` on one element is the per-item condition of C04)
	for _, ch := range chains {
		if len(ch.kinds) < 2 || len(ch.kinds) > 3 || ch.kinds[0] != "if" {
			continue
		}
		for mask := 1; mask < 1<<len(ch.kinds); mask++ {
			onHead := false
			for i, k := range ch.kinds {
				onHead = onHead || (k == "if" && mask&(1<<i) != 0)
			}
			if onHead {
				continue
			}
			for _, tail := range []string{"<b>[post]</b>", "<b v-else>[never]</b><b>[post]</b>"} {
				if !r.Thorough() && tail != "<b>[post]</b>" && len(ch.kinds) == 3 {
					continue
				}
				for _, coll := range []string{"two", "one", "none", "missing", "nilv"} {
					if !r.Thorough() && len(ch.kinds) == 3 && (coll == "one" || coll == "nilv") {
						continue
					}
					r.Add(c03LoopedChainCase(ch, mask, tail, coll))
				}
			}
		}
	}
	// conditions that START with a negation and go on with a binary operator: `!` binds tighter than && || == (the negation workaround of
	// evalConditionExpr must not swallow the rest of the expression), in every consumer
	for _, e := range c03NegExprs {
		for _, a := range []bool{false, true} {
			for _, b := range []bool{false, true} {
				r.Add(c03NegCase(e.src, e.f(a, b), a, b))
			}
		}
	}
	// uniform truthiness across the five consumers, for every value kind
	for _, v := range c03Values() {
		r.Add(c03UniformCase(v))
	}
}

// c03LoopedChainCase: the members selected by mask carry v-for="x in two" (two items): the chosen branch is that loop, every other
// member renders nothing. The tail is what follows the chain; a `v-else` there belongs to the chain only when the chain has no v-else
// member of its own yet, and the shapes used here make it an extra member of the chain that must not render when a branch was chosen.
// the collections a looped member ranges over, with their lengths: a selected member whose loop is empty renders nothing, and it is still
// the selected member - no later branch renders in its place
var c03LoopColls = map[string]int{"two": 2, "one": 1, "none": 0, "missing": 0, "nilv": 0}

func c03LoopedChainCase(ch c03Chain, mask int, tail string, coll string) *Case {
	if coll == "" {
		coll = "two"
	}
	count := c03LoopColls[coll]
	var sb strings.Builder
	sb.WriteString("<b>[pre]</b>")
	for i, k := range ch.kinds {
		loop := ""
		if mask&(1<<i) != 0 {
			loop = ` v-for="x in ` + coll + `"`
		}
		switch k {
		case "if":
			fmt.Fprintf(&sb, `<p v-if="c%d"%s>[m%d]</p>`, i, loop, i)
		case "elseif":
			fmt.Fprintf(&sb, `<p v-else-if="c%d"%s>[m%d]</p>`, i, loop, i)
		case "else":
			fmt.Fprintf(&sb, `<p v-else%s>[m%d]</p>`, loop, i)
		}
	}
	sb.WriteString(tail)
	tpl := sb.String()
	d := map[string]any{"two": []any{1, 2}, "one": []string{"a"}, "none": []any{}, "nilv": nil}
	ch.data("", d)
	res := renderPage(map[string]string{"p.vuego": tpl}, "p.vuego", d)
	pendingPages = append(pendingPages, pageCase("chain", map[string]string{"p.vuego": tpl}, nil, "p.vuego", d, "placement:looped-member"))
	c := &Case{Name: fmt.Sprintf("looped chain %v %v mask %d tail %q over %s", ch.kinds, ch.truth, mask, tail, coll),
		Input: map[string]any{"stream": "looped", "kinds": ch.kinds, "truth": ch.truth, "mask": mask, "tail": tail, "tpl": tpl, "coll": coll},
		Impl:  res.canon(), Oracle: &Verdict{OK: true}, Tags: []string{"stream:chain", "placement:looped-member", fmt.Sprintf("len:%d", len(ch.kinds))}}
	c.Key = c.Name
	if res.Err != "" || res.Panic != "" || res.Timeout {
		c.Oracle = &Verdict{OK: false, Class: "chain-render-failed:looped-member", Detail: fmt.Sprintf("%+v", res)}
		return c
	}
	// a `v-else` in the tail continues the LAST chain of the shape (the one starting at the last `v-if`)
	lastIf := 0
	for i, k := range ch.kinds {
		if k == "if" {
			lastIf = i
		}
	}
	want := []string{"pre"}
	chosen := false
	for _, m := range ch.expect("") {
		var idx int
		fmt.Sscanf(m, "m%d", &idx)
		if idx >= lastIf {
			chosen = true
		}
		if mask&(1<<idx) != 0 {
			for n := 0; n < count; n++ {
				want = append(want, m)
			}
		} else {
			want = append(want, m)
		}
	}
	hasElse := false
	for _, k := range ch.kinds[lastIf:] {
		hasElse = hasElse || k == "else"
	}
	if strings.Contains(tail, "v-else") && !chosen && !hasElse {
		want = append(want, "never")
	}
	want = append(want, "post")
	var got []string
	for _, m := range c03MarkRe.FindAllStringSubmatch(res.Out, -1) {
		got = append(got, m[1])
	}
	if strings.Join(got, ",") != strings.Join(want, ",") {
		c.Oracle = &Verdict{OK: false, Class: "chain-markers:looped-member", Detail: fmt.Sprintf("markers %v, expected %v; template %q; output %q", got, want, tpl, res.Out)}
	}
	return c
}

var c03NegExprs = []struct {
	src string
	f   func(a, b bool) bool
}{
	{"!a && b", func(a, b bool) bool { return !a && b }}, {"!a || b", func(a, b bool) bool { return !a || b }}, {"!a && !b", func(a, b bool) bool { return !a && !b }},
	{"!(a && b)", func(a, b bool) bool { return !(a && b) }}, {"!a == b", func(a, b bool) bool { return !a == b }}, {"b && !a", func(a, b bool) bool { return b && !a }},
	{"(!a) && b", func(a, b bool) bool { return !a && b }}, {"!a", func(a, b bool) bool { return !a }}, {"!a != b", func(a, b bool) bool { return !a != b }},
	{"!a||b", func(a, b bool) bool { return !a || b }}, {"!a&&b", func(a, b bool) bool { return !a && b }},
}

func c03NegCase(expr string, want bool, a, b bool) *Case {
	tpl := `<p v-if="` + expr + `">[if]</p><p v-else>[else]</p><i v-if="no">n</i><p v-else-if="` + expr + `">[elseif]</p><q v-show="` + expr + `">S</q><s :class="{on: ` + expr + `}">C</s>`
	d := map[string]any{"a": a, "b": b, "no": false}
	res := renderPage(map[string]string{"p.vuego": tpl}, "p.vuego", d)
	pendingPages = append(pendingPages, pageCase("chain", map[string]string{"p.vuego": tpl}, nil, "p.vuego", d, "placement:negated-compound"))
	c := &Case{Name: fmt.Sprintf("negated compound %q a=%v b=%v", expr, a, b), Input: map[string]any{"stream": "negated", "expr": expr, "a": a, "b": b, "want": want, "tpl": tpl},
		Impl: res.canon(), Oracle: &Verdict{OK: true}, Tags: []string{"stream:chain", "placement:negated-compound"}}
	c.Key = c.Name
	if res.Err != "" || res.Panic != "" || res.Timeout {
		c.Oracle = &Verdict{OK: false, Class: "chain-render-failed:negated-compound", Detail: fmt.Sprintf("%+v", res)}
		return c
	}
	seen := map[string]bool{
		"v-if":      strings.Contains(res.Out, "[if]") && !strings.Contains(res.Out, "[else]"),
		"v-else-if": strings.Contains(res.Out, "[elseif]"),
		"v-show":    !strings.Contains(res.Out, "display:none"),
		"class-obj": strings.Contains(res.Out, `class="on"`),
	}
	for _, k := range []string{"v-if", "v-else-if", "v-show", "class-obj"} {
		if seen[k] != want {
			c.Oracle = &Verdict{OK: false, Class: "negated-compound:" + k, Detail: fmt.Sprintf("%s=%q with a=%v b=%v is %v, expected %v; output %q", k, expr, a, b, seen[k], want, res.Out)}
			return c
		}
	}
	return c
}

var c03ConsumerRe = regexp.MustCompile(`\[(if|elseif|show|attr|class)\]`)

func c03UniformCase(v any) *Case {
	tpl := `<p v-if="x">[if]</p>` + `<i v-if="no">n</i><p v-else-if="x">[elseif]</p>` + `<q v-show="x">S</q>` + `<u :data-a="x">A</u>` + `<s :class="{on: x}">C</s>`
	res := renderPage(map[string]string{"p.vuego": tpl}, "p.vuego", map[string]any{"x": v, "no": false})
	c := &Case{Name: fmt.Sprintf("uniform truthiness of %T(%v)", v, v), Input: map[string]any{"stream": "uniform", "x": toVal(v)}, Impl: res.canon(), Oracle: &Verdict{OK: true}, Tags: []string{"stream:uniform"}}
	c.Key = c.Name
	if res.Err != "" || res.Panic != "" || res.Timeout {
		c.Oracle = &Verdict{OK: false, Class: fmt.Sprintf("uniform-render-failed:%T", v), Detail: fmt.Sprintf("%+v", res)}
		return c
	}
	out := res.Out
	seen := map[string]bool{
		"v-if":      strings.Contains(out, "[if]"),
		"v-else-if": strings.Contains(out, "[elseif]"),
		"v-show":    !strings.Contains(out, "display:none"),
		"bound":     strings.Contains(out, "data-a="),
		"class-obj": strings.Contains(out, `class="on"`),
	}
	ref := seen["v-if"]
	for k, t := range seen {
		if t != ref {
			c.Oracle = &Verdict{OK: false, Class: fmt.Sprintf("truthiness-not-uniform:%s:%T", k, v), Detail: fmt.Sprintf("%T(%v): v-if says %v but %s says %v; output %q", v, v, ref, k, t, out)}
		}
	}
	return c
}

func c03ReplayChain(r *Run, replay *Case) {
	switch replay.Input["stream"] {
	case "chain":
		var kinds []string
		var truth []bool
		remarshal(replay.Input["kinds"], &kinds)
		remarshal(replay.Input["truth"], &truth)
		for _, pl := range c03Placements {
			if pl.name == replay.Input["placement"] {
				for _, sp := range c03Seps {
					if sp.name == replay.Input["sep"] {
						r.Add(c03ChainCase(c03Chain{kinds, truth}, pl, sp.s, sp.name, replay.Input["tag"].(string)))
					}
				}
			}
		}
	case "looped":
		var kinds []string
		var truth []bool
		remarshal(replay.Input["kinds"], &kinds)
		remarshal(replay.Input["truth"], &truth)
		coll, _ := replay.Input["coll"].(string)
		r.Add(c03LoopedChainCase(c03Chain{kinds, truth}, int(replay.Input["mask"].(float64)), replay.Input["tail"].(string), coll))
	case "negated":
		for _, e := range c03NegExprs {
			if e.src == replay.Input["expr"] {
				a, b := replay.Input["a"] == true, replay.Input["b"] == true
				r.Add(c03NegCase(e.src, e.f(a, b), a, b))
			}
		}
	case "uniform":
		r.Add(c03UniformCase(fromVal(replay.Input["x"].(map[string]any))))
	}
}
