package main

import (
	"encoding/json"
	"flag"
	"fmt"
	"os"
	"runtime/debug"
)

func main() {
	prop := flag.String("prop", "", "property id")
	tier := flag.String("tier", "quick", "quick|thorough")
	seed := flag.Int64("seed", 1, "PRNG seed")
	driver := flag.String("driver", "/verif/lean/.lake/build/bin/driver", "Lean model driver")
	out := flag.String("out", "", "result file")
	replay := flag.String("replay", "", "replay file (a Failure or Case JSON)")
	flag.Parse()
	debug.SetGCPercent(200)
	fn, ok := props[*prop]
	if !ok {
		fmt.Fprintf(os.Stderr, "unknown property %q\n", *prop)
		os.Exit(2)
	}
	currentTier = *tier
	r := NewRun(*prop, *tier, *seed, *driver)
	var rc *Case
	if *replay != "" {
		b, err := os.ReadFile(*replay)
		if err != nil {
			fmt.Fprintln(os.Stderr, err)
			os.Exit(2)
		}
		var f struct {
			Case  *Case          `json:"case"`
			Input map[string]any `json:"input"`
			Name  string         `json:"name"`
		}
		if err := json.Unmarshal(b, &f); err != nil {
			fmt.Fprintln(os.Stderr, err)
			os.Exit(2)
		}
		if f.Case != nil {
			rc = f.Case
		} else if f.Input != nil {
			rc = &Case{Name: f.Name, Input: f.Input}
		} else {
			fmt.Fprintln(os.Stderr, "replay file has no case")
			os.Exit(2)
		}
	}
	fn(r, rc)
	r.Finish(*out)
}
