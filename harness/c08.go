package main

// C08 — one fixed precedence of data sources. Every source writes a value naming itself, so the printed value identifies the winner.

import (
	"bytes"
	"context"
	"fmt"
	"reflect"
	"regexp"
	"strings"
	"testing/fstest"
	"time"

	vuego "github.com/titpetric/vuego"
)

func init() { props["C08"] = runC08 }

type c08KS struct {
	K string `json:"k"`
}
type c08KN struct {
	K string // addressed by field name "K"
}

// the same two shapes with `omitempty`: an empty field is still a field of the data the caller passed
type c08KO struct {
	K string `json:"k,omitempty"`
}
type c08KNO struct {
	K string `json:",omitempty"`
}

// the key as a field PROMOTED from an embedded struct (no field of the outer struct is renamed by a tag)
type c08Emb struct {
	c08KN
	Other int
}

type c08Case struct {
	Theme, DataYml, FM bool
	FMOther            bool     // without FM: the page still HAS a front-matter block, which does not define the key
	Calls              []string // sequence over: fill-map, fill-struct, fill-ptr, fill-empty, assign, new, load (last load/new decides the rendering template)
	Key                string   // "k" or "K"
	Tagged             bool     // with Key "K": the struct field K carries the JSON tag "k" and is addressed by its Go name
	NoDataDir          bool     // without DataYml: the filesystem has no data/ directory at all (instead of data files that define nothing)
}

var c08Re = regexp.MustCompile(`\[(\w+):([^\]]*)\]`)

func c08Eval(cs c08Case) *Case {
	key := cs.Key
	mfs := fstest.MapFS{}
	put := func(n, s string) { mfs[n] = &fstest.MapFile{Data: []byte(s), ModTime: time.Unix(1700000000, 0)} }
	if cs.Theme {
		put("theme.yml", key+": theme\nother: t\n")
	}
	if cs.DataYml {
		put("data/site.yml", key+": datayml\n")
	}
	// data files that define nothing (an empty file, a stub with every example commented out, an explicit null document): they must
	// leave what theme.yml and the other data files define in place
	if !(cs.NoDataDir && !cs.DataYml) {
		put("data/aa-empty.yml", "")
		put("data/mm-null.yaml", "--- ~\n")
		put("data/zz-stub.yml", "---\n# "+key+": commented-out\n")
	}
	body := fmt.Sprintf(`<p>[mustache:{{ %[1]s }}]</p><p :title="%[1]s">[attr]</p><i v-if="%[1]s == 'fm'">[if:fm]</i><i v-if="%[1]s == 'assign'">[if:assign]</i><i v-if="%[1]s == 'fill'">[if:fill]</i><i v-if="%[1]s == 'fill2'">[if:fill2]</i><i v-if="%[1]s == 'datayml'">[if:datayml]</i><i v-if="%[1]s == 'theme'">[if:theme]</i><b v-if="%[1]s">[truthy:yes]</b>`, key)
	page := body
	if cs.FM {
		page = "---\n" + key + ": fm\n---\n" + body
	} else if cs.FMOther {
		page = "---\nunrelated: u\nzz: 9\n---\n" + body
	}
	put("page.vuego", page)
	put("other.vuego", "<p>other</p>")

	c := &Case{Name: fmt.Sprintf("%+v", cs), Op: true, Input: map[string]any{"op": "merge", "case": cs, "key": key, "theme": cs.Theme, "dataYml": cs.DataYml, "fm": cs.FM, "calls": cs.Calls},
		Key: fmt.Sprintf("%+v", cs), Oracle: &Verdict{OK: true}, Tags: []string{fmt.Sprintf("calls:%d", len(cs.Calls)), "key:" + key}}
	fail := func(cls, f string, a ...any) {
		if c.Oracle.OK {
			c.Oracle = &Verdict{OK: false, Class: cls, Detail: fmt.Sprintf(f, a...)}
		}
	}
	base := vuego.NewFS(mfs)
	cur := base
	// reference: layer = fill/assign layer of the current template
	type layer struct{ val string }
	var lay *layer
	nfill := 0
	parentGet := base.Get(key)
	var parent vuego.Template = base
	loaded := false
	for _, call := range cs.Calls {
		switch call {
		case "fill-map":
			nfill++
			v := "fill"
			if nfill > 1 {
				v = "fill2"
			}
			cur = cur.Fill(map[string]any{key: v, "zz": 1})
			lay = &layer{v}
		case "fill-struct", "fill-ptr":
			nfill++
			v := "fill"
			if nfill > 1 {
				v = "fill2"
			}
			var d any
			if key == "k" || cs.Tagged {
				s := c08KS{K: v}
				d = s
				if call == "fill-ptr" {
					d = &s
				}
			} else if len(cs.Calls)%2 == 0 {
				s := c08Emb{c08KN: c08KN{K: v}, Other: 1}
				d = s
				if call == "fill-ptr" {
					d = &s
				}
			} else {
				s := c08KN{K: v}
				d = s
				if call == "fill-ptr" {
					d = &s
				}
			}
			cur = cur.Fill(d)
			lay = &layer{v}
		case "fill-map-blank":
			// the Fill layer DEFINES the key, with an empty value: it shadows the config files like any other value
			cur = cur.Fill(map[string]any{key: "", "zz": 3})
			lay = &layer{""}
		case "fill-struct-blank":
			var d any
			if key == "k" || cs.Tagged {
				d = c08KO{}
			} else {
				d = &c08KNO{}
			}
			cur = cur.Fill(d)
			lay = &layer{""}
		case "fill-empty":
			cur = cur.Fill(map[string]any{"zz": 2})
			lay = nil
		case "assign":
			cur = cur.Assign(key, "assign")
			lay = &layer{"assign"}
		case "new":
			parent = cur
			parentGet = cur.Get(key)
			cur = cur.New()
			loaded = false // a New() copy holds the variables, not the file
		case "load":
			parent = cur
			parentGet = cur.Get(key)
			cur = cur.Load("other.vuego")
		case "load-page":
			// the page is loaded in the middle of the history: the calls that follow are made on the loaded page template
			parent = cur
			parentGet = cur.Get(key)
			cur = cur.Load("page.vuego")
			loaded = true
		}
		if parent != cur && parent.Get(key) != parentGet {
			fail("child-changes-parent", "after %s on the child, parent.Get(%s) changed from %q to %q", call, key, parentGet, parent.Get(key))
		}
	}
	want := ""
	switch {
	case cs.FM:
		want = "fm"
	case lay != nil:
		want = lay.val
	case cs.DataYml:
		want = "datayml"
	case cs.Theme:
		want = "theme"
	}
	getBefore := cur.Get(key)
	// a later Fill/Assign that defines the key overrides every earlier value — unless the template at hand IS the loaded page and its own
	// front-matter defines the key (front-matter is authoritative for the file it belongs to, not for copies made of it)
	if n := len(cs.Calls); n > 0 && lay != nil && !(loaded && cs.FM) {
		switch cs.Calls[n-1] {
		case "fill-map", "fill-struct", "fill-ptr", "assign", "fill-map-blank", "fill-struct-blank":
			if getBefore != lay.val {
				fail("later-value-not-seen:get", "after %v Get(%s) = %q, expected %q (case %+v)", cs.Calls, key, getBefore, lay.val, cs)
			}
		}
	}
	var buf bytes.Buffer
	tpl := cur
	if !loaded {
		tpl = cur.Load("page.vuego")
	}
	// data given before Load stays visible through Load; render
	err := func() (e error) {
		defer func() {
			if r := recover(); r != nil {
				e = fmt.Errorf("panic: %v", r)
			}
		}()
		return tpl.Render(context.Background(), &buf)
	}()
	out := buf.String()
	if err != nil {
		c.Impl = map[string]any{"err": true, "get": getBefore}
		fail("render-error", "%v", err)
		return c
	}
	got := map[string]string{}
	for _, m := range c08Re.FindAllStringSubmatch(out, -1) {
		got[m[1]] = m[2]
	}
	titleRe := regexp.MustCompile(`title="([^"]*)"`)
	attr := ""
	if m := titleRe.FindStringSubmatch(out); m != nil {
		attr = m[1]
	}
	c.Impl = map[string]any{"render": got["mustache"], "get": getBefore}
	if got["mustache"] != want {
		fail("precedence:mustache", "{{ %s }} shows %q, expected %q (case %+v)", key, got["mustache"], want, cs)
	}
	if attr != want {
		fail("precedence:attr", ":title=%s shows %q, expected %q (case %+v)", key, attr, want, cs)
	}
	if want != "" && got["if"] != want {
		fail("precedence:v-if", "v-if sees %q, expected %q (case %+v); output %q", got["if"], want, cs, out)
	}
	if want == "" && (got["if"] != "" || got["truthy"] != "") {
		fail("precedence:v-if", "v-if sees a value although no source defines %s (case %+v)", key, cs)
	}
	if g := tpl.Get(key); g != want && !loaded {
		fail("precedence:get", "Get(%s) = %q, expected %q (case %+v)", key, g, want, cs)
	}
	return c
}

func runC08(r *Run, replay *Case) {
	if replay != nil && replay.Input["shared"] == true {
		r.Add(c08Shared(replay.Input["theme"] == true, replay.Input["dataYml"] == true, replay.Input["fm"] == true, replay.Input["shape"].(string)))
		return
	}
	if replay != nil && replay.Input["stream"] == "layoutchain" {
		c08LayoutChain(r)
		return
	}
	if replay != nil && replay.Input["op"] == "extractfm" {
		c08FrontMatterSplit(r)
		return
	}
	if replay != nil && replay.Input["stream"] == "explicit-nil" {
		c08ExplicitNil(r)
		return
	}
	if replay != nil {
		var cs c08Case
		remarshal(replay.Input["case"], &cs)
		r.Add(c08Eval(cs))
		return
	}
	c08LayoutChain(r)
	c08ExplicitNil(r)
	c08FrontMatterSplit(r)
	r.Res.Rule = "every presence pattern of {front-matter, Fill/Assign layer, data/*.yml, theme.yml} x key addressed by JSON tag / field name x data given as map, struct, pointer-to-struct x " +
		"every call history <= N over {fill-map, fill-struct, fill-ptr, fill-empty, assign, new, load} before the page is loaded, and histories with up to 2 calls before and up to 2 calls AFTER loading the page, x four read positions ({{ }}, bound attribute, v-if, Get); non-trivial = at least one source defines the key"
	calls := []string{"fill-map", "fill-struct", "fill-ptr", "fill-empty", "assign", "new", "load", "fill-map-blank", "fill-struct-blank"}
	maxLen := 3
	if r.Thorough() {
		maxLen = 4
	}
	var seqs [][]string
	var rec func(prefix []string, n int)
	rec = func(prefix []string, n int) {
		seqs = append(seqs, append([]string{}, prefix...))
		if n == 0 {
			return
		}
		for _, c := range calls {
			rec(append(prefix, c), n-1)
		}
	}
	rec(nil, maxLen)
	for _, key := range []string{"k", "K", "K+tag"} {
		for mask := 0; mask < 8; mask++ {
			for _, s := range seqs {
				cs := c08Case{Theme: mask&1 != 0, DataYml: mask&2 != 0, FM: mask&4 != 0, Calls: s, Key: key, NoDataDir: len(s)%2 == 1}
				if key == "K+tag" {
					cs.Key, cs.Tagged = "K", true
					structFill := false
					for _, c := range s {
						if c == "fill-struct" || c == "fill-ptr" {
							structFill = true
						}
					}
					if !structFill {
						continue
					}
				}
				r.Add(c08Eval(cs))
			}
		}
	}
	// histories in which the page is loaded in the middle: up to 2 calls before, up to 2 calls on the loaded page
	post := []string{"fill-map", "fill-struct", "fill-empty", "assign"}
	var posts [][]string
	for _, a := range post {
		posts = append(posts, []string{a})
		for _, b := range post {
			posts = append(posts, []string{a, b})
		}
		// a New() copy of the LOADED page is a file-less template: what it is given afterwards is not overridden by a front-matter it never loaded
		posts = append(posts, []string{"new", a}, []string{a, "new"}, []string{"new", a, "fill-empty"})
	}
	posts = append(posts, []string{"new"})
	pres := [][]string{{}, {"fill-map"}, {"assign"}, {"fill-map", "assign"}, {"new"}, {"fill-struct", "new"}}
	for _, key := range []string{"k", "K"} {
		for mask := 0; mask < 8; mask++ {
			for _, pre := range pres {
				for _, po := range posts {
					calls := append(append(append([]string{}, pre...), "load-page"), po...)
					r.Add(c08Eval(c08Case{Theme: mask&1 != 0, DataYml: mask&2 != 0, FM: mask&4 != 0, Calls: calls, Key: key}))
					if mask&4 == 0 {
						r.Add(c08Eval(c08Case{Theme: mask&1 != 0, DataYml: mask&2 != 0, FMOther: true, Calls: calls, Key: key}))
					}
				}
			}
		}
	}
	// isolation when callers pass the SAME map to several templates of the tree: what one template is given afterwards (Assign, Fill) is
	// seen by no sibling, parent or child, and the caller's map is not written to. For every presence pattern of the other sources.
	for mask := 0; mask < 8; mask++ {
		for _, shape := range []string{"siblings-new", "siblings-load", "parent-child", "child-parent", "inherit-new", "inherit-load", "inherit-deep", "nested-siblings"} {
			r.Add(c08Shared(mask&1 != 0, mask&2 != 0, mask&4 != 0, shape))
		}
	}
	r.Res.Exhaustive = true
	_ = strings.TrimSpace
}

func c08Shared(theme, dataYml, fm bool, shape string) *Case {
	mfs := fstest.MapFS{}
	put := func(n, src string) { mfs[n] = &fstest.MapFile{Data: []byte(src), ModTime: time.Unix(1700000000, 0)} }
	if theme {
		put("theme.yml", "k: theme\n")
	}
	if dataYml {
		put("data/site.yml", "k: datayml\n")
	}
	page := "<p>[mustache:{{ k }}][role:{{ role }}]</p>"
	if fm {
		page = "---\nk: fm\n---\n" + page
	}
	put("page.vuego", page)
	c := &Case{Name: fmt.Sprintf("shared fill map theme=%v data=%v fm=%v %s", theme, dataYml, fm, shape), Input: map[string]any{"shared": true, "theme": theme, "dataYml": dataYml, "fm": fm, "shape": shape},
		Key: fmt.Sprintf("shared|%v|%v|%v|%s", theme, dataYml, fm, shape), Oracle: &Verdict{OK: true}, Tags: []string{"stream:shared-map", "shape:" + shape}}
	fail := func(cls, f string, a ...any) {
		if c.Oracle.OK {
			c.Oracle = &Verdict{OK: false, Class: cls, Detail: fmt.Sprintf(f, a...)}
		}
	}
	shared := map[string]any{"k": "fill", "zz": 1}
	base := vuego.NewFS(mfs)
	var actor, witness vuego.Template
	switch shape {
	case "siblings-new":
		actor, witness = base.New().Fill(shared), base.New().Fill(shared)
	case "siblings-load":
		actor, witness = base.Load("page.vuego").Fill(shared), base.Load("page.vuego").Fill(shared)
	case "parent-child":
		witness = base.New().Fill(shared)
		actor = witness.New().Fill(shared)
	case "child-parent":
		actor = base.New().Fill(shared)
		witness = actor.New().Fill(shared)
	// the witness INHERITS its values (New / Load without a Fill of its own): it holds what its parent had when it was made — what the
	// parent is given afterwards is not a source of the child
	case "inherit-new":
		actor = base.New().Fill(shared)
		witness = actor.New()
	case "inherit-load":
		actor = base.New().Fill(shared)
		witness = actor.Load("page.vuego")
	case "inherit-deep":
		actor = base.New().Fill(shared).New().New()
		witness = actor.New().New()
	// two children of a parent that is itself a child of a child: what one is given does not reach the other
	case "nested-siblings":
		parent := base.New().Fill(shared).New().New()
		witness = parent.New()
		witness.Assign("mine", "w")
		actor = parent.New()
	}
	wantK := "fill"
	if fm && (shape == "siblings-load" || shape == "inherit-load") {
		wantK = "fm"
	}
	mineBefore := witness.Get("mine")
	before := witness.Get("k")
	actor.Assign("k", "assigned-elsewhere")
	actor.Assign("role", "admin")
	actor.Fill(map[string]any{"k": "filled-elsewhere", "role": "root"})
	if g := witness.Get("k"); g != before {
		fail("child-changes-parent:shared-map", "%s: witness.Get(k) changed from %q to %q after calls on another template", shape, before, g)
	}
	if g := witness.Get("role"); g != "" {
		fail("child-changes-parent:shared-map", "%s: witness sees role=%q which only another template was given", shape, g)
	}
	if g := witness.Get("mine"); g != mineBefore {
		fail("child-changes-parent:shared-map", "%s: the witness's own value changed from %q to %q after calls on another template", shape, mineBefore, g)
	}
	if !reflect.DeepEqual(shared, map[string]any{"k": "fill", "zz": 1}) {
		fail("caller-map-modified:fill", "%s: the map passed to Fill was changed to %v", shape, shared)
	}
	var buf bytes.Buffer
	w := witness
	if shape != "siblings-load" && shape != "inherit-load" {
		w = witness.Load("page.vuego")
	}
	if err := w.Render(context.Background(), &buf); err != nil {
		fail("render-error", "%v", err)
	} else {
		out := buf.String()
		wk := wantK
		if fm {
			wk = "fm"
		}
		if !strings.Contains(out, "[mustache:"+wk+"]") || !strings.Contains(out, "[role:]") {
			fail("child-changes-parent:shared-map", "%s: witness renders %q, expected k=%s and no role", shape, out, wk)
		}
	}
	c.Impl = buf.String()
	return c
}

// the same precedence in every file of a LAYOUT CHAIN: a layout sees its own front-matter first, then what the page was given (Fill/Assign), then
// data/*.yml, then theme.yml — the front-matter of ANOTHER file of the chain (the page's, an inner layout's) is not one of its sources
func c08LayoutChain(r *Run) {
	for mask := 0; mask < 8; mask++ {
		for _, inner := range []bool{true, false} { // does the inner layout define the key in its front-matter?
			mfs := map[string]string{}
			if mask&1 != 0 {
				mfs["theme.yml"] = "k: theme\n"
			}
			if mask&2 != 0 {
				mfs["data/site.yml"] = "k: datayml\n"
			}
			fill := map[string]any{"zz": 1}
			if mask&4 != 0 {
				fill["k"] = "fill"
			}
			mfs["p.vuego"] = "---\nlayout: post\npagekey: pk\n---\n<p>[page:{{ k }}]</p>"
			postFM := "layout: base\n"
			if inner {
				postFM += "k: post\n"
			}
			mfs["layouts/post.vuego"] = "---\n" + postFM + "---\n<article>[post:{{ k }}]<div v-html=\"content\"></div></article>"
			mfs["layouts/base.vuego"] = `<main>[base:{{ k }}]<b :title="k">[attr]</b><i v-if="k == 'post'">[if:post]</i><div v-html="content"></div></main>`
			res := renderPage(mfs, "p.vuego", fill)
			want := ""
			switch {
			case mask&4 != 0:
				want = "fill"
			case mask&2 != 0:
				want = "datayml"
			case mask&1 != 0:
				want = "theme"
			}
			wantPost := want
			if inner {
				wantPost = "post"
			}
			desc := fmt.Sprintf("layout chain theme=%v datayml=%v fill=%v inner-front-matter=%v", mask&1 != 0, mask&2 != 0, mask&4 != 0, inner)
			c := &Case{Name: desc, Input: map[string]any{"stream": "layoutchain", "desc": desc, "files": mfs}, Impl: res.canon(), Oracle: &Verdict{OK: true}, Key: desc, Tags: []string{"stream:layout-chain"}}
			got := map[string]string{}
			for _, m := range c08Re.FindAllStringSubmatch(res.Out, -1) {
				got[m[1]] = m[2]
			}
			titleRe := regexp.MustCompile(`title="([^"]*)"`)
			title := ""
			if m := titleRe.FindStringSubmatch(res.Out); m != nil {
				title = m[1]
			}
			switch {
			case res.Err != "" || res.Panic != "":
				c.Oracle = &Verdict{OK: false, Class: "render-error:layout-chain", Detail: fmt.Sprintf("%s: %+v", desc, res)}
			case got["page"] != want || got["post"] != wantPost || got["base"] != want || title != want || strings.Contains(res.Out, "[if:post]"):
				c.Oracle = &Verdict{OK: false, Class: "layout-sees-another-files-front-matter", Detail: fmt.Sprintf("%s: page sees %q (want %q), inner layout %q (want %q), outer layout %q / attribute %q (want %q); output %q", desc, got["page"], want, got["post"], wantPost, got["base"], title, want, res.Out)}
			}
			r.Add(c)
		}
	}
}
