package main

// C20 — markdown rendering matches a CommonMark/GFM reference in structure and text.
// Reference = goldmark's own HTML renderer (GFM, unsafe raw HTML passthrough) on the same source; both outputs are parsed with
// x/net/html and compared: elements in order, link/image destinations and titles, code content, list starts, cell alignment, text.

import (
	"net/url"
	"bytes"
	"fmt"
	"math/rand"
	"sort"
	"strings"
	"testing/fstest"

	"github.com/titpetric/vuego/markdown"
	"github.com/yuin/goldmark"
	"github.com/yuin/goldmark/extension"
	ghtml "github.com/yuin/goldmark/renderer/html"
	"golang.org/x/net/html"
)

func init() { props["C20"] = runC20 }

var c20Ref = goldmark.New(goldmark.WithExtensions(extension.GFM), goldmark.WithRendererOptions(ghtml.WithUnsafe()))

func c20Canon(src string) []string {
	var out []string
	var walk func(n *html.Node, pre bool)
	walk = func(n *html.Node, pre bool) {
		switch n.Type {
		case html.TextNode:
			t := n.Data
			if !pre {
				t = normText(t)
			}
			if strings.TrimSpace(t) != "" {
				out = append(out, "T:"+t)
			}
		case html.ElementNode:
			var as []string
			for _, a := range n.Attr {
				k, v := a.Key, a.Val
				switch {
				case k == "id" && len(n.Data) == 2 && n.Data[0] == 'h':
					continue // the reference renderer adds no heading ids
				case k == "style" && strings.HasPrefix(strings.ReplaceAll(v, " ", ""), "text-align:"):
					k, v = "align", strings.TrimSuffix(strings.TrimPrefix(strings.ReplaceAll(v, " ", ""), "text-align:"), ";")
				case k == "start" && v == "1":
					continue
				case k == "align" && v == "":
					continue
				case k == "href" || k == "src":
					// the destination is compared as the address it denotes: goldmark's own renderer percent-encodes characters such as `{`
					// and `}` in it, the templates write them as they are - the same address, not a difference of structure or text
					if u, err := url.PathUnescape(v); err == nil {
						v = u
					}
				}
				as = append(as, k+"="+v)
			}
			sort.Strings(as)
			out = append(out, "<"+n.Data+" "+strings.Join(as, " ")+">")
			for c := n.FirstChild; c != nil; c = c.NextSibling {
				walk(c, pre || n.Data == "pre" || n.Data == "code")
			}
			out = append(out, "</"+n.Data+">")
			return
		}
		for c := n.FirstChild; c != nil; c = c.NextSibling {
			walk(c, pre)
		}
	}
	for _, n := range parseFragment(src) {
		walk(n, false)
	}
	// merge adjacent text items (serialisation may split/join text runs differently)
	var merged []string
	for _, it := range out {
		if strings.HasPrefix(it, "T:") && len(merged) > 0 && strings.HasPrefix(merged[len(merged)-1], "T:") {
			merged[len(merged)-1] = "T:" + normText(merged[len(merged)-1][2:]+" "+it[2:])
			continue
		}
		merged = append(merged, it)
	}
	return merged
}

func c20Features(src string) []string {
	var f []string
	add := func(cond bool, name string) {
		if cond {
			f = append(f, name)
		}
	}
	add(strings.Contains(src, "{{"), "mustache")
	add(strings.Contains(src, "&") && !strings.Contains(src, "&&"), "ampersand-or-entity")
	add(strings.Contains(src, `\`), "backslash")
	add(strings.Contains(src, "<"), "angle")
	return f
}

func c20Eval(src string, overrides map[string]string) *Case {
	c := &Case{Name: "markdown document", Input: map[string]any{"src": src, "overrides": overrides}, Oracle: &Verdict{OK: true}, Key: "md:" + src + fmt.Sprint(overrides), Tags: append([]string{"stream:md"}, c20Features(src)...)}
	var got bytes.Buffer
	var err error
	func() {
		defer func() {
			if e := recover(); e != nil {
				err = fmt.Errorf("panic: %v", e)
			}
		}()
		var cfs fstest.MapFS
		if overrides != nil {
			cfs = fstest.MapFS{}
			for n, s := range overrides {
				cfs["markdown/"+n+".vuego"] = &fstest.MapFile{Data: []byte(s)}
			}
			err = markdown.New(cfs).RenderBytes(&got, []byte(src))
		} else {
			err = markdown.New(nil).RenderBytes(&got, []byte(src))
		}
	}()
	c.Impl = map[string]any{"out": got.String(), "err": err != nil}
	if err != nil {
		cls := "render-fails"
		c.Oracle = &Verdict{OK: false, Class: cls, Detail: fmt.Sprintf("%q: %v", src, err)}
		return c
	}
	if overrides != nil {
		return c
	}
	var ref bytes.Buffer
	if err := c20Ref.Convert([]byte(src), &ref); err != nil {
		return c
	}
	a, b := c20Canon(got.String()), c20Canon(ref.String())
	if strings.Join(a, "\x00") != strings.Join(b, "\x00") {
		// the serialiser writes <br></br>, which a parser reads as two breaks (recorded under C02 as void-br-end-tag):
		// if that is the only difference, it is reported under its own narrow class
		if a2 := c20Canon(strings.ReplaceAll(got.String(), "<br></br>", "<br>")); strings.Join(a2, "\x00") == strings.Join(b, "\x00") {
			c.Oracle = &Verdict{OK: false, Class: "hard-break-br-doubled", Detail: fmt.Sprintf("source %q: a hard line break is written as <br></br>, i.e. two breaks: %q", src, got.String())}
			return c
		}
		cls := "differs-from-reference"
		fs := c20Features(src)
		if len(fs) > 0 {
			cls += ":" + strings.Join(fs, "+")
		}
		i := 0
		for i < len(a) && i < len(b) && a[i] == b[i] {
			i++
		}
		ga, gb := "", ""
		if i < len(a) {
			ga = a[i]
		}
		if i < len(b) {
			gb = b[i]
		}
		c.Oracle = &Verdict{OK: false, Class: cls, Detail: fmt.Sprintf("source %q\n first difference at item %d: vuego %q, reference %q\n vuego html %q\n reference html %q", src, i, ga, gb, got.String(), ref.String())}
	}
	return c
}

type mdGen struct {
	r      *rand.Rand
	inLink int
}

var mdWords = []string{"www.example.com", "www.example.org/path?x=1&y=2", "https://bare.example/x", "<https://angle.example/a?b=c>", "<me@example.com>", "bare@example.com", `\&copy;`, `\&amp;`, `\&#35;`, `&#38;lt;`, `&#38;amp;`, `\&nbsp;`, `&amp;copy;`, `\\&amp;`, "alpha", "beta", "gamma", "delta", "x < y", "a & b", "&amp;", "&copy;", "&lt;b&gt;", `\*not em\*`, `back\\slash`, "{{ name }}", "{{secret}}", "<there>", "1 > 0", "it's", `"quoted"`, "tail.", "C++", "a_b_c", "100%"}

func (g *mdGen) words(n int) string {
	var p []string
	for i := 0; i < n; i++ {
		w := mdWords[g.r.Intn(len(mdWords))]
		// no link inside link text (the HTML parser restructures nested anchors; CommonMark forbids them)
		for g.inLink > 0 && (strings.Contains(w, "@") || strings.Contains(w, "www.") || strings.Contains(w, "://")) {
			w = mdWords[g.r.Intn(len(mdWords))]
		}
		p = append(p, w)
	}
	return strings.Join(p, " ")
}

func (g *mdGen) inline(d int) string {
	switch x := g.r.Intn(12); {
	case x < 4 || d > 1:
		return g.words(1 + g.r.Intn(3))
	case x == 4:
		return "*" + g.inline(d+1) + "*"
	case x == 5:
		return "**" + g.inline(d+1) + "**"
	case x == 6:
		return "`" + []string{"code", "a < b", "x & y", "{{ v }}", "<tag>"}[g.r.Intn(5)] + "`"
	case x == 7:
		t := ""
		if g.r.Intn(2) == 0 {
			t = ` "the title"`
		}
		if g.inLink > 0 {
			return g.words(1)
		}
		g.inLink++
		txt := g.inline(d + 1)
		g.inLink--
		// destinations of every spelling: a bare fragment, an empty fragment after a path, a scheme in capitals, a query without value - a
		// destination is an address written by the author, not something to normalise
		dest := []string{"http://example.com/p?a=1&b=2", "http://example.com/p?a=1&b=2", "#", "page.html#", "HTTP://example.com/", "#top", "/rel/path?x", "mailto:A@B.example", "Https://Example.COM/a#"}[g.r.Intn(9)]
		return "[" + txt + "](" + dest + t + ")"
	case x == 8:
		return "![alt " + g.words(1) + "](" + []string{"img.png", "img.png", "logo.png#", "HTTP://example.com/i.png"}[g.r.Intn(4)] + " \"t\")"
	case x == 9:
		return "~~" + g.inline(d+1) + "~~"
	case x == 10:
		if g.inLink > 0 {
			return g.words(1)
		}
		return "<http://auto.link/x>"
	default:
		return "<span class=\"raw\">raw</span>"
	}
}

func (g *mdGen) para() string {
	var p []string
	for k := 1 + g.r.Intn(3); k > 0; k-- {
		p = append(p, g.inline(0))
	}
	s := strings.Join(p, " ")
	if g.r.Intn(6) == 0 {
		s += "  \nhard break line"
	}
	if g.r.Intn(6) == 0 {
		s += "\nsoft break line"
	}
	return s
}

func (g *mdGen) block(d int) string {
	switch x := g.r.Intn(12); {
	case x < 3:
		return g.para()
	case x == 3:
		// a heading's text is all of its text: a brace group at its end ("{#id}", "{.cls}", "{}", "{k=v}" - attribute syntax of other
		// markdown dialects) is literal text here, in ATX headings (with and without a closing sequence) and in Setext headings
		tail := []string{"", "", "", " {#intro}", " {.lead}", " {}", " {key=value}", " {#a .b}", " {x}", "{#tight}", " {#id} ##", " \\{#esc}", " {#one} {.two}"}[g.r.Intn(13)]
		if g.r.Intn(5) == 0 {
			return g.words(1+g.r.Intn(2)) + tail + "\n" + []string{"===", "---"}[g.r.Intn(2)]
		}
		return strings.Repeat("#", 1+g.r.Intn(6)) + " " + g.inline(1) + tail
	case x == 4:
		return "```" + []string{"", "go", "html"}[g.r.Intn(3)] + "\n" + []string{"x := 1", "if a < b && c > d {}", "<div>{{ v }}</div>", "  indented\n\ttab"}[g.r.Intn(4)] + "\n```"
	case x == 5:
		return "    indented code < & >"
	case x == 6 && d < 2:
		return "> " + strings.ReplaceAll(g.block(d+1), "\n", "\n> ")
	case x == 7 && d < 2:
		var items []string
		ord := g.r.Intn(2) == 0
		start := 1 + g.r.Intn(3)
		for i := 0; i < 1+g.r.Intn(3); i++ {
			m := "- "
			if ord {
				m = fmt.Sprintf("%d. ", start+i)
			}
			it := g.para()
			if g.r.Intn(4) == 0 && !ord {
				it = []string{"[ ] ", "[x] "}[g.r.Intn(2)] + it
			}
			if g.r.Intn(4) == 0 {
				it += "\n" + strings.Repeat(" ", len(m)) + "- nested " + g.words(1)
			}
			items = append(items, m+strings.ReplaceAll(it, "\n", "\n"+strings.Repeat(" ", len(m))))
		}
		return strings.Join(items, "\n")
	case x == 8:
		// 1-4 columns with any mix of alignment markers; body rows shorter than, as long as, and longer than the header (GFM pads / truncates)
		nc := 1 + g.r.Intn(4)
		head, delim := "|", "|"
		for c := 0; c < nc; c++ {
			head += fmt.Sprintf(" h%d |", c+1)
			delim += []string{"---|", ":--|", ":-:|", "--:|"}[g.r.Intn(4)]
		}
		rows := ""
		for k := 1 + g.r.Intn(3); k > 0; k-- {
			cells := nc + g.r.Intn(3) - 1 // nc-1 .. nc+1
			if cells < 1 {
				cells = 1
			}
			row := "|"
			for c := 0; c < cells; c++ {
				if c == 0 && g.r.Intn(2) == 0 {
					row += " " + g.inline(1) + " |"
				} else {
					row += " " + g.words(1) + " |"
				}
			}
			rows += "\n" + row
		}
		return head + "\n" + delim + rows
	case x == 9:
		return "---"
	case x == 10:
		// HTML blocks of every kind: those that end at a blank line (kind 6) and those that end with a line of their own - a script, a
		// pre, a style, a comment of several lines, a processing instruction, a declaration
		return []string{"<div class=\"block\">\nraw *html* block\n</div>", "<script>\nvar x = 1 < 2;\n\nmore();\n</script>", "<pre>\ncode *not em*\n\nmore\n</pre>",
			"<style>\np > b { color: red }\n</style>", "<!-- a\nmulti-line *comment*\n\nwith a blank line -->", "<?php\necho 1;\n?>", "<!DOCTYPE html>", "<script>one line</script>"}[g.r.Intn(8)]
	default:
		return g.para()
	}
}

func (g *mdGen) doc() string {
	var bs []string
	for k := 1 + g.r.Intn(5); k > 0; k-- {
		bs = append(bs, g.block(0))
	}
	return strings.Join(bs, "\n\n") + "\n"
}

var c20Templates = []string{"autolink", "blockquote", "code_block", "code_span", "emphasis", "hard_break", "heading", "image", "link", "list", "list_item", "paragraph", "raw_html", "strikethrough", "table", "task_checkbox", "thematic_break"}

const c20AllKinds = "# H\n\npara *em* **st** `cs` [l](u) ![i](s) ~~d~~ <http://a.b> <i>r</i>  \nbr\n\n> q\n\n- [x] t\n\n1. o\n\n```go\nc\n```\n\n| a |\n|---|\n| b |\n\n---\n"

func runC20(r *Run, replay *Case) {
	if replay != nil && replay.Input["stream"] == "concurrent" {
		c20Concurrent(r)
		return
	}
	if replay != nil && replay.Input["stream"] == "history" {
		var docs []string
		remarshal(replay.Input["docs"], &docs)
		c20HistoryReplay(r, docs)
		return
	}
	if replay != nil {
		var ov map[string]string
		if replay.Input["overrides"] != nil {
			remarshal(replay.Input["overrides"], &ov)
		}
		r.Add(c20Eval(replay.Input["src"].(string), ov))
		return
	}
	r.Res.Rule = "documents from a CommonMark/GFM grammar (headings, paragraphs, nested emphasis, code spans/blocks, links/images with titles, nested and task lists, blockquotes, tables with alignment, " +
		"hard/soft breaks, raw HTML, autolinks, escapes, entities, mustache-looking text) vs goldmark's HTML renderer; arbitrary byte strings for never-fails; every single template override and sampled subsets; " +
		"non-trivial = the document contains markup-significant characters; distinct by source"
	for _, s := range []string{"plain *em* text", "a < b & c", "&amp; &copy; &lt;", `\*literal\* \\ back`, "{{ name }} {{secret}}", "# Hello <there>", "`{{ x }}` and `<b>`", "[l](http://x/?a=1&b=2 \"t\")", `write \&copy; and \&amp; and &#38;lt; once`, "# The \\&amp; entity\n\n- *\\&nbsp;*\n\n| a |\n|---|\n| \\&amp; |", c20AllKinds} {
		r.Add(c20Eval(s, nil))
	}
	c20History(r)
	c20Concurrent(r)
	g := &mdGen{r: r.Rng}
	n := 800
	if r.Thorough() {
		n = 30000
	}
	for i := 0; i < n; i++ {
		d := g.doc()
		r.Add(c20Eval(d, nil))
		if i%2 == 0 {
			r.Add(c20ModelCase(d, nil))
		}
	}
	for _, s := range []string{"plain *em* text", "a < b & c", "{{ name }} {{secret}}", "# Hello <there>", "`{{ x }}` and `<b>`", c20AllKinds} {
		r.Add(c20ModelCase(s, nil))
		for _, t := range c20Templates {
			r.Add(c20ModelCase(s, map[string]string{t: "<x-" + strings.ReplaceAll(t, "_", "-") + " :data-c=\"content\">{{ level }}</x-" + strings.ReplaceAll(t, "_", "-") + ">"}))
		}
	}
	// site configuration in the content filesystem (theme.yml, data/*.yml — vuego loads both as initial data) defining the very names the
	// default templates read: what a document renders to is decided by the document alone
	cfgKeys := []string{"content", "id", "code", "title", "href", "align", "label", "ordered", "level", "language", "checked", "rows", "headers", "start", "src", "alt", "cell", "row"}
	var yml strings.Builder
	for _, k := range cfgKeys {
		fmt.Fprintf(&yml, "%s: CFG-%s\n", k, k)
	}
	cfgDocs := []string{c20AllKinds, "[text](http://x/)  ![alt](i.png) <http://auto.example>", "```\nno language\n```\n\n    indented\n", "- a\n- b\n\n1. x\n2. y\n\n- [ ] t\n- [x] d\n", "# h\n\n> q\n\n| a | b |\n|---|:-:|\n| 1 | 2 |\n\n---\n", "*e* **s** ~~d~~ `c` line  \nbreak"}
	for i := 0; i < 60; i++ {
		cfgDocs = append(cfgDocs, g.doc())
	}
	for _, d := range cfgDocs {
		for _, where := range []string{"theme.yml", "data/site.yml"} {
			var plain, conf bytes.Buffer
			e1 := markdown.New(nil).RenderBytes(&plain, []byte(d))
			e2 := markdown.New(fstest.MapFS{where: &fstest.MapFile{Data: []byte(yml.String())}}).RenderBytes(&conf, []byte(d))
			c := &Case{Name: "site configuration next to the document", Input: map[string]any{"src": d, "config": where}, Impl: conf.String(), Oracle: &Verdict{OK: true}, Key: "cfg:" + where + d, Tags: []string{"stream:config"}}
			if (e1 == nil) != (e2 == nil) || plain.String() != conf.String() {
				at := 0
				a, b := plain.String(), conf.String()
				for at < len(a) && at < len(b) && a[at] == b[at] {
					at++
				}
				lo := at - 60
				if lo < 0 {
					lo = 0
				}
				c.Oracle = &Verdict{OK: false, Class: "config-leaks-into-document:" + where, Detail: fmt.Sprintf("source %q: with %s defining the templates' variable names the output differs at byte %d: …%q vs …%q (%v/%v)", d, where, at, clip(a[lo:], 160), clip(b[lo:], 160), e1, e2)}
			}
			r.Add(c)
		}
	}
	c20HeadingIDs(r)
	// never fails: arbitrary byte strings
	m := 500
	if r.Thorough() {
		m = 50000
	}
	for i := 0; i < m; i++ {
		b := make([]byte, 1+r.Rng.Intn(60))
		for j := range b {
			if r.Rng.Intn(3) == 0 {
				const sym = "#*_`[]()<>!|-\\&{}\n \t~:\"'"
				b[j] = sym[r.Rng.Intn(len(sym))]
			} else {
				b[j] = byte(r.Rng.Intn(256))
			}
		}
		c := c20Eval(string(b), map[string]string{})
		c.Tags = []string{"stream:bytes"}
		r.Add(c)
	}
	// overrides: a user template replaces exactly the corresponding default
	base := func() string {
		var buf bytes.Buffer
		markdown.New(nil).RenderBytes(&buf, []byte(c20AllKinds))
		return buf.String()
	}()
	check := func(names []string) {
		ov := map[string]string{}
		for _, nme := range names {
			ov[nme] = "<x-" + strings.ReplaceAll(nme, "_", "-") + "></x-" + strings.ReplaceAll(nme, "_", "-") + ">"
		}
		var buf bytes.Buffer
		err := markdown.New(func() fstest.MapFS {
			f := fstest.MapFS{}
			for k, v := range ov {
				f["markdown/"+k+".vuego"] = &fstest.MapFile{Data: []byte(v)}
			}
			return f
		}()).RenderBytes(&buf, []byte(c20AllKinds))
		c := &Case{Name: fmt.Sprintf("override %v", names), Input: map[string]any{"src": c20AllKinds, "overrides": ov}, Oracle: &Verdict{OK: true}, Key: fmt.Sprint(names), Tags: []string{"stream:override"}}
		out := buf.String()
		c.Impl = out
		if err != nil {
			c.Oracle = &Verdict{OK: false, Class: "override-render-fails", Detail: err.Error()}
		}
		for _, t := range c20Templates {
			marker := "<x-" + strings.ReplaceAll(t, "_", "-") + ">"
			overridden := false
			for _, nme := range names {
				if nme == t {
					overridden = true
				}
			}
			nested := map[string]bool{} // templates whose output only appears inside another template's content
			_ = nested
			has := strings.Contains(out, marker)
			if overridden && !has && c.Oracle.OK {
				// an overridden inner template may be hidden when its container is overridden too
				hidden := false
				for _, nme := range names {
					if nme != t && (nme == "paragraph" || nme == "list" || nme == "list_item" || nme == "blockquote" || nme == "table" || nme == "heading" || nme == "emphasis" || nme == "link" || nme == "strikethrough") {
						hidden = true
					}
				}
				if !hidden {
					c.Oracle = &Verdict{OK: false, Class: "override-not-used:" + t, Detail: fmt.Sprintf("template %s overridden but its marker is missing: %q", t, out)}
				}
			}
			if !overridden && has && c.Oracle.OK {
				c.Oracle = &Verdict{OK: false, Class: "override-leaks:" + t, Detail: out}
			}
		}
		if len(names) == 0 && out != base && c.Oracle.OK {
			c.Oracle = &Verdict{OK: false, Class: "empty-override-set-changes-output", Detail: out}
		}
		r.Add(c)
	}
	check(nil)
	for _, t := range c20Templates {
		check([]string{t})
	}
	for i := 0; i < 200; i++ {
		var names []string
		for _, t := range c20Templates {
			if r.Rng.Intn(4) == 0 {
				names = append(names, t)
			}
		}
		check(names)
	}
}

func clip(s string, n int) string {
	if len(s) > n {
		return s[:n]
	}
	return s
}
