//go:build verif

package main

import (
	"bytes"
	"context"
	"fmt"
	"strings"
	"testing/fstest"
	"time"

	vuego "github.com/titpetric/vuego"
)

// c08ExplicitNil: the winning definition of a key is an EXPLICIT null - `k: ~` in the page's front-matter, Fill(map{k: nil}), Assign(k, nil) -
// while lower-precedence sources (theme.yml, data/*.yml, an earlier Fill) define it with a value. A null that wins is still the winner:
// no position of the page may show the lower value, and the positions agree with each other (the path walker serves some, the merged
// expression environment the others).
func c08ExplicitNil(r *Run) {
	for _, lower := range []string{"theme", "datayml", "fill", "theme+datayml+fill"} {
		for _, higher := range []string{"fm-null", "fm-empty", "fill-nil", "assign-nil", "fill-nil-then-load"} {
			mfs := fstest.MapFS{}
			put := func(n, s string) { mfs[n] = &fstest.MapFile{Data: []byte(s), ModTime: time.Unix(1700000000, 0)} }
			if strings.Contains(lower, "theme") {
				put("theme.yml", "k: LOWER-theme\nother: t\n")
			}
			if strings.Contains(lower, "datayml") {
				put("data/site.yml", "k: LOWER-datayml\n")
			}
			body := `<p>[mustache:{{ k }}]</p><p :title="k">[attr]</p><i v-if="k">[if:truthy]</i><i v-else>[if:falsy]</i><u>[expr:{{ k == nil ? 'NIL' : 'SET' }}]</u><s v-show="k">[show]</s><b :class="{on: k}">[class]</b>`
			page := body
			switch higher {
			case "fm-null":
				page = "---\nk: ~\n---\n" + body
			case "fm-empty":
				page = "---\nk:\n---\n" + body
			}
			put("page.vuego", page)
			var t vuego.Template = vuego.NewFS(mfs)
			if strings.Contains(lower, "fill") {
				t = t.Fill(map[string]any{"k": "LOWER-fill", "zz": 1})
			}
			switch higher {
			case "fill-nil", "fill-nil-then-load":
				t = t.Fill(map[string]any{"k": nil})
			case "assign-nil":
				t = t.Assign("k", nil)
			}
			var buf bytes.Buffer
			err := func() (e error) {
				defer func() {
					if rec := recover(); rec != nil {
						e = fmt.Errorf("panic: %v", rec)
					}
				}()
				return t.Load("page.vuego").Render(context.Background(), &buf)
			}()
			out := buf.String()
			name := fmt.Sprintf("explicit-nil %s over %s", higher, lower)
			c := &Case{Name: name, Key: name, Input: map[string]any{"stream": "explicit-nil", "lower": lower, "higher": higher, "page": page}, Impl: map[string]any{"out": out, "err": fmt.Sprint(err)}, Oracle: &Verdict{OK: true},
				Tags: []string{"stream:explicit-nil", "higher:" + higher, "lower:" + lower}}
			switch {
			case err != nil:
				c.Oracle = &Verdict{OK: false, Class: "explicit-nil:render-error", Detail: err.Error()}
			case strings.Contains(out, "LOWER-"):
				c.Oracle = &Verdict{OK: false, Class: "explicit-nil:lower-value-shown:" + higher, Detail: fmt.Sprintf("%s: the key is null in the winning source, yet a lower source's value is rendered: %q", name, out)}
			case strings.Contains(out, "[if:truthy]") || strings.Contains(out, "[expr:SET]") || strings.Contains(out, `class="on"`) || !strings.Contains(out, "display:none"):
				c.Oracle = &Verdict{OK: false, Class: "explicit-nil:positions-disagree:" + higher, Detail: fmt.Sprintf("%s: {{ k }} is empty but a condition or expression over k sees a value: %q", name, out)}
			}
			r.Add(c)
		}
	}
}
