package main

// C18 — overlay filesystem. Layers are fstest.MapFS values; the model receives, per layer, exactly what that
// layer's fs.FS answers (look table over the path universe, glob table over the pattern set).

import (
	"errors"
	"fmt"
	"io/fs"
	"sort"
	"strings"
	"testing/fstest"

	vuego "github.com/titpetric/vuego"
)

func init() { props["C18"] = runC18 }

var c18Paths = []string{".", "a", "d", "d/x", "d/y", "e", "zz"}
var c18Patterns = []string{"*", "d/*", "?", "zz*", "*/x"}

// layer description: top-level name -> "file" | "dir" | "dir:x=f,y=d"
type c18Layer map[string]string

func (l c18Layer) build(idx int) fs.FS {
	if l == nil {
		return nil
	}
	m := fstest.MapFS{}
	content := func() []byte { return []byte(strings.Repeat("L", idx+1)) }
	for name, kind := range l {
		switch {
		case kind == "file":
			m[name] = &fstest.MapFile{Data: content()}
		case kind == "dir":
			m[name] = &fstest.MapFile{Mode: fs.ModeDir | 0o755}
		case strings.HasPrefix(kind, "dir:"):
			m[name] = &fstest.MapFile{Mode: fs.ModeDir | 0o755}
			for _, kv := range strings.Split(kind[4:], ",") {
				p := strings.SplitN(kv, "=", 2)
				if p[1] == "f" {
					m[name+"/"+p[0]] = &fstest.MapFile{Data: content()}
				} else {
					m[name+"/"+p[0]] = &fstest.MapFile{Mode: fs.ModeDir | 0o755}
				}
			}
		}
	}
	return m
}

func c18LayerTable(f fs.FS) map[string]any {
	look := map[string]any{}
	for _, p := range c18Paths {
		st, err := fs.Stat(f, p)
		if err != nil {
			continue
		}
		if st.IsDir() {
			ents, err := fs.ReadDir(f, p)
			if err != nil {
				continue
			}
			lst := []any{}
			for _, e := range ents {
				lst = append(lst, []any{e.Name(), e.IsDir()})
			}
			look[p] = map[string]any{"dir": lst}
		} else {
			b, _ := fs.ReadFile(f, p)
			look[p] = map[string]any{"file": string(b)}
		}
	}
	gl := map[string]any{}
	for _, pat := range c18Patterns {
		ms, _ := fs.Glob(f, pat)
		lst := []any{}
		for _, m := range ms {
			lst = append(lst, m)
		}
		gl[pat] = lst
	}
	return map[string]any{"look": look, "glob": gl}
}

func c18LayerConfigs(full bool) []c18Layer {
	aOpts := []string{"", "file"}
	eOpts := []string{"", "dir"}
	if full {
		aOpts = []string{"", "file", "dir"}
		eOpts = []string{"", "file", "dir"}
	}
	dOpts := []string{"", "file", "dir"}
	for _, x := range []string{"", "f", "d"} {
		for _, y := range []string{"", "f", "d"} {
			if x == "" && y == "" {
				continue
			}
			var kv []string
			if x != "" {
				kv = append(kv, "x="+x)
			}
			if y != "" {
				kv = append(kv, "y="+y)
			}
			dOpts = append(dOpts, "dir:"+strings.Join(kv, ","))
		}
	}
	out := []c18Layer{nil}
	for _, a := range aOpts {
		for _, d := range dOpts {
			for _, e := range eOpts {
				l := c18Layer{}
				if a != "" {
					l["a"] = a
				}
				if d != "" {
					l["d"] = d
				}
				if e != "" {
					l["e"] = e
				}
				out = append(out, l)
			}
		}
	}
	return out
}

type c18Query struct{ q, arg string }

func c18Queries() []c18Query {
	var qs []c18Query
	for _, p := range c18Paths {
		qs = append(qs, c18Query{"open", p})
		qs = append(qs, c18Query{"stat", p})
		qs = append(qs, c18Query{"readfile", p})
	}
	for _, p := range []string{".", "d", "a", "e", "zz"} {
		qs = append(qs, c18Query{"readdir", p})
	}
	qs = append(qs, c18Query{"stat", "."})
	for _, p := range c18Patterns {
		qs = append(qs, c18Query{"glob", p})
	}
	return qs
}

// c18Eval runs one query against the real OverlayFS and against the independent reference.
func c18Eval(layers []c18Layer, q c18Query) *Case {
	var fss []fs.FS
	var tables []any
	for i, l := range layers {
		f := l.build(i)
		fss = append(fss, f)
		if f == nil {
			tables = append(tables, nil)
		} else {
			tables = append(tables, c18LayerTable(f))
		}
	}
	var ov *vuego.OverlayFS
	if len(fss) == 0 {
		return nil
	}
	ov = vuego.NewOverlayFS(fss[0], fss[1:]...)
	c := &Case{Name: fmt.Sprintf("%s(%s) over %d layers", q.q, q.arg, len(layers)), Op: true,
		Input: map[string]any{"op": "overlay", "layers": tables, "q": q.q, "arg": q.arg, "desc": layers}}
	nonNil := 0
	for _, f := range fss {
		if f != nil {
			nonNil++
		}
	}
	c.Tags = append(c.Tags, "q:"+q.q, fmt.Sprintf("layers:%d", len(layers)), fmt.Sprintf("nonnil:%d", nonNil))

	// reference: first layer that has the path / sorted union
	lookAt := func(i int, p string) map[string]any {
		if tables[i] == nil {
			return nil
		}
		e, _ := tables[i].(map[string]any)["look"].(map[string]any)[p].(map[string]any)
		return e
	}
	switch q.q {
	case "open":
		var impl map[string]any
		st, err := fs.Stat(ov, q.arg)
		if err != nil {
			impl = map[string]any{"ok": false}
		} else if st == nil {
			impl = map[string]any{"ok": true, "entry": "no-info"}
		} else if st.IsDir() {
			// the overlay's Open returns the first layer's directory; list it through the opened file
			f, err := ov.Open(q.arg)
			lst := []any{}
			if err == nil {
				if rd, ok := f.(fs.ReadDirFile); ok {
					ents, _ := rd.ReadDir(-1)
					sort.Slice(ents, func(i, j int) bool { return ents[i].Name() < ents[j].Name() })
					for _, e := range ents {
						lst = append(lst, []any{e.Name(), e.IsDir()})
					}
				}
				f.Close()
			}
			impl = map[string]any{"ok": true, "entry": map[string]any{"dir": lst}}
		} else {
			// NB fs.ReadFile(ov, …) uses ov.Open
			b, _ := fs.ReadFile(ov, q.arg)
			impl = map[string]any{"ok": true, "entry": map[string]any{"file": string(b)}}
		}
		c.Impl = impl
		var want map[string]any = map[string]any{"ok": false}
		for i := range layers {
			if e := lookAt(i, q.arg); e != nil {
				want = map[string]any{"ok": true, "entry": e}
				c.Key = fmt.Sprintf("open:%s:first=%d/%d", q.arg, i, len(layers))
				break
			}
		}
		c.Oracle = cmpVerdict("open-first-layer", want, impl)
	case "stat":
		// metadata: fs.Stat on the overlay (the loader's Stat, the cache's modification-time check); kind and size come from the first
		// layer that has the path, and a path in no layer (every layer nil included) is an error that is fs.ErrNotExist
		st, err := fs.Stat(ov, q.arg)
		impl := map[string]any{"ok": false}
		if err == nil && st == nil {
			impl = map[string]any{"ok": true, "info": "nil"}
		} else if err == nil {
			impl = map[string]any{"ok": true, "dir": st.IsDir()}
			if !st.IsDir() {
				impl["size"] = int(st.Size())
			}
		} else if !errors.Is(err, fs.ErrNotExist) {
			impl = map[string]any{"ok": false, "err": "not a not-exist error: " + err.Error()}
		}
		c.Impl = impl
		want := map[string]any{"ok": false}
		if q.arg == "." && nonNil > 0 {
			// the root exists in every real layer
			want = map[string]any{"ok": true, "dir": true}
			c.Key = fmt.Sprintf("stat:.:%d", len(layers))
		}
		for i := range layers {
			if e := lookAt(i, q.arg); e != nil {
				if f, isFile := e["file"]; isFile {
					want = map[string]any{"ok": true, "dir": false, "size": len(fmt.Sprint(f))}
				} else {
					want = map[string]any{"ok": true, "dir": true}
				}
				c.Key = fmt.Sprintf("stat:%s:first=%d/%d", q.arg, i, len(layers))
				break
			}
		}
		c.Oracle = cmpVerdict("stat-first-layer", want, impl)
	case "readfile":
		// the way the loader, the template functions and the markdown package read sources
		b, err := fs.ReadFile(ov, q.arg)
		impl := map[string]any{"ok": false}
		if err == nil {
			impl = map[string]any{"ok": true, "content": string(b)}
		}
		c.Impl = impl
		want := map[string]any{"ok": false}
		for i := range layers {
			if e := lookAt(i, q.arg); e != nil {
				if f, isFile := e["file"]; isFile {
					want = map[string]any{"ok": true, "content": f}
				}
				c.Key = fmt.Sprintf("readfile:%s:first=%d/%d:%v", q.arg, i, len(layers), e["file"] != nil)
				break
			}
		}
		c.Oracle = cmpVerdict("readfile-first-layer", want, impl)
	case "readdir":
		ents, err := ov.ReadDir(q.arg)
		var impl map[string]any
		if err != nil {
			impl = map[string]any{"ok": false}
		} else {
			lst := []any{}
			for _, e := range ents {
				k := -1
				if !e.IsDir() {
					if info, err := e.Info(); err == nil {
						k = int(info.Size()) - 1
					}
				}
				lst = append(lst, []any{e.Name(), e.IsDir(), k})
			}
			impl = map[string]any{"ok": true, "entries": lst}
		}
		c.Impl = impl
		// reference
		seen := map[string][]any{}
		anyDir := false
		anyLayer := false
		for i := range layers {
			if tables[i] == nil {
				continue
			}
			anyLayer = true
			e := lookAt(i, q.arg)
			if e == nil || e["dir"] == nil {
				continue
			}
			anyDir = true
			for _, it := range e["dir"].([]any) {
				p := it.([]any)
				n := p[0].(string)
				if _, ok := seen[n]; !ok {
					k := -1
					if !p[1].(bool) {
						k = i
					}
					seen[n] = []any{n, p[1], k}
				}
			}
		}
		var want map[string]any
		if !anyDir && anyLayer {
			want = map[string]any{"ok": false}
		} else {
			var names []string
			for n := range seen {
				names = append(names, n)
			}
			sort.Strings(names)
			lst := []any{}
			for _, n := range names {
				lst = append(lst, seen[n])
			}
			want = map[string]any{"ok": true, "entries": lst}
		}
		if anyDir {
			c.Key = fmt.Sprintf("readdir:%s:%d:%v", q.arg, len(seen), layers)
		}
		c.Oracle = cmpVerdict("readdir-union", want, impl)
		if !c.Oracle.OK && anyDir && len(seen) == 0 && impl["ok"] == false {
			c.Oracle.Class = "readdir-empty-dir-plus-missing-layer"
		}
	case "glob":
		ms, err := ov.Glob(q.arg)
		lst := []any{}
		for _, m := range ms {
			lst = append(lst, m)
		}
		impl := map[string]any{"ok": err == nil, "matches": lst}
		c.Impl = impl
		set := map[string]bool{}
		for i := range layers {
			if tables[i] == nil {
				continue
			}
			for _, m := range tables[i].(map[string]any)["glob"].(map[string]any)[q.arg].([]any) {
				set[m.(string)] = true
			}
		}
		var names []string
		for n := range set {
			names = append(names, n)
		}
		sort.Strings(names)
		wl := []any{}
		for _, n := range names {
			wl = append(wl, n)
		}
		if len(names) > 0 {
			c.Key = fmt.Sprintf("glob:%s:%v", q.arg, names)
		}
		c.Oracle = cmpVerdict("glob-union", map[string]any{"ok": true, "matches": wl}, impl)
	}
	return c
}

func cmpVerdict(class string, want, got any) *Verdict {
	w, g := canon(want), canon(got)
	if jsonEq(w, g) {
		return &Verdict{OK: true}
	}
	return &Verdict{OK: false, Class: class, Detail: fmt.Sprintf("want %s got %s", jstr(w), jstr(g))}
}

func runC18(r *Run, replay *Case) {
	postModel["C18"] = func(c *Case, m any) any {
		mm, ok := m.(map[string]any)
		if !ok {
			return m
		}
		delete(mm, "layer")
		if ents, ok := mm["entries"].([]any); ok {
			for _, e := range ents {
				p := e.([]any)
				if p[1] == true {
					p[2] = float64(-1)
				}
			}
		}
		return mm
	}
	if replay != nil && replay.Input["stream"] == "markdown-layers" {
		c18MarkdownLayers(r)
		return
	}
	if replay != nil && replay.Input["stream"] == "real-layers" {
		c18RealLayers(r)
		return
	}
	if replay != nil {
		var layers []c18Layer
		remarshal(replay.Input["desc"], &layers)
		c := c18Eval(layers, c18Query{replay.Input["q"].(string), replay.Input["arg"].(string)})
		r.Add(c)
		return
	}
	r.Res.Rule = "layer stacks enumerated over a 5-path universe (each path absent/file/dir per layer, nil layers included) x open/readdir/glob queries; " +
		"non-trivial = the queried path/pattern is present in at least one layer; distinct by (query, serving layer or merged listing)"
	c18MarkdownLayers(r)
	c18RealLayers(r)
	cfgs := c18LayerConfigs(r.Thorough())
	qs := c18Queries()
	// corpus: the empty-directory case first
	r.Add(c18Eval([]c18Layer{{"e": "dir"}, {"a": "file"}}, c18Query{"readdir", "e"}))
	r.Add(c18Eval([]c18Layer{{"a": "file"}, {"e": "dir"}}, c18Query{"readdir", "e"}))
	for _, l1 := range cfgs {
		for _, q := range qs {
			r.Add(c18Eval([]c18Layer{l1}, q))
		}
	}
	for _, l1 := range cfgs {
		for _, l2 := range cfgs {
			for _, q := range qs {
				r.Add(c18Eval([]c18Layer{l1, l2}, q))
			}
		}
	}
	r.Res.Exhaustive = true
	if r.Thorough() {
		c18GlobNames(r, 2000)
	} else {
		c18GlobNames(r, 150)
	}
	// wide directories: 8-24 names per directory, each absent / file / directory per layer, at the top level and inside `d` — listings long
	// enough that how the merged listing is sorted and de-duplicated matters (which layer's entry stands for a shadowed name)
	nw := 400
	if r.Thorough() {
		nw = 8000
	}
	for i := 0; i < nw; i++ {
		width := 8 + r.Rng.Intn(17)
		k := 2 + r.Rng.Intn(3)
		var ls []c18Layer
		for j := 0; j < k; j++ {
			if r.Rng.Intn(12) == 0 {
				ls = append(ls, nil)
				continue
			}
			l := c18Layer{}
			var kids []string
			for w := 0; w < width; w++ {
				switch r.Rng.Intn(4) {
				case 0:
					l[fmt.Sprintf("n%02d", w)] = "file"
				case 1:
					l[fmt.Sprintf("n%02d", w)] = "dir"
				}
				switch r.Rng.Intn(4) {
				case 0:
					kids = append(kids, fmt.Sprintf("c%02d=f", w))
				case 1:
					kids = append(kids, fmt.Sprintf("c%02d=d", w))
				}
			}
			if len(kids) > 0 && r.Rng.Intn(5) > 0 {
				l["d"] = "dir:" + strings.Join(kids, ",")
			}
			ls = append(ls, l)
		}
		wq := []c18Query{{"readdir", "."}, {"readdir", "d"}, {"glob", "*"}, {"glob", "d/*"}, {"open", "d"}, {"readdir", "."}, {"readdir", "d"}}
		c := c18Eval(ls, wq[i%len(wq)])
		c.Tags = append(c.Tags, "wide")
		r.Add(c)
	}
	// random stacks of 3 and 4
	n := 3000
	if r.Thorough() {
		n = 60000
	}
	for i := 0; i < n; i++ {
		k := 3 + r.Rng.Intn(2)
		var ls []c18Layer
		for j := 0; j < k; j++ {
			ls = append(ls, cfgs[r.Rng.Intn(len(cfgs))])
		}
		r.Add(c18Eval(ls, qs[r.Rng.Intn(len(qs))]))
	}
}

// glob over directory names that are PREFIXES of one another and continue with bytes sorting before '/' (`pages` / `pages-old` / `pages.d`, `v1` / `v1.1`):
// the result is the union of the layers' matches SORTED AS STRINGS (not directory by directory), without duplicates
func c18GlobNames(r *Run, n int) {
	dirs := []string{"pages", "pages-old", "pages.d", "pages old", "blog", "blog.d", "v1", "v1.1", "v1+", "z"}
	files := []string{"index.vuego", "about.vuego", "x", "_p.vuego"}
	pats := []string{"*/*", "*/*.vuego", "p*/index.vuego", "*/index.vuego", "*", "pages*/*", "v1*/x", "*/[ai]*", "[bp]*/*.vuego", "*.d/*"}
	for i := 0; i < n; i++ {
		k := 1 + r.Rng.Intn(3)
		var layers []fs.FS
		var desc []any
		for j := 0; j < k; j++ {
			if r.Rng.Intn(8) == 0 {
				layers = append(layers, nil)
				desc = append(desc, nil)
				continue
			}
			m := fstest.MapFS{}
			var names []string
			for _, d := range dirs {
				if r.Rng.Intn(2) == 0 {
					continue
				}
				for _, f := range files {
					if r.Rng.Intn(2) == 0 {
						m[d+"/"+f] = &fstest.MapFile{Data: []byte("L")}
						names = append(names, d+"/"+f)
					}
				}
			}
			if r.Rng.Intn(3) == 0 {
				m["top.vuego"] = &fstest.MapFile{Data: []byte("T")}
				names = append(names, "top.vuego")
			}
			layers = append(layers, m)
			desc = append(desc, names)
		}
		ov := vuego.NewOverlayFS(layers[0], layers[1:]...)
		for _, pat := range pats {
			got, err := ov.Glob(pat)
			set := map[string]bool{}
			for _, l := range layers {
				if l == nil {
					continue
				}
				ms, _ := fs.Glob(l, pat)
				for _, m := range ms {
					set[m] = true
				}
			}
			want := make([]string, 0, len(set))
			for m := range set {
				want = append(want, m)
			}
			sort.Strings(want)
			c := &Case{Name: fmt.Sprintf("glob names %s over %d layers", pat, k), Input: map[string]any{"stream": "globnames", "layers": desc, "pattern": pat}, Impl: map[string]any{"matches": got},
				Oracle: &Verdict{OK: true}, Key: fmt.Sprintf("globnames|%s|%v", pat, want), Tags: []string{"stream:glob-names", "q:glob"}}
			if err != nil || strings.Join(got, "\x00") != strings.Join(want, "\x00") {
				c.Oracle = &Verdict{OK: false, Class: "glob-union:names", Detail: fmt.Sprintf("Glob(%q) over %v = %q (err %v), expected the sorted union %q", pat, desc, got, err, want)}
			}
			r.Add(c)
		}
	}
}
