//go:build verif

package main

import (
	"fmt"
	"strings"
)

// c03OperandHistory: compound conditions whose operands are MISSING (or nil) the first time the engine evaluates them and present later -
// in an earlier render on the same engine, or for an earlier item of the same loop. A condition is decided by its operands' values now:
// the chain picks the first branch whose condition is truthy for THIS data / THIS item, v-show and :class agree.
func c03OperandHistory(r *Run) {
	conds := []struct {
		expr  string
		holds func(d map[string]any) bool
	}{
		{"it.qty > 0", func(d map[string]any) bool { q, ok := d["qty"].(int); return ok && q > 0 }},
		{"it.ok && it.admin", func(d map[string]any) bool { return d["ok"] == true && d["admin"] == true }},
		{"it.qty == 3 || it.ok", func(d map[string]any) bool { return d["qty"] == 3 || d["ok"] == true }},
		{"it.name == 'b'", func(d map[string]any) bool { return d["name"] == "b" }},
		{"it.qty != 3 && it.name != 'd'", func(d map[string]any) bool { return d["qty"] != 3 && d["name"] != "d" }},
	}
	items := []map[string]any{{"name": "a"}, {"name": "b", "qty": 3, "ok": true, "admin": true}, {"name": "c", "qty": 0, "ok": false}, {"name": "d", "qty": 7, "ok": true}, {"name": "e", "qty": nil, "ok": nil}}
	for ci, c := range conds {
		// (1) within one render: a loop over heterogeneous items
		tpl := `<ul><li v-for="it in items"><b v-if="` + c.expr + `">[T:{{ it.name }}]</b><i v-else>[F:{{ it.name }}]</i><u v-show="` + c.expr + `" :class="{on: ` + c.expr + `}">s</u></li></ul>`
		var lst []any
		var want []string
		for _, it := range items {
			lst = append(lst, it)
			if c.holds(it) {
				want = append(want, "T:"+it["name"].(string))
			} else {
				want = append(want, "F:"+it["name"].(string))
			}
		}
		res := renderPage(map[string]string{"p.vuego": tpl}, "p.vuego", map[string]any{"items": lst})
		var got []string
		for _, m := range c03MarkRe.FindAllStringSubmatch(strings.ReplaceAll(res.Out, ":", "-"), -1) {
			got = append(got, strings.Replace(m[1], "-", ":", 1))
		}
		name := fmt.Sprintf("operand-history loop cond%d", ci)
		cs := &Case{Name: name, Key: name, Input: map[string]any{"stream": "operand-history", "tpl": tpl}, Impl: res.canon(), Oracle: &Verdict{OK: true}, Tags: []string{"stream:operand-history", "kind:loop"}}
		if res.Err != "" || strings.Join(got, ",") != strings.Join(want, ",") {
			cs.Oracle = &Verdict{OK: false, Class: "chain-selection:operand-history:loop", Detail: fmt.Sprintf("condition %q over items %v: markers %v, expected %v (%s); output %q", c.expr, items, got, want, res.Err, res.Out)}
		}
		r.Add(cs)
		pendingPages = append(pendingPages, pageCase("operand-history", map[string]string{"p.vuego": tpl}, nil, "p.vuego", map[string]any{"items": lst}, "kind:operand-history"))
		// (2) across renders on ONE engine: every ordered pair (first render's item, second render's item)
		one := `<b v-if="` + c.expr + `">[T]</b><i v-else-if="it.name">[F]</i><s v-else>[N]</s><u v-show="` + c.expr + `">s</u>`
		for ai, a := range items {
			for bi, b := range items {
				for _, viaVue := range []bool{true, false} {
					res := renderPageAfter(map[string]string{"p.vuego": one}, "p.vuego", map[string]any{"it": a}, map[string]any{"it": b}, viaVue)
					wantT := c.holds(b)
					name := fmt.Sprintf("operand-history pair cond%d %d->%d vue=%v", ci, ai, bi, viaVue)
					cp := &Case{Name: name, Key: name, Input: map[string]any{"stream": "operand-history", "tpl": one}, Impl: res.canon(), Oracle: &Verdict{OK: true}, Tags: []string{"stream:operand-history", "kind:pair"}}
					gotT := strings.Contains(res.Out, "[T]")
					hidden := strings.Contains(res.Out, "display:none")
					if res.Err != "" || gotT != wantT || hidden == wantT {
						cp.Oracle = &Verdict{OK: false, Class: "chain-selection:operand-history:earlier-render", Detail: fmt.Sprintf("condition %q with it=%v after a render with it=%v on the same engine: v-if branch taken=%v, v-show hidden=%v, the condition holds=%v (%s); output %q", c.expr, b, a, gotT, hidden, wantT, res.Err, res.Out)}
					}
					r.Add(cp)
				}
			}
		}
	}
}
