//go:build verif

package main

import (
	"fmt"
	"strings"
)

// c03OperandHistory: compound conditions whose operands are MISSING (or nil) the first time the engine evaluates them and present later -
// in an earlier render on the same engine, or for an earlier item of the same loop. A condition is decided by its operands' values now:
// the chain picks the first branch whose condition is truthy for THIS data / THIS item, v-show and :class agree.
func c03OperandHistory(r *Run) {
	conds := []struct {
		expr  string
		holds func(d map[string]any) bool
	}{
		{"it.qty > 0", func(d map[string]any) bool { q, ok := d["qty"].(int); return ok && q > 0 }},
		{"it.ok && it.admin", func(d map[string]any) bool { return d["ok"] == true && d["admin"] == true }},
		{"it.qty == 3 || it.ok", func(d map[string]any) bool { return d["qty"] == 3 || d["ok"] == true }},
		{"it.name == 'b'", func(d map[string]any) bool { return d["name"] == "b" }},
		{"it.qty != 3 && it.name != 'd'", func(d map[string]any) bool { return d["qty"] != 3 && d["name"] != "d" }},
	}
	items := []map[string]any{{"name": "a"}, {"name": "b", "qty": 3, "ok": true, "admin": true}, {"name": "c", "qty": 0, "ok": false}, {"name": "d", "qty": 7, "ok": true}, {"name": "e", "qty": nil, "ok": nil}}
	for ci, c := range conds {
		// (1) within one render: a loop over heterogeneous items
		tpl := `<ul><li v-for="it in items"><b v-if="` + c.expr + `">[T:{{ it.name }}]</b><i v-else>[F:{{ it.name }}]</i><u v-show="` + c.expr + `" :class="{on: ` + c.expr + `}">s</u></li></ul>`
		var lst []any
		var want []string
		for _, it := range items {
			lst = append(lst, it)
			if c.holds(it) {
				want = append(want, "T:"+it["name"].(string))
			} else {
				want = append(want, "F:"+it["name"].(string))
			}
		}
		res := renderPage(map[string]string{"p.vuego": tpl}, "p.vuego", map[string]any{"items": lst})
		var got []string
		for _, m := range c03MarkRe.FindAllStringSubmatch(strings.ReplaceAll(res.Out, ":", "-"), -1) {
			got = append(got, strings.Replace(m[1], "-", ":", 1))
		}
		name := fmt.Sprintf("operand-history loop cond%d", ci)
		cs := &Case{Name: name, Key: name, Input: map[string]any{"stream": "operand-history", "tpl": tpl}, Impl: res.canon(), Oracle: &Verdict{OK: true}, Tags: []string{"stream:operand-history", "kind:loop"}}
		if res.Err != "" || strings.Join(got, ",") != strings.Join(want, ",") {
			cs.Oracle = &Verdict{OK: false, Class: "chain-selection:operand-history:loop", Detail: fmt.Sprintf("condition %q over items %v: markers %v, expected %v (%s); output %q", c.expr, items, got, want, res.Err, res.Out)}
		}
		r.Add(cs)
		pendingPages = append(pendingPages, pageCase("operand-history", map[string]string{"p.vuego": tpl}, nil, "p.vuego", map[string]any{"items": lst}, "kind:operand-history"))
		// (2) across renders on ONE engine: every ordered pair (first render's item, second render's item)
		one := `<b v-if="` + c.expr + `">[T]</b><i v-else-if="it.name">[F]</i><s v-else>[N]</s><u v-show="` + c.expr + `">s</u>`
		for ai, a := range items {
			for bi, b := range items {
				for _, viaVue := range []bool{true, false} {
					res := renderPageAfter(map[string]string{"p.vuego": one}, "p.vuego", map[string]any{"it": a}, map[string]any{"it": b}, viaVue)
					wantT := c.holds(b)
					name := fmt.Sprintf("operand-history pair cond%d %d->%d vue=%v", ci, ai, bi, viaVue)
					cp := &Case{Name: name, Key: name, Input: map[string]any{"stream": "operand-history", "tpl": one}, Impl: res.canon(), Oracle: &Verdict{OK: true}, Tags: []string{"stream:operand-history", "kind:pair"}}
					gotT := strings.Contains(res.Out, "[T]")
					hidden := strings.Contains(res.Out, "display:none")
					if res.Err != "" || gotT != wantT || hidden == wantT {
						cp.Oracle = &Verdict{OK: false, Class: "chain-selection:operand-history:earlier-render", Detail: fmt.Sprintf("condition %q with it=%v after a render with it=%v on the same engine: v-if branch taken=%v, v-show hidden=%v, the condition holds=%v (%s); output %q", c.expr, b, a, gotT, hidden, wantT, res.Err, res.Out)}
					}
					r.Add(cp)
				}
			}
		}
	}
}

// c03OnceMemberHistory: a chain whose v-else-if member carries v-once, instantiated once per row of a loop with EVERY sequence of truth
// assignments of length 3: each row shows exactly the first branch whose condition holds for THAT row - the marked member the first time
// it is chosen in the render, nothing for it afterwards (v-once), and never anything else because of what an earlier row chose or skipped.
func c03OnceMemberHistory(r *Run) {
	rowsOf := []map[string]any{{"a": true, "b": false}, {"a": false, "b": true}, {"a": false, "b": false}, {"a": true, "b": true}}
	for _, onceOn := range []string{"else-if", "else", "if"} {
		attr := map[string]string{"if": "", "else-if": "", "else": ""}
		attr[onceOn] = " v-once"
		tpl := `<div v-for="row in rows"><p v-if="row.a"` + attr["if"] + `>[A]</p><p v-else-if="row.b"` + attr["else-if"] + `>[B]</p><p v-else` + attr["else"] + `>[C]</p><i>[end]</i></div>`
		for i := 0; i < 4*4*4; i++ {
			idx := []int{i % 4, (i / 4) % 4, i / 16}
			var rows []any
			var want []string
			done := false
			for _, k := range idx {
				rows = append(rows, rowsOf[k])
				branch := "C"
				if rowsOf[k]["a"] == true {
					branch = "A"
				} else if rowsOf[k]["b"] == true {
					branch = "B"
				}
				marked := map[string]string{"if": "A", "else-if": "B", "else": "C"}[onceOn]
				if branch == marked {
					if !done {
						want = append(want, branch)
					}
					done = true
				} else {
					want = append(want, branch)
				}
				want = append(want, "end")
			}
			d := map[string]any{"rows": rows}
			files := map[string]string{"p.vuego": tpl}
			res := renderPage(files, "p.vuego", d)
			var got []string
			for _, m := range c03MarkRe.FindAllStringSubmatch(res.Out, -1) {
				got = append(got, m[1])
			}
			name := fmt.Sprintf("once-member-history once=%s rows=%v", onceOn, idx)
			c := &Case{Name: name, Key: name, Input: map[string]any{"stream": "operand-history", "tpl": tpl, "rows": idx}, Impl: res.canon(), Oracle: &Verdict{OK: true}, Tags: []string{"stream:once-member-history", "once:" + onceOn}}
			if res.Err != "" || strings.Join(got, ",") != strings.Join(want, ",") {
				cls := map[string]string{"else-if": "chain-selection:once-member-history:else-if", "if": "chain-selection:once-on-head-consumed-while-false", "else": "chain-selection:once-on-stray-else-consumed"}[onceOn]
				c.Oracle = &Verdict{OK: false, Class: cls, Detail: fmt.Sprintf("rows %v: markers %v, expected %v (%s); template %q", idx, got, want, res.Err, tpl)}
			}
			r.Add(c)
			if i%5 == 0 {
				pendingPages = append(pendingPages, pageCase("chain", files, nil, "p.vuego", d, "placement:once-member-history"))
			}
		}
	}
}

// c03OnceHeadForms: where the v-once test of a chain head happens. (1) a head that also carries v-pre is not a chain member at all - its
// directives are inert, it is written raw, ONCE, whatever its condition says, and the members after it are strays; (2) a component that is
// included several times with a different flag each time: the head inside it is one element (one id along the include chain) and appears
// at the first inclusion whose flag holds - not before, and only once.
func c03OnceHeadForms(r *Run) {
	rowsOf := []map[string]any{{"a": true}, {"a": false}}
	tplPre := `<div v-for="row in rows"><p v-if="row.a" v-once v-pre>[A]</p><p v-else>[C]</p><i>[end]</i></div>`
	comp := `<p v-if="flag" v-once>[A]</p><p v-else>[C]</p><i>[end]</i>`
	for i := 0; i < 2*2*2; i++ {
		idx := []int{i % 2, (i / 2) % 2, i / 4}
		var rows []any
		var wantPre, wantInc []string
		done := false
		page := ""
		for n, k := range idx {
			rows = append(rows, rowsOf[k])
			if n == 0 {
				wantPre = append(wantPre, "A")
			}
			wantPre = append(wantPre, "end")
			if rowsOf[k]["a"] == true {
				if !done {
					wantInc = append(wantInc, "A")
				}
				done = true
			} else {
				wantInc = append(wantInc, "C")
			}
			wantInc = append(wantInc, "end")
			page += fmt.Sprintf(`<template include="c.vuego" :flag="rows[%d].a"></template>`, n)
		}
		d := map[string]any{"rows": rows}
		for _, form := range []struct {
			name  string
			files map[string]string
			want  []string
		}{
			{"head-with-pre", map[string]string{"p.vuego": tplPre}, wantPre},
			{"head-in-component-included-again", map[string]string{"p.vuego": page, "c.vuego": comp}, wantInc},
		} {
			res := renderPage(form.files, "p.vuego", d)
			var got []string
			for _, m := range c03MarkRe.FindAllStringSubmatch(res.Out, -1) {
				got = append(got, m[1])
			}
			name := fmt.Sprintf("once-head-forms %s rows=%v", form.name, idx)
			c := &Case{Name: name, Key: name, Input: map[string]any{"stream": "operand-history", "files": form.files, "rows": idx}, Impl: res.canon(), Oracle: &Verdict{OK: true}, Tags: []string{"stream:once-head-forms", "form:" + form.name}}
			if res.Err != "" || strings.Join(got, ",") != strings.Join(form.want, ",") {
				c.Oracle = &Verdict{OK: false, Class: "chain-selection:once-head-forms:" + form.name, Detail: fmt.Sprintf("rows %v: markers %v, expected %v (%s); files %v", idx, got, form.want, res.Err, form.files)}
			}
			r.Add(c)
			pendingPages = append(pendingPages, pageCase("chain", form.files, nil, "p.vuego", d, "placement:once-head-forms"))
		}
	}
}

// c03LoopedHeadTwoVars: a chain head that carries a TWO-variable v-for - `(i, item) in items` - with a condition on the item, on the index, on
// both, or on neither. The condition is evaluated per instance with both variables bound: the instances whose condition holds render, and the
// chain's v-else renders exactly when none does.
func c03LoopedHeadTwoVars(r *Run) {
	lists := map[string][]any{
		"mixed":     {map[string]any{"ok": true, "n": 1}, map[string]any{"ok": false, "n": 0}, map[string]any{"ok": true, "n": 3}},
		"all-false": {map[string]any{"ok": false, "n": 0}, map[string]any{"ok": false, "n": 0}},
		"all-true":  {map[string]any{"ok": true, "n": 2}, map[string]any{"ok": true, "n": 5}},
		"empty":     {},
	}
	conds := []struct {
		name, expr string
		holds      func(i int, it map[string]any) bool
	}{
		{"on-item", "item.ok", func(i int, it map[string]any) bool { return it["ok"] == true }},
		{"on-item-number", "item.n", func(i int, it map[string]any) bool { return it["n"] != 0 }},
		{"on-item-compare", "item.n > 1", func(i int, it map[string]any) bool { return it["n"].(int) > 1 }},
		{"on-index", "i != 1", func(i int, it map[string]any) bool { return i != 1 }},
		{"on-both", "item.ok && i < 2", func(i int, it map[string]any) bool { return it["ok"] == true && i < 2 }},
		{"on-neither", "flag", func(i int, it map[string]any) bool { return true }},
		{"negated-item", "!item.ok", func(i int, it map[string]any) bool { return it["ok"] != true }},
	}
	for ln, lst := range lists {
		for _, cd := range conds {
			for _, order := range []string{"for-first", "if-first"} {
				head := `<li v-for="(i, item) in items" v-if="` + cd.expr + `">[I{{ i }}-{{ item.n }}]</li>`
				if order == "if-first" {
					head = `<li v-if="` + cd.expr + `" v-for="(i, item) in items">[I{{ i }}-{{ item.n }}]</li>`
				}
				tpl := `<ul><li>[before]</li>` + head + `<li v-else>[none]</li><li>[after]</li></ul>`
				want := []string{"before"}
				any_ := false
				for i, it := range lst {
					if cd.holds(i, it.(map[string]any)) {
						want = append(want, fmt.Sprintf("I%d-%v", i, it.(map[string]any)["n"]))
						any_ = true
					}
				}
				if !any_ {
					want = append(want, "none")
				}
				want = append(want, "after")
				d := map[string]any{"items": lst, "flag": true}
				files := map[string]string{"p.vuego": tpl}
				res := renderPage(files, "p.vuego", d)
				var got []string
				for _, m := range c03MarkRe.FindAllStringSubmatch(res.Out, -1) {
					got = append(got, m[1])
				}
				name := fmt.Sprintf("looped-head-two-vars list=%s cond=%s %s", ln, cd.name, order)
				c := &Case{Name: name, Key: name, Input: map[string]any{"stream": "operand-history", "tpl": tpl, "list": ln}, Impl: res.canon(), Oracle: &Verdict{OK: true}, Tags: []string{"stream:looped-head-two-vars", "cond:" + cd.name, "list:" + ln}}
				if res.Err != "" || strings.Join(got, ",") != strings.Join(want, ",") {
					c.Oracle = &Verdict{OK: false, Class: "chain-selection:looped-head-two-vars:" + cd.name, Detail: fmt.Sprintf("list %s: markers %v, expected %v (%s); template %q", ln, got, want, res.Err, tpl)}
				}
				r.Add(c)
				pendingPages = append(pendingPages, pageCase("chain", files, nil, "p.vuego", d, "placement:looped-head-two-vars"))
			}
		}
	}
}
