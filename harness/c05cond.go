//go:build verif

package main

import (
	"fmt"
	"strings"

	"github.com/titpetric/vuego"
)

// c05ConditionalIncludes: an include (or a registered component tag) that is a member of a v-if chain. When the chain selects it, it is
// still an include: the component is rendered with the tag's attributes as props, exactly as the same tag without the chain directive
// (the reference, rendered by the same engine); when the chain does not select it, nothing of it is rendered. The props take values that
// themselves look like template syntax, so that a second interpolation pass on this path would show.
func c05ConditionalIncludes(r *Run) {
	comp := `<i>«c:{{ a }}|{{ b }}|{{ outer }}»</i><slot></slot>`
	forms := []struct{ name, open, close string }{
		{"static", `<template %s include="components/MyComp.vuego" a="A" b="B">`, `</template>`},
		{"interp", `<template %s include="components/MyComp.vuego" a="{{ x }}" b="pre-{{ y }}">`, `</template>`},
		{"bound", `<template %s include="components/MyComp.vuego" :a="x" :b="n">`, `</template>`},
		{"tag", `<my-comp %s a="{{ x }}" :b="n">`, `</my-comp>`},
		{"slot-content", `<template %s include="components/MyComp.vuego" a="A"><u>«slot:{{ y }}»</u>`, `</template>`},
	}
	dirs := []struct {
		name, before, dir string
		selected         bool
	}{
		{"if-true", ``, `v-if="yes"`, true},
		{"if-false", ``, `v-if="no"`, false},
		{"else-if-true", `<s v-if="no">«never»</s>`, `v-else-if="yes"`, true},
		{"else-if-false", `<s v-if="no">«never»</s>`, `v-else-if="no"`, false},
		{"else", `<s v-if="no">«never»</s>`, `v-else`, true},
		{"else-not-reached", `<s v-if="yes">«head»</s>`, `v-else`, false},
		{"else-after-empty-loop", `<s v-for="q in none">«never»</s>`, `v-else`, true},
	}
	values := []struct {
		name string
		x, y any
	}{
		{"plain", "ex", "why"},
		{"mustache-text", "{{ secret }}", "{{ x }}"},
		{"markup", `<b>&amp;"</b>`, "a & b"},
	}
	for _, f := range forms {
		for _, dv := range dirs {
			for _, val := range values {
				d := map[string]any{"yes": true, "no": false, "none": []any{}, "x": val.x, "y": val.y, "n": 7, "outer": "OUT", "secret": "SECRET"}
				mk := func(dir, before string) map[string]string {
					return map[string]string{"p.vuego": `<b>«before»</b>` + before + fmt.Sprintf(f.open, dir) + f.close + `<b>«after:{{ a }}|{{ b }}»</b>`, "components/MyComp.vuego": comp}
				}
				files := mk(dv.dir, dv.before)
				got := renderPage(files, "p.vuego", d, vuego.WithComponents())
				// reference: the same tag without the directive (selected), or no tag at all (not selected); the members before it render
				// nothing in every row except "else-not-reached", whose head prints its own marker
				var ref renderResult
				if dv.selected {
					ref = renderPage(mk("", ""), "p.vuego", d, vuego.WithComponents())
				} else {
					refFiles := map[string]string{"p.vuego": `<b>«before»</b>` + map[bool]string{true: `<s>«head»</s>`, false: ``}[dv.name == "else-not-reached"] + `<b>«after:{{ a }}|{{ b }}»</b>`, "components/MyComp.vuego": comp}
					ref = renderPage(refFiles, "p.vuego", d, vuego.WithComponents())
				}
				name := fmt.Sprintf("conditional-include %s %s %s", f.name, dv.name, val.name)
				c := &Case{Name: name, Key: name, Input: map[string]any{"stream": "conditional-include", "files": files, "data": toVal(d)}, Impl: got.canon(), Oracle: &Verdict{OK: true},
					Tags: []string{"stream:conditional-include", "form:" + f.name, "directive:" + dv.name}}
				marks := func(s string) string {
					var out []string
					for _, m := range c05InstRe.FindAllStringSubmatch(s, -1) {
						out = append(out, m[1])
					}
					return strings.Join(out, " ")
				}
				if got.Err != ref.Err || marks(got.Out) != marks(ref.Out) || got.Panic != "" {
					c.Oracle = &Verdict{OK: false, Class: fmt.Sprintf("conditional-include:%s:%s", f.name, dv.name),
						Detail: fmt.Sprintf("page %q renders %q (%s%s); the reference (%s) renders %q (%s)", files["p.vuego"], marks(got.Out), got.Err, got.Panic,
							map[bool]string{true: "the same include without the directive", false: "the page without the include"}[dv.selected], marks(ref.Out), ref.Err)}
				}
				r.Add(c)
				pendingPages = append(pendingPages, pageCase("conditional-include", files, map[string]string{"my-comp": "components/MyComp.vuego"}, "p.vuego", d, "directive:"+dv.name))
			}
		}
	}
}
