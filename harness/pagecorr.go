package main

// The `page` correspondence op: the same file set, registered components and data go to the real engine (Vue.Render) and to the
// Lean evaluator + serialiser model. Files are parsed here with vuego's own parser (the HTML parser is a parameter of the model).

import (
	"bytes"
	"context"
	"fmt"
	"sort"
	"strings"
	"testing/fstest"
	"time"

	vuego "github.com/titpetric/vuego"
)

func pageCase(name string, files map[string]string, comps map[string]string, page string, data any, tags ...string) *Case {
	mfs := fstest.MapFS{}
	fj := map[string]any{}
	for n, src := range files {
		mfs[n] = &fstest.MapFile{Data: []byte(src), ModTime: time.Unix(1700000000, 0)}
		fm, body, err := vuego.VerifExtractFrontMatter([]byte(src))
		if err != nil {
			continue // unparsable front-matter: the file cannot be loaded; the model sees it as missing
		}
		nodes, err := vuego.VerifParseTemplateBytes(body)
		if err != nil {
			continue
		}
		var fmPairs []any
		var keys []string
		for k := range fm {
			keys = append(keys, k)
		}
		sort.Strings(keys)
		for _, k := range keys {
			fmPairs = append(fmPairs, []any{k, toVal(fm[k])})
		}
		if fmPairs == nil {
			fmPairs = []any{}
		}
		fj[n] = map[string]any{"fm": fmPairs, "dom": nodesToJSON(nodes)}
	}
	var cj []any
	v := vuego.NewVue(mfs)
	var tagsSorted []string
	for t := range comps {
		tagsSorted = append(tagsSorted, t)
	}
	sort.Strings(tagsSorted)
	for _, t := range tagsSorted {
		v.RegisterComponent(t, comps[t])
		cj = append(cj, []any{t, comps[t]})
	}
	if cj == nil {
		cj = []any{}
	}
	var impl map[string]any
	done := make(chan map[string]any, 1)
	go func() {
		var buf bytes.Buffer
		var res map[string]any
		defer func() {
			if e := recover(); e != nil {
				res = map[string]any{"panic": true}
			}
			done <- res
		}()
		if err := v.Render(&buf, page, data); err != nil {
			res = map[string]any{"err": true}
		} else {
			res = map[string]any{"out": buf.String()}
		}
	}()
	select {
	case impl = <-done:
	case <-time.After(10 * time.Second):
		impl = map[string]any{"hang": true}
	}
	c := &Case{Name: "page: " + name, Op: true, Input: map[string]any{"op": "page", "files": fj, "comps": cj, "page": page, "data": toVal(data), "src": files}, Impl: impl,
		Key: fmt.Sprintf("page|%s|%v", name, files[page]), Tags: append([]string{"stream:page"}, tags...)}
	return c
}

// layoutPageCase: the `layoutpage` correspondence op — the same file set and data rendered by Load(page).Fill(data).Render (the whole layout
// chain, named slots of the page handed to its layouts) and by the Lean layout loop driving the Lean evaluator and serialiser.
func layoutPageCase(name string, files map[string]string, page string, data map[string]any, tags ...string) *Case {
	c := pageCase(name, files, nil, page, data, tags...)
	c.Input["op"] = "layoutpage"
	c.Name = "layoutpage: " + name
	c.Key = "layout" + c.Key
	mfs := fstest.MapFS{}
	for n, src := range files {
		mfs[n] = &fstest.MapFile{Data: []byte(src), ModTime: time.Unix(1700000000, 0)}
	}
	done := make(chan map[string]any, 1)
	go func() {
		var buf bytes.Buffer
		var res map[string]any
		defer func() {
			if e := recover(); e != nil {
				res = map[string]any{"panic": true}
			}
			done <- res
		}()
		if err := vuego.NewFS(mfs).Load(page).Fill(data).Render(context.Background(), &buf); err != nil {
			res = map[string]any{"err": true}
		} else {
			res = map[string]any{"out": buf.String()}
		}
	}()
	select {
	case c.Impl = <-done:
	case <-time.After(10 * time.Second):
		c.Impl = map[string]any{"hang": true}
	}
	return c
}

func init() {
	// the model reports an error class; only "an error" is compared
	for _, p := range []string{"C01", "C03", "C04", "C05", "C06", "C10", "C11", "C13", "C14", "C16", "C20"} {
		p := p
		prev := postModel[p]
		postModel[p] = func(c *Case, m any) any {
			if prev != nil {
				m = prev(c, m)
			}
			if mm, ok := m.(map[string]any); ok && mm["err"] == true {
				return map[string]any{"err": true}
			}
			return m
		}
	}
}

type pageContext struct {
	name string
	wrap func(files map[string]string, page string, data map[string]any) (map[string]string, map[string]any)
}

func withKeys(d map[string]any, kv map[string]any) map[string]any {
	out := make(map[string]any, len(d)+len(kv))
	for k, v := range d {
		out[k] = v
	}
	for k, v := range kv {
		out[k] = v
	}
	return out
}

func withFile(files map[string]string, name, src string) map[string]string {
	out := make(map[string]string, len(files)+1)
	for k, v := range files {
		out[k] = v
	}
	out[name] = src
	return out
}

var pageContexts = []pageContext{
	{"vif-branch", func(f map[string]string, p string, d map[string]any) (map[string]string, map[string]any) {
		return withFile(f, p, `<div v-if="ctxyes">`+f[p]+`</div><b v-else>ctx-else</b>`), withKeys(d, map[string]any{"ctxyes": true})
	}},
	{"velse-template", func(f map[string]string, p string, d map[string]any) (map[string]string, map[string]any) {
		return withFile(f, p, `<i v-if="ctxno">n</i><template v-else>`+f[p]+`</template>`), withKeys(d, map[string]any{"ctxno": false})
	}},
	{"loop-body", func(f map[string]string, p string, d map[string]any) (map[string]string, map[string]any) {
		return withFile(f, p, `<section v-for="ctxw in ctxone">`+f[p]+`</section>`), withKeys(d, map[string]any{"ctxone": []any{"w"}})
	}},
	{"component-file", func(f map[string]string, p string, d map[string]any) (map[string]string, map[string]any) {
		return withFile(withFile(f, "ctxinner.vuego", f[p]), p, `<template include="ctxinner.vuego"></template>`), d
	}},
	{"slot-content", func(f map[string]string, p string, d map[string]any) (map[string]string, map[string]any) {
		return withFile(withFile(f, "ctxwrap.vuego", `<section><slot>ctx-fallback</slot></section>`), p, `<template include="ctxwrap.vuego">`+f[p]+`</template>`), d
	}},
	{"entry:template-render", nil},
	{"entry:render-string", nil},
	{"velseif-element", func(f map[string]string, p string, d map[string]any) (map[string]string, map[string]any) {
		return withFile(f, p, `<i v-if="ctxno">n</i><article v-else-if="ctxyes">`+f[p]+`</article><b v-else>ctx-else</b>`), withKeys(d, map[string]any{"ctxno": false, "ctxyes": true})
	}},
}

// pageViaEntry: the SAME page and data through another entry point of the Template API (the `page` case itself goes through Vue.Render):
// Load(page).Fill(data).Render and New().Fill(data).RenderString(source). Only for file sets in which these mean the same as Vue.Render: no
// registered shorthand tags, no layouts/ directory, no configuration files, no front-matter on the page.
func pageViaEntry(c *Case, entry string, files map[string]string, comps map[string]string, page string, data map[string]any) *Case {
	if len(comps) > 0 {
		return nil
	}
	mfs := fstest.MapFS{}
	for n, src := range files {
		if strings.HasPrefix(n, "layouts/") || strings.HasPrefix(n, "data/") || n == "theme.yml" || strings.HasPrefix(n, "components/") {
			return nil
		}
		mfs[n] = &fstest.MapFile{Data: []byte(src), ModTime: time.Unix(1700000000, 0)}
	}
	v := pageCase(strings.TrimPrefix(c.Name, "page: ")+" via "+entry, files, nil, page, data, "context:"+entry)
	v.Key = "ctx|" + entry + "|" + c.Key
	done := make(chan map[string]any, 1)
	go func() {
		var buf bytes.Buffer
		var res map[string]any
		defer func() {
			if e := recover(); e != nil {
				res = map[string]any{"panic": true}
			}
			done <- res
		}()
		var err error
		if entry == "entry:render-string" {
			err = vuego.NewFS(mfs).New().Fill(data).RenderString(context.Background(), &buf, files[page])
		} else {
			err = vuego.NewFS(mfs).Load(page).Fill(data).Render(context.Background(), &buf)
		}
		if err != nil {
			res = map[string]any{"err": true}
		} else {
			res = map[string]any{"out": buf.String()}
		}
	}()
	select {
	case v.Impl = <-done:
	case <-time.After(10 * time.Second):
		v.Impl = map[string]any{"hang": true}
	}
	return v
}

// pageInContext: the page of a `page` correspondence case, wrapped; nil when the case is not a plain page over map data
func pageInContext(c *Case, ctx pageContext) (out *Case) {
	if c == nil || c.Input["op"] != "page" {
		return nil
	}
	// data that the Val encoding cannot be turned back into Go values for (a pointer to an untyped nil …): no variant
	defer func() {
		if e := recover(); e != nil {
			out = nil
		}
	}()
	files, ok := c.Input["src"].(map[string]string)
	page, _ := c.Input["page"].(string)
	if !ok || page == "" || strings.HasPrefix(files[page], "---") {
		return nil
	}
	data, ok := fromVal(c.Input["data"].(map[string]any)).(map[string]any)
	if !ok {
		return nil
	}
	comps := map[string]string{}
	if cj, ok := c.Input["comps"].([]any); ok {
		for _, e := range cj {
			if pr, ok := e.([]any); ok && len(pr) == 2 {
				comps[fmt.Sprint(pr[0])] = fmt.Sprint(pr[1])
			}
		}
	}
	if strings.HasPrefix(ctx.name, "entry:") {
		return pageViaEntry(c, ctx.name, files, comps, page, data)
	}
	f2, d2 := ctx.wrap(files, page, data)
	v := pageCase(strings.TrimPrefix(c.Name, "page: ")+" in "+ctx.name, f2, comps, page, d2, "context:"+ctx.name)
	v.Key = "ctx|" + ctx.name + "|" + c.Key
	return v
}
