package main

// Go value <-> tagged JSON encoding of the model's `Val` (kinds kept). See lean/Vuego/Driver/ValJson.lean.

import (
	"fmt"
	"reflect"
	"sort"
	"strconv"
	"strings"
)

// struct types the generators use (registered by name so that replay files can rebuild values)
type S2 struct {
	X int `json:"x"`
	Y string
}

type S1 struct {
	Name   string `json:"name"`
	Count  int
	secret string
	Tagged string `json:"tag_only,omitempty"`
	Inner  S2     `json:"inner"`
	PInner *S2    `json:"pinner"`
	hidden int    `json:"hid"`
	Items  []int  `json:"items"`
	Flag   bool
	Ratio  float64 `json:"ratio"`
	Small  int8    `json:"small"`
	Meta   map[string]any
}

// S3 has a field whose Go name equals another field's JSON tag (name/tag collision).
type S3 struct {
	Title string `json:"name"`
	Name  string
	N     uint16 `json:"n"`
}

// embedding: Created and ID are promoted from Base; S4 declares its own ID (shadows the promoted one); S5 embeds a pointer, which may be nil
type Base struct {
	Created string `json:"created"`
	ID      int
	note    string
}
type S4 struct {
	Base
	Title string `json:"title"`
	ID    int
}
type S5 struct {
	*Base
	Title string
}

type MyStr string
type MyInt int

var structRegistry = map[string]reflect.Type{
	"S1": reflect.TypeOf(S1{}), "S2": reflect.TypeOf(S2{}), "S3": reflect.TypeOf(S3{}), "S4": reflect.TypeOf(S4{}), "S5": reflect.TypeOf(S5{}), "Base": reflect.TypeOf(Base{}),
}

func tagName(f reflect.StructField) string {
	tag := f.Tag.Get("json")
	if tag == "" {
		return ""
	}
	return strings.Split(tag, ",")[0]
}

func toVal(v any) map[string]any {
	if v == nil {
		return map[string]any{"t": "nil"}
	}
	return toValRV(reflect.ValueOf(v))
}

func toValRV(rv reflect.Value) map[string]any {
	if !rv.IsValid() {
		return map[string]any{"t": "nil"}
	}
	t := rv.Type()
	named := t.PkgPath() != "" && t.Kind() != reflect.Struct && !(t.Kind() == reflect.Map && t.Key().Kind() == reflect.String)
	if named {
		return map[string]any{"t": "opaque", "tn": t.String(), "p": sprintRV(rv)}
	}
	switch rv.Kind() {
	case reflect.Interface:
		if rv.IsNil() {
			return map[string]any{"t": "nil"}
		}
		return toValRV(rv.Elem())
	case reflect.Bool:
		return map[string]any{"t": "bool", "v": rv.Bool()}
	case reflect.Int, reflect.Int8, reflect.Int16, reflect.Int32, reflect.Int64:
		return map[string]any{"t": "int", "k": rv.Kind().String(), "v": strconv.FormatInt(rv.Int(), 10)}
	case reflect.Uint, reflect.Uint8, reflect.Uint16, reflect.Uint32, reflect.Uint64, reflect.Uintptr:
		return map[string]any{"t": "int", "k": rv.Kind().String(), "v": strconv.FormatUint(rv.Uint(), 10)}
	case reflect.Float32, reflect.Float64:
		return map[string]any{"t": "float", "k": rv.Kind().String(), "z": rv.Float() == 0, "p": sprintRV(rv)}
	case reflect.String:
		return map[string]any{"t": "str", "v": rv.String()}
	case reflect.Slice, reflect.Array:
		if rv.Kind() == reflect.Slice && rv.IsNil() {
			return map[string]any{"t": "list", "arr": false, "ty": t.String(), "v": []any{}, "nilslice": true}
		}
		lst := []any{}
		for i := 0; i < rv.Len(); i++ {
			lst = append(lst, toValRV(rv.Index(i)))
		}
		return map[string]any{"t": "list", "arr": rv.Kind() == reflect.Array, "ty": t.String(), "v": lst}
	case reflect.Map:
		mk := "other"
		if t.Key().Kind() != reflect.String {
			mk = "nonstr"
		} else if t.PkgPath() != "" || t.Key().PkgPath() != "" {
			mk = "other" // a named string-keyed map type, or a map keyed by a NAMED string type (map[Lang]string): the type assertions fail, reflect is used (gin.H …): the map[string]any type assertion fails, reflect is used
		} else if t.Elem().Kind() == reflect.Interface {
			mk = "any"
		} else if t.Elem().Kind() == reflect.String {
			mk = "str"
		}
		type kv struct {
			k string
			v map[string]any
		}
		var kvs []kv
		// entries in KEY ORDER: by kind of key, then numbers numerically and everything else by its text (the order a loop over the map
		// visits them in, and - for one kind of key - the order fmt prints them in)
		type ent struct{ k, v reflect.Value }
		var ents []ent
		for it := rv.MapRange(); it.Next(); {
			ents = append(ents, ent{it.Key(), it.Value()})
		}
		sort.SliceStable(ents, func(i, j int) bool { return keyLess(ents[i].k, ents[j].k) })
		for _, e := range ents {
			kvs = append(kvs, kv{sprintRV(e.k), toValRV(e.v)})
		}
		lst := []any{}
		for _, e := range kvs {
			lst = append(lst, []any{e.k, e.v})
		}
		return map[string]any{"t": "map", "mk": mk, "ty": t.String(), "v": lst}
	case reflect.Struct:
		lst := []any{}
		for i := 0; i < t.NumField(); i++ {
			f := t.Field(i)
			fv := rv.Field(i)
			var val map[string]any
			if f.IsExported() {
				val = toValRV(fv)
			} else {
				val = unexportedVal(fv)
			}
			lst = append(lst, []any{f.Name, tagName(f), f.IsExported(), val})
		}
		// fields promoted from embedded structs are reachable by their Go name (reflect.Value.FieldByName), not by their tag (the tag scan
		// only covers the struct's own fields): they follow the declared fields, marked with the sentinel tag
		for _, vf := range reflect.VisibleFields(t) {
			if len(vf.Index) < 2 {
				continue
			}
			fv, err := rv.FieldByIndexErr(vf.Index)
			if err != nil {
				continue // through a nil embedded pointer: no such field on this value
			}
			var val map[string]any
			if vf.IsExported() {
				val = toValRV(fv)
			} else {
				val = unexportedVal(fv)
			}
			lst = append(lst, []any{vf.Name, "\x01", vf.IsExported(), val}) // tag \x01 = promoted (Vuego.promotedTag in the model)
		}
		return map[string]any{"t": "struct", "name": t.Name(), "v": lst}
	case reflect.Ptr:
		if rv.IsNil() {
			return map[string]any{"t": "ptr", "ty": t.String(), "v": nil}
		}
		return map[string]any{"t": "ptr", "ty": t.String(), "v": toValRV(rv.Elem())}
	}
	return map[string]any{"t": "opaque", "tn": t.String(), "p": sprintRV(rv)}
}

func unexportedVal(fv reflect.Value) map[string]any {
	switch fv.Kind() {
	case reflect.String:
		return map[string]any{"t": "str", "v": fv.String()}
	case reflect.Int, reflect.Int8, reflect.Int16, reflect.Int32, reflect.Int64:
		return map[string]any{"t": "int", "k": fv.Kind().String(), "v": strconv.FormatInt(fv.Int(), 10)}
	case reflect.Bool:
		return map[string]any{"t": "bool", "v": fv.Bool()}
	}
	return map[string]any{"t": "opaque", "tn": fv.Type().String(), "p": "?"}
}

func sprintRV(rv reflect.Value) string {
	if rv.CanInterface() {
		return fmt.Sprint(rv.Interface())
	}
	return fmt.Sprintf("%v", rv)
}

// fromVal rebuilds a Go value from the encoding (used by replay and by generators that describe data as JSON).
func fromVal(m map[string]any) any {
	if m == nil {
		return nil
	}
	switch m["t"] {
	case "nil":
		return nil
	case "bool":
		return m["v"].(bool)
	case "int":
		s := m["v"].(string)
		i, _ := strconv.ParseInt(s, 10, 64)
		u, _ := strconv.ParseUint(s, 10, 64)
		switch m["k"] {
		case "int":
			return int(i)
		case "int8":
			return int8(i)
		case "int16":
			return int16(i)
		case "int32":
			return int32(i)
		case "int64":
			return i
		case "uint":
			return uint(u)
		case "uint8":
			return uint8(u)
		case "uint16":
			return uint16(u)
		case "uint32":
			return uint32(u)
		case "uint64":
			return u
		case "uintptr":
			return uintptr(u)
		}
	case "float":
		f, _ := strconv.ParseFloat(m["p"].(string), 64)
		if m["k"] == "float32" {
			return float32(f)
		}
		return f
	case "str":
		return m["v"].(string)
	case "list":
		items, _ := m["v"].([]any)
		ty, _ := m["ty"].(string)
		switch ty {
		case "[]int":
			out := []int{}
			if m["nilslice"] == true {
				out = nil
			}
			for _, it := range items {
				out = append(out, fromVal(it.(map[string]any)).(int))
			}
			return out
		case "[]string":
			out := []string{}
			for _, it := range items {
				out = append(out, fromVal(it.(map[string]any)).(string))
			}
			return out
		case "[2]int":
			var out [2]int
			for i, it := range items {
				out[i] = fromVal(it.(map[string]any)).(int)
			}
			return out
		case "[]main.S2":
			out := []S2{}
			for _, it := range items {
				out = append(out, fromVal(it.(map[string]any)).(S2))
			}
			return out
		case "[]map[string]interface {}":
			out := []map[string]any{}
			for _, it := range items {
				out = append(out, fromVal(it.(map[string]any)).(map[string]any))
			}
			return out
		}
		var out []any
		if m["nilslice"] != true {
			out = []any{}
		}
		for _, it := range items {
			out = append(out, fromVal(it.(map[string]any)))
		}
		return out
	case "map":
		items, _ := m["v"].([]any)
		switch m["mk"] {
		case "any":
			out := map[string]any{}
			for _, it := range items {
				p := it.([]any)
				out[p[0].(string)] = fromVal(p[1].(map[string]any))
			}
			return out
		case "str":
			out := map[string]string{}
			for _, it := range items {
				p := it.([]any)
				out[p[0].(string)] = fromVal(p[1].(map[string]any)).(string)
			}
			return out
		case "other":
			if m["ty"] == "main.c04H" {
				out := c04H{}
				for _, it := range items {
					p := it.([]any)
					out[p[0].(string)] = fromVal(p[1].(map[string]any))
				}
				return out
			}
			out := map[string]int{}
			for _, it := range items {
				p := it.([]any)
				out[p[0].(string)] = fromVal(p[1].(map[string]any)).(int)
			}
			return out
		case "nonstr":
			out := map[int]string{}
			for _, it := range items {
				p := it.([]any)
				k, _ := strconv.Atoi(p[0].(string))
				out[k] = fromVal(p[1].(map[string]any)).(string)
			}
			return out
		}
	case "struct":
		t, ok := structRegistry[m["name"].(string)]
		if !ok {
			return nil
		}
		rv := reflect.New(t).Elem()
		items, _ := m["v"].([]any)
		for i, it := range items {
			p := it.([]any)
			fv := rv.Field(i)
			val := fromVal(p[3].(map[string]any))
			if !t.Field(i).IsExported() {
				setUnexported(fv, val)
				continue
			}
			if val == nil {
				continue
			}
			vv := reflect.ValueOf(val)
			if vv.Type().AssignableTo(fv.Type()) {
				fv.Set(vv)
			} else if vv.Type().ConvertibleTo(fv.Type()) {
				fv.Set(vv.Convert(fv.Type()))
			}
		}
		return rv.Interface()
	case "ptr":
		if m["v"] == nil {
			switch m["ty"] {
			case "*main.S2":
				return (*S2)(nil)
			case "*main.S1":
				return (*S1)(nil)
			}
			return (*int)(nil)
		}
		inner := fromVal(m["v"].(map[string]any))
		p := reflect.New(reflect.TypeOf(inner))
		p.Elem().Set(reflect.ValueOf(inner))
		return p.Interface()
	case "opaque":
		switch m["tn"] {
		case "main.MyStr":
			return MyStr(m["p"].(string))
		case "main.MyInt":
			i, _ := strconv.Atoi(m["p"].(string))
			return MyInt(i)
		}
		return opaqueValue{m["p"].(string)}
	}
	return nil
}

type opaqueValue struct{ s string }

func (o opaqueValue) String() string { return o.s }

func keyLess(a, b reflect.Value) bool {
	for a.Kind() == reflect.Interface && !a.IsNil() {
		a = a.Elem()
	}
	for b.Kind() == reflect.Interface && !b.IsNil() {
		b = b.Elem()
	}
	if a.Kind() != b.Kind() {
		return a.Kind() < b.Kind()
	}
	switch {
	case a.CanInt():
		return a.Int() < b.Int()
	case a.CanUint():
		return a.Uint() < b.Uint()
	case a.CanFloat():
		af, bf := a.Float(), b.Float()
		if af != af {
			return bf == bf
		}
		return af < bf
	case a.Kind() == reflect.String:
		return a.String() < b.String()
	}
	return fmt.Sprint(a) < fmt.Sprint(b)
}
