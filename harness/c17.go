package main

// C17 — the variable stack. Op sequences run against the real Stack (public API + hooks), the Lean model
// (op "stackops"), and an independent reference stack written here (list of maps + root, plain Go indexing).

import (
	"fmt"
	"reflect"
	"sort"
	"strconv"
	"strings"

	vuego "github.com/titpetric/vuego"
)

func init() { props["C17"] = runC17 }

// ---------------------------------------------------------------- reference (the spec, independent of the model)

type refStack struct {
	scopes []map[string]any
	root   any
}

func refDeref(rv reflect.Value) (reflect.Value, bool) {
	for rv.IsValid() && (rv.Kind() == reflect.Ptr || rv.Kind() == reflect.Interface) {
		if rv.IsNil() {
			return rv, false
		}
		rv = rv.Elem()
	}
	return rv, rv.IsValid()
}

// refIndex: ordinary Go indexing of one step; absence for everything Go would reject.
func refIndex(cur any, p string) (any, bool) {
	if cur == nil || p == "" {
		return nil, false
	}
	rv, ok := refDeref(reflect.ValueOf(cur))
	if !ok {
		return nil, false
	}
	switch rv.Kind() {
	case reflect.Map:
		if rv.Type().Key().Kind() != reflect.String {
			return nil, false
		}
		v := rv.MapIndex(reflect.ValueOf(p).Convert(rv.Type().Key()))
		if !v.IsValid() {
			return nil, false
		}
		return v.Interface(), true
	case reflect.Slice, reflect.Array:
		i, err := strconv.Atoi(p)
		if err != nil || i < 0 || i >= rv.Len() {
			return nil, false
		}
		return rv.Index(i).Interface(), true
	case reflect.Struct:
		t := rv.Type()
		// "the same element ordinary Go indexing reaches": v.P for an exported field P, declared or promoted from an embedded struct
		// (absent when the embedded pointer on the way is nil)
		for _, f := range reflect.VisibleFields(t) {
			if f.IsExported() && f.Name == p {
				fv, err := rv.FieldByIndexErr(f.Index)
				if err != nil {
					return nil, false
				}
				return fv.Interface(), true
			}
		}
		for i := 0; i < t.NumField(); i++ {
			if f := t.Field(i); f.IsExported() && tagName(f) != "" && tagName(f) == p {
				return rv.Field(i).Interface(), true
			}
		}
	}
	return nil, false
}

func (s *refStack) lookup(k string) (any, bool) {
	for i := len(s.scopes) - 1; i >= 0; i-- {
		if v, ok := s.scopes[i][k]; ok {
			return v, true
		}
	}
	if s.root != nil {
		return refIndex(s.root, k)
	}
	return nil, false
}

// refSplit: the documented path syntax a.b[0]['k'] -> segments
func refSplit(expr string) []string {
	var out []string
	cur := strings.Builder{}
	flush := func() {
		if t := strings.TrimSpace(cur.String()); t != "" {
			out = append(out, t)
		}
		cur.Reset()
	}
	for i := 0; i < len(expr); i++ {
		switch expr[i] {
		case '.':
			flush()
		case '[':
			j := strings.IndexByte(expr[i:], ']')
			if j < 0 {
				cur.WriteByte(expr[i])
				continue
			}
			flush()
			in := strings.TrimSpace(expr[i+1 : i+j])
			if len(in) >= 2 && (in[0] == '\'' && in[len(in)-1] == '\'' || in[0] == '"' && in[len(in)-1] == '"') {
				in = in[1 : len(in)-1]
			}
			if in != "" {
				out = append(out, in)
			}
			i += j
		default:
			cur.WriteByte(expr[i])
		}
	}
	flush()
	return out
}

func (s *refStack) resolve(expr string) (any, bool) {
	if !strings.ContainsAny(expr, ".[") {
		return s.lookup(expr)
	}
	parts := refSplit(expr)
	if len(parts) == 0 {
		return nil, false
	}
	cur, ok := s.lookup(parts[0])
	if !ok {
		return nil, false
	}
	for _, p := range parts[1:] {
		cur, ok = refIndex(cur, p)
		if !ok {
			return nil, false
		}
	}
	return cur, true
}

// normVal: comparison form in which nested structs are maps keyed by JSON-tag-or-name (what EnvMap documents),
// and nil == absent.
func normVal(v any) any {
	if v == nil {
		return nil
	}
	rv, ok := refDeref(reflect.ValueOf(v))
	if !ok {
		return nil
	}
	switch rv.Kind() {
	case reflect.Struct:
		out := map[string]any{}
		t := rv.Type()
		for i := 0; i < t.NumField(); i++ {
			f := t.Field(i)
			if !f.IsExported() {
				continue
			}
			k := f.Name
			if tagName(f) != "" {
				k = tagName(f)
			}
			out[k] = normVal(rv.Field(i).Interface())
		}
		return out
	case reflect.Map:
		out := map[string]any{}
		for _, k := range rv.MapKeys() {
			out[fmt.Sprint(k.Interface())] = normVal(rv.MapIndex(k).Interface())
		}
		return out
	case reflect.Slice, reflect.Array:
		out := []any{}
		for i := 0; i < rv.Len(); i++ {
			out = append(out, normVal(rv.Index(i).Interface()))
		}
		return out
	}
	return fmt.Sprintf("%T:%v", rv.Interface(), rv.Interface())
}

// ---------------------------------------------------------------- data

// a defined string type used as a map key (a language code, an id): Go indexing m[c17Lang("en")] reaches the element
type c17Lang string

func c17Nested() map[string]any {
	return map[string]any{
		"m":    map[string]any{"k": 1, "s": "v", "nil": nil, "l": []any{1, "two", map[string]any{"z": true}}, "0": "zero-key"},
		"sm":   map[string]string{"k": "v"},
		"mi":   map[string]int{"one": 1},
		"im":   map[int]string{1: "x"},
		"lm":   map[c17Lang]string{"k": "lv", "en": "Hello", "0": "zero"},
		"lma":  map[c17Lang]any{"k": map[c17Lang]int{"one": 1}, "l": []any{"a", "b"}},
		"arr":  [2]int{7, 8},
		"sl":   []int{1, 2, 3},
		"ss":   []S2{{1, "a"}, {2, "b"}},
		"st":   S1{Name: "n", Count: 3, secret: "sec", Tagged: "tg", Inner: S2{9, "y"}, PInner: &S2{4, "p"}, hidden: 5, Items: []int{5, 6}, Flag: true, Ratio: 1.5, Small: 0, Meta: map[string]any{"a": "b"}},
		"ps":   &S2{X: 1, Y: "ptr"},
		"np":   (*S2)(nil),
		// pointers to pointers, pointers to containers, and a chain that ends in nil: every level is followed
		"pps":   func() any { p := &S2{X: 11, Y: "pp"}; return &p }(),
		"ppps":  func() any { p := &S2{X: 12, Y: "ppp"}; q := &p; return &q }(),
		"ppnil": func() any { var p *S2; return &p }(),
		"pm":    func() any { m := map[string]any{"k": "pmk", "l": []any{"x"}}; return &m }(),
		"ppm":   func() any { m := map[string]any{"k": "ppmk"}; p := &m; return &p }(),
		"psl":   func() any { l := []int{4, 5}; return &l }(),
		"ppsl":  func() any { l := []string{"u", "v"}; p := &l; return &p }(),
		"pst":   func() any { x := S1{Name: "deep", PInner: &S2{6, "dp"}}; p := &x; return &p }(),
		"s3":   S3{Title: "title", Name: "goname", N: 0},
		"name": "scope-name",
		"zero": 0,
		"e":    "",
		"nilv": nil,
	}
}

var c17Names = []string{"a", "b", "name", "Name", "Count", "secret", "inner", "Inner", "items", "hid", "tag_only", "Tagged", "Title", "n", "m", "st", "pinner", "Flag", "missing", "Created", "created", "ID", "Base", "title"}

// roots are rebuilt for every case: Set on the bottom scope writes into a map root (toMapData returns the caller's map)
func c17Roots() []func() any {
	s1 := func() S1 {
		return S1{Name: "root-name", Count: 7, secret: "s", Tagged: "T", Inner: S2{1, "in"}, PInner: &S2{2, "pin"}, hidden: 1, Items: []int{1}, Flag: false, Ratio: 0, Small: 3, Meta: map[string]any{"k": "v"}}
	}
	return []func() any{
		func() any { return nil },
		func() any { return c17Nested() },
		func() any { return map[string]any{"a": "root-a", "name": "root-name-map"} },
		func() any { return s1() },
		func() any { x := s1(); return &x },
		func() any { x := s1(); p := &x; return &p },
		func() any { m := map[string]any{"a": "root-pa", "name": "root-pn"}; return &m },
		func() any { return S3{Title: "t", Name: "gn", N: 2} },
		func() any { return S2{X: 5, Y: "why"} },
		func() any { return map[c17Lang]string{"a": "root-la", "name": "root-ln", "k": "root-lk"} },
		func() any { return map[string]string{"a": "root-sa", "name": "root-sn", "m": "root-sm"} },
		func() any { return map[string]int{"a": 1, "n": 0, "Count": 5} },
		func() any { return S4{Base: Base{Created: "2024-01-01", ID: 1, note: "n"}, Title: "t4", ID: 9} },
		func() any { x := S4{Base: Base{Created: "2024-02-02", ID: 2}, Title: "p4", ID: 8}; return &x },
		func() any { return S5{Base: &Base{Created: "1999-09-09", ID: 3}, Title: "t5"} },
		// (a nil embedded pointer is exercised as a value inside the map root below: as a ROOT, EnvMap would turn the nil *Base into an empty map,
		// which the Val encoding of a nil pointer cannot express — it carries no pointee type)
		func() any {
			return map[string]any{"years": map[string]int{"2024": 1, "k": 2, "-1": 3, "0": 4}, "tags": map[string][]string{"404": {"nf", "gone"}, "ok": {"fine"}}, "anyyears": map[string]any{"2024": "y", "7": map[string]int{"1": 11}},
				"strs": map[string]string{"10": "ten"}, "art": S4{Base: Base{Created: "2024-03-03", ID: 4}, Title: "in-map", ID: 7}, "list": []S4{{Base: Base{Created: "c0"}, Title: "l0"}}, "p5": S5{Base: &Base{Created: "c5"}}, "n5": S5{}}
		},
	}
}

var c17Steps = []string{".k", ".missing", ".X", ".Y", ".PInner.Y", ".l[0]", "[0]", "[1]", "[5]", "[-1]", ".0", ".1", "['k']", "[\"k\"]", ".Name", ".name", ".secret", ".hid", ".x", ".X", ".Y", ".inner", ".Inner", ".pinner", ".PInner",
	".l", ".l[2].z", ".one", ".items", ".Items[0]", " .k ", "..k", "[", "[]", "[ 0 ]", ".s", ".nil", ".Meta.a", ".tag_only", ".Title", ".n", ".a",
	".Created", ".created", ".ID", ".Base", ".Base.Created", ".Base.ID", ".note", ".title", ".art.Created", ".art.ID", ".art.Base.ID", ".list[0].Created", ".p5.Created", ".n5.Created", ".n5.Title", ".art.created", ".n5.created", ".p5.created", ".n5.ID", ".n5.Base", ".n5.Base.Created", ".n5.note", ".list[0].created",
	"[-3]", "[-100]", ".l[-1]", ".l[-9]", ".items[-1]", ".Items[-2]", ".2024", "['2024']", "[2024]", "[\"2024\"]", ".404[0]", "['404'][1]", ".404.1", ".ok[0]", ".7.1", "[7][1]", ".10", "[10]", ".2025", ".-1", "['-1']"}

func c17Values(r *Run) any {
	vals := []any{nil, true, false, 0, 1, "", "str", int8(0), uint16(3), 1.5, []any{1, "x"}, map[string]any{"k": "v2"}, S2{3, "set"}, &S2{8, "pset"}, []int{}, map[string]string{}}
	return vals[r.Rng.Intn(len(vals))]
}

// ---------------------------------------------------------------- one case = one op sequence

type c17Op struct {
	O string         `json:"o"`
	K string         `json:"k,omitempty"`
	E string         `json:"e,omitempty"`
	V map[string]any `json:"v,omitempty"`
	M []any          `json:"m,omitempty"` // pushed scope as [[k, val]...]; nil = Push(nil)
	N bool           `json:"mnil,omitempty"`
}

func stripAnn(v any) any {
	switch x := v.(type) {
	case map[string]any:
		out := map[string]any{}
		for k, e := range x {
			if k == "ty" || k == "name" || k == "nilslice" {
				continue
			}
			out[k] = stripAnn(e)
		}
		return out
	case []any:
		out := make([]any, len(x))
		for i, e := range x {
			out[i] = stripAnn(e)
		}
		return out
	}
	return v
}

func obsVal(v any, ok bool) any {
	if !ok {
		return map[string]any{"found": false}
	}
	return map[string]any{"found": true, "val": stripAnn(toVal(v))}
}

func obsScope(m map[string]any) any {
	var ks []string
	for k := range m {
		ks = append(ks, k)
	}
	sort.Strings(ks)
	out := []any{}
	for _, k := range ks {
		out = append(out, []any{k, stripAnn(toVal(m[k]))})
	}
	return out
}

func c17Run(root any, ops []c17Op) *Case {
	c := &Case{Op: true, Name: fmt.Sprintf("%d ops over root %T", len(ops), root)}
	var opsJ []any
	for _, o := range ops {
		m := map[string]any{"o": o.O}
		if o.K != "" || o.O == "set" || o.O == "lookup" {
			m["k"] = o.K
		}
		if o.E != "" || o.O == "resolve" || o.O == "foreach" {
			m["e"] = o.E
		}
		if o.O == "set" {
			m["v"] = o.V
		}
		if o.O == "push" {
			if o.N {
				m["m"] = nil
			} else {
				m["m"] = o.M
			}
		}
		opsJ = append(opsJ, m)
	}
	c.Input = map[string]any{"op": "stackops", "root": toVal(root), "ops": opsJ}

	verdict := &Verdict{OK: true}
	bad := func(class, f string, a ...any) {
		if verdict.OK {
			verdict.OK = false
			verdict.Class = class
			verdict.Detail = fmt.Sprintf(f, a...)
		}
	}
	st := vuego.NewStackWithData(vuego.VerifToMapData(root), root)
	ref := &refStack{scopes: []map[string]any{copyMap(vuego.VerifToMapData(root))}, root: root}
	var obs []any
	type snap struct{ vals map[string]any }
	var snaps []snap
	takeSnap := func() snap {
		s := snap{map[string]any{}}
		for _, n := range c17Names {
			func() {
				defer func() { recover() }()
				v, ok := st.Lookup(n)
				if ok {
					s.vals[n] = normVal(v)
				}
			}()
		}
		return s
	}
	eqAbsentNil := func(iv any, iok bool, rv any, rok bool) bool {
		if !iok {
			iv = nil
		}
		if !rok {
			rv = nil
		}
		return reflect.DeepEqual(normVal(iv), normVal(rv))
	}
	type keptCopy struct {
		st   *vuego.Stack
		then map[string]any
		at   int
	}
	var kept []keptCopy
	lookAll := func(k *vuego.Stack) map[string]any {
		out := map[string]any{}
		for _, n := range c17Names {
			func() {
				defer func() { recover() }()
				if v, ok := k.Lookup(n); ok {
					out[n] = normVal(v)
				}
			}()
		}
		func() {
			defer func() { recover() }()
			for n, v := range k.EnvMap() {
				out["env:"+n] = normVal(v)
			}
		}()
		return out
	}
	defer func() {
		for _, k := range kept {
			if now := lookAll(k.st); !reflect.DeepEqual(k.then, now) && verdict.OK {
				verdict.OK, verdict.Class, verdict.Detail = false, "copy-follows-original", fmt.Sprintf("a copy taken at step %d answers differently after later operations on the original: %v -> %v", k.at, k.then, now)
				c.Oracle = verdict
			}
		}
	}()
	for _, o := range ops {
		func() {
			defer func() {
				if e := recover(); e != nil {
					obs = append(obs, map[string]any{"panic": true})
					msg := fmt.Sprint(e)
					switch {
					case strings.Contains(msg, "unexported"):
						bad("panic-unexported-field", "%s(%s%s) panicked: %s", o.O, o.K, o.E, msg)
					case strings.Contains(msg, "MapIndex") || strings.Contains(msg, "not assignable"):
						bad("panic-nonstring-key-map", "%s(%s%s) panicked: %s", o.O, o.K, o.E, msg)
					default:
						bad("panic-other", "%s(%s%s) panicked: %s", o.O, o.K, o.E, msg)
					}
				}
			}()
			switch o.O {
			case "push":
				snaps = append(snaps, takeSnap())
				if o.N {
					st.Push(nil)
					ref.scopes = append(ref.scopes, map[string]any{})
				} else {
					m1, m2 := map[string]any{}, map[string]any{}
					for _, kv := range o.M {
						p := kv.([]any)
						m1[p[0].(string)] = fromVal(p[1].(map[string]any))
						m2[p[0].(string)] = fromVal(p[1].(map[string]any))
					}
					st.Push(m1)
					ref.scopes = append(ref.scopes, m2)
				}
				obs = append(obs, nil)
			case "pop":
				st.Pop()
				if len(ref.scopes) > 1 {
					ref.scopes = ref.scopes[:len(ref.scopes)-1]
					want := snaps[len(snaps)-1]
					snaps = snaps[:len(snaps)-1]
					got := takeSnap()
					if !reflect.DeepEqual(want.vals, got.vals) {
						bad("pop-does-not-restore", "after the matching pop lookups are %v, before the push they were %v", got.vals, want.vals)
					}
				} else {
					// popping the root scope: outside "matching push" — the reference keeps an empty root scope as the code documents
					ref.scopes = []map[string]any{{}}
				}
				obs = append(obs, nil)
			case "set":
				v := fromVal(o.V)
				below := map[string]any{}
				for _, n := range c17Names {
					if n != o.K {
						if x, ok := safeLookup(st, n); ok {
							below[n] = normVal(x)
						}
					}
				}
				st.Set(o.K, v)
				ref.scopes[len(ref.scopes)-1][o.K] = fromVal(o.V)
				got, ok := st.Lookup(o.K)
				if !ok || !reflect.DeepEqual(normVal(got), normVal(v)) {
					bad("set-then-lookup", "Set(%s) then Lookup gives %v,%v", o.K, got, ok)
				}
				for n, w := range below {
					x, _ := safeLookup(st, n)
					if !reflect.DeepEqual(normVal(x), w) {
						bad("set-changes-other-name", "Set(%s) changed %s", o.K, n)
					}
				}
				obs = append(obs, nil)
			case "lookup":
				v, ok := st.Lookup(o.K)
				obs = append(obs, obsVal(v, ok))
				rv, rok := ref.lookup(o.K)
				if !eqAbsentNil(v, ok, rv, rok) {
					bad("lookup-innermost", "Lookup(%s) = %v,%v; reference %v,%v", o.K, v, ok, rv, rok)
				}
			case "resolve":
				v, ok := st.Resolve(o.E)
				obs = append(obs, obsVal(v, ok))
				rv, rok := ref.resolve(o.E)
				if !eqAbsentNil(v, ok, rv, rok) {
					cls := "resolve-vs-go-indexing"
					if s, isStr := v.(string); isStr && s == "" && !rok {
						cls = "strmap-missing-key-present-empty"
					}
					bad(cls, "Resolve(%q) = %v,%v; Go indexing gives %v,%v", o.E, v, ok, rv, rok)
				}
			case "envmap", "copyenv":
				var env map[string]any
				if o.O == "envmap" {
					env = st.EnvMap()
				} else {
					cp := st.Copy()
					env = cp.EnvMap()
					// independence: mutate the copy, the original must not move (and vice versa)
					before := takeSnap()
					cp.Set("a", "copy-only")
					cp.Push(map[string]any{"b": "copy-pushed"})
					cp.Pop()
					cp.Pop()
					if after := takeSnap(); !reflect.DeepEqual(before.vals, after.vals) {
						bad("copy-not-independent", "mutating the copy changed the original: %v -> %v", before.vals, after.vals)
					}
					// … and the other direction: a second copy is kept as it is; whatever is done to the ORIGINAL from here on (set, push, pop),
					// the copy must still answer as it did when it was taken
					// (a map root IS the bottom scope — NewStackWithData adopts the caller's map — and stays the shared root data of every copy: what
					// the original writes there is a write to the caller's data, outside this claim)
					if _, mapRoot := root.(map[string]any); !mapRoot && len(kept) < 4 {
						k := st.Copy()
						kept = append(kept, keptCopy{k, lookAll(k), len(obs)})
					}
				}
				obs = append(obs, obsScope(env))
				for _, n := range c17Names {
					lv, lok, pan := safeLookup3(st, n)
					if pan {
						continue
					}
					ev, eok := env[n]
					if !eqAbsentNil(lv, lok, ev, eok) {
						cls := "envmap-vs-lookup"
						if rt := rootStruct(root); rt != nil {
							_, inScopes := scopesHave(st, n)
							switch {
							case inScopes && eok:
								cls = "envmap-struct-field-over-scope"
							case !eok && lok && (n == "Created" || n == "ID"):
								cls = "envmap-lacks-promoted-field"
							case !eok && lok:
								cls = "envmap-lacks-go-name-of-tagged-field"
							}
						}
						bad(cls, "name %q: Lookup %v,%v but EnvMap %v,%v", n, lv, lok, ev, eok)
						break
					}
				}
			case "foreach":
				var items []any
				isMap := false
				st.ForEach(o.E, func(i int, v any) error {
					items = append(items, stripAnn(toVal(v)))
					if i != len(items)-1 {
						bad("foreach-index", "ForEach(%q) index %d at position %d", o.E, i, len(items)-1)
					}
					return nil
				})
				if v, ok := st.Resolve(o.E); ok && v != nil && reflect.ValueOf(v).Kind() == reflect.Map {
					isMap = true
				}
				if items == nil {
					items = []any{}
				}
				if isMap {
					// a loop over a map visits its items in key order (fix: ForEach sorts the keys): compared position by position
					obs = append(obs, map[string]any{"maporder": items})
				} else {
					if items == nil {
						items = []any{}
					}
					obs = append(obs, items)
				}
				if rv, rok := ref.resolve(o.E); rok && rv != nil {
					k := reflect.ValueOf(rv).Kind()
					if (k == reflect.Slice || k == reflect.Array) && reflect.ValueOf(rv).Len() != len(items) {
						bad("foreach-count", "ForEach(%q) visited %d of %d", o.E, len(items), reflect.ValueOf(rv).Len())
					}
				}
			case "depth":
				obs = append(obs, vuego.VerifStackDepth(st))
			}
		}()
	}
	c.Impl = obs
	c.Oracle = verdict
	return c
}

func rootStruct(root any) reflect.Type {
	if root == nil {
		return nil
	}
	rv, ok := refDeref(reflect.ValueOf(root))
	if !ok || rv.Kind() != reflect.Struct {
		return nil
	}
	return rv.Type()
}

func scopesHave(st *vuego.Stack, n string) (any, bool) {
	sc := vuego.VerifStackScopes(st)
	for i := len(sc) - 1; i >= 0; i-- {
		if v, ok := sc[i][n]; ok {
			return v, true
		}
	}
	return nil, false
}

func copyMap(m map[string]any) map[string]any {
	out := map[string]any{}
	for k, v := range m {
		out[k] = v
	}
	return out
}

func c17Key(ops []c17Op, root any) string {
	var sb strings.Builder
	fmt.Fprintf(&sb, "%T|", root)
	for _, o := range ops {
		sb.WriteString(o.O + ":" + o.K + o.E + ";")
	}
	return sb.String()
}

func runC17(r *Run, replay *Case) {
	postModel["C17"] = func(c *Case, m any) any {
		return m
	}
	if replay != nil && (replay.Input["stream"] == "root-pop" || replay.Input["stream"] == "env-after-change") {
		c17RootPop(r)
		c17EnvAfterChange(r)
		return
	}
	if replay != nil {
		var ops []c17Op
		remarshal(replay.Input["ops"], &ops)
		for i := range ops {
			if ops[i].O == "push" && ops[i].M == nil {
				ops[i].N = true
			}
		}
		root := fromVal(replay.Input["root"].(map[string]any))
		r.Add(c17Run(root, ops))
		return
	}
	c17RootPop(r)
	c17EnvAfterChange(r)
	r.Res.Rule = "op sequences over {push(nil|map), pop, set, lookup, resolve, envmap, copy, foreach, depth} on roots of every shape (nil, map, struct, pointer-to-struct); " +
		"exhaustive for sequences <= 4 over {push,pop,set a,set b,lookup a,lookup b} then random up to 14 ops; paths = top-level name x up to 3 steps over every container kind; " +
		"non-trivial = at least one read op returns a found value; distinct by (root type, op/argument sequence)"
	roots := c17Roots()
	add := func(root any, ops []c17Op) {
		c := c17Run(root, ops)
		found := false
		if arr, ok := c.Impl.([]any); ok {
			for _, o := range arr {
				if m, ok := o.(map[string]any); ok && m["found"] == true {
					found = true
				}
			}
		}
		if found {
			c.Key = c17Key(ops, root)
		}
		for _, o := range ops {
			c.Tags = append(c.Tags, "op:"+o.O)
		}
		c.Tags = append(c.Tags, fmt.Sprintf("root:%T", root))
		if !c.Oracle.OK {
			c.Tags = append(c.Tags, "oracle-fail:"+c.Oracle.Class)
		}
		r.Add(c)
	}
	// exhaustive short sequences over 2 names
	base := []c17Op{{O: "push", N: true}, {O: "pop"}, {O: "set", K: "a", V: toVal("A1")}, {O: "set", K: "b", V: toVal(2)}, {O: "lookup", K: "a"}, {O: "lookup", K: "b"}}
	maxLen := 4
	if r.Thorough() {
		maxLen = 5
	}
	var rec func(prefix []c17Op, n int)
	for _, mk := range []func() any{func() any { return nil }, func() any { return map[string]any{"a": "root-a"} }, func() any { return S3{Title: "t", Name: "gn"} }} {
		rec = func(prefix []c17Op, n int) {
			if n == 0 {
				seq := append(append([]c17Op{}, prefix...), c17Op{O: "lookup", K: "a"}, c17Op{O: "lookup", K: "b"}, c17Op{O: "envmap"}, c17Op{O: "depth"})
				root := mk()
				if _, isMap := root.(map[string]any); isMap && !balanced(seq) {
					return // popping the bottom scope of a map-rooted stack is outside the property (no matching push) and aliases the caller's map
				}
				add(root, seq)
				return
			}
			for _, o := range base {
				rec(append(prefix, o), n-1)
			}
		}
		for l := 0; l <= maxLen; l++ {
			rec(nil, l)
		}
	}
	r.Res.Exhaustive = true
	// every top-level name x step combinations (paths), on the nested root and struct roots
	for _, mk := range roots {
		root := mk()
		var tops []string
		switch x := root.(type) {
		case map[string]any:
			for k := range x {
				tops = append(tops, k)
			}
			sort.Strings(tops)
		default:
			tops = c17Names
		}
		for _, t := range tops {
			add(mk(), []c17Op{{O: "lookup", K: t}, {O: "resolve", E: t}, {O: "foreach", E: t}})
			for _, s1 := range c17Steps {
				add(mk(), []c17Op{{O: "resolve", E: t + s1}, {O: "foreach", E: t + s1}})
			}
		}
	}
	// a copy is a snapshot: operations on the original AFTER the copy was taken (rebinding, entering and leaving scopes) do not reach it
	for _, mk := range []func() any{func() any { return nil }, func() any { return map[string]any{"a": "root-a", "name": "rn"} }, func() any { return S3{Title: "t", Name: "gn"} }} {
		for _, seq := range [][]c17Op{
			{{O: "copyenv"}, {O: "set", K: "a", V: toVal("later")}, {O: "set", K: "fresh", V: toVal(1)}, {O: "lookup", K: "a"}},
			{{O: "push", M: []any{[]any{"a", toVal("inner")}}}, {O: "copyenv"}, {O: "pop"}, {O: "lookup", K: "a"}},
			{{O: "push", N: true}, {O: "set", K: "b", V: toVal("in-scope")}, {O: "copyenv"}, {O: "set", K: "b", V: toVal("changed")}, {O: "pop"}, {O: "push", M: []any{[]any{"b", toVal("reused-map")}}}, {O: "lookup", K: "b"}},
			{{O: "set", K: "a", V: toVal(1)}, {O: "copyenv"}, {O: "push", M: []any{[]any{"a", toVal(2)}}}, {O: "set", K: "a", V: toVal(3)}, {O: "pop"}, {O: "set", K: "a", V: toVal(4)}, {O: "copyenv"}, {O: "set", K: "name", V: toVal("n2")}},
		} {
			add(mk(), seq)
		}
	}
	// a path step is a LITERAL key, field name or index — never the name of a variable whose value would be one: `prod.label` is absent when
	// `prod` has no key "label", whatever a variable called `label` holds (variables that hold valid keys/indexes of the container, bound in
	// an inner scope, in the root data, or as a loop-like (index, item) pair)
	indirect := func() map[string]any {
		return map[string]any{"prod": map[string]any{"name": "Lamp", "price": 3, "tags": []any{"t0", "t1"}}, "rows": []any{"r0", "r1", map[string]any{"name": "deep"}}, "sm": map[string]string{"k": "v", "name": "smn"},
			"mi": map[string]int{"one": 1, "name": 5}, "st": S1{Name: "sn", Count: 2, Items: []int{4, 5}}, "label": "name", "i": 1, "field": "Name", "one": "one"}
	}
	for _, vk := range [][2]any{{"label", "name"}, {"label", "price"}, {"i", 0}, {"i", 1}, {"idx", "1"}, {"k", "k"}, {"field", "Name"}, {"field", "Count"}, {"key", "tags"}, {"x", 2}, {"one", "one"}, {"n", int64(1)}} {
		vn := vk[0].(string)
		for _, cont := range []string{"prod", "rows", "sm", "mi", "st", "prod.tags", "rows[2]", "st.Items"} {
			for _, form := range []string{"%s.%s", "%s[%s]", "%s.%s.name", "%s.%s[0]"} {
				e := fmt.Sprintf(form, cont, vn)
				add(indirect(), []c17Op{{O: "push", M: []any{[]any{vn, toVal(vk[1])}}}, {O: "lookup", K: vn}, {O: "resolve", E: e}, {O: "foreach", E: e}, {O: "pop"}, {O: "resolve", E: e}})
			}
		}
	}
	n := 4000
	if r.Thorough() {
		n = 80000
	}
	for i := 0; i < n; i++ {
		root := roots[r.Rng.Intn(len(roots))]()
		_, mapRoot := root.(map[string]any)
		var tops []string
		if m, ok := root.(map[string]any); ok {
			for k := range m {
				tops = append(tops, k)
			}
			sort.Strings(tops)
		}
		tops = append(tops, c17Names...)
		k := 2 + r.Rng.Intn(13)
		if r.Thorough() && r.Rng.Intn(20) == 0 {
			k = 40 + r.Rng.Intn(160)
		}
		var ops []c17Op
		depth := 0
		for j := 0; j < k; j++ {
			switch x := r.Rng.Intn(20); {
			case x < 3:
				if r.Rng.Intn(2) == 0 {
					ops = append(ops, c17Op{O: "push", N: true})
				} else {
					ops = append(ops, c17Op{O: "push", M: []any{[]any{c17Names[r.Rng.Intn(len(c17Names))], toVal(c17Values(r))}, []any{"b", toVal("pushed-b")}}})
				}
				depth++
			case x < 6:
				if depth > 0 || (!mapRoot && r.Rng.Intn(6) == 0) {
					ops = append(ops, c17Op{O: "pop"})
					if depth > 0 {
						depth--
					}
				}
			case x < 10:
				ops = append(ops, c17Op{O: "set", K: tops[r.Rng.Intn(len(tops))], V: toVal(c17Values(r))})
			case x < 13:
				ops = append(ops, c17Op{O: "lookup", K: tops[r.Rng.Intn(len(tops))]})
			case x < 17:
				p := tops[r.Rng.Intn(len(tops))]
				for s := r.Rng.Intn(4); s > 0; s-- {
					p += c17Steps[r.Rng.Intn(len(c17Steps))]
				}
				ops = append(ops, c17Op{O: "resolve", E: p})
			case x < 18:
				ops = append(ops, c17Op{O: "envmap"})
			case x < 19:
				ops = append(ops, c17Op{O: "copyenv"})
			default:
				ops = append(ops, c17Op{O: "foreach", E: tops[r.Rng.Intn(len(tops))]})
			}
		}
		ops = append(ops, c17Op{O: "envmap"})
		add(root, ops)
	}
}

func balanced(ops []c17Op) bool {
	d := 0
	for _, o := range ops {
		switch o.O {
		case "push":
			d++
		case "pop":
			d--
			if d < 0 {
				return false
			}
		}
	}
	return true
}

func safeLookup(st *vuego.Stack, n string) (v any, ok bool) {
	v, ok, _ = safeLookup3(st, n)
	return
}

func safeLookup3(st *vuego.Stack, n string) (v any, ok bool, panicked bool) {
	defer func() {
		if e := recover(); e != nil {
			v, ok, panicked = nil, false, true
		}
	}()
	v, ok = st.Lookup(n)
	return
}

// c17RootPop: one Pop more than Push on a stack whose root data is the caller's map (the way Render builds it: the map is both the bottom
// scope and the root data). Whatever happens to the bottom SCOPE, the root data value is the caller's: lookup, resolve and the merged
// environment still fall back to it, a second stack over the same map is not affected, and the map itself is exactly what the caller passed.
func c17RootPop(r *Run) {
	for pops := 1; pops <= 3; pops++ {
		for pushes := 0; pushes < pops; pushes++ {
			m := map[string]any{"title": "Hello", "user": map[string]any{"name": "Ann"}, "n": 7, "list": []any{1, 2}}
			snapshot := fmt.Sprintf("%#v", m)
			st := vuego.NewStackWithData(vuego.VerifToMapData(m), m)
			other := vuego.NewStackWithData(vuego.VerifToMapData(m), m)
			for i := 0; i < pushes; i++ {
				st.Push(map[string]any{"tmp": i})
			}
			var panicMsg string
			func() {
				defer func() {
					if e := recover(); e != nil {
						panicMsg = fmt.Sprint(e)
					}
				}()
				for i := 0; i < pops; i++ {
					st.Pop()
				}
			}()
			name := fmt.Sprintf("root-pop pushes=%d pops=%d", pushes, pops)
			c := &Case{Name: name, Key: name, Input: map[string]any{"stream": "root-pop", "pushes": pushes, "pops": pops}, Oracle: &Verdict{OK: true}, Tags: []string{"stream:root-pop"}}
			v1, ok1 := st.Lookup("title")
			v2, ok2 := st.Resolve("user.name")
			v3, ok3 := other.Lookup("title")
			env := st.EnvMap()
			c.Impl = map[string]any{"lookup": fmt.Sprint(v1, ok1), "resolve": fmt.Sprint(v2, ok2), "other": fmt.Sprint(v3, ok3), "env": fmt.Sprint(env["title"]), "map": fmt.Sprintf("%#v", m) == snapshot}
			switch {
			case panicMsg != "":
				c.Oracle = &Verdict{OK: false, Class: "root-pop:panic", Detail: panicMsg}
			case fmt.Sprintf("%#v", m) != snapshot:
				c.Oracle = &Verdict{OK: false, Class: "root-pop:callers-map-modified", Detail: fmt.Sprintf("%s: the map handed to the stack is now %#v, it was %s", name, m, snapshot)}
			case !ok3 || v3 != "Hello":
				c.Oracle = &Verdict{OK: false, Class: "root-pop:reaches-sibling-stack", Detail: fmt.Sprintf("%s: a second stack over the same data answers Lookup(title) = %v, %v", name, v3, ok3)}
			case !ok1 || v1 != "Hello" || !ok2 || v2 != "Ann" || env["title"] != "Hello":
				c.Oracle = &Verdict{OK: false, Class: "root-pop:root-data-fallback-lost", Detail: fmt.Sprintf("%s: Lookup(title) = %v, %v; Resolve(user.name) = %v, %v; EnvMap()[title] = %v - the root data value still holds them", name, v1, ok1, v2, ok2, env["title"])}
			}
			r.Add(c)
		}
	}
}

type c17Page struct {
	Title string `json:"title"`
	Views int
}

// c17EnvAfterChange: "the merged environment agrees with lookup for every name" at EVERY point of a history, not only at the first
// call: EnvMap (also through Copy) is asked, then the bindings change - Set in the root scope, the root scope popped, the root data value
// (a pointer to a struct, a typed map) modified by its owner - and EnvMap is asked again: every name Lookup finds is in it, with Lookup's value.
func c17EnvAfterChange(r *Run) {
	agree := func(st *vuego.Stack, names []string) string {
		env := st.EnvMap()
		for _, n := range names {
			lv, lok := st.Lookup(n)
			ev, eok := env[n]
			if lok != eok || (lok && fmt.Sprint(lv) != fmt.Sprint(ev)) {
				return fmt.Sprintf("name %q: Lookup gives %v (present=%v), EnvMap gives %v (present=%v)", n, lv, lok, ev, eok)
			}
		}
		return ""
	}
	type step struct {
		name string
		run  func() (*vuego.Stack, []string)
	}
	steps := []step{
		{"set-in-root-then-pop", func() (*vuego.Stack, []string) {
			m := map[string]any{"a": 1}
			st := vuego.NewStackWithData(m, m)
			_ = st.EnvMap()
			st.Set("b", 2)
			st.Pop()
			return st, []string{"a", "b"}
		}},
		{"copy-then-set-in-root-then-pop", func() (*vuego.Stack, []string) {
			m := map[string]any{"a": 1}
			st := vuego.NewStackWithData(m, m)
			_ = st.Copy()
			st.Set("b", 2)
			st.Set("a", 3)
			st.Pop()
			return st, []string{"a", "b"}
		}},
		{"pointer-root-modified", func() (*vuego.Stack, []string) {
			p := &c17Page{Title: "first", Views: 1}
			st := vuego.NewStackWithData(nil, p)
			_ = st.EnvMap()
			p.Title, p.Views = "second", 2
			return st, []string{"title", "Title", "Views"}
		}},
		{"typed-map-root-modified", func() (*vuego.Stack, []string) {
			m := map[string]string{"lang": "en"}
			st := vuego.NewStackWithData(nil, m)
			_ = st.EnvMap()
			m["lang"], m["theme"] = "sl", "dark"
			return st, []string{"lang", "theme"}
		}},
		{"push-set-envmap-pop", func() (*vuego.Stack, []string) {
			m := map[string]any{"a": 1}
			st := vuego.NewStackWithData(m, m)
			st.Push(map[string]any{"a": 9, "t": 1})
			_ = st.EnvMap()
			st.Pop()
			return st, []string{"a", "t"}
		}},
	}
	for _, s := range steps {
		st, names := s.run()
		msg := agree(st, names)
		c := &Case{Name: "env-after-change " + s.name, Key: "env-after-change " + s.name, Input: map[string]any{"stream": "env-after-change", "history": s.name}, Impl: map[string]any{"agrees": msg == ""}, Oracle: &Verdict{OK: true}, Tags: []string{"stream:env-after-change"}}
		if msg != "" {
			c.Oracle = &Verdict{OK: false, Class: "envmap-vs-lookup:after-change:" + s.name, Detail: msg}
		}
		r.Add(c)
	}
}
