//go:build verif

package main

import (
	"fmt"
	"strings"

	"github.com/titpetric/vuego"
)

type c05Opt struct{ Label string }

// c05RequiredProvidedEmpty: a `:required` name counts as provided when the merged environment of the component HAS it - whatever its
// value: null from JSON data, an empty front-matter entry, an empty string, zero, false, a nil pointer / slice / map. Only a name that is
// nowhere fails the render, with an error naming it ("never otherwise").
func c05RequiredProvidedEmpty(r *Run) {
	var nilPtr *c05Opt
	var nilSlice []string
	var nilMap map[string]any
	provided := []struct {
		name string
		v    any
	}{{"null", nil}, {"empty-string", ""}, {"zero", 0}, {"false", false}, {"nil-pointer", nilPtr}, {"nil-slice", nilSlice}, {"nil-map", nilMap}, {"empty-list", []any{}}, {"value", "V"}}
	wheres := []string{"includer-data", "front-matter", "static-prop", "bound-prop"}
	for _, lst := range []string{"sub", "title,sub", "sub,title"} {
		for _, tag := range []bool{false, true} {
			for _, attr := range []string{":required", ":require"} {
				for _, pv := range provided {
					for _, where := range wheres {
						if where == "front-matter" && pv.name != "null" && pv.name != "empty-string" && pv.name != "zero" && pv.name != "false" && pv.name != "value" {
							continue
						}
						if (where == "static-prop" || where == "bound-prop") && pv.name != "empty-string" && pv.name != "value" && pv.name != "zero" {
							continue // a bound prop with a falsy value is dropped from the tag before the include (C14's rule): not a provided name
						}
						if where == "bound-prop" && pv.name != "value" {
							continue
						}
						data := map[string]any{"title": "T", "src": pv.v}
						fm := ""
						inc := `a="1"`
						switch where {
						case "includer-data":
							data["sub"] = pv.v
						case "front-matter":
							y := map[string]string{"null": "", "empty-string": `""`, "zero": "0", "false": "false", "value": "V"}[pv.name]
							fm = "---\nsub: " + y + "\n---\n"
						case "static-prop":
							inc = `sub="` + fmt.Sprint(pv.v) + `"`
						case "bound-prop":
							inc = `:sub="src"`
						}
						comp := fm + `<template ` + attr + `="` + lst + `"><i>«c:{{ title }}|{{ sub }}»</i></template>`
						use := `<template include="components/MyComp.vuego" ` + inc + `></template>`
						if tag {
							use = `<my-comp ` + inc + `></my-comp>`
						}
						files := map[string]string{"p.vuego": `<b>«before»</b>` + use + `<b>«after»</b>`, "components/MyComp.vuego": comp}
						res := renderPage(files, "p.vuego", data, vuego.WithComponents())
						name := fmt.Sprintf("required-provided-empty %s=%s list=%s tag=%v attr=%s", where, pv.name, lst, tag, attr)
						c := &Case{Name: name, Key: name, Input: map[string]any{"stream": "required-provided-empty", "files": files}, Impl: res.canon(), Oracle: &Verdict{OK: true},
							Tags: []string{"stream:required-provided-empty", "where:" + where, "value:" + pv.name}}
						switch {
						case res.Panic != "" || res.Timeout:
							c.Oracle = &Verdict{OK: false, Class: "component-crash", Detail: fmt.Sprintf("%+v", res)}
						case res.Err != "":
							c.Oracle = &Verdict{OK: false, Class: "spurious-required-error:" + where + ":" + pv.name, Detail: fmt.Sprintf("the required name sub is provided (%s, value %#v) but the render failed: %s", where, pv.v, res.Err)}
						case !strings.Contains(res.Out, "«c:T|") || !strings.Contains(res.Out, "«after»"):
							c.Oracle = &Verdict{OK: false, Class: "component-not-rendered:required", Detail: res.Out}
						}
						r.Add(c)
						if pv.name != "nil-pointer" && pv.name != "nil-slice" && pv.name != "nil-map" {
							pendingPages = append(pendingPages, pageCase("component", files, map[string]string{"my-comp": "components/MyComp.vuego"}, "p.vuego", data, "required-provided-empty"))
						}
					}
				}
				// control: the name is nowhere - the render fails and the error names it
				files := map[string]string{"p.vuego": `<b>«before»</b><template include="components/MyComp.vuego" a="1"></template>`, "components/MyComp.vuego": `<template ` + attr + `="` + lst + `"><i>«c»</i></template>`}
				res := renderPage(files, "p.vuego", map[string]any{"title": "T"}, vuego.WithComponents())
				name := fmt.Sprintf("required-missing list=%s attr=%s", lst, attr)
				c := &Case{Name: name, Key: name, Input: map[string]any{"stream": "required-provided-empty", "files": files}, Impl: res.canon(), Oracle: &Verdict{OK: true}, Tags: []string{"stream:required-provided-empty", "where:nowhere"}}
				if res.Err == "" {
					c.Oracle = &Verdict{OK: false, Class: "required-not-enforced", Detail: "required sub is nowhere but the render succeeded: " + res.Out}
				} else if !strings.Contains(res.Err, "sub") {
					c.Oracle = &Verdict{OK: false, Class: "required-error-lacks-name", Detail: res.Err}
				}
				r.Add(c)
			}
		}
	}
}

// c05NullFrontMatter: "the component's own front-matter overrides them" also when the front-matter value is null (`sub:`, `sub: ~`,
// `sub: null`): inside the component the name is bound to nothing - it shows neither the prop of the same name nor the includer's variable -
// and after the include the includer's own value is back.
func c05NullFrontMatter(r *Run) {
	for _, spelled := range []string{"sub:", "sub: ~", "sub: null", "sub: \"\""} {
		for _, how := range []string{"static-prop", "bound-prop", "interp-prop", "includer-var", "loop-var", "none"} {
			for _, tag := range []bool{false, true} {
				attrs, page := "", ""
				data := map[string]any{"src": "FROM-PROP", "items": []any{"i1", "i2"}}
				switch how {
				case "static-prop":
					attrs = `sub="FROM-PROP"`
				case "bound-prop":
					attrs = `:sub="src"`
				case "interp-prop":
					attrs = `sub="{{ src }}"`
				case "includer-var":
					data["sub"] = "FROM-PAGE"
				}
				use := `<template include="components/MyComp.vuego" ` + attrs + `></template>`
				if tag {
					use = `<my-comp ` + attrs + `></my-comp>`
				}
				page = `<b>«before»</b>` + use + `<b>«after:{{ sub }}»</b>`
				wantAfter := map[string]string{"includer-var": "FROM-PAGE"}[how]
				n := 1
				if how == "loop-var" {
					page = `<b>«before»</b><div v-for="sub in items">` + use + `<u>«row:{{ sub }}»</u></div><b>«after:{{ sub }}»</b>`
					n = 2
				}
				files := map[string]string{"p.vuego": page, "components/MyComp.vuego": "---\n" + spelled + "\ntitle: T\n---\n<i>«c:{{ title }}|{{ sub }}|»</i>"}
				res := renderPage(files, "p.vuego", data, vuego.WithComponents())
				name := fmt.Sprintf("null-front-matter %q vs %s tag=%v", spelled, how, tag)
				c := &Case{Name: name, Key: name, Input: map[string]any{"stream": "null-front-matter", "files": files}, Impl: res.canon(), Oracle: &Verdict{OK: true},
					Tags: []string{"stream:null-front-matter", "how:" + how}}
				switch {
				case res.Err != "" || res.Panic != "" || res.Timeout:
					c.Oracle = &Verdict{OK: false, Class: "component-crash:null-front-matter", Detail: fmt.Sprintf("%+v", res)}
				case strings.Count(res.Out, "«c:T||»") != n:
					c.Oracle = &Verdict{OK: false, Class: "front-matter-null-does-not-override:" + how, Detail: fmt.Sprintf("front-matter %q, %s: the component shows %q", spelled, how, res.Out)}
				case !strings.Contains(res.Out, "«after:"+wantAfter+"»") || (how == "loop-var" && !strings.Contains(res.Out, "«row:i2»")):
					c.Oracle = &Verdict{OK: false, Class: "front-matter-leaks:null", Detail: res.Out}
				}
				r.Add(c)
				pendingPages = append(pendingPages, pageCase("component", files, map[string]string{"my-comp": "components/MyComp.vuego"}, "p.vuego", data, "null-front-matter"))
			}
		}
	}
}
