package main

// C16 — v-once. Each marked element carries a distinct marker text; the oracle counts markers in the output.

import (
	"bytes"
	"context"
	"fmt"
	"strings"
	"testing/fstest"
	"time"

	vuego "github.com/titpetric/vuego"
)

func init() { props["C16"] = runC16 }

type c16Case struct {
	desc  string
	files map[string]string
	page  string
	want  map[string]int // marker -> expected count
}

// many DISTINCT v-once elements in one render (however the set of rendered ids is kept, it must not care how many there are): n elements in a
// loop body, in one file and as n components included per iteration
func c16Many() []c16Case {
	var out []c16Case
	for _, n := range []int{4, 5, 6, 9, 17, 40} {
		want := map[string]int{}
		var body, incs strings.Builder
		files := map[string]string{}
		for i := 1; i <= n; i++ {
			m := fmt.Sprintf("Q%02d;", i)
			want[m] = 1
			fmt.Fprintf(&body, `<i v-once>%s</i>`, m)
			fmt.Fprintf(&incs, `<template include="c%d.vuego"></template>`, i)
			files[fmt.Sprintf("c%d.vuego", i)] = `<style v-once>` + m + `</style><b>x</b>`
		}
		out = append(out, c16Case{fmt.Sprintf("many-one-file-%d", n), map[string]string{"p.vuego": `<div v-for="x in items">` + body.String() + `</div>`}, "p.vuego", want})
		files["p.vuego"] = `<div v-for="x in items">` + incs.String() + `</div>` + incs.String()
		out = append(out, c16Case{fmt.Sprintf("many-components-%d", n), files, "p.vuego", want})
	}
	return out
}

// c16Reached: the marked element is reached in every way the evaluator can reach an element - directly, as the head of a v-if chain, as
// a selected v-else-if / v-else member, as the v-else of an empty loop - and is marked in each way an element can be instantiated more
// than once: it carries the v-for itself, or it stands inside a loop, or inside a component included three times. One emission in every case.
func c16Reached() []c16Case {
	reaches := []struct{ name, before, dir, after string }{
		{"direct", ``, ``, ``},
		{"if-head", ``, ` v-if="items"`, `<u v-else>E</u>`},
		{"else-if-member", `<u v-if="nope">N</u>`, ` v-else-if="items"`, `<u v-else>E</u>`},
		{"else-member", `<u v-if="nope">N</u>`, ` v-else`, ``},
		{"else-of-empty-loop", `<u v-for="n in nothing">{{ n }}</u>`, ` v-else`, ``},
	}
	var out []c16Case
	for _, rc := range reaches {
		own := rc.before + `<li` + rc.dir + ` v-for="x in items" v-once>M1 {{ x }}</li>` + rc.after
		// (a head that carries both v-if and v-for is the per-item filter of C04, not a chain head: not generated)
		if rc.name != "if-head" {
			out = append(out, c16Case{"reached-" + rc.name + "-looped-itself", map[string]string{"p.vuego": `<ul>` + own + `</ul><b>M2</b>`}, "p.vuego", map[string]int{"M1": 1, "M2": 1}})
		}
		inner := rc.before + `<i` + rc.dir + ` v-once>M1</i>` + rc.after + `<b>M2</b>`
		out = append(out, c16Case{"reached-" + rc.name + "-in-loop", map[string]string{"p.vuego": `<div v-for="x in items">` + inner + `</div>`}, "p.vuego", map[string]int{"M1": 1, "M2": 3}})
		out = append(out, c16Case{"reached-" + rc.name + "-in-component-thrice", map[string]string{"p.vuego": `<template include="c.vuego"></template><template include="c.vuego"></template><template include="c.vuego"></template>`, "c.vuego": inner}, "p.vuego", map[string]int{"M1": 1, "M2": 3}})
		if rc.name != "if-head" {
			out = append(out, c16Case{"reached-" + rc.name + "-looped-itself-in-component-twice", map[string]string{"p.vuego": `<template include="c.vuego"></template><template include="c.vuego"></template>`, "c.vuego": `<ul>` + own + `</ul><b>M2</b>`}, "p.vuego", map[string]int{"M1": 1, "M2": 2}})
		}
	}
	return out
}

func c16Cases() []c16Case {
	return append(append(c16Fixed(), c16Many()...), c16Reached()...)
}

func c16Fixed() []c16Case {
	items := `{"items":[1,2,3]}`
	_ = items
	return []c16Case{
		{"top-level-two", map[string]string{"p.vuego": `<i v-once>M1</i><b v-once>M2</b><i>M3</i>`}, "p.vuego", map[string]int{"M1": 1, "M2": 1, "M3": 1}},
		// marked elements INSIDE a marked element: each of them is an element of its own - emitted once, with the wrapper's first instance
		// a marked element that merely FOLLOWS a loop (it is no v-else): emitted once whether the loop produced something or nothing
		{"once-after-empty-loop", map[string]string{"p.vuego": `<ul><li v-for="t in none">x</li></ul><div><span v-for="t in none">y</span><style v-once>M1</style></div><p v-once>M2</p>`}, "p.vuego", map[string]int{"M1": 1, "M2": 1}},
		{"once-after-filled-loop", map[string]string{"p.vuego": `<div><span v-for="t in items">y</span><style v-once>M1</style></div><p v-once>M2</p>`}, "p.vuego", map[string]int{"M1": 1, "M2": 1}},
		{"once-after-empty-loop-in-component", map[string]string{"p.vuego": `<template include="card.vuego"></template><template include="card.vuego"></template>`, "card.vuego": `<div><span v-for="t in none">y</span><style v-once>M1</style><i>M2</i></div>`}, "p.vuego", map[string]int{"M1": 1, "M2": 2}},
		{"nested-once-two-inside", map[string]string{"p.vuego": `<div v-once><style v-once>M1</style><script v-once>M2</script><i>M3</i></div>`}, "p.vuego", map[string]int{"M1": 1, "M2": 1, "M3": 1}},
		{"nested-once-in-loop", map[string]string{"p.vuego": `<section v-for="x in items"><div v-once><b v-once>M1</b><u v-once>M2</u></div><i v-once>M3</i><s>M4</s></section>`}, "p.vuego", map[string]int{"M1": 1, "M2": 1, "M3": 1, "M4": 3}},
		{"nested-once-template-wrapper", map[string]string{"p.vuego": `<template v-once><b v-once>M1</b><u v-once>M2</u></template><p><i v-once>M3</i></p>`}, "p.vuego", map[string]int{"M1": 1, "M2": 1, "M3": 1}},
		{"nested-once-across-components", map[string]string{"p.vuego": `<template include="w.vuego"></template><template include="l.vuego"></template><template include="w.vuego"></template>`,
			"w.vuego": `<div v-once><style v-once>M1</style><span>M2</span></div>`, "l.vuego": `<div v-once><style v-once>M3</style><span>M4</span></div>`}, "p.vuego", map[string]int{"M1": 1, "M2": 1, "M3": 1, "M4": 1}},
		{"nested-once-three-deep", map[string]string{"p.vuego": `<div v-once><p v-once><b v-once>M1</b></p><p v-once><b v-once>M2</b></p></div>`}, "p.vuego", map[string]int{"M1": 1, "M2": 1}},
		// a marked element whose OWN subtree reaches the same element again while it is still being rendered: through supplied slot content
		// (frame in frame in frame) and through a component that includes itself from inside its marked root. The element is marked as
		// rendered before its subtree is evaluated, so the inner instantiations are skipped.
		{"self-nesting-through-slot", map[string]string{"p.vuego": `<template include="frame.vuego"><i>A</i><template include="frame.vuego"><i>B</i><template include="frame.vuego"><i>C</i></template></template></template><b>M2</b>`,
			"frame.vuego": `<section v-once>M1<slot></slot></section>`}, "p.vuego", map[string]int{"M1": 1, "M2": 1}},
		{"self-nesting-recursive-component", map[string]string{"p.vuego": `<template include="tree.vuego" :depth="2"></template><b>M2</b>`,
			"tree.vuego": `<div v-once>M1<template v-if="depth > 0" include="tree.vuego" :depth="depth - 1"></template></div><u>M3</u>`}, "p.vuego", map[string]int{"M1": 1, "M2": 1, "M3": 2}}, // M3: the outer instance and the one included from it; the inner marked root is skipped, so nothing deeper is reached
		{"loop-child", map[string]string{"p.vuego": `<ul><li v-for="x in items"><i v-once>M1</i><b>M2</b></li></ul>`}, "p.vuego", map[string]int{"M1": 1, "M2": 3}},
		{"loop-child-two-distinct", map[string]string{"p.vuego": `<ul><li v-for="x in items"><i v-once>M1</i><b v-once>M2</b></li></ul>`}, "p.vuego", map[string]int{"M1": 1, "M2": 1}},
		{"loop-root", map[string]string{"p.vuego": `<ul><li v-for="x in items" v-once>M1</li></ul>`}, "p.vuego", map[string]int{"M1": 1}},
		{"nested-loops", map[string]string{"p.vuego": `<div v-for="x in items"><p v-for="y in items"><i v-once>M1</i>M2</p></div>`}, "p.vuego", map[string]int{"M1": 1, "M2": 9}},
		{"component-thrice", map[string]string{"p.vuego": `<template include="c.vuego"></template><template include="c.vuego"></template><template include="c.vuego"></template>`, "c.vuego": `<i v-once>M1</i><b>M2</b>`}, "p.vuego", map[string]int{"M1": 1, "M2": 3}},
		{"two-components", map[string]string{"p.vuego": `<template include="c.vuego"></template><template include="d.vuego"></template><template include="c.vuego"></template><template include="d.vuego"></template>`, "c.vuego": `<i v-once>M1</i>`, "d.vuego": `<i v-once>M2</i>`}, "p.vuego", map[string]int{"M1": 1, "M2": 1}},
		{"page-and-component", map[string]string{"p.vuego": `<i v-once>M1</i><template include="c.vuego"></template><template include="c.vuego"></template>`, "c.vuego": `<b v-once>M2</b>`}, "p.vuego", map[string]int{"M1": 1, "M2": 1}},
		{"component-two-distinct", map[string]string{"p.vuego": `<template include="c.vuego"></template><template include="c.vuego"></template>`, "c.vuego": `<i v-once>M1</i><b v-once>M2</b>`}, "p.vuego", map[string]int{"M1": 1, "M2": 1}},
		{"component-in-loop", map[string]string{"p.vuego": `<div v-for="x in items"><template include="c.vuego"></template></div>`, "c.vuego": `<i v-once>M1</i><b>M2</b>`}, "p.vuego", map[string]int{"M1": 1, "M2": 3}},
		{"layout-and-page", map[string]string{"p.vuego": "---\nlayout: main\n---\n<i v-once>M1</i><i v-once>M2</i>", "layouts/main.vuego": `<b v-once>M3</b><b v-once>M4</b><div v-html="content"></div>`}, "p.vuego", map[string]int{"M1": 1, "M2": 1, "M3": 1, "M4": 1}},
		// v-once combined with v-pre (a script or style whose text must reach the browser untouched): still once per render
		{"once-pre-in-loop", map[string]string{"p.vuego": `<ul><li v-for="x in items"><i v-once v-pre>M1 {{ x }}</i><b>M2</b><u v-once>M3</u></li></ul>`}, "p.vuego", map[string]int{"M1": 1, "M2": 3, "M3": 1}},
		{"once-pre-component-thrice", map[string]string{"p.vuego": `<template include="c.vuego"></template><template include="c.vuego"></template><template include="c.vuego"></template>`, "c.vuego": `<script v-once v-pre>M1 = "{{ name }}"</script><b>M2</b><style v-pre v-once>M3</style>`}, "p.vuego", map[string]int{"M1": 1, "M2": 3, "M3": 1}},
		{"once-pre-loop-root", map[string]string{"p.vuego": `<div v-for="x in items"><p v-pre v-once>M1</p></div><p v-pre>M2 {{ y }}</p>`}, "p.vuego", map[string]int{"M1": 1, "M2": 1}},
		// v-once elements reached THROUGH SUPPLIED SLOT CONTENT: the element is still the same element of its file, once per render
		{"once-component-in-slot-content-and-direct", map[string]string{"p.vuego": `<template include="card.vuego"><template include="note.vuego"></template><span>M3</span></template><template include="note.vuego"></template>`,
			"card.vuego": `<div class="card"><slot>FB</slot></div>`, "note.vuego": `<p v-once>M1</p><b>M2</b>`}, "p.vuego", map[string]int{"M1": 1, "M2": 2, "M3": 1}},
		{"once-element-in-slot-content-of-looped-include", map[string]string{"p.vuego": `<ul><li v-for="x in items"><template include="card.vuego"><i v-once>M1</i><b>M2</b></template></li></ul>`,
			"card.vuego": `<div class="card"><slot>FB</slot></div>`}, "p.vuego", map[string]int{"M1": 1, "M2": 3}},
		{"once-element-in-named-slot-twice", map[string]string{"p.vuego": `<template include="two.vuego"><template #a><i v-once>M1</i><b>M2</b></template></template>`,
			"two.vuego": `<div><slot name="a">FA</slot><hr><slot name="a">FA2</slot></div>`}, "p.vuego", map[string]int{"M1": 1, "M2": 2}},
		// v-once elements in the slot content a PAGE hands to its layout: used by the layout itself in a loop, by a component the layout includes,
		// twice; two DIFFERENT marked elements in that content do not suppress one another
		{"once-in-page-slot-layout-loop", map[string]string{"p.vuego": "---\nlayout: main\n---\n<template #row><i v-once>M1</i><b v-once>M2</b><u>M3</u></template><p>M4</p>", "layouts/main.vuego": `<ul><li v-for="x in items"><slot name="row"></slot></li></ul>`}, "p.vuego", map[string]int{"M1": 1, "M2": 1, "M3": 3, "M4": 0}},
		{"once-in-page-slot-component-loop", map[string]string{"p.vuego": "---\nlayout: main\n---\n<template #row><i v-once>M1</i><b v-once>M2</b><u>M3</u></template>", "layouts/main.vuego": `<template include="list.vuego"></template><template include="list.vuego"></template>`, "list.vuego": `<ul><li v-for="x in items"><slot name="row"></slot></li></ul>`}, "p.vuego", map[string]int{"M1": 1, "M2": 1, "M3": 6}},
		{"once-in-page-slot-twice", map[string]string{"p.vuego": "---\nlayout: main\n---\n<template #head><i v-once>M1</i><s>M2</s></template>", "layouts/main.vuego": `<header><slot name="head"></slot><slot name="head"></slot></header>`}, "p.vuego", map[string]int{"M1": 1, "M2": 2}},
		// the same component in more than one layer of a layout chain: the rule applies to the page and to each layout separately
		{"component-in-page-and-layout", map[string]string{"p.vuego": "---\nlayout: main\n---\n<template include=\"c.vuego\"></template><template include=\"c.vuego\"></template>", "layouts/main.vuego": `<aside><template include="c.vuego"></template><template include="c.vuego"></template></aside><div v-html="content"></div>`, "c.vuego": `<i v-once>M1</i><b>M2</b>`}, "p.vuego", map[string]int{"M1": 2, "M2": 4}},
		{"component-in-two-layouts", map[string]string{"p.vuego": "---\nlayout: inner\n---\n<u>M3</u>", "layouts/inner.vuego": "---\nlayout: main\n---\n<template include=\"c.vuego\"></template><div v-html=\"content\"></div>", "layouts/main.vuego": `<template include="c.vuego"></template><template include="c.vuego"></template><div v-html="content"></div>`, "c.vuego": `<i v-once>M1</i><b>M2</b>`}, "p.vuego", map[string]int{"M1": 2, "M2": 3, "M3": 1}},
		{"component-in-all-three-layers", map[string]string{"p.vuego": "---\nlayout: inner\n---\n<template include=\"c.vuego\"></template>", "layouts/inner.vuego": "---\nlayout: main\n---\n<template include=\"c.vuego\"></template><div v-html=\"content\"></div>", "layouts/main.vuego": `<template include="c.vuego"></template><div v-html="content"></div>`, "c.vuego": `<i v-once>M1</i><b>M2</b>`}, "p.vuego", map[string]int{"M1": 3, "M2": 3}},
		// v-once combined with conditionals, instantiated several times (loop iterations, repeated includes)
		{"once-with-vif-true-in-loop", map[string]string{"p.vuego": `<div v-for="x in items"><b v-if="items" v-once>M1</b><i>M2</i></div>`}, "p.vuego", map[string]int{"M1": 1, "M2": 3}},
		{"once-on-velse-in-loop", map[string]string{"p.vuego": `<div v-for="x in items"><p v-if="nope">N</p><b v-else v-once>M1</b><i>M2</i></div>`}, "p.vuego", map[string]int{"M1": 1, "M2": 3, "N": 0}},
		{"once-on-velseif-in-loop", map[string]string{"p.vuego": `<div v-for="x in items"><p v-if="nope">N</p><b v-else-if="items" v-once>M1</b><u v-else>U</u><i>M2</i></div>`}, "p.vuego", map[string]int{"M1": 1, "M2": 3, "U": 0}},
		{"once-with-vif-in-component-thrice", map[string]string{"p.vuego": `<template include="c.vuego"></template><template include="c.vuego"></template><template include="c.vuego"></template>`, "c.vuego": `<b v-if="items" v-once>M1</b><p v-if="nope">N</p><u v-else v-once>M2</u><i>M3</i>`}, "p.vuego", map[string]int{"M1": 1, "M2": 1, "M3": 3}},
		{"once-on-vfor-else-in-loop", map[string]string{"p.vuego": `<div v-for="x in items"><p v-for="q in nope">N</p><b v-else v-once>M1</b><i>M2</i></div>`}, "p.vuego", map[string]int{"M1": 1, "M2": 3}},
		{"once-inside-vif-parent-in-loop", map[string]string{"p.vuego": `<div v-for="x in items"><section v-if="items"><b v-once>M1</b></section><section v-else><b v-once>M2</b></section></div>`}, "p.vuego", map[string]int{"M1": 1, "M2": 0}},
		{"vif-branch", map[string]string{"p.vuego": `<i v-if="items" v-once>M1</i><b v-else v-once>M2</b><i v-once>M3</i>`}, "p.vuego", map[string]int{"M1": 1, "M2": 0, "M3": 1}},
	}
}

var c16Entries = []string{"template-render", "vue-render", "vue-fragment", "render-string", "vue-nodes"}

func c16Render(cs c16Case, entry string, t vuego.Template, mfs fstest.MapFS) (string, error) {
	var buf bytes.Buffer
	data := map[string]any{"items": []any{1, 2, 3}}
	var err error
	switch entry {
	case "template-render":
		err = t.Load(cs.page).Fill(data).Render(context.Background(), &buf)
	case "vue-render":
		err = vuego.VerifVue(t).Render(&buf, cs.page, data)
	case "vue-fragment":
		err = vuego.VerifVue(t).RenderFragment(&buf, cs.page, data)
	case "vue-nodes":
		// the caller parses the page itself and hands the nodes over (twice the same nodes: they are not the engine's to change)
		nodes, perr := vuego.VerifParseTemplateBytes([]byte(cs.files[cs.page]))
		if perr != nil {
			return "", perr
		}
		err = vuego.VerifVue(t).RenderNodes(&buf, nodes, data)
	case "render-string":
		err = t.New().Fill(data).RenderString(context.Background(), &buf, cs.files[cs.page])
	}
	return buf.String(), err
}

func c16Eval(cs c16Case, entry string, repeats int) *Case {
	c := &Case{Name: cs.desc + " via " + entry, Input: map[string]any{"desc": cs.desc, "entry": entry, "repeats": repeats, "files": cs.files}, Key: cs.desc + entry, Tags: []string{"entry:" + entry, "placement:" + cs.desc}}
	v := &Verdict{OK: true}
	c.Oracle = v
	mfs := fstest.MapFS{}
	for n, s := range cs.files {
		mfs[n] = &fstest.MapFile{Data: []byte(s), ModTime: time.Unix(1700000000, 0)}
	}
	hasLayout := strings.Contains(cs.files[cs.page], "layout:")
	if hasLayout && entry != "template-render" {
		return nil // layouts exist only for Template.Render
	}
	if (entry == "render-string" || entry == "vue-nodes") && strings.HasPrefix(cs.files[cs.page], "---") {
		return nil
	}
	t := vuego.NewFS(mfs)
	var outs []string
	for i := 0; i < repeats; i++ {
		out, err := func() (o string, e error) {
			defer func() {
				if r := recover(); r != nil {
					e = fmt.Errorf("panic: %v", r)
				}
			}()
			return c16Render(cs, entry, t, mfs)
		}()
		if err != nil {
			v.OK, v.Class, v.Detail = false, "render-error:"+cs.desc+":"+entry, err.Error()
			return c
		}
		outs = append(outs, out)
		for m, w := range cs.want {
			if g := strings.Count(out, m); g != w {
				v.OK = false
				v.Class = fmt.Sprintf("once-count:%s:%s", cs.desc, entry)
				v.Detail = fmt.Sprintf("render %d: marker %s appears %d times, expected %d; output %q", i+1, m, g, w, out)
				c.Impl = outs
				return c
			}
		}
	}
	c.Impl = outs
	return c
}

func runC16(r *Run, replay *Case) {
	if replay != nil {
		if replay.Input["stream"] == "chain-history" {
			c16ChainHistories(r)
			return
		}
		for _, cs := range c16Cases() {
			if cs.desc == replay.Input["desc"] {
				if c := c16Eval(cs, replay.Input["entry"].(string), 3); c != nil {
					r.Add(c)
				}
			}
		}
		return
	}
	c16ChainHistories(r)
	for _, cs := range c16Cases() {
		if !strings.Contains(cs.files[cs.page], "layout:") {
			r.Add(pageCase("once:"+cs.desc, cs.files, nil, cs.page, map[string]any{"items": []any{1, 2, 3}}))
		}
	}
	r.Res.Rule = "placements of one or more v-once elements (top level, loop child, loop root, nested loops, component included 1..3 times, several components, component in a loop, layout + page, v-if branch) x " +
		"four entry points x 3 repeated renders on one engine, and each placement rendered after a FAILED render of the same template (4 rounds, same process); " +
		"stream once-chain-history: v-once on every subset of the members of a chain of 1..3 members x every sequence of truth values over 3 rows (4 in the thorough tier), in a loop and as a component included once per row, " +
		"the expected marker sequence computed from the rule (a member is used up only when it is rendered), each page also compared with the model; non-trivial = every case; distinct by (placement, entry point)"
	for _, cs := range c16Cases() {
		for _, e := range c16Entries {
			if c := c16Eval(cs, e, 3); c != nil {
				r.Add(c)
			}
		}
	}
	// a render that FAILS after it has reached its v-once elements, then the same page rendered successfully: the second render starts afresh.
	// The failing variant appends an include of a missing file; it runs on the same engine, and on a second engine in the same process.
	for _, cs := range c16Cases() {
		if strings.Contains(cs.files[cs.page], "layout:") {
			continue
		}
		for _, e := range []string{"template-render", "vue-render", "render-string"} {
			if e == "render-string" && strings.HasPrefix(cs.files[cs.page], "---") {
				continue
			}
			bad := c16Case{desc: cs.desc, page: cs.page, files: map[string]string{}, want: cs.want}
			for n, src := range cs.files {
				bad.files[n] = src
			}
			bad.files[cs.page] = cs.files[cs.page] + `<template include="no-such-file.vuego"></template>`
			mk := func(files map[string]string) (vuego.Template, fstest.MapFS) {
				mfs := fstest.MapFS{}
				for n, src := range files {
					mfs[n] = &fstest.MapFile{Data: []byte(src), ModTime: time.Unix(1700000000, 0)}
				}
				return vuego.NewFS(mfs), mfs
			}
			badT, badFS := mk(bad.files)
			goodT, goodFS := mk(cs.files)
			c := &Case{Name: "after failed render: " + cs.desc + " via " + e, Input: map[string]any{"desc": cs.desc, "entry": e, "afterFailure": true}, Key: "af:" + cs.desc + e, Tags: []string{"after-failure", "entry:" + e}, Oracle: &Verdict{OK: true}}
			var outs []string
			for round := 0; round < 4 && c.Oracle.OK; round++ {
				_, ferr := c16Render(bad, e, badT, badFS)
				if ferr == nil {
					break // this placement does not reach the failing include (nothing to test)
				}
				out, err := c16Render(cs, e, goodT, goodFS)
				outs = append(outs, out)
				if err != nil {
					c.Oracle = &Verdict{OK: false, Class: "render-error:" + cs.desc + ":after-failure", Detail: err.Error()}
					break
				}
				for m, w := range cs.want {
					if g := strings.Count(out, m); g != w && c.Oracle.OK {
						c.Oracle = &Verdict{OK: false, Class: "once-count:" + cs.desc + ":after-failure", Detail: fmt.Sprintf("round %d: after a render of the same template failed, marker %s appears %d times, expected %d; output %q", round+1, m, g, w, out)}
					}
				}
			}
			c.Impl = outs
			r.Add(c)
		}
	}
	// interleaved renders of different pages on one engine
	all := c16Cases()
	files := map[string]string{}
	for i, cs := range all {
		if strings.Contains(cs.files[cs.page], "layout:") {
			continue
		}
		for n, s := range cs.files {
			files[fmt.Sprintf("d%d/%s", i, n)] = strings.ReplaceAll(s, `include="`, fmt.Sprintf(`include="d%d/`, i))
		}
	}
	mfs := fstest.MapFS{}
	for n, s := range files {
		mfs[n] = &fstest.MapFile{Data: []byte(s), ModTime: time.Unix(1700000000, 0)}
	}
	t := vuego.NewFS(mfs)
	for round := 0; round < 3; round++ {
		for i, cs := range all {
			if strings.Contains(cs.files[cs.page], "layout:") {
				continue
			}
			cs2 := cs
			cs2.page = fmt.Sprintf("d%d/%s", i, cs.page)
			cs2.files = files
			out, err := c16Render(cs2, "template-render", t, mfs)
			c := &Case{Name: "interleaved " + cs.desc, Input: map[string]any{"desc": cs.desc, "entry": "template-render", "interleaved": true}, Impl: out, Key: fmt.Sprintf("il:%s:%d", cs.desc, round), Tags: []string{"interleaved"}}
			c.Oracle = &Verdict{OK: true}
			if err != nil {
				c.Oracle = &Verdict{OK: false, Class: "render-error:" + cs.desc + ":interleaved", Detail: err.Error()}
			}
			for m, w := range cs.want {
				if g := strings.Count(out, m); g != w && c.Oracle.OK {
					c.Oracle = &Verdict{OK: false, Class: "once-count:" + cs.desc + ":interleaved", Detail: fmt.Sprintf("marker %s appears %d times, expected %d; output %q", m, g, w, out)}
				}
			}
			r.Add(c)
		}
	}
	r.Res.Exhaustive = true
}
