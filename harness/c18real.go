//go:build verif

package main

import (
	"errors"
	"fmt"
	"io/fs"
	"os"
	"path/filepath"
	"testing/fstest"

	"github.com/titpetric/vuego"
)

// errLayer answers every Open with one fixed error that is NOT fs.ErrNotExist (a layer that rejects a name outright)
type errLayer struct{ err error }

func (e errLayer) Open(name string) (fs.File, error) {
	return nil, &fs.PathError{Op: "open", Path: name, Err: e.err}
}

// c18RealLayers: layers that answer a missing path with an error OTHER than not-exist - a directory on disk in which a parent element of
// the name is a regular file (the operating system says "not a directory"), and a layer that rejects names with fs.ErrInvalid. "A path
// present in no layer reports not-exist" is about the overlay's answer, whatever the layers say; a path present in an earlier layer is
// still served from it.
func c18RealLayers(r *Run) {
	root, err := os.MkdirTemp("", "c18real")
	if err != nil {
		return
	}
	defer os.RemoveAll(root)
	_ = os.WriteFile(filepath.Join(root, "components"), []byte("a regular file"), 0o644)
	_ = os.MkdirAll(filepath.Join(root, "pages"), 0o755)
	_ = os.WriteFile(filepath.Join(root, "pages", "index.vuego"), []byte("DISK"), 0o644)
	mem := fstest.MapFS{"layouts/base.vuego": {Data: []byte("MEM")}, "pages/about.vuego": {Data: []byte("MEM")}}
	stacks := []struct {
		name   string
		layers []fs.FS
	}{
		{"mem,nil,disk", []fs.FS{mem, nil, os.DirFS(root)}},
		{"disk,mem", []fs.FS{os.DirFS(root), mem}},
		{"disk", []fs.FS{os.DirFS(root)}},
		{"mem,invalid", []fs.FS{mem, errLayer{fs.ErrInvalid}}},
		{"invalid,mem", []fs.FS{errLayer{fs.ErrInvalid}, mem}},
		{"mem,permission", []fs.FS{mem, errLayer{fs.ErrPermission}}},
	}
	queries := []struct {
		path    string
		present func(stack string) bool
	}{
		{"components/button.vuego", func(string) bool { return false }},
		{"components/deep/er.vuego", func(string) bool { return false }},
		{"nowhere.vuego", func(string) bool { return false }},
		{"layouts/base.vuego", func(s string) bool { return s != "disk" }},
		{"pages/index.vuego", func(s string) bool { return s == "mem,nil,disk" || s == "disk,mem" || s == "disk" }},
	}
	for _, st := range stacks {
		ofs := vuego.NewOverlayFS(st.layers[0], st.layers[1:]...)
		for _, q := range queries {
			for _, op := range []string{"open", "stat", "readfile"} {
				var e error
				switch op {
				case "open":
					var f fs.File
					f, e = ofs.Open(q.path)
					if f != nil {
						f.Close()
					}
				case "stat":
					_, e = fs.Stat(ofs, q.path)
				case "readfile":
					_, e = fs.ReadFile(ofs, q.path)
				}
				name := fmt.Sprintf("real-layers %s %s %s", st.name, op, q.path)
				c := &Case{Name: name, Key: name, Input: map[string]any{"stream": "real-layers", "stack": st.name, "op": op, "path": q.path}, Impl: fmt.Sprint(e), Oracle: &Verdict{OK: true}, Tags: []string{"stream:real-layers", "stack:" + st.name, "op:" + op}}
				if q.present(st.name) {
					if e != nil {
						c.Oracle = &Verdict{OK: false, Class: "real-layers:present-path-not-served", Detail: fmt.Sprintf("stack %s: %s(%q) = %v, the path is in a layer", st.name, op, q.path, e)}
					}
				} else if !errors.Is(e, fs.ErrNotExist) {
					c.Oracle = &Verdict{OK: false, Class: "real-layers:missing-path-not-notexist", Detail: fmt.Sprintf("stack %s: %s(%q) = %v, want an error that is fs.ErrNotExist (the path is in no layer)", st.name, op, q.path, e)}
				}
				r.Add(c)
			}
		}
	}
}
