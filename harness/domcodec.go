package main

import (
	"strings"

	"golang.org/x/net/html"
	"golang.org/x/net/html/atom"
)

// JSON DOM <-> *html.Node (children linked the way x/net/html links them)

func nodeToJSON(n *html.Node) map[string]any {
	switch n.Type {
	case html.TextNode:
		return map[string]any{"t": "text", "d": n.Data}
	case html.ElementNode:
		attrs := []any{}
		for _, a := range n.Attr {
			attrs = append(attrs, []any{a.Key, a.Val})
		}
		kids := []any{}
		for c := n.FirstChild; c != nil; c = c.NextSibling {
			kids = append(kids, nodeToJSON(c))
		}
		return map[string]any{"t": "elem", "tag": n.Data, "attrs": attrs, "kids": kids}
	case html.CommentNode:
		return map[string]any{"t": "comment", "d": n.Data}
	case html.DoctypeNode:
		return map[string]any{"t": "doctype", "d": n.Data}
	}
	return map[string]any{"t": "comment", "d": ""}
}

func nodesToJSON(ns []*html.Node) []any {
	out := []any{}
	for _, n := range ns {
		out = append(out, nodeToJSON(n))
	}
	return out
}

func nodeFromJSON(m map[string]any) *html.Node {
	switch m["t"] {
	case "text":
		return &html.Node{Type: html.TextNode, Data: m["d"].(string)}
	case "comment":
		return &html.Node{Type: html.CommentNode, Data: m["d"].(string)}
	case "doctype":
		return &html.Node{Type: html.DoctypeNode, Data: m["d"].(string)}
	}
	n := &html.Node{Type: html.ElementNode, Data: m["tag"].(string), DataAtom: atom.Lookup([]byte(m["tag"].(string)))}
	for _, a := range m["attrs"].([]any) {
		p := a.([]any)
		n.Attr = append(n.Attr, html.Attribute{Key: p[0].(string), Val: p[1].(string)})
	}
	for _, k := range m["kids"].([]any) {
		n.AppendChild(nodeFromJSON(k.(map[string]any)))
	}
	return n
}

func nodesFromJSON(arr []any) []*html.Node {
	var out []*html.Node
	for _, a := range arr {
		out = append(out, nodeFromJSON(a.(map[string]any)))
	}
	return out
}

// tokenise with x/net/html's tokenizer, in the driver's canonical form
func xnetTokens(s string) []any {
	z := html.NewTokenizer(strings.NewReader(s))
	out := []any{}
	text := ""
	flush := func() {
		if text != "" {
			out = append(out, map[string]any{"text": text})
			text = ""
		}
	}
	for {
		tt := z.Next()
		if tt == html.ErrorToken {
			break
		}
		tok := z.Token()
		switch tt {
		case html.TextToken:
			text += tok.Data
		case html.StartTagToken, html.SelfClosingTagToken:
			flush()
			attrs := []any{}
			for _, a := range tok.Attr {
				attrs = append(attrs, []any{a.Key, a.Val})
			}
			out = append(out, map[string]any{"start": tok.Data, "attrs": attrs, "sc": tt == html.SelfClosingTagToken})
		case html.EndTagToken:
			flush()
			out = append(out, map[string]any{"end": tok.Data})
		case html.CommentToken, html.DoctypeToken:
			flush()
			out = append(out, map[string]any{"comment": true})
		}
	}
	flush()
	return out
}
