package main

// C15 — a long-lived engine renders what a fresh engine would after any file edits.
// Histories of {edit, delete, recreate, make invalid, render via each entry point} over page/component/layout files on a mutable
// in-memory filesystem with controlled modification times; after every render the same call is made on a newly created engine.

import (
	"bytes"
	"context"
	"fmt"
	"io/fs"
	"strings"
	"testing/fstest"
	"time"

	vuego "github.com/titpetric/vuego"
)

func init() { props["C15"] = runC15 }

type c15Step struct {
	Op    string `json:"op"`   // edit | delete | invalid | render
	File  string `json:"file"` // page.vuego | comp.vuego | layouts/main.vuego
	Mtime string `json:"mtime,omitempty"`
	Entry string `json:"entry,omitempty"`
}

var c15Files = []string{"page.vuego", "comp.vuego", "layouts/main.vuego", "layouts/base.vuego", "pages/post.vuego", "layouts/post.vuego"}

// entry@file: which call renders which page. plain.vuego names no layout (default layouts/base.vuego when it exists); pages/p.vuego names
// "post", which resolves next to the page first (pages/post.vuego) and in layouts/ otherwise. Both pages are never edited themselves.
var c15Entries = []string{"template-render", "render-file", "vue-render", "vue-fragment", "template-render@plain.vuego", "render-file@pages/p.vuego", "template-render-nofill", "render-file-nofill", "render-file-nofill@solo.vuego"}

// front-matter and body carry separate version numbers: an edit may change either part alone
func c15Content(file string, fmv, version int) string {
	switch file {
	case "page.vuego":
		// the page also hands a named slot to its layout: its content belongs to the page's version like the body does
		return fmt.Sprintf("---\nlayout: main\ntitle: T%d\n---\n<template #side><nav>side v%d {{ title }}</nav></template><h1>page v%d {{ title }}</h1><template include=\"comp.vuego\"></template>", fmv, version, version)
	case "comp.vuego":
		return fmt.Sprintf("---\ncv: C%d\n---\n<i>comp v%d {{ cv }}</i>", fmv, version)
	case "selfref.vuego": // a page whose top level REASSIGNS a variable of its own front-matter (a title suffix): read-modify-write per render
		return fmt.Sprintf("---\ntitle: R%d\ncount: 1\n---\n<template :title=\"title + ' | site'\" :count=\"count + 1\"></template><h1>selfref v%d {{ title }} #{{ count }}</h1>", fmv, version)
	case "solo.vuego": // names no layout: rendered as it is when layouts/base.vuego does not exist
		return fmt.Sprintf("---\ntitle: S%d\n---\n<p>solo v%d {{ title }}</p>", fmv, version)
	case "layouts/base.vuego", "pages/post.vuego", "layouts/post.vuego":
		return fmt.Sprintf("<section data-file=\"%s\" data-l=\"v%d\"><div v-html=\"content\"></div></section>", file, version)
	default:
		return fmt.Sprintf("---\nlv: L%d\n---\n<aside><slot name=\"side\">no side</slot></aside><main data-l=\"v%d\" :data-f=\"lv\"><template v-html=\"content\"></template></main>", fmv, version)
	}
}

func c15Call(t vuego.Template, entry string) (string, string) {
	var buf bytes.Buffer
	var err error
	page := "page.vuego"
	if i := strings.Index(entry, "@"); i >= 0 {
		entry, page = entry[:i], entry[i+1:]
	}
	func() {
		defer func() {
			if e := recover(); e != nil {
				err = fmt.Errorf("panic: %v", e)
			}
		}()
		switch entry {
		case "template-render":
			err = t.Load(page).Fill(map[string]any{"d": 1}).Render(context.Background(), &buf)
		case "render-file":
			err = t.New().Fill(map[string]any{"d": 1}).RenderFile(context.Background(), &buf, page)
		// the same two calls WITHOUT a Fill of their own: the loaded template holds the base template's variables and the file's front-matter
		case "template-render-nofill":
			err = t.Load(page).Render(context.Background(), &buf)
		case "render-file-nofill":
			err = t.RenderFile(context.Background(), &buf, page)
		case "vue-render":
			err = vuego.VerifVue(t).Render(&buf, page, map[string]any{"d": 1})
		case "vue-fragment":
			err = vuego.VerifVue(t).RenderFragment(&buf, page, map[string]any{"d": 1})
		}
	}()
	if err != nil {
		return "", "error"
	}
	return buf.String(), ""
}

// c15Run runs one history. fsKind: "" = the engine reads the mutable filesystem directly; "overlay" = through an OverlayFS whose upper layer
// is the mutable filesystem and whose lower layer holds older copies of every file with a zero modification time (embedded defaults under
// user content, the markdown package's arrangement); "overlay-nil" = an OverlayFS with a nil first layer over the mutable filesystem; "withfs" = the engine is built with New(WithFS(fs)) instead of NewFS(fs)
func c15Run(steps []c15Step, fsKind ...string) *Case {
	kind := ""
	if len(fsKind) > 0 {
		kind = fsKind[0]
	}
	c := &Case{Name: fmt.Sprintf("history of %d steps", len(steps)), Input: map[string]any{"steps": steps, "fs": kind}, Oracle: &Verdict{OK: true}}
	mfs := fstest.MapFS{}
	now := time.Unix(1700000000, 0)
	version := map[string]int{}
	fmVersion := map[string]int{}
	mt := map[string]time.Time{}
	hi, lo := now, now
	for _, f := range append(append([]string{}, c15Files...), "solo.vuego", "selfref.vuego") {
		version[f] = 1
		fmVersion[f] = 1
		mt[f] = now
		mfs[f] = &fstest.MapFile{Data: []byte(c15Content(f, 1, 1)), ModTime: now}
	}
	held := map[string]vuego.Template{} // template handles obtained with Load and kept across later steps
	mfs["plain.vuego"] = &fstest.MapFile{Data: []byte("<p>plain page</p>"), ModTime: now}
	mfs["pages/p.vuego"] = &fstest.MapFile{Data: []byte("---\nlayout: post\n---\n<p>sub page</p>"), ModTime: now}
	lower := fstest.MapFS{}
	for _, f := range c15Files {
		lower[f] = &fstest.MapFile{Data: []byte(c15Content(f, 0, 0))}
	}
	lower["plain.vuego"] = &fstest.MapFile{Data: []byte("<p>plain default</p>")}
	mkfs := func() fs.FS {
		switch kind {
		case "overlay":
			return vuego.NewOverlayFS(mfs, lower)
		case "overlay-nil":
			return vuego.NewOverlayFS(nil, mfs)
		}
		return mfs
	}
	// how the engine is built: NewFS(fs), or New(WithFS(fs)) - the option installs the filesystem after construction (kind "withfs")
	mkEngine := func() vuego.Template {
		if kind == "withfs" {
			return vuego.New(vuego.WithFS(mkfs()))
		}
		return vuego.NewFS(mkfs())
	}
	long := mkEngine()
	var obs []any
	var key strings.Builder
	for i, s := range steps {
		_ = i
		key.WriteString(s.Op + ":" + s.File + s.Entry + s.Mtime + ";")
		switch s.Op {
		case "edit", "invalid", "edit-fm", "edit-body", "empty-body", "empty-file", "drop-keys":
			if s.Op != "edit-fm" {
				version[s.File]++
			}
			if s.Op != "edit-body" {
				fmVersion[s.File]++
			}
			// every content change gets a modification time never used before (equal-mtime edits are outside the freshness claim)
			switch s.Mtime {
			case "back":
				lo = lo.Add(-5 * time.Second)
				mt[s.File] = lo
			case "back-ms":
				lo = lo.Add(-130 * time.Millisecond)
				mt[s.File] = lo
			case "advance-ms":
				hi = hi.Add(170 * time.Millisecond)
				mt[s.File] = hi
			default:
				hi = hi.Add(5 * time.Second)
				mt[s.File] = hi
			}
			content := c15Content(s.File, fmVersion[s.File], version[s.File])
			if s.Op == "invalid" {
				content = "---\n: : bad: [yaml\n---\n<p>broken</p>"
			}
			// a file reduced to its front-matter (no template text after the closing fence), and a file of no bytes at all: states
			// like any other - the next render shows them
			if s.Op == "empty-body" {
				if i := strings.Index(content[3:], "\n---\n"); strings.HasPrefix(content, "---") && i >= 0 {
					content = content[:3+i+5]
				} else {
					content = ""
				}
			}
			if s.Op == "empty-file" {
				content = ""
			}
			// the front-matter loses its keys (all but `layout`): what the file no longer defines is no longer defined
			if s.Op == "drop-keys" {
				var kept []string
				for _, ln := range strings.Split(content, "\n") {
					if strings.HasPrefix(ln, "title: ") || strings.HasPrefix(ln, "cv: ") || strings.HasPrefix(ln, "lv: ") || strings.HasPrefix(ln, "count: ") {
						continue
					}
					kept = append(kept, ln)
				}
				content = strings.Join(kept, "\n")
			}
			mfs[s.File] = &fstest.MapFile{Data: []byte(content), ModTime: mt[s.File]}
			obs = append(obs, nil)
		case "touch":
			// same content, same mtime object replaced (no change at all): the cache may answer
			if cur, ok := mfs[s.File]; ok {
				mfs[s.File] = &fstest.MapFile{Data: cur.Data, ModTime: mt[s.File]}
			}
			obs = append(obs, nil)
		case "delete":
			delete(mfs, s.File)
			obs = append(obs, nil)
		case "hold":
			// a handle is loaded now and rendered later (a handler that keeps its template across requests)
			func() {
				defer func() { recover() }()
				held[s.File] = long.Load(s.File).Fill(map[string]any{"d": 1})
			}()
			obs = append(obs, nil)
		case "render-held":
			// what the held handle itself renders is not compared (a fresh engine has no such handle); what it LEAVES BEHIND is: see the renders after it
			if h, ok := held[s.File]; ok {
				func() {
					defer func() { recover() }()
					var buf bytes.Buffer
					_ = h.Render(context.Background(), &buf)
				}()
			}
			obs = append(obs, nil)
		case "render":
			got, gerr := c15Call(long, s.Entry)
			fresh := mkEngine()
			want, werr := c15Call(fresh, s.Entry)
			obs = append(obs, map[string]any{"out": got, "err": gerr})
			if (got != want || gerr != werr) && c.Oracle.OK {
				cls := "stale"
				if _, exists := mfs["page.vuego"]; !exists && gerr == "" {
					cls = "stale-after-delete"
				}
				if kind != "" {
					cls += ":" + kind
				}
				c.Oracle = &Verdict{OK: false, Class: fmt.Sprintf("%s:%s", cls, s.Entry),
					Detail: fmt.Sprintf("step %d (%s): long-lived engine gives %q/%s, a fresh engine %q/%s", i, s.Entry, got, gerr, want, werr)}
			}
		}
	}
	c.Impl = obs
	c.Key = kind + "|" + key.String()
	if kind != "" {
		c.Tags = append(c.Tags, "fs:"+kind)
	}
	return c
}

// c15Solo: the cache model's own stream — histories over two plain files rendered through Vue.Render (the cached path)
func c15Solo(r *Run, n int) {
	files := []string{"a.vuego", "b.vuego"}
	for i := 0; i < n; i++ {
		mfs := fstest.MapFS{}
		v := vuego.NewVue(mfs)
		var ops []any
		var outs []any
		version := 0
		hi, lo := int64(1700000000), int64(1700000000)
		usedZero := map[string]bool{}
		// every other history moves the modification times in steps of a few milliseconds (several saves within one second): a time is
		// another time as soon as it differs at all
		fine := i%2 == 1
		stamp := func(mt int64) time.Time {
			if fine {
				return time.Unix(1700000000, 0).Add(time.Duration(mt-1700000000) * 9 * time.Millisecond)
			}
			return time.Unix(mt, 0)
		}
		for k := 3 + r.Rng.Intn(10); k > 0; k-- {
			f := files[r.Rng.Intn(2)]
			switch x := r.Rng.Intn(10); {
			case x < 4:
				var buf bytes.Buffer
				if err := v.Render(&buf, f, map[string]any{}); err != nil {
					outs = append(outs, nil)
				} else {
					var got int
					fmt.Sscanf(strings.TrimSpace(buf.String()), "<p>v%d</p>", &got)
					outs = append(outs, got)
				}
				ops = append(ops, map[string]any{"op": "render", "file": f})
			case x < 8:
				version++
				content := version
				src := fmt.Sprintf("<p>v%d</p>", version)
				if r.Rng.Intn(5) == 0 {
					content = 0
					src = "---\n: : bad: [yaml\n---\n<p>broken</p>"
				}
				var mt int64
				modTime := time.Time{}
				switch x := r.Rng.Intn(6); {
				case x == 0 && !usedZero[f]:
					// the zero time (what embed.FS and a default MapFS report): a time like any other, used at most once per file so that the
					// proviso "never two contents under one time" holds
					usedZero[f] = true
					mt = 0
				case x < 3:
					lo -= 7
					mt = lo
					modTime = stamp(mt)
				default:
					hi += 7
					mt = hi
					modTime = stamp(mt)
				}
				mfs[f] = &fstest.MapFile{Data: []byte(src), ModTime: modTime}
				ops = append(ops, map[string]any{"op": "write", "file": f, "content": content, "mtime": mt})
			default:
				delete(mfs, f)
				ops = append(ops, map[string]any{"op": "delete", "file": f})
			}
		}
		if outs == nil {
			outs = []any{}
		}
		r.Add(&Case{Name: "cache history", Op: true, Input: map[string]any{"op": "cache", "ops": ops}, Impl: outs, Key: fmt.Sprint(ops), Tags: []string{"stream:cache-model"}})
	}
}

func runC15(r *Run, replay *Case) {
	if replay != nil && replay.Input["op"] != "cache" {
		var steps []c15Step
		remarshal(replay.Input["steps"], &steps)
		k, _ := replay.Input["fs"].(string)
		r.Add(c15Run(steps, k))
		return
	}
	if replay != nil && replay.Input["op"] == "cache" {
		return
	}
	defer func() {
		n := 3000
		if r.Thorough() {
			n = 60000
		}
		c15Solo(r, n)
	}()
	r.Res.Rule = "histories over {edit (whole file / front-matter only / body only / down to the front-matter alone / down to no bytes), make invalid, delete, recreate(edit after delete), touch, render via 4 entry points} x {page, component, layout} x mtime {advance, back by seconds, advance, back by milliseconds within one second}; " +
		"exhaustive for short histories (every single mutation between two renders via every pair of entry points), random up to 10 steps; non-trivial = contains a mutation between two renders"
	var muts []c15Step
	for _, f := range c15Files {
		muts = append(muts, c15Step{Op: "edit-fm", File: f, Mtime: "advance"}, c15Step{Op: "edit-body", File: f, Mtime: "advance"}, c15Step{Op: "edit-fm", File: f, Mtime: "back"})
		muts = append(muts, c15Step{Op: "empty-body", File: f, Mtime: "advance"}, c15Step{Op: "empty-file", File: f, Mtime: "advance"}, c15Step{Op: "drop-keys", File: f, Mtime: "advance"})
		muts = append(muts, c15Step{Op: "edit", File: f, Mtime: "advance-ms"}, c15Step{Op: "edit-body", File: f, Mtime: "advance-ms"}, c15Step{Op: "edit-fm", File: f, Mtime: "back-ms"})
		muts = append(muts, c15Step{Op: "edit", File: f, Mtime: "advance"}, c15Step{Op: "edit", File: f, Mtime: "back"}, c15Step{Op: "invalid", File: f, Mtime: "advance"}, c15Step{Op: "delete", File: f}, c15Step{Op: "touch", File: f})
	}
	for _, e1 := range c15Entries {
		for _, e2 := range c15Entries {
			for _, m := range muts {
				r.Add(c15Run([]c15Step{{Op: "render", Entry: e1}, m, {Op: "render", Entry: e2}}))
				r.Add(c15Run([]c15Step{{Op: "render", Entry: e1}, m, {Op: "render", Entry: e2}, m, {Op: "render", Entry: e2}}, "overlay"))
				if e1 == e2 {
					r.Add(c15Run([]c15Step{{Op: "render", Entry: e1}, m, {Op: "render", Entry: e2}}, "overlay-nil"))
					r.Add(c15Run([]c15Step{{Op: "render", Entry: e1}, m, {Op: "render", Entry: e2}}, "withfs"))
				}
				for _, m2 := range muts {
					if r.Thorough() || (m.File == m2.File) {
						r.Add(c15Run([]c15Step{{Op: "render", Entry: e1}, m, {Op: "render", Entry: e2}, m2, {Op: "render", Entry: e1}, {Op: "render", Entry: e2}}))
					}
				}
			}
		}
	}
	// handles kept across edits: Load now, edit (or delete, or break) the file, render the kept handle, then render normally — with and
	// without layouts (the kept handle's bytes must not become what later renders are answered with)
	for _, page := range []string{"solo.vuego", "page.vuego"} {
		for _, noBase := range []bool{true, false} {
			for _, m := range []c15Step{{Op: "edit", File: page, Mtime: "advance"}, {Op: "edit-fm", File: page, Mtime: "advance"}, {Op: "edit-body", File: page, Mtime: "back"}, {Op: "invalid", File: page, Mtime: "advance"}, {Op: "delete", File: page}, {Op: "touch", File: page}} {
				for _, e := range []string{"template-render@" + page, "render-file@" + page, "vue-render@" + page} {
					for _, warm := range []bool{false, true} {
						var steps []c15Step
						if noBase {
							steps = append(steps, c15Step{Op: "delete", File: "layouts/base.vuego"})
						}
						if warm {
							steps = append(steps, c15Step{Op: "render", Entry: e})
						}
						steps = append(steps, c15Step{Op: "hold", File: page}, m, c15Step{Op: "render-held", File: page}, c15Step{Op: "render", Entry: e}, c15Step{Op: "render", Entry: e})
						r.Add(c15Run(steps))
						r.Add(c15Run(steps, "overlay"))
					}
				}
			}
		}
	}
	// a page that reassigns variables of its own front-matter, rendered again and again without an edit, then edited: answering from the cache
	// gives what re-reading gives
	for _, noBase := range []bool{true, false} {
		for _, e := range []string{"template-render@selfref.vuego", "render-file@selfref.vuego", "vue-render@selfref.vuego", "vue-fragment@selfref.vuego"} {
			for _, e2 := range []string{"template-render@selfref.vuego", "vue-render@selfref.vuego"} {
				var steps []c15Step
				if noBase {
					steps = append(steps, c15Step{Op: "delete", File: "layouts/base.vuego"})
				}
				steps = append(steps, c15Step{Op: "render", Entry: e}, c15Step{Op: "render", Entry: e2}, c15Step{Op: "render", Entry: e},
					c15Step{Op: "edit", File: "selfref.vuego", Mtime: "advance"}, c15Step{Op: "render", Entry: e2}, c15Step{Op: "render", Entry: e}, c15Step{Op: "render", Entry: e2})
				r.Add(c15Run(steps))
				r.Add(c15Run(steps, "overlay"))
			}
		}
	}
	r.Res.Exhaustive = true
	n := 1500
	if r.Thorough() {
		n = 40000
	}
	for i := 0; i < n; i++ {
		var steps []c15Step
		for k := 3 + r.Rng.Intn(8); k > 0; k-- {
			if r.Rng.Intn(2) == 0 {
				steps = append(steps, c15Step{Op: "render", Entry: c15Entries[r.Rng.Intn(len(c15Entries))]})
			} else {
				steps = append(steps, muts[r.Rng.Intn(len(muts))])
			}
		}
		steps = append(steps, c15Step{Op: "render", Entry: c15Entries[r.Rng.Intn(len(c15Entries))]})
		r.Add(c15Run(steps, []string{"", "withfs", "overlay", "overlay-nil"}[i%4]))
	}
}
