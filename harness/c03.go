package main

// C03 — conditional chains and uniform truthiness.
// Stream 1 (this file): helpers.IsTruthy on values of every Go kind vs the documented rule (oracle) and vs the Lean model.

import (
	"math"
	"fmt"

	vuego "github.com/titpetric/vuego"
)

func init() { props["C03"] = runC03 }

func c03Values() []any {
	var np *int
	one := 1
	zero := 0
	return []any{
		nil, true, false,
		int(0), int(1), int(-1), int8(0), int8(5), int16(0), int16(-3), int32(0), int32(7), int64(0), int64(9),
		uint(0), uint(2), uint8(0), uint8(200), uint16(0), uint16(3), uint32(0), uint32(4), uint64(0), uint64(1 << 40), uintptr(0), uintptr(8),
		float32(0), float32(1.5), float64(0), float64(-2.25), float64(1e21),
		// the negative zero of both float widths IS zero (it compares equal to 0 and only prints differently)
		math.Copysign(0, -1), float32(math.Copysign(0, -1)), float64(5e-324), float32(1e-45),
		"", "0", "false", "true", "False", " ", "x", "00",
		[]any{}, []any{0}, []int{}, []int{0, 1}, [2]int{0, 0}, map[string]any{}, map[string]any{"k": nil}, map[string]string{}, map[int]string{},
		S2{}, S2{X: 1}, &S2{}, (*S2)(nil), np, &one, &zero,
		MyStr(""), MyStr("x"), MyInt(0), MyInt(3),
	}
}

// documented rule: false, zero of any numeric type, "", nil are falsy; everything else truthy
func c03Documented(v any) bool {
	switch x := v.(type) {
	case nil:
		return false
	case bool:
		return x
	case string:
		return x != ""
	case int:
		return x != 0
	case int8:
		return x != 0
	case int16:
		return x != 0
	case int32:
		return x != 0
	case int64:
		return x != 0
	case uint:
		return x != 0
	case uint8:
		return x != 0
	case uint16:
		return x != 0
	case uint32:
		return x != 0
	case uint64:
		return x != 0
	case uintptr:
		return x != 0
	case float32:
		return x != 0
	case float64:
		return x != 0
	}
	return true
}

func c03TruthyCase(v any) *Case {
	got := vuego.VerifIsTruthy(v)
	want := c03Documented(v)
	c := &Case{Name: fmt.Sprintf("IsTruthy(%T %v)", v, v), Op: true, Input: map[string]any{"op": "truthy", "v": toVal(v)}, Impl: got,
		Key: fmt.Sprintf("truthy:%T:%v", v, v), Tags: []string{"stream:truthy", fmt.Sprintf("kind:%T", v)}}
	c.Oracle = &Verdict{OK: got == want}
	if got != want {
		c.Oracle.Class = fmt.Sprintf("truthy-%T-%v", v, v)
		if s, ok := v.(string); ok && s == "false" {
			c.Oracle.Class = "string-false-falsy"
		}
		c.Oracle.Detail = fmt.Sprintf("IsTruthy(%T(%v)) = %v, documented rule says %v", v, v, got, want)
	}
	return c
}

func runC03(r *Run, replay *Case) {
	if replay != nil {
		if replay.Input["op"] == "truthy" {
			r.Add(c03TruthyCase(fromVal(replay.Input["v"].(map[string]any))))
			return
		}
		if replay.Input["stream"] == "typehistory" {
			c03TypeHistory(r)
			return
		}
		if replay.Input["stream"] == "operand-history" {
			c03OperandHistory(r)
			c03OnceMemberHistory(r)
			c03OnceHeadForms(r)
			c03LoopedHeadTwoVars(r)
			flushPages(r)
			return
		}
		if replay.Input["stream"] == "pathcond" {
			for _, sh := range c03PathShapes() {
				if sh.name == replay.Input["shape"] {
					r.Add(c03PathCase(sh, replay.Input["a"] == true, replay.Input["b"] == true))
				}
			}
			return
		}
		c03ReplayChain(r, replay)
		return
	}
	r.Res.Rule = "stream truthy: every value of a catalogue covering all Go kinds (zero and non-zero of all 11 integer and 2 float kinds, strings incl. \"0\"/\"false\", nil, pointers, slices, maps, structs, named types); " +
		"stream chain: see c03chain.go; non-trivial = every case (each is a distinct value or chain shape)"
	for _, v := range c03Values() {
		r.Add(c03TruthyCase(v))
	}
	c03Chains(r)
	c03PathConds(r)
	c03TypeHistory(r)
	c03OperandHistory(r)
	c03OnceMemberHistory(r)
	c03OnceHeadForms(r)
	c03LoopedHeadTwoVars(r)
	// the history streams queue page-correspondence cases of their own
	flushPages(r)
}
