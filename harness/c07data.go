package main

// C07, stream "data" — what every link of a layout chain reads. Every file prints its own name, a fixed set of probe variables and the
// content it wraps: `[name|{{ k1 }}|{{ k2 }}|{{ k3 }}|<content>]`. The Lean model (Layout.dataLoop, op "layoutdata") computes the whole
// nested string from (front-matter of every file, Fill data, config); an independent oracle checks each link's probe values against the
// property's words: a link's own front-matter first, then the page's front-matter, the Fill data and the config — never the
// front-matter of another layout.

import (
	"bytes"
	"context"
	"fmt"
	"sort"
	"strings"
	"testing/fstest"
	"time"

	vuego "github.com/titpetric/vuego"
)

var c07Probes = []string{"k1", "k2", "k3"}

type c07DataGraph struct {
	page   string
	fm     map[string]map[string]string // file -> front-matter (incl. "layout")
	fill   map[string]string
	config map[string]string
}

func (g c07DataGraph) files() map[string]string {
	out := map[string]string{}
	for f, fm := range g.fm {
		var sb strings.Builder
		if len(fm) > 0 {
			sb.WriteString("---\n")
			keys := make([]string, 0, len(fm))
			for k := range fm {
				keys = append(keys, k)
			}
			sort.Strings(keys)
			for _, k := range keys {
				fmt.Fprintf(&sb, "%s: %s\n", k, fm[k])
			}
			sb.WriteString("---\n")
		}
		sb.WriteString("[" + f)
		for _, k := range c07Probes {
			sb.WriteString("|{{ " + k + " }}")
		}
		sb.WriteString("|<template v-html=\"content\"></template>]")
		out[f] = sb.String()
	}
	if len(g.config) > 0 {
		var sb strings.Builder
		keys := make([]string, 0, len(g.config))
		for k := range g.config {
			keys = append(keys, k)
		}
		sort.Strings(keys)
		for _, k := range keys {
			fmt.Fprintf(&sb, "%s: %s\n", k, g.config[k])
		}
		out["theme.yml"] = sb.String()
	}
	return out
}

func pairs(m map[string]string) []any {
	keys := make([]string, 0, len(m))
	for k := range m {
		keys = append(keys, k)
	}
	sort.Strings(keys)
	out := []any{}
	for _, k := range keys {
		v := m[k]
		if v == `""` {
			v = "" // the YAML spelling of the empty string
		}
		if v == "~" {
			out = append(out, []any{k, nil}) // the YAML null: the key is present and holds nil
			continue
		}
		out = append(out, []any{k, v})
	}
	return out
}

// parse `[name|a|b|c|<rest>]` nests, outermost first
func c07ParseNest(s string) (links [][]string, ok bool) {
	for s != "" {
		if !strings.HasPrefix(s, "[") || !strings.HasSuffix(s, "]") {
			return nil, false
		}
		s = s[1 : len(s)-1]
		parts := strings.SplitN(s, "|", len(c07Probes)+2)
		if len(parts) != len(c07Probes)+2 {
			return nil, false
		}
		links = append(links, parts[:len(c07Probes)+1])
		s = parts[len(c07Probes)+1]
	}
	return links, true
}

func c07DataCase(g c07DataGraph, desc string) *Case {
	files := g.files()
	fill := map[string]any{}
	for k, v := range g.fill {
		fill[k] = v
	}
	res := renderPage(files, g.page, fill)
	var fl []any
	names := make([]string, 0, len(g.fm))
	for f := range g.fm {
		names = append(names, f)
	}
	sort.Strings(names)
	for _, f := range names {
		fl = append(fl, []any{f, pairs(g.fm[f])})
	}
	var impl map[string]any
	stripped := strings.Join(strings.Fields(res.Out), "")
	if res.Err != "" || res.Panic != "" || res.Timeout {
		impl = map[string]any{"err": true}
	} else {
		impl = map[string]any{"ok": stripped}
	}
	c := &Case{Name: "data " + desc, Op: true, Input: map[string]any{"op": "layoutdata", "files": fl, "page": g.page, "fill": pairs(g.fill), "config": pairs(g.config), "probes": c07Probes, "desc": desc,
		"graph": map[string]any{"page": g.page, "fm": g.fm, "fill": g.fill, "config": g.config}},
		Impl: impl, Key: "data:" + desc, Oracle: &Verdict{OK: true}, Tags: []string{"stream:data", fmt.Sprintf("files:%d", len(g.fm))}}
	if res.Panic != "" || res.Timeout {
		c.Oracle = &Verdict{OK: false, Class: "data-chain-crash", Detail: fmt.Sprintf("%+v", res)}
		return c
	}
	if res.Err != "" {
		c.Tags = append(c.Tags, "links:error")
		return c
	}
	links, ok := c07ParseNest(stripped)
	c.Tags = append(c.Tags, fmt.Sprintf("links:%d", len(links)))
	if !ok || len(links) == 0 {
		c.Oracle = &Verdict{OK: false, Class: "data-visibility:unparsable-output", Detail: res.Out}
		return c
	}
	// innermost link is the page
	if links[len(links)-1][0] != g.page {
		c.Oracle = &Verdict{OK: false, Class: "data-visibility:innermost-is-not-the-page", Detail: res.Out}
		return c
	}
	pageFM := g.fm[g.page]
	for _, l := range links {
		own := g.fm[l[0]]
		for i, k := range c07Probes {
			// a key that a source sets to the YAML null (`k: ~`) is PRESENT there: it prints as nothing and hides the lower sources
			want := ""
			switch {
			case own[k] != "":
				want = own[k]
			case pageFM[k] != "":
				want = pageFM[k]
			case g.fill[k] != "":
				want = g.fill[k]
			default:
				want = g.config[k]
			}
			if want == "~" {
				want = ""
			}
			if l[i+1] != want {
				c.Oracle = &Verdict{OK: false, Class: "data-visibility:link-reads-wrong-value", Detail: fmt.Sprintf("%s: link %s reads %s=%q, expected %q (own front-matter %v, page front-matter %v, fill %v, config %v); output %q", desc, l[0], k, l[i+1], want, own, pageFM, g.fill, g.config, stripped)}
				return c
			}
		}
	}
	return c
}

func c07DataStream(r *Run) {
	n := 300
	if r.Thorough() {
		n = 6000
	}
	layouts := []string{"layouts/a.vuego", "layouts/b.vuego", "layouts/c.vuego", "layouts/base.vuego", "sub/d.vuego"}
	layoutKeys := []string{"a", "b", "c", "base", "../sub/d", "d", "nope"}
	for i := 0; i < n; i++ {
		g := c07DataGraph{page: "p.vuego", fm: map[string]map[string]string{}, fill: map[string]string{}, config: map[string]string{}}
		if r.Rng.Intn(4) == 0 {
			g.page = "sub/p.vuego"
		}
		fileSet := []string{g.page}
		for _, l := range layouts {
			if r.Rng.Intn(7) != 0 {
				fileSet = append(fileSet, l)
			}
		}
		for _, f := range fileSet {
			fm := map[string]string{}
			short := strings.TrimSuffix(f[strings.LastIndex(f, "/")+1:], ".vuego")
			for _, k := range c07Probes {
				if r.Rng.Intn(3) == 0 {
					fm[k] = short + "-" + k
				}
			}
			// layout pointer: mostly forward (a -> b -> c -> none) so that chains of 2-4 links are common, sometimes arbitrary (cycles, missing)
			switch {
			case r.Rng.Intn(8) == 0:
				fm["layout"] = layoutKeys[r.Rng.Intn(len(layoutKeys))]
			case f == g.page:
				if r.Rng.Intn(5) != 0 {
					fm["layout"] = "a"
				}
			case short == "a" && r.Rng.Intn(3) != 0:
				fm["layout"] = "b"
			case short == "b" && r.Rng.Intn(2) == 0:
				fm["layout"] = "c"
			}
			g.fm[f] = fm
		}
		for _, k := range c07Probes {
			if r.Rng.Intn(2) == 0 {
				g.fill[k] = "F-" + k
			}
			if r.Rng.Intn(3) == 0 {
				g.config[k] = "T-" + k
			}
		}
		if r.Rng.Intn(10) == 0 {
			g.fill["layout"] = "b" // a layout named by the caller's data only
		}
		if r.Rng.Intn(8) == 0 {
			g.fm[g.page]["layout"] = `""` // present but empty: names no layout
		}
		// explicit nulls in front-matter: a probe key of the page or of a layout, the page's `layout:` itself
		if r.Rng.Intn(4) == 0 {
			f := fileSet[r.Rng.Intn(len(fileSet))]
			g.fm[f][c07Probes[r.Rng.Intn(len(c07Probes))]] = "~"
		}
		if r.Rng.Intn(12) == 0 {
			g.fm[g.page]["layout"] = "~"
			if r.Rng.Intn(2) == 0 {
				g.fill["layout"] = "b"
			}
		}
		r.Add(c07DataCase(g, fmt.Sprintf("g%d", i)))
	}
}

func c07DataReplay(r *Run, replay *Case) {
	var g c07DataGraph
	raw, _ := replay.Input["graph"].(map[string]any)
	g.page, _ = raw["page"].(string)
	g.fm = map[string]map[string]string{}
	remarshal(raw["fm"], &g.fm)
	remarshal(raw["fill"], &g.fill)
	remarshal(raw["config"], &g.config)
	if g.fill == nil {
		g.fill = map[string]string{}
	}
	if g.config == nil {
		g.config = map[string]string{}
	}
	r.Add(c07DataCase(g, fmt.Sprint(replay.Input["desc"])))
}

// layout resolution has no memory: on ONE engine, pages of different directories that name the same layout are rendered one after the
// other in every order; each output must be what a fresh engine gives for that page alone
// c07BaseAppears: `layouts/base.vuego` is applied when, and only when, the page names no layout and that file EXISTS — at the time of the
// render: the file appears, disappears and appears again under a long-lived engine (both constructors)
func c07BaseAppears(r *Run) {
	lay := `<main data-m="base"><div v-html="content"></div></main>`
	for _, ctor := range []string{"NewFS", "New+WithFS"} {
		for _, start := range []bool{false, true} {
			mfs := fstest.MapFS{"p.vuego": &fstest.MapFile{Data: []byte(`<p data-m="page">x</p>`), ModTime: time.Unix(1700000000, 0)},
				"q.vuego":             &fstest.MapFile{Data: []byte("---\nlayout: other\n---\n<p data-m=\"page\">q</p>"), ModTime: time.Unix(1700000000, 0)},
				"layouts/other.vuego": &fstest.MapFile{Data: []byte(`<section data-m="other"><div v-html="content"></div></section>`), ModTime: time.Unix(1700000000, 0)}}
			present := start
			if present {
				mfs["layouts/base.vuego"] = &fstest.MapFile{Data: []byte(lay), ModTime: time.Unix(1700000000, 0)}
			}
			var long vuego.Template
			if ctor == "NewFS" {
				long = vuego.NewFS(mfs)
			} else {
				long = vuego.New(vuego.WithFS(mfs))
			}
			for step := 0; step < 5; step++ {
				for _, page := range []string{"p.vuego", "q.vuego"} {
					var buf bytes.Buffer
					err := long.Load(page).Fill(map[string]any{}).Render(context.Background(), &buf)
					got := buf.String()
					wrapped := strings.Contains(got, `data-m="base"`)
					want := present && page == "p.vuego"
					c := &Case{Name: fmt.Sprintf("base appears: %s start=%v step %d page %s present=%v", ctor, start, step, page, present), Input: map[string]any{"op": "history", "stream": "base-appears"},
						Impl: map[string]any{"out": got}, Key: fmt.Sprintf("baseappears|%s|%v|%d|%s", ctor, start, step, page), Tags: []string{"stream:base-appears"}, Oracle: &Verdict{OK: true}}
					if err != nil || wrapped != want || !strings.Contains(got, `data-m="page"`) {
						c.Oracle = &Verdict{OK: false, Class: "default-layout-not-by-current-files:" + ctor, Detail: fmt.Sprintf("%s: layouts/base.vuego present=%v, page %s names %s layout: default applied=%v, err=%v; output %q", c.Name, present, page,
							map[bool]string{true: "no", false: "a"}[page == "p.vuego"], wrapped, err, got)}
					}
					r.Add(c)
				}
				// toggle the file
				present = !present
				if present {
					mfs["layouts/base.vuego"] = &fstest.MapFile{Data: []byte(lay), ModTime: time.Unix(1700000000+int64(step)+1, 0)}
				} else {
					delete(mfs, "layouts/base.vuego")
				}
			}
		}
	}
}

func c07History(r *Run) {
	c07BaseAppears(r)
	lay := func(m string) string { return `<div data-m="` + m + `"><div v-html="content"></div></div>` }
	pg := func(l string) string { return "---\nlayout: " + l + "\n---\n<p data-m=\"page\">x</p>" }
	sets := []map[string]string{
		{"pages/about.vuego": pg("frame"), "blog/post.vuego": pg("frame"), "blog/frame.vuego": lay("blog-frame"), "layouts/frame.vuego": lay("shared-frame")},
		{"pages/about.vuego": pg("frame.vuego"), "blog/post.vuego": pg("frame.vuego"), "blog/frame.vuego": lay("blog-frame"), "layouts/frame.vuego.vuego": lay("odd"), "layouts/frame.vuego": lay("shared-frame"), "pages/frame.vuego": lay("pages-frame")},
		{"a/p.vuego": pg("w"), "b/p.vuego": pg("w"), "c/p.vuego": pg("w"), "a/w.vuego": lay("a-w"), "c/w.vuego": "---\nlayout: base\n---\n" + lay("c-w"), "layouts/w.vuego": lay("shared-w"), "layouts/base.vuego": lay("base"), "c/base.vuego": lay("c-base")},
	}
	for si, files := range sets {
		var pages []string
		for n := range files {
			if strings.HasSuffix(n, "p.vuego") || strings.HasSuffix(n, "about.vuego") || strings.HasSuffix(n, "post.vuego") {
				pages = append(pages, n)
			}
		}
		sort.Strings(pages)
		var orders [][]string
		var perm func(cur, rest []string)
		perm = func(cur, rest []string) {
			if len(rest) == 0 {
				orders = append(orders, append([]string{}, cur...))
				return
			}
			for i := range rest {
				nr := append(append([]string{}, rest[:i]...), rest[i+1:]...)
				perm(append(cur, rest[i]), nr)
			}
		}
		perm(nil, pages)
		for _, order := range orders {
			mfs := fstest.MapFS{}
			for n, c := range files {
				mfs[n] = &fstest.MapFile{Data: []byte(c), ModTime: time.Unix(1700000000, 0)}
			}
			long := vuego.NewFS(mfs)
			for k := 0; k < 2; k++ { // twice round: the second round meets whatever the first one left behind
				for _, p := range order {
					var buf bytes.Buffer
					err := long.Load(p).Fill(map[string]any{}).Render(context.Background(), &buf)
					fresh := renderPage(files, p, map[string]any{})
					got := buf.String()
					c := &Case{Name: fmt.Sprintf("history set %d order %v round %d page %s", si, order, k, p), Input: map[string]any{"op": "history", "set": si, "order": order, "page": p},
						Impl: map[string]any{"out": got}, Key: fmt.Sprintf("hist|%d|%v|%d|%s", si, order, k, p), Tags: []string{"stream:history"}, Oracle: &Verdict{OK: true}}
					if (err != nil) != (fresh.Err != "") || got != fresh.Out {
						c.Oracle = &Verdict{OK: false, Class: "layout-depends-on-render-history", Detail: fmt.Sprintf("page %s after %v (round %d): %q / err=%v; on a fresh engine %q / %q", p, order, k, got, err, fresh.Out, fresh.Err)}
					}
					r.Add(c)
				}
			}
		}
	}
}
