//go:build verif

package main

import (
	"errors"
	"fmt"
	"sort"
	"strings"
	"time"

	vuego "github.com/titpetric/vuego"
)

// c11UserFuncs: functions a USER registers, one per parameter kind the call machinery converts arguments to (string, every number kind,
// bool, typed slices, maps, pointers, structs, interfaces, variadic tails) and per result shape (value, (value, error), error only,
// panicking body is the user's business and not generated). Each is called with every value of the argument pool, in the pipe and in the
// call form, with one and with two arguments. The engine may reject a call with an error; it may not panic, crash or hang.
func c11UserFuncMap() vuego.FuncMap {
	return vuego.FuncMap{
		"uStr":      func(s string) string { return "[" + s + "]" },
		"uInt":      func(i int) int { return i + 1 },
		"uInt8":     func(i int8) int8 { return i },
		"uUint":     func(u uint) uint { return u },
		"uFloat":    func(f float64) float64 { return f * 2 },
		"uFloat32":  func(f float32) float32 { return f },
		"uBool":     func(b bool) bool { return !b },
		"uStrs":     func(xs []string) string { return strings.Join(xs, ",") },
		"uInts":     func(xs []int) int { return len(xs) },
		"uFloats":   func(xs []float64) int { return len(xs) },
		"uAnys":     func(xs []any) int { return len(xs) },
		"uStrss":    func(xs [][]string) int { return len(xs) },
		"uMap":      func(m map[string]any) int { return len(m) },
		"uMapStr":   func(m map[string]string) int { return len(m) },
		"uMapInt":   func(m map[string]int) int { return len(m) },
		"uAny":      func(v any) string { return fmt.Sprintf("%T", v) },
		"uTime":     func(t time.Time) string { return t.Format("2006") },
		"uTimePtr":  func(t *time.Time) bool { return t == nil },
		"uStruct":   func(s S2) int { return s.X },
		"uPtr":      func(s *S2) bool { return s == nil },
		"uErr":      func(s string) (string, error) { return s, errors.New("user error") },
		"uOnlyErr":  func(s string) error { return nil },
		"uVarStr":   func(sep string, xs ...string) string { return strings.Join(xs, sep) },
		"uVarAny":   func(xs ...any) int { return len(xs) },
		"uVarInts":  func(xs ...int) int { return len(xs) },
		"uTwo":      func(a string, b int) string { return a },
		"uStringer": func(s fmt.Stringer) string { return "s" },
		"uFunc":     func(f func()) bool { return f == nil },
		"uChan":     func(c chan int) bool { return c == nil },
		"uArr":      func(a [2]int) int { return a[0] },
		"uNone":     func() string { return "none" },
	}
}

func c11UserArgs() []c11Arg {
	var nilStrs []string
	args := append([]c11Arg{}, c11BuiltinArgs()...)
	return append(args,
		c11Arg{"lstNilFirst", []any{nil, "x"}}, c11Arg{"lstAllNil", []any{nil, nil}}, c11Arg{"lstEmpty", []any{}}, c11Arg{"lstStrs", []any{"a", "b"}}, c11Arg{"lstNums", []any{1, 2.5, int64(3)}},
		c11Arg{"lstMixed", []any{"a", 1, true, nil, []any{nil}, map[string]any{"k": nil}}}, c11Arg{"lstNested", []any{[]any{"a", nil}, []any{}}}, c11Arg{"strs", []string{"p", "q"}}, c11Arg{"nilStrs", nilStrs},
		c11Arg{"anyPtrNil", []any{(*S2)(nil), (*time.Time)(nil)}}, c11Arg{"mapNilVals", map[string]any{"a": nil, "b": []any{nil}}}, c11Arg{"mapStr", map[string]string{"a": "b"}}, c11Arg{"arr", [2]int{1, 2}},
		c11Arg{"bigF", 1e300}, c11Arg{"negF", -0.5}, c11Arg{"u64", ^uint64(0)},
	)
}

func c11UserFuncInputs() ([]map[string]any, map[string]any) {
	var names []string
	for n := range c11UserFuncMap() {
		names = append(names, n)
	}
	sort.Strings(names)
	args := c11UserArgs()
	data := map[string]any{}
	for _, a := range args {
		data[a.name] = a.v
	}
	var ins []map[string]any
	for _, fn := range names {
		for _, a := range args {
			for _, form := range []string{"%[2]s | %[1]s", "%[1]s(%[2]s)", "%[1]s(%[2]s, %[2]s)", "%[2]s | %[1]s(lstMixed)", "%[1]s(s, %[2]s, %[2]s)", "%[1]s()"} {
				expr := fmt.Sprintf(form, fn, a.name)
				for _, pos := range []string{"text", "if"} {
					tpl := "<p>{{ " + expr + " }}</p>"
					if pos == "if" {
						tpl = `<p v-if="` + expr + `">y</p><p :title="` + expr + `">z</p><i v-for="q in ` + expr + `">{{ q }}</i>`
					}
					ins = append(ins, map[string]any{"stream": "userfunc", "expr": expr, "pos": pos, "tpl": tpl, "fn": fn, "arg": a.name})
				}
			}
		}
	}
	return ins, data
}

func c11UserFuncEval(in map[string]any, data map[string]any) *Case {
	expr, pos, tpl, fn := in["expr"].(string), in["pos"].(string), in["tpl"].(string), in["fn"].(string)
	res := renderPage(map[string]string{"p.vuego": tpl}, "p.vuego", data, vuego.WithFuncs(c11UserFuncMap()))
	c := &Case{Name: "userfunc " + expr + " in " + pos, Input: map[string]any{"stream": "userfunc", "expr": expr, "pos": pos, "tpl": tpl}, Impl: res.canon(), Oracle: &Verdict{OK: true},
		Key: "userfunc|" + pos + "|" + expr, Tags: []string{"stream:userfunc", "fn:" + fn}}
	if res.Panic != "" {
		c.Oracle = &Verdict{OK: false, Class: "panic:userfunc:" + fn, Detail: fmt.Sprintf("%s with %s = %#v panicked: %s", expr, in["arg"], data[fmt.Sprint(in["arg"])], res.Panic)}
	} else if res.Timeout {
		c.Oracle = &Verdict{OK: false, Class: "hang:userfunc:" + fn, Detail: expr}
	}
	return c
}

func c11UserFuncs(r *Run) {
	ins, data := c11UserFuncInputs()
	r.Res.Distribution["userfuncs"] = len(ins)
	c11Guarded(r, "userfunc", len(ins), func(i int) *Case { return c11UserFuncEval(ins[i], data) }, func(i int) map[string]any { return ins[i] })
}
