#!/bin/sh
# Offline setup: build the extractor, regenerate Vuego/Generated from /repo, build the Lean library + driver, build the harness.
set -e
cd "$(dirname "$0")"
export GOFLAGS=-mod=mod GOPROXY=off
unset GOTOOLCHAIN GOSUMDB || true
mkdir -p bin evidence
(cd extract && go build -o ../bin/extract .)
./bin/extract -repo "${VERIF_REPO:-/repo}" -out lean/Vuego/Generated > /dev/null || true
(cd lean && lake build Vuego driver 2>&1 | tail -5) || true
cp /repo/go.sum harness/go.sum
(cd harness && go build -tags verif -o ../bin/vharness .)
echo setup done
