import Vuego.Driver.Ops
open Vuego.Driver

partial def loop (hin : IO.FS.Stream) (hout : IO.FS.Stream) : IO Unit := do
  let line ← hin.getLine
  if line.isEmpty then return ()
  let t := line.trimAscii.toString
  if t.isEmpty then loop hin hout else
  hout.putStrLn (handleLine t)
  hout.flush
  loop hin hout

def main : IO Unit := do
  loop (← IO.getStdin) (← IO.getStdout)
