-- root of the library: every module, so that `lake build Vuego` checks everything
import Vuego.Go.Strings
import Vuego.Model.TruthRule
import Vuego.Model.Overlay
import Vuego.Lemmas.Overlay
import Vuego.Generated.Leaf
import Vuego.Generated.Truthy
import Vuego.Generated.Overlay
import Vuego.Generated.Consts
import Vuego.Props.C18
import Vuego.Driver.Ops
