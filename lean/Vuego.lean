-- root of the library: every module, so that `lake build Vuego` checks everything
import Vuego.Go.Strings
import Vuego.Model.TruthRule
import Vuego.Model.Val
import Vuego.Model.Truthy
import Vuego.Model.Stack
import Vuego.Model.Overlay
import Vuego.Lemmas.Overlay
import Vuego.Lemmas.Stack
import Vuego.Generated.Leaf
import Vuego.Generated.Truthy
import Vuego.Generated.Overlay
import Vuego.Generated.Consts
import Vuego.Generated.Reflect
import Vuego.Props.C17
import Vuego.Props.C18
import Vuego.Driver.Ops
