import Vuego.Driver.J
import Vuego.Model.Stack
namespace Vuego.Driver
open Lean Go Vuego

def intKindOf (s : String) : IntKind :=
  match s with
  | "int" => .int | "int8" => .int8 | "int16" => .int16 | "int32" => .int32 | "int64" => .int64
  | "uint" => .uint | "uint8" => .uint8 | "uint16" => .uint16 | "uint32" => .uint32 | "uint64" => .uint64
  | _ => .uintptr

def mapKindOf (s : String) : MapKind :=
  match s with | "any" => .anyMap | "str" => .strMap | "other" => .otherStrKey | _ => .nonStrKey

def mapKindName : MapKind → String
  | .anyMap => "any" | .strMap => "str" | .otherStrKey => "other" | .nonStrKey => "nonstr"

partial def valOfJson (j : Json) : Val :=
  match jString j "t" with
  | "nil" => .nil
  | "bool" => .bool (jbool j "v")
  | "int" => .int (intKindOf (jString j "k")) ((jString j "v").toInt?.getD 0)
  | "float" => .float (if jString j "k" == "float32" then .float32 else .float64) (jbool j "z") (jstrK j "p")
  | "str" => .str (jstrK j "v")
  | "list" => .list (jbool j "arr") ((jarrK j "v").map valOfJson)
  | "map" => .map (mapKindOf (jString j "mk")) ((jarrK j "v").map (fun e => match jarr e with | [k, v] => (jstr k, valOfJson v) | _ => ([], .nil)))
  | "struct" => .strct ((jarrK j "v").map (fun e => match jarr e with
      | [n, t, ex, v] => (jstr n, jstr t, (match ex with | .bool b => b | _ => false), valOfJson v)
      | _ => ([], [], false, .nil)))
  | "ptr" => if jisNull (jget j "v") then .ptr none else .ptr (some (valOfJson (jget j "v")))
  | "opaque" => .opaq (jString j "tn") (jstrK j "p")
  | _ => .nil

/-- canonical output form: compared with the harness's `toVal` after dropping its "ty"/"name"/"nilslice" annotations -/
partial def valToJson : Val → Json
  | .nil => O [("t", "nil")]
  | .bool b => O [("t", "bool"), ("v", B b)]
  | .int k n => O [("t", "int"), ("k", Json.str k.name), ("v", Json.str (toString n))]
  | .float k z p => O [("t", "float"), ("k", Json.str k.name), ("z", B z), ("p", S p)]
  | .str s => O [("t", "str"), ("v", S s)]
  | .list a xs => O [("t", "list"), ("arr", B a), ("v", A (xs.map valToJson))]
  | .map mk kvs => O [("t", "map"), ("mk", Json.str (mapKindName mk)), ("v", A ((List.mergeSort kvs (fun a b => decide (a.1 ≤ b.1))).map (fun (k, v) => A [S k, valToJson v])))]
  | .strct fs => O [("t", "struct"), ("v", A (fs.map (fun (n, t, e, v) => A [S n, S t, B e, valToJson v])))]
  | .ptr none => O [("t", "ptr"), ("v", Json.null)]
  | .ptr (some v) => O [("t", "ptr"), ("v", valToJson v)]
  | .opaq t p => O [("t", "opaque"), ("tn", Json.str t), ("p", S p)]

def resJson {α : Type} (f : α → Json) : Res α → Json
  | .ok a => f a
  | .err c m => O [("err", Json.str c), ("msg", S m)]
  | .panic _ => O [("panic", B true)]
  | .hang _ => O [("hang", B true)]
  | .fuel => O [("fuel", B true)]

def optValJson : Option Val → Json
  | some v => O [("found", B true), ("val", valToJson v)]
  | none => O [("found", B false)]

def sortScope (m : Scope) : Scope :=
  List.mergeSort m (fun a b => decide (a.1 ≤ b.1))

def scopeJson (m : Scope) : Json := A (List.map (fun (p : Str × Val) => A [S p.1, valToJson p.2]) (sortScope m))

end Vuego.Driver
