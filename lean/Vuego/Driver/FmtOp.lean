import Vuego.Driver.J
import Vuego.Model.Fmt
import Vuego.Model.FmtTree
import Vuego.Driver.DomJson
namespace Vuego.Driver
open Lean Go Vuego.Fmt

/-- formatter leaf writers and the reading model, against formatter.* (hooks) and x/net/html -/
def fmtOp (j : Json) : Json :=
  match jString j "kind" with
  | "opentag" =>
    let attrs := (jarrK j "attrs").map (fun a => match jarr a with | [k, v] => (jstr k, jstr v) | _ => ([], []))
    O [("out", S (renderOpenTag (jstrK j "tag") attrs))]
  | "text" =>
    let s := jstrK j "s"
    O [("out", S (escapeText (s.length + 1) s))]
  | "attrread" =>
    -- what an HTML reader gets back from the written value
    match readAttrValue entity4 (writeAttrValue (jstrK j "v")) with
    | some (v, rest) => O [("value", S v), ("rest", S rest)]
    | none => O [("value", S []), ("rest", S [])]
  | "fm" =>
    let content := jstrK j "s"
    let (fm, body) := splitFM (splitChar '\n' content)
    if fm == [] then O [("fm", S []), ("body", S content)]
    else O [("fm", S (joinWith ['\n'] fm ++ ['\n'])), ("body", S (joinWith ['\n'] body))]
  | "tree" =>
    -- formatNode over each parsed node at the given depth (default indent width 2)
    let nodes := (jarrK j "nodes").map nodeOfJson
    let d := match jget j "depth" with | .num n => n.mantissa.toNat | _ => 0
    O [("out", S (Vuego.FmtTree.formatKids 2 d nodes))]
  | "normtext" => O [("out", S (Vuego.FmtTree.normalizeInlineText (jstrK j "s")))]
  | _ => O [("error", Json.str "bad-kind")]

end Vuego.Driver
