import Vuego.Driver.J
import Vuego.Model.FrontMatter
namespace Vuego.Driver
open Lean Go Vuego

/-- {"op":"extractfm","s":file content} -> {"none":true} | {"yaml":text between the fences,"body":template text} -/
def extractFmOp (j : Json) : Json :=
  match FrontMatter.extract (jstrK j "s") with
  | none => O [("none", B true)]
  | some (y, b) => O [("yaml", S y), ("body", S b)]

end Vuego.Driver
