import Vuego.Driver.J
import Vuego.Model.Cache
import Vuego.Generated.CacheFacts
namespace Vuego.Driver
open Lean Go Vuego.Cache

/-- history over files whose content is a version number; content 0 stands for an unparsable file -/
def cacheOp (j : Json) : Json :=
  let parse : Nat → Option Nat := fun c => if c == 0 then none else some c
  let ops : List (Op Nat) := (jarrK j "ops").map (fun o =>
    match jString o "op" with
    | "write" => Op.write (jstrK o "file") (jnat o "content") (jnat o "mtime")
    | "delete" => Op.delete (jstrK o "file")
    | _ => Op.render (jstrK o "file"))
  let s0 : State Nat Nat := { fs := fun _ => none, cache := fun _ => none }
  let (_, outs) := ops.foldl (fun (acc : State Nat Nat × List Json) op =>
    match step parse Generated.cacheStatFailureIsMiss Generated.cacheZeroMtimeIsHit acc.1 op with
    | (s', some (some v)) => (s', acc.2 ++ [N v])
    | (s', some none) => (s', acc.2 ++ [Json.null])
    | (s', none) => (s', acc.2)) (s0, [])
  A outs

end Vuego.Driver
