import Vuego.Driver.J
import Vuego.Model.Overlay
import Vuego.Generated.Overlay
namespace Vuego.Driver
open Lean Go Vuego.Overlay

def entryOfJson (j : Json) : Option Entry :=
  if !(jisNull (jget j "file")) then some (.file (jstrK j "file"))
  else if !(jisNull (jget j "dir")) then
    some (.dir ((jarrK j "dir").map (fun e => match jarr e with | [n, d] => (jstr n, match d with | .bool b => b | _ => false) | _ => ([], false))))
  else none

def layerOfJson (j : Json) : Option Layer :=
  if jisNull j then none else
  let look := (jfields (jget j "look")).map (fun (k, v) => (k.toList, entryOfJson v))
  let globs := (jfields (jget j "glob")).map (fun (k, v) => (k.toList, (jarr v).map jstr))
  some { look := fun p => (look.lookup p).join, glob := fun pat => (globs.lookup pat).getD [] }

def entryJson : Entry → Json
  | .file c => O [("file", S c)]
  | .dir es => O [("dir", A (es.map (fun (n, d) => A [S n, B d])))]

def overlayOp (j : Json) : Json :=
  let chain : Chain := (jarrK j "layers").map layerOfJson
  let arg := jstrK j "arg"
  match jString j "q" with
  | "open" => match «open» chain arg with
    | some (k, e) => O [("ok", B true), ("layer", N k), ("entry", entryJson e)]
    | none => O [("ok", B false)]
  | "stat" => (match stat chain arg with
    | some (k, true, _) => O [("ok", B true), ("layer", N k), ("dir", B true)]
    | some (k, false, n) => O [("ok", B true), ("layer", N k), ("dir", B false), ("size", N n)]
    | none => O [("ok", B false)])
  | "readfile" =>
    -- fs.ReadFile(overlay, p): the overlay has no ReadFile of its own (see Generated.overlayMethods), so this is Open + read:
    -- the file of the first layer that has the path; a directory there is an error
    (match «open» chain arg with
     | some (_, .file c) => O [("ok", B true), ("content", S c)]
     | _ => O [("ok", B false)])
  | "readdir" => match readDirWith Generated.overlayErrRule chain arg with
    | some l => O [("ok", B true), ("entries", A (l.map (fun (n, d, k) => A [S n, B d, N k])))]
    | none => O [("ok", B false)]
  | "glob" => O [("ok", B true), ("matches", A ((glob chain arg).map S))]
  | _ => O [("error", Json.str "bad-q")]

end Vuego.Driver
