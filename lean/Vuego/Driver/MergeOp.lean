import Vuego.Driver.J
import Vuego.Model.Merge
import Vuego.Generated.MergeFacts
namespace Vuego.Driver
open Lean Go Vuego Vuego.Merge

def single (k : Str) (present : Bool) (v : String) : M := fun x => if present && x = k then some (.str v.toList) else none

/-- the C08 case: which source's value does the rendered page see for `key`? -/
def mergeOp (j : Json) : Json :=
  let key := jstrK j "key"
  let E : Engine := { theme := single key (jbool j "theme") "theme", dataYml := single key (jbool j "dataYml") "datayml",
                      fmOf := fun f => if f == "page.vuego".toList then single key (jbool j "fm") "fm" else empty }
  let (calls, _) := (jarrK j "calls").foldl (fun (acc : List Call × Nat) c =>
    match c with
    | .str "fill-empty" => (acc.1 ++ [Call.fill empty], acc.2)
    | .str "fill-map-blank" => (acc.1 ++ [Call.fill (single key true "")], acc.2)
    | .str "fill-struct-blank" => (acc.1 ++ [Call.fill (single key true "")], acc.2)
    | .str "assign" => (acc.1 ++ [Call.assign key (.str "assign".toList)], acc.2)
    | .str "new" => (acc.1 ++ [Call.new_], acc.2)
    | .str "load" => (acc.1 ++ [Call.load "other.vuego".toList], acc.2)
    | .str "load-page" => (acc.1 ++ [Call.load "page.vuego".toList], acc.2)
    | _ => (acc.1 ++ [Call.fill (single key true (if acc.2 == 0 then "fill" else "fill2"))], acc.2 + 1)) ([], 0)
  -- what `Get(key)` answers on the template the calls end with, before the page is (re)loaded for rendering
  let t0 := run Generated.mergeCfg E (base Generated.mergeCfg E) calls
  let getV : Str := match t0.vars key with | some v => v.sprint | none => []
  -- a `new` after `load-page` leaves a file-less template: the page is loaded (again) for rendering
  let needsLoad := ((jarrK j "calls").foldl (fun (ld : Bool) c => match c with | .str "load-page" => true | .str "new" => false | _ => ld) false) == false
  let t := if needsLoad then apply Generated.mergeCfg E t0 (Call.load "page.vuego".toList) else t0
  let rendered : Str := match renderEnv Generated.mergeCfg E t "page.vuego".toList key with | some v => v.sprint | none => []
  O [("render", S rendered), ("get", S getV)]

end Vuego.Driver
