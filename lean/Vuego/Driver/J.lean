/- JSON helpers for the line protocol (driver only; not part of any theorem). -/
import Lean.Data.Json
import Vuego.Go.Strings
namespace Vuego.Driver
open Lean Go

def jget (j : Json) (k : String) : Json := (j.getObjVal? k).toOption.getD Json.null
def jstr (j : Json) : Str := match j with | .str s => s.toList | _ => []
def jstrK (j : Json) (k : String) : Str := jstr (jget j k)
def jString (j : Json) (k : String) : String := match jget j k with | .str s => s | _ => ""
def jbool (j : Json) (k : String) : Bool := match jget j k with | .bool b => b | _ => false
def jnat (j : Json) (k : String) : Nat := (jget j k).getNat?.toOption.getD 0
def jint (j : Json) (k : String) : Int := (jget j k).getInt?.toOption.getD 0
def jarr (j : Json) : List Json := match j with | .arr a => a.toList | _ => []
def jarrK (j : Json) (k : String) : List Json := jarr (jget j k)
def jisNull (j : Json) : Bool := match j with | .null => true | _ => false
def jfields (j : Json) : List (String × Json) :=
  match j with
  | .obj kvs => (kvs.foldl (fun acc k v => (k, v) :: acc) ([] : List (String × Json))).reverse
  | _ => []

def S (s : Str) : Json := .str (String.ofList s)
def N (n : Nat) : Json := .num (JsonNumber.fromNat n)
def I (n : Int) : Json := .num (JsonNumber.fromInt n)
def B (b : Bool) : Json := .bool b
def A (l : List Json) : Json := .arr l.toArray
def O (l : List (String × Json)) : Json := Json.mkObj l

end Vuego.Driver
