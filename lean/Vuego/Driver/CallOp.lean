import Vuego.Driver.ValJson
import Vuego.Model.Call
namespace Vuego.Driver
open Lean Go Vuego Vuego.Call

def ptypeOf (s : String) : PType :=
  match s with
  | "string" => .str | "bool" => .bool | "any" => .any
  | "float32" => .float .float32 | "float64" => .float .float64
  | k => .int (intKindOf k)

/-- {"op":"callconv","p":type,"v":value} -> {"ok":value} | {"err":true} | {"unmodelled":true} -/
def callConvOp (j : Json) : Json :=
  match convertArg (valOfJson (jget j "v")) (ptypeOf (jString j "p")) with
  | none => O [("unmodelled", B true)]
  | some (.ok w) => O [("ok", valToJson w)]
  | some _ => O [("err", B true)]

/-- {"op":"callarity","params":n,"variadic":b,"nargs":m} -> {"ok":true} | {"err":message} -/
def callArityOp (j : Json) : Json :=
  match checkArity (jnat j "params") (jbool j "variadic") (jnat j "nargs") with
  | none => O [("ok", B true)]
  | some m => O [("err", S m)]

/-- {"op":"callvariadic","fixed":[types],"elem":type,"args":[values]} -> {"ok":[values]} | {"err":true} | {"unmodelled":true} -/
def callVariadicOp (j : Json) : Json :=
  let fixed := (jarrK j "fixed").map (fun t => ptypeOf (match t with | .str s => s | _ => ""))
  match convertVariadic ((jarrK j "args").map valOfJson) fixed (ptypeOf (jString j "elem")) with
  | none => O [("unmodelled", B true)]
  | some (.ok ws) => O [("ok", A (ws.map valToJson))]
  | some _ => O [("err", B true)]

end Vuego.Driver
