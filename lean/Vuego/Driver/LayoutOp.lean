import Vuego.Driver.J
import Vuego.Model.Layout
namespace Vuego.Driver
open Lean Go Vuego Vuego.Layout

/-- graph description: files = [[name, layoutKey]…]; the engine is modelled by "wrap the content in the file's name" -/
def layoutOp (j : Json) : Json :=
  let files : List (Str × Str) := (jarrK j "files").map (fun e => match jarr e with | [n, l] => (jstr n, jstr l) | _ => ([], []))
  let W : LWorld (List Str) :=
    { layoutOf := fun f => (files.lookup f).getD [],
      fileExists := fun f => (files.lookup f).isSome,
      renderLink := fun f c => if (files.lookup f).isSome then .ok (f :: c.getD []) else .err "load" [] }
  match renderEntry W (jstrK j "page") with
  | .ok names => O [("ok", A (names.map S))]
  | _ => O [("err", B true)]

end Vuego.Driver
