import Vuego.Driver.OverlayOp
import Vuego.Driver.StackOp
import Vuego.Driver.DomJson
import Vuego.Driver.PageOp
import Vuego.Driver.EntryOp
import Vuego.Driver.LayoutOp
import Vuego.Driver.LayoutDataOp
import Vuego.Driver.LayoutPageOp
import Vuego.Driver.CacheOp
import Vuego.Driver.MergeOp
import Vuego.Driver.FmtOp
import Vuego.Driver.MdOp
import Vuego.Driver.CallOp
import Vuego.Driver.FrontMatterOp
namespace Vuego.Driver
open Lean

def handle (j : Json) : Json :=
  match jString j "op" with
  | "overlay" => overlayOp j
  | "stackops" => stackOps j
  | "truthy" => truthyOp j
  | "callconv" => callConvOp j
  | "extractfm" => extractFmOp j
  | "callarity" => callArityOp j
  | "callvariadic" => callVariadicOp j
  | "splitpath" => splitPathOp j
  | "render" => renderOp j
  | "tokenize" => tokenizeOp j
  | "page" => pageOp j
  | "expr" => exprOp j
  | "writer" => writerOp j
  | "layout" => layoutOp j
  | "layoutdata" => layoutDataOp j
  | "layoutpage" => layoutPageOp j
  | "cache" => cacheOp j
  | "merge" => mergeOp j
  | "fmt" => fmtOp j
  | "md" => mdOp j
  | "headingid" => headingIdOp j
  | _ => O [("error", Json.str "bad-op")]

def handleLine (line : String) : String :=
  match Json.parse line with
  | .ok j => (handle j).compress
  | .error e => (O [("error", Json.str ("parse: " ++ e))]).compress

end Vuego.Driver
