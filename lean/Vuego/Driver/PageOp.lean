import Vuego.Driver.ValJson
import Vuego.Driver.DomJson
import Vuego.Model.Eval
import Vuego.Model.ExprMini
import Vuego.Generated.Reflect
namespace Vuego.Driver
open Lean Go Vuego

def scopeOfPairs (j : Json) : Scope :=
  (jarr j).foldl (fun acc e => match jarr e with | [k, v] => Scope.set acc (jstr k) (valOfJson v) | _ => acc) []

/-- `json.Unmarshal` into `any`, for the driver: numbers are float64 (printed the way Go prints the whole numbers and short decimals the
    generators use), objects `map[string]any`, arrays `[]any`. Text that is not ONE complete JSON document is not decoded (`none`). -/
partial def valOfDecoded : Json → Val
  | .null => .nil
  | .bool b => .bool b
  | .num n => .float .float64 (n.mantissa == 0) (toString n).toList
  | .str s => .str s.toList
  | .arr a => .list false (a.toList.map valOfDecoded)
  | .obj kvs => .map .anyMap (kvs.toList.map (fun (k, v) => (k.toList, valOfDecoded v)))

def jsonDecodeStr (s : Str) : Option Val :=
  match Json.parse (String.ofList s) with
  | .ok j => some (valOfDecoded j)
  | .error _ => none

def worldOfJson (j : Json) : World :=
  { P := { exprEval := ExprMini.exprEval, cfg := Generated.reflectCfg },
    files := (jfields (jget j "files")).map (fun (n, f) => (n.toList, (scopeOfPairs (jget f "fm"), (jarrK f "dom").map nodeOfJson))),
    comps := (jarrK j "comps").map (fun e => match jarr e with | [t, f] => (jstr t, jstr f) | _ => ([], [])),
    jsonDecode := jsonDecodeStr }

def errClass : String → String
  | c => c

/-- `Vue.Render(w, page, data)`: cached DOM with ids, data overlaid with the page's front-matter, evaluate, serialise -/
def pageOp (j : Json) : Json :=
  let W := worldOfJson j
  let page := jstrK j "page"
  let data := valOfJson (jget j "data")
  match W.files.lookup page with
  | none => O [("err", B true), ("class", Json.str "load")]
  | some (fm, dom) =>
    let dataMap := fm.foldl (fun (m : Scope) (kv : Str × Val) => Scope.set m kv.1 kv.2) (toMapData W.P.cfg data)
    let stack := Stack.new dataMap data
    match evaluatePage W 200000 page (assignSeenAttrs page dom) stack with
    | .ok (nodes, _) =>
      if jbool j "domOnly" then O [("dom", A (nodes.map nodeToJson))]
      else O [("out", S (render nodes))]
    | .err c _ => O [("err", B true), ("class", Json.str c)]
    | .panic _ => O [("panic", B true)]
    | .hang _ => O [("hang", B true)]
    | .fuel => O [("fuel", B true)]

def exprOp (j : Json) : Json :=
  match ExprMini.exprEval (jstrK j "e") (scopeOfPairs (jget j "env")) with
  | .ok v => O [("ok", valToJson v)]
  | _ => O [("err", B true)]

end Vuego.Driver
