import Vuego.Driver.J
import Vuego.Model.Render
import Vuego.Model.Html
namespace Vuego.Driver
open Lean Go Vuego

partial def nodeOfJson (j : Json) : Node :=
  match jString j "t" with
  | "text" => .text (jstrK j "d")
  | "elem" => .elem (jstrK j "tag") ((jarrK j "attrs").map (fun a => match jarr a with | [k, v] => (jstr k, jstr v) | _ => ([], []))) ((jarrK j "kids").map nodeOfJson)
  | "comment" => .comment (jstrK j "d")
  | "doctype" => .doctype (jstrK j "d")
  | _ => .comment []

partial def nodeToJson : Node → Json
  | .text d => O [("t", "text"), ("d", S d)]
  | .elem tag attrs kids => O [("t", "elem"), ("tag", S tag), ("attrs", A (attrs.map (fun (k, v) => A [S k, S v]))), ("kids", A (kids.map nodeToJson))]
  | .comment d => O [("t", "comment"), ("d", S d)]
  | .doctype d => O [("t", "doctype"), ("d", S d)]

def renderOp (j : Json) : Json := S (render ((jarrK j "nodes").map nodeOfJson))

/-- tokens with adjacent characters merged into text runs -/
def toksJson (ts : List Html.Tok) : Json :=
  let flush (acc : Str) (out : List Json) : List Json := if acc.isEmpty then out else out ++ [O [("text", S acc)]]
  let (acc, out) := ts.foldl (fun (p : Str × List Json) t =>
    match t with
    | .ch c => (p.1 ++ [c], p.2)
    | .startTag n attrs sc => ([], flush p.1 p.2 ++ [O [("start", S n), ("attrs", A (attrs.map (fun (k, v) => A [S k, S v]))), ("sc", B sc)]])
    | .endTag n => ([], flush p.1 p.2 ++ [O [("end", S n)]])
    | .comment => ([], flush p.1 p.2 ++ [O [("comment", B true)]])) ([], [])
  A (flush acc out)

def tokenizeOp (j : Json) : Json := toksJson (Html.tokenize (jstrK j "s"))

end Vuego.Driver
