import Vuego.Driver.J
import Vuego.Model.Layout
namespace Vuego.Driver
open Lean Go Vuego Vuego.Layout

/-- string pairs; a JSON null is the YAML null (`key: ~`): the key is present and holds nil -/
def jScope (j : Json) : Scope :=
  (jarr j).map (fun e => match jarr e with | [k, v] => (jstr k, if jisNull v then Val.nil else Val.str (jstr v)) | _ => ([], .nil))

/-- files = [[name, [[k,v]…]]…] (front-matter as string pairs), config, fill, probes = keys every file prints. The engine is abstracted to
    "print the file's name, the probed keys and the content": `[name|v1|v2|…|content]` -/
def layoutDataOp (j : Json) : Json :=
  let files : List (Str × Scope) := (jarrK j "files").map (fun e => match jarr e with | [n, fm] => (jstr n, jScope fm) | _ => ([], []))
  let probes : List Str := (jarrK j "probes").map jstr
  let W : DWorld :=
    { config := jScope (jget j "config"),
      fmOf := fun f => (files.lookup f).getD [],
      fileExists := fun f => (files.lookup f).isSome,
      render := fun f vis =>
        if (files.lookup f).isSome then
          .ok ('[' :: f ++ (probes.map (fun k => '|' :: getStr vis k)).flatten ++ '|' :: getStr vis sContent ++ [']'])
        else .err "load" [] }
  match renderEntryD W (jstrK j "page") (jScope (jget j "fill")) with
  | .ok out => O [("ok", S out)]
  | _ => O [("err", B true)]

end Vuego.Driver
