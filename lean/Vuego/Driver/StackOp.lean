import Vuego.Driver.ValJson
import Vuego.Model.Stack
import Vuego.Model.Truthy
import Vuego.Generated.Reflect
namespace Vuego.Driver
open Lean Go Vuego

def cfgNow : ReflectCfg := Generated.reflectCfg

def toMapData (v : Val) : Scope := Vuego.toMapData cfgNow v

def scopeOfJson (j : Json) : Scope :=
  (jarr j).foldl (fun acc e => match jarr e with | [k, v] => Scope.set acc (jstr k) (valOfJson v) | _ => acc) []

def forEachObs (r : Res (Option Val)) : Json :=
  match r with
  | .ok (some (.list _ xs)) => A (xs.map valToJson)
  | .ok (some (.map mk kvs)) => O [("maporder", A ((Val.iterOrder mk kvs).map (fun (_, v) => valToJson v)))]
  | .ok _ => A []
  | r => resJson (fun _ => Json.null) r

/-- run an op sequence; one observation per op -/
def stackOps (j : Json) : Json :=
  let root := valOfJson (jget j "root")
  let s0 : Stack := Stack.new (toMapData root) root
  let step := fun (acc : Stack × List Json) (op : Json) =>
    let (s, out) := acc
    match jString op "o" with
    | "push" => (s.push (if jisNull (jget op "m") then [] else scopeOfJson (jget op "m")), out ++ [Json.null])
    | "pop" => (s.pop, out ++ [Json.null])
    | "set" => (s.set (jstrK op "k") (valOfJson (jget op "v")), out ++ [Json.null])
    | "lookup" => (s, out ++ [resJson optValJson (s.lookup cfgNow (jstrK op "k"))])
    | "resolve" => (s, out ++ [resJson optValJson (s.resolve cfgNow (jstrK op "e"))])
    | "envmap" => (s, out ++ [scopeJson (s.envMap cfgNow)])
    | "copyenv" => (s, out ++ [scopeJson ((s.copy cfgNow).envMap cfgNow)])
    | "foreach" => (s, out ++ [forEachObs (s.resolve cfgNow (jstrK op "e"))])
    | "depth" => (s, out ++ [N s.scopes.length])
    | _ => (s, out ++ [Json.str "bad-op"])
  let (_, out) := (jarrK j "ops").foldl step (s0, [])
  A out

def truthyOp (j : Json) : Json := B (isTruthy (valOfJson (jget j "v")))

def splitPathOp (j : Json) : Json := A ((splitPath (jstrK j "e")).map S)

end Vuego.Driver
