import Vuego.Driver.PageOp
import Vuego.Model.PageRender
namespace Vuego.Driver
open Lean Go Vuego Vuego.Md

partial def inlineOfJson (j : Json) : Inline :=
  let kids := (jarrK j "kids").map inlineOfJson
  match jString j "k" with
  | "text" => .text (jstrK j "escaped") (jbool j "hard") (jbool j "soft")
  | "str" => .str (jstrK j "v")
  | "codespan" => .codeSpan (jstrK j "content")
  | "emphasis" => .emphasis (jnat j "level") kids
  | "link" => .link (jstrK j "href") (jstrK j "title") kids
  | "image" => .image (jstrK j "src") (jstrK j "alt") (jstrK j "title")
  | "autolink" => .autolink (jstrK j "href") (jstrK j "label")
  | "rawhtml" => .rawHtml (jstrK j "content")
  | "strike" => .strike kids
  | "checkbox" => .checkbox (jbool j "checked")
  | _ => .other kids

def cellOfJson (j : Json) : Str × List Inline := (jstrK j "align", (jarrK j "kids").map inlineOfJson)

partial def blockOfJson (j : Json) : Block :=
  let kids := (jarrK j "kids").map blockOfJson
  let inl := (jarrK j "inl").map inlineOfJson
  match jString j "k" with
  | "heading" => .heading (jnat j "level") inl
  | "paragraph" => .paragraph inl
  | "code" => .code (jstrK j "language") (jstrK j "code")
  | "blockquote" => .blockquote kids
  | "list" => .list (jbool j "ordered") (jnat j "start") kids
  | "listitem" => .listItem kids
  | "hr" => .hr
  | "htmlblock" => .htmlBlock (jstrK j "raw")
  | "textblock" => .textBlock inl
  | "table" => .table ((jarrK j "headers").map cellOfJson) ((jarrK j "rows").map (fun r => (jarr r).map cellOfJson))
  | _ => .other kids

def headingIdOp (j : Json) : Json := O [("id", S (headingID (jstrK j "s")))]

/-- a goldmark AST (exported by the harness) rendered by the glue model through the Lean evaluator on the real template files -/
def mdOp (j : Json) : Json :=
  let W := worldOfJson j
  match renderBlocks (Md.fileTpl W 200000) ((jarrK j "doc").map blockOfJson) with
  | .ok s => O [("out", S s)]
  | .err c _ => O [("err", B true), ("class", Json.str c)]
  | .panic _ => O [("panic", B true)]
  | .hang _ => O [("hang", B true)]
  | .fuel => O [("fuel", B true)]

end Vuego.Driver
