import Vuego.Driver.J
import Vuego.Model.Entry
import Vuego.Generated.EntryFacts
namespace Vuego.Driver
open Lean Go Vuego.Entry

def writerOp (j : Json) : Json :=
  let kind := match jString j "kind" with | "file" => Kind.fileNoLayout | "layout" => Kind.layoutChain | _ => Kind.stringLike
  let prog : Except String (List Str) := if jbool j "fails" then .error "e" else .ok ((jarrK j "chunks").map jstr)
  let w : Writer := { written := [], failAt := if jisNull (jget j "failAt") then none else some (jnat j "failAt") }
  let (err, w') := run Generated.entryCfg kind (jbool j "cancelled") prog w
  O [("err", B err), ("len", N w'.written.length)]

end Vuego.Driver
