import Vuego.Driver.PageOp
import Vuego.Model.Layout
namespace Vuego.Driver
open Lean Go Vuego Vuego.Layout

/-- `Load(page).Fill(data).Render`: the layout chain of `template.layout` (Model/Layout.dataLoop) with every link rendered by the evaluator
    and serialiser models; the named slots of the page's DOM are handed to every layout of the chain (`Ctx.inherited`) -/
def layoutPageOp (j : Json) : Json :=
  let W := worldOfJson j
  let page := jstrK j "page"
  let fill : Scope := toMapData W.P.cfg (valOfJson (jget j "data"))
  let inherited : SlotScope := match W.files.lookup page with | some (_, dom) => extractPageSlots (assignSeenAttrs page dom) | none => []
  let DW : DWorld :=
    { config := [],
      fmOf := fun f => match W.files.lookup f with | some (fm, _) => fm | none => [],
      fileExists := fun f => (W.files.lookup f).isSome,
      render := fun f vis =>
        match W.files.lookup f with
        | none => .err "load" []
        | some (_, dom) =>
          let ctx : Ctx := { slots := [], chain := [f], inherited := if f == page then [] else inherited }
          match evalList W 200000 ctx { stack := Stack.new vis (.map .anyMap vis), seen := [] } (resolveTagsList W.comps (assignSeenAttrs f dom)) with
          | .ok (nodes, _) => .ok (render nodes)
          | .err c m => .err c m
          | .panic x => .panic x
          | .hang x => .hang x
          | .fuel => .fuel }
  match renderEntryD DW page fill with
  | .ok out => O [("out", S out)]
  | .err c _ => O [("err", B true), ("class", Json.str c)]
  | .panic _ => O [("panic", B true)]
  | .hang _ => O [("hang", B true)]
  | .fuel => O [("fuel", B true)]

end Vuego.Driver
