/-
Model of the fragments of Go's `strings` / `html` / `strconv` packages that vuego's own code calls.
Strings are code-point lists (`Str`); every comparison vuego makes is against ASCII, see DESIGN §4.
These definitions are differentially tested against the real standard library on every run
(correspondence op `gostr`), they are part of the trusted base only through that test.
-/
namespace Go

abbrev Str := List Char

/-- `strings.HasPrefix s p` -/
def hasPrefix : Str → Str → Bool
  | _, [] => true
  | [], _ :: _ => false
  | c :: s, d :: p => c == d && hasPrefix s p

/-- `strings.HasSuffix s p` -/
def hasSuffix (s p : Str) : Bool := hasPrefix s.reverse p.reverse

/-- `strings.Contains s sub` -/
def contains : Str → Str → Bool
  | [], sub => sub.isEmpty
  | c :: s, sub => hasPrefix (c :: s) sub || contains s sub

/-- `strings.ContainsAny s chars` -/
def containsAny (s chars : Str) : Bool := s.any (fun c => chars.contains c)

/-- `strings.ContainsRune` / byte loop membership -/
def containsChar (s : Str) (c : Char) : Bool := s.contains c

/-- `strings.Index s sub` (−1 ↦ none) -/
def index : Str → Str → Option Nat
  | [], sub => if sub.isEmpty then some 0 else none
  | c :: s, sub => if hasPrefix (c :: s) sub then some 0 else (index s sub).map (· + 1)

/-- non-overlapping `strings.Count s sub` for a non-empty `sub`. Fuel = length. -/
def countAux (sub : Str) : Nat → Str → Nat
  | 0, _ => 0
  | _ + 1, [] => 0
  | f + 1, c :: s =>
      if hasPrefix (c :: s) sub then 1 + countAux sub f ((c :: s).drop sub.length)
      else countAux sub f s

def count (s sub : Str) : Nat :=
  if sub.isEmpty then s.length + 1 else countAux sub (s.length + 1) s

/-- Go's `unicode.IsSpace` restricted to what `TrimSpace` sees in ASCII + NEL/NBSP. -/
def isSpace (c : Char) : Bool :=
  c == ' ' || c == '\t' || c == '\n' || c == '\r' || c == '\x0b' || c == '\x0c' || c == '\u0085' || c == '\u00a0'

def trimLeft (s : Str) : Str := s.dropWhile isSpace
def trimRight (s : Str) : Str := (s.reverse.dropWhile isSpace).reverse
/-- `strings.TrimSpace` -/
def trimSpace (s : Str) : Str := trimRight (trimLeft s)

/-- `strings.Trim s cutset` -/
def trim (s cutset : Str) : Str :=
  let l := s.dropWhile (fun c => cutset.contains c)
  (l.reverse.dropWhile (fun c => cutset.contains c)).reverse

/-- `strings.Split s sep` for a one-character separator. -/
def splitChar (sep : Char) : Str → List Str
  | [] => [[]]
  | c :: s =>
    if c == sep then [] :: splitChar sep s
    else match splitChar sep s with
      | [] => [[c]]
      | h :: t => (c :: h) :: t

/-- `strings.SplitN s sep 2` for a one-character separator: split at the first occurrence. -/
def splitFirst (sep : Char) (s : Str) : Option (Str × Str) :=
  match s.span (· != sep) with
  | (_, []) => none
  | (a, _ :: b) => some (a, b)

/-- `html.EscapeString`: the five markup characters, `'` ↦ `&#39;`, `"` ↦ `&#34;`, and the carriage return ↦ `&#13;` (a raw CR would be
    read back as a line feed). -/
def escChar (c : Char) : Str :=
  if c == '&' then ['&','a','m','p',';']
  else if c == '<' then ['&','l','t',';']
  else if c == '>' then ['&','g','t',';']
  else if c == '"' then ['&','#','3','4',';']
  else if c == '\'' then ['&','#','3','9',';']
  else if c == '\r' then ['&','#','1','3',';']
  else [c]

def escape : Str → Str
  | [] => []
  | c :: s => escChar c ++ escape s

/-- Inverse of `escape` on its image: decodes exactly the six references `escape` can emit. -/
def unescape : Str → Str
  | '&' :: 'a' :: 'm' :: 'p' :: ';' :: r => '&' :: unescape r
  | '&' :: 'l' :: 't' :: ';' :: r => '<' :: unescape r
  | '&' :: 'g' :: 't' :: ';' :: r => '>' :: unescape r
  | '&' :: '#' :: '3' :: '4' :: ';' :: r => '"' :: unescape r
  | '&' :: '#' :: '3' :: '9' :: ';' :: r => '\'' :: unescape r
  | '&' :: '#' :: '1' :: '3' :: ';' :: r => '\r' :: unescape r
  | c :: r => c :: unescape r
  | [] => []

def isDigit (c : Char) : Bool := '0' ≤ c && c ≤ '9'

def digitsToNat (s : Str) : Nat := s.foldl (fun n c => n * 10 + (c.toNat - '0'.toNat)) 0

/-- `strconv.Atoi` restricted to what the model needs: optional sign, decimal digits, no overflow check
    beyond 18 digits (longer inputs are rejected, which is also what the harness generates around). -/
def atoi (s : Str) : Option Int :=
  match s with
  | '-' :: d => if d.isEmpty || !d.all isDigit || d.length > 18 then none else some (-(digitsToNat d : Int))
  | '+' :: d => if d.isEmpty || !d.all isDigit || d.length > 18 then none else some (digitsToNat d : Int)
  | d => if d.isEmpty || !d.all isDigit || d.length > 18 then none else some (digitsToNat d : Int)

def natToStr (n : Nat) : Str := (toString n).toList
def intToStr (i : Int) : Str := (toString i).toList

def joinWith (sep : Str) : List Str → Str
  | [] => []
  | [a] => a
  | a :: b :: r => a ++ sep ++ joinWith sep (b :: r)

end Go

namespace Go
/-- byte loop with early return: the first `some` the body yields -/
def firstSome {α : Type} : Str → (Char → Option α) → Option α
  | [], _ => none
  | c :: s, f => match f c with | some r => some r | none => firstSome s f

def listFirstSome {α β : Type} : List β → (β → Option α) → Option α
  | [], _ => none
  | c :: s, f => match f c with | some r => some r | none => listFirstSome s f

/-- `for i, ch := range s` with early return; the index is a position counter -/
def rangeFirstSome {α : Type} : Str → Nat → (Nat → Char → Option α) → Option α
  | [], _, _ => none
  | c :: s, i, f => match f i c with | some r => some r | none => rangeFirstSome s (i + 1) f
end Go
