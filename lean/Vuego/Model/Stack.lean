/-
Model of /repo/stack.go and /repo/internal/reflect/reflect.go (Stack, Lookup, Resolve, resolveStep, ResolveValue,
EnvMap, PopulateStructFields, StructToMap, splitPathImpl, ForEach). Scopes are association lists.
Pooled maps are modelled as fresh empty maps (Pop clears a map before pooling it; validated by correspondence).
-/
import Vuego.Model.Val
namespace Vuego
open Go

abbrev Scope := List (Str × Val)

def Scope.get (m : Scope) (k : Str) : Option Val := m.lookup k

def Scope.set : Scope → Str → Val → Scope
  | [], k, v => [(k, v)]
  | (k', v') :: r, k, v => if k' == k then (k, v) :: r else (k', v') :: Scope.set r k v

structure Stack where
  scopes : List Scope      -- bottom .. top
  root : Val               -- rootData (`.nil` when none)
  deriving Repr, Inhabited

/-- facts about the reflect helpers that the extractor reads from the source -/
structure ReflectCfg where
  checksExported : Bool        -- resolveStruct skips unexported fields (otherwise: reflect panic)
  checksKeyKind : Bool         -- resolveMap refuses non-string-keyed maps (otherwise: reflect panic)
  strMapMissingAbsent : Bool   -- resolveStep reports a missing key of a map[string]string as absent (otherwise: "")
  envStructFirst : Bool        -- EnvMap overlays root struct fields before the scopes (otherwise: after, on top)
  envGoNames : Bool            -- PopulateStructFields also adds tagged fields under their Go names (second pass, overriding)
  deriving Repr, DecidableEq

namespace Stack

def new (root : Scope) (data : Val) : Stack := { scopes := [root], root := data }

def push (s : Stack) (m : Scope) : Stack := { s with scopes := s.scopes ++ [m] }

/-- `Pop`: drops the top scope; popping the last scope leaves one fresh empty scope. -/
def pop (s : Stack) : Stack :=
  if s.scopes.isEmpty then s else
  let rest := s.scopes.dropLast
  { s with scopes := if rest.isEmpty then [[]] else rest }

def setTop : List Scope → Str → Val → List Scope
  | [], k, v => [[(k, v)]]
  | [m], k, v => [Scope.set m k v]
  | m :: r, k, v => m :: setTop r k v

def set (s : Stack) (k : Str) (v : Val) : Stack := { s with scopes := setTop s.scopes k v }

/-- scopes top → bottom -/
def lookupScopes : List Scope → Str → Option Val
  | [], _ => none
  | m :: below, k => match m.get k with | some v => some v | none => lookupScopes below k

end Stack

def derefPtr : Nat → Val → Option Val
  | 0, v => some v
  | n + 1, .ptr (some v) => derefPtr n v
  | _, .ptr none => none
  | _, v => some v

/-- pointer chains in generated data are at most this deep; `derefPtr` is structural on the bound -/
def derefBound : Nat := 8

def fieldByName : List (Str × Str × Bool × Val) → Str → Option (Bool × Val)
  | [], _ => none
  | (n, _, e, v) :: r, k => if n == k then some (e, v) else fieldByName r k

def fieldByTag : List (Str × Str × Bool × Val) → Str → Option (Bool × Val)
  | [], _ => none
  | (_, t, e, v) :: r, k => if t != [] && t == k then some (e, v) else fieldByTag r k

/-- tag loop of the repaired resolveStruct: unexported fields are skipped -/
def fieldByTagExported : List (Str × Str × Bool × Val) → Str → Option Val
  | [], _ => none
  | (_, t, e, v) :: r, k => if t != [] && e && t == k then some v else fieldByTagExported r k

/-- `resolveStruct` -/
def resolveStruct (cfg : ReflectCfg) (fs : List (Str × Str × Bool × Val)) (k : Str) : Res (Option Val) :=
  if cfg.checksExported then
    match fieldByName fs k with
    | some (true, v) => .ok (some v)
    | _ => .ok (fieldByTagExported fs k)
  else
    match fieldByName fs k with
    | some (true, v) => .ok (some v)
    | some (false, _) => .panic "reflect: Interface of unexported field"
    | none =>
      match fieldByTag fs k with
      | some (true, v) => .ok (some v)
      | some (false, _) => .panic "reflect: Interface of unexported field"
      | none => .ok none

/-- `resolveSliceIndex` -/
def resolveSliceIndex (xs : List Val) (k : Str) : Option Val :=
  match atoi k with
  | some i => if i < 0 then none else xs[i.toNat]?
  | none => none

/-- `ResolveValue(v, field)` -/
def resolveValue (cfg : ReflectCfg) (v : Val) (k : Str) : Res (Option Val) :=
  if k == [] then .ok none else
  match v with
  | .nil => .ok none
  | _ =>
    match derefPtr derefBound v with
    | none => .ok none
    | some (.strct fs) => resolveStruct cfg fs k
    | some (.map .nonStrKey _) => if cfg.checksKeyKind then .ok none else .panic "reflect: MapIndex with a string key on a non-string-keyed map"
    | some (.map _ kvs) => .ok (kvs.lookup k)
    | some (.list _ xs) => .ok (resolveSliceIndex xs k)
    | some _ => .ok none

namespace Stack

/-- `Lookup` -/
def lookup (cfg : ReflectCfg) (s : Stack) (k : Str) : Res (Option Val) :=
  match lookupScopes s.scopes.reverse k with
  | some v => .ok (some v)
  | none =>
    match s.root with
    | .nil => .ok none
    | r => resolveValue cfg r k

end Stack

/-- `splitPathImpl`, bracket branch: rewrites `[x]` to `.x` (quotes stripped, blanks trimmed); an unclosed `[` is kept. -/
def rewriteBrackets : Nat → Str → Str
  | 0, s => s
  | _, [] => []
  | f + 1, '[' :: r =>
    match r.span (· != ']') with
    | (_, []) => '[' :: rewriteBrackets f r
    | (inside, _ :: after) =>
      let t := trimSpace inside
      let t := if t.length ≥ 2 && ((t.head? == some '\'' && t.getLast? == some '\'') || (t.head? == some '"' && t.getLast? == some '"'))
               then (t.drop 1).dropLast else t
      if t != [] then '.' :: (t ++ rewriteBrackets f after) else rewriteBrackets f after
  | f + 1, c :: r => c :: rewriteBrackets f r

def splitPath (expr : Str) : List Str :=
  let e := trimSpace expr
  if e == [] then [] else
  let b := if e.contains '[' then rewriteBrackets (e.length + 1) e else e
  ((splitChar '.' b).map trimSpace).filter (· != [])

/-- numeric index into a slice or array (the branch before the reflect fallback) -/
def viaIndex (cur : Val) (p : Str) : Option Val :=
  match cur with
  | .list _ xs => (match atoi p with | some i => if i ≥ 0 then xs[i.toNat]? else none | none => none)
  | _ => none

def absentAsNil : Res (Option Val) → Res Val
  | .ok (some v) => .ok v
  | .ok none => .ok .nil
  | .panic s => .panic s
  | .err c m => .err c m
  | .hang s => .hang s
  | .fuel => .fuel

/-- `resolveStep`: `.ok Val.nil` stands for the Go `nil` result (absence) -/
def resolveStep (cfg : ReflectCfg) (cur : Val) (p : Str) : Res Val :=
  match cur with
  | .map .anyMap kvs => .ok ((kvs.lookup p).getD .nil)
  | .map .strMap kvs => .ok ((kvs.lookup p).getD (if cfg.strMapMissingAbsent then .nil else .str []))
  | _ =>
    match viaIndex cur p with
    | some v => .ok v
    | none => absentAsNil (resolveValue cfg cur p)

def walkPath (cfg : ReflectCfg) : Val → List Str → Res (Option Val)
  | cur, [] => .ok (some cur)
  | cur, p :: rest =>
    match resolveStep cfg cur p with
    | .ok .nil => .ok none
    | .ok v => walkPath cfg v rest
    | .panic s => .panic s
    | .err c m => .err c m
    | .hang s => .hang s
    | .fuel => .fuel

namespace Stack

/-- `Resolve` -/
def resolve (cfg : ReflectCfg) (s : Stack) (expr : Str) : Res (Option Val) :=
  if !(containsAny expr ['.', '[']) then s.lookup cfg expr else
  match splitPath expr with
  | [] => .ok none
  | first :: rest =>
    match s.lookup cfg first with
    | .ok (some .nil) => .ok none
    | .ok (some v) => walkPath cfg v rest
    | r => r

end Stack

/-- tag marking a field PROMOTED from an embedded struct (set by the harness codec): reachable by its Go name like any field
    (reflect's FieldByName), but not one of the struct's own fields — the JSON-tag scan and StructToMap do not see it -/
def promotedTag : Str := ['\x01']

mutual
/-- `StructToMap` (fuelled on nesting depth; nested structs and pointers to structs become maps) -/
def structToMap : Nat → Val → Val
  | 0, _ => .map .anyMap []
  | f + 1, v =>
    match derefPtr derefBound v with
    | some (.strct fs) => .map .anyMap ((structFields f fs).foldl (fun a (kv : Str × Val) => Scope.set a kv.1 kv.2) [])
    | _ => .map .anyMap []
def structFields : Nat → List (Str × Str × Bool × Val) → List (Str × Val)
  | _, [] => []
  | f, (n, t, e, v) :: r =>
    if !e || t == promotedTag then structFields f r else
    let key := if t != [] then t else n
    let v' := match v with
      | .strct _ => structToMap f v
      | .ptr (some (.strct _)) => structToMap f v
      | .ptr none => v      -- a nil pointer: only pointer-to-struct types are converted; the harness marks those as `ptrStructNil`
      | _ => v
    (key, v') :: structFields f r
end

def structDepth : Nat := 6

/-- second pass of the repaired `PopulateStructFields`: every exported field under its Go name -/
def structGoNames : Nat → List (Str × Str × Bool × Val) → List (Str × Val)
  | _, [] => []
  | f, (n, _, e, v) :: r =>
    if !e then structGoNames f r else
    let v' := match v with
      | .strct _ => structToMap f v
      | .ptr (some (.strct _)) => structToMap f v
      | _ => v
    (n, v') :: structGoNames f r

/-- `PopulateStructFields(result, data)` on top of `m` -/
def populateStructFields (goNames : Bool) (m : Scope) (data : Val) : Scope :=
  match derefPtr derefBound data with
  | some (.strct fs) =>
    let m1 := (structFields structDepth fs).foldl (fun acc (kv : Str × Val) => Scope.set acc kv.1 kv.2) m
    if goNames then (structGoNames structDepth fs).foldl (fun acc (kv : Str × Val) => Scope.set acc kv.1 kv.2) m1 else m1
  -- a map keyed by strings (of whatever map type): its keys are names, as Lookup resolves them on the root data
  | some (.map mk kvs) => if mk == .nonStrKey then m else kvs.foldl (fun acc (kv : Str × Val) => Scope.set acc kv.1 kv.2) m
  | _ => m

/-- `toMapData` (vue.go): nil → {}, a map[string]any → that map, a struct → StructToMap plus PopulateStructFields on top (when non-empty), anything else → {} -/
def toMapData (cfg : ReflectCfg) (v : Val) : Scope :=
  match v with
  | .nil => []
  | .map .anyMap kvs => kvs
  | _ =>
    match structToMap structDepth v with
    | .map _ [] => []
    | .map _ kvs => populateStructFields cfg.envGoNames kvs v
    | _ => []

namespace Stack

def mergeScopes (acc : Scope) : List Scope → Scope
  | [] => acc
  | m :: r => mergeScopes (m.foldl (fun a (kv : Str × Val) => Scope.set a kv.1 kv.2) acc) r

/-- `EnvMap` -/
def envMap (cfg : ReflectCfg) (s : Stack) : Scope :=
  if cfg.envStructFirst then
    mergeScopes (match s.root with | .nil => [] | r => populateStructFields cfg.envGoNames [] r) s.scopes
  else
    let m := mergeScopes [] s.scopes
    match s.root with | .nil => m | r => populateStructFields cfg.envGoNames m r

/-- `Copy` -/
def copy (cfg : ReflectCfg) (s : Stack) : Stack := { scopes := [s.envMap cfg], root := s.root }

end Stack
end Vuego
