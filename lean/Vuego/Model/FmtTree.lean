/-
Model of the formatter's tree walk (/repo/formatter/formatter.go: formatNode, formatRawTextElement, renderPreContent, shouldKeepInline,
allChildrenAreInline, renderInlineChildren, collectChildren, trimRawContent, normalizeInlineText). The leaf writers (renderOpenTag,
escapeText) are those of Model/Fmt.lean; the three element lists are regenerated from the source. The HTML parser is not part of the
model: the walk runs over a parsed DOM (`Node`).
-/
import Vuego.Model.Fmt
import Vuego.Model.Dom
import Vuego.Model.Pipe
import Vuego.Generated.FmtLists
namespace Vuego.FmtTree
open Go Vuego Vuego.Fmt

def inList (l : List String) (tag : Str) : Bool := l.any (fun s => s.toList == tag)
def isVoid (tag : Str) : Bool := inList Generated.fmtVoid tag
def isInline (tag : Str) : Bool := inList Generated.fmtInline tag
def isPhrasing (tag : Str) : Bool := inList Generated.fmtPhrasing tag

def escText (s : Str) : Str := escapeText (s.length + 1) s
def closeTag (tag : Str) : Str := '<' :: '/' :: tag ++ ['>']
def indentOf (w d : Nat) : Str := List.replicate (d * w) ' '
def commentStr (d : Str) : Str := '<' :: '!' :: '-' :: '-' :: d ++ ['-', '-', '>']

def blankLine (l : Str) : Bool := trimSpace l == []

/-- the white space HTML collapses (`htmlSpace` in formatter.go): space, tab, LF, FF, CR - every other character, the no-break space and
    the other Unicode spaces included, is content -/
def isHtmlSpace (c : Char) : Bool := c == ' ' || c == '\t' || c == '\n' || c == '\x0c' || c == '\r'
def trimHtmlLeft (s : Str) : Str := s.dropWhile isHtmlSpace
def trimHtmlRight (s : Str) : Str := (s.reverse.dropWhile isHtmlSpace).reverse
/-- `trimHTMLSpace` -/
def trimHtml (s : Str) : Str := trimHtmlRight (trimHtmlLeft s)
/-- `strings.FieldsFunc(s, isHTMLSpace)` -/
def fieldsHtmlAux : Str → Str → List Str
  | [], cur => if cur == [] then [] else [cur.reverse]
  | c :: r, cur => if isHtmlSpace c then (if cur == [] then fieldsHtmlAux r [] else cur.reverse :: fieldsHtmlAux r []) else fieldsHtmlAux r (c :: cur)
def fieldsHtml (s : Str) : List Str := fieldsHtmlAux s []

/-- `trimRawContent`: leading and trailing blank lines dropped -/
def trimRawContent (s : Str) : Str :=
  joinWith ['\n'] (((splitChar '\n' s).dropWhile blankLine).reverse.dropWhile blankLine).reverse

/-- `normalizeInlineText` -/
def normalizeInlineText (s : Str) : Str :=
  if trimHtml s == [] then (if s == [] then [] else [' '])
  else
    let out := joinWith [' '] (fieldsHtml (trimHtml s))
    let out := if (s.head?.map isHtmlSpace).getD false then ' ' :: out else out
    if (s.getLast?.map isHtmlSpace).getD false then out ++ [' '] else out

def isWsText : Node → Bool
  | .text d => trimHtml d == []
  | _ => false

/-- `collectChildren`: whitespace-only text nodes are not children of a block -/
def collectChildren (kids : List Node) : List Node := kids.filter (fun k => !isWsText k)

def isElem : Node → Bool
  | .elem _ _ _ => true
  | _ => false

mutual
/-- `allChildrenAreInline` -/
def allInline : List Node → Bool
  | [] => true
  | n :: r => inlineOk n && allInline r
def inlineOk : Node → Bool
  | .text _ => true
  | .comment _ => true
  | .elem tag _ kids => isVoid tag || (isInline tag && allInline kids)
  | .doctype _ => false
end

/-- `shouldKeepInline` -/
def shouldKeepInline (tag : Str) (kids : List Node) : Bool :=
  if !kids.any isElem then true
  else if isInline tag || isPhrasing tag then allInline kids
  else false

mutual
/-- `renderInlineChildren` before its final TrimSpace -/
def inlineRaw : List Node → Str
  | [] => []
  | n :: r => inlineNode n ++ inlineRaw r
def inlineNode : Node → Str
  | .text d => escText (normalizeInlineText d)
  | .comment d => commentStr d
  | .elem tag attrs kids => renderOpenTag tag attrs ++ (if isVoid tag then [] else trimHtml (inlineRaw kids) ++ closeTag tag)
  | .doctype _ => []
end

def renderInlineChildren (kids : List Node) : Str := trimHtml (inlineRaw kids)

mutual
/-- `renderPreContent` -/
def preContent : List Node → Str
  | [] => []
  | n :: r => preNode n ++ preContent r
def preNode : Node → Str
  | .text d => escText d
  | .comment d => commentStr d
  | .elem tag attrs kids => renderOpenTag tag attrs ++ (if isVoid tag then [] else preContent kids ++ closeTag tag)
  | .doctype _ => []
end

def rawContent : List Node → Str
  | [] => []
  | .text d :: r => d ++ rawContent r
  | _ :: r => rawContent r

def startsWithNewlineText : List Node → Bool
  | .text d :: _ => hasPrefix d ['\n']
  | _ => false

mutual
/-- `formatNode` (w = IndentWidth) -/
def formatNode (w : Nat) : Nat → Node → Str
  | d, .elem tag attrs kids =>
    let indent := indentOf w d
    if tag == sStyle || tag == sScript then
      let content := trimRawContent (rawContent kids)
      if content == [] then indent ++ renderOpenTag tag attrs ++ closeTag tag ++ ['\n']
      else indent ++ renderOpenTag tag attrs ++ ['\n'] ++ content ++ ['\n'] ++ indent ++ closeTag tag ++ ['\n']
    else if tag == "pre".toList then
      indent ++ renderOpenTag tag attrs ++ (if startsWithNewlineText kids then ['\n'] else []) ++ preContent kids ++ closeTag tag ++ ['\n']
    else if isVoid tag then indent ++ renderOpenTag tag attrs ++ ['\n']
    else if (collectChildren kids).isEmpty then indent ++ renderOpenTag tag attrs ++ closeTag tag ++ ['\n']
    else if shouldKeepInline tag kids then indent ++ renderOpenTag tag attrs ++ renderInlineChildren kids ++ closeTag tag ++ ['\n']
    else indent ++ renderOpenTag tag attrs ++ ['\n'] ++ formatKids w (d + 1) kids ++ indent ++ closeTag tag ++ ['\n']
  | d, .text t => if trimHtml t == [] then [] else indentOf w d ++ escText (trimHtml t) ++ ['\n']
  | d, .comment c => indentOf w d ++ commentStr c ++ ['\n']
  | _, .doctype _ => []
/-- the block-mode loop over `collectChildren(n)`: whitespace-only text contributes nothing -/
def formatKids (w : Nat) : Nat → List Node → Str
  | _, [] => []
  | d, n :: r => formatNode w d n ++ formatKids w d r
end

end Vuego.FmtTree
