/-
Values a template can see, with Go kinds kept (DESIGN §4). `fmt.Sprint` is modelled for everything except
pointers and opaque values, whose printed form is supplied by the harness.
-/
import Vuego.Go.Strings
namespace Vuego
open Go

inductive IntKind where
  | int | int8 | int16 | int32 | int64 | uint | uint8 | uint16 | uint32 | uint64 | uintptr
  deriving Repr, DecidableEq, Inhabited

inductive FloatKind where
  | float32 | float64
  deriving Repr, DecidableEq, Inhabited

def IntKind.name : IntKind → String
  | .int => "int" | .int8 => "int8" | .int16 => "int16" | .int32 => "int32" | .int64 => "int64"
  | .uint => "uint" | .uint8 => "uint8" | .uint16 => "uint16" | .uint32 => "uint32" | .uint64 => "uint64" | .uintptr => "uintptr"

def FloatKind.name : FloatKind → String
  | .float32 => "float32" | .float64 => "float64"

def IntKind.all : List IntKind := [.int, .int8, .int16, .int32, .int64, .uint, .uint8, .uint16, .uint32, .uint64, .uintptr]

/-- which Go map type a map value has; decides the branch `resolveStep` takes -/
inductive MapKind where
  | anyMap      -- map[string]any
  | strMap      -- map[string]string
  | otherStrKey -- map[string]T, any other T (reached through reflect)
  | nonStrKey   -- key type is not string (keys are kept in printed form)
  deriving Repr, DecidableEq, Inhabited

inductive Val where
  | nil
  | bool (b : Bool)
  | int (k : IntKind) (n : Int)
  | float (k : FloatKind) (isZero : Bool) (printed : Str)
  | str (s : Str)
  | list (isArray : Bool) (xs : List Val)
  | map (mk : MapKind) (kvs : List (Str × Val))            -- keys unique; sorted by the harness
  | strct (fields : List (Str × Str × Bool × Val))          -- (Go name, JSON tag name or "", exported, value), declaration order
  | ptr (target : Option Val)                                -- nil pointer or pointer to a value
  | opaq (typeName : String) (printed : Str)               -- anything else (named types, funcs, …)
  deriving Repr, Inhabited

mutual
def Val.beq : Val → Val → Bool
  | .nil, .nil => true
  | .bool a, .bool b => a == b
  | .int k n, .int k' n' => k == k' && n == n'
  | .float k z p, .float k' z' p' => k == k' && z == z' && p == p'
  | .str a, .str b => a == b
  | .list a xs, .list b ys => a == b && Val.beqList xs ys
  | .map k xs, .map k' ys => k == k' && Val.beqKVs xs ys
  | .strct xs, .strct ys => Val.beqFields xs ys
  | .ptr none, .ptr none => true
  | .ptr (some a), .ptr (some b) => Val.beq a b
  | .opaq t p, .opaq t' p' => t == t' && p == p'
  | _, _ => false
def Val.beqList : List Val → List Val → Bool
  | [], [] => true
  | a :: r, b :: s => Val.beq a b && Val.beqList r s
  | _, _ => false
def Val.beqKVs : List (Str × Val) → List (Str × Val) → Bool
  | [], [] => true
  | (k, a) :: r, (k', b) :: s => k == k' && Val.beq a b && Val.beqKVs r s
  | _, _ => false
def Val.beqFields : List (Str × Str × Bool × Val) → List (Str × Str × Bool × Val) → Bool
  | [], [] => true
  | (n, t, e, a) :: r, (n', t', e', b) :: s => n == n' && t == t' && e == e' && Val.beq a b && Val.beqFields r s
  | _, _ => false
end

instance : BEq Val := ⟨Val.beq⟩

/-- the dynamic type name as `IsTruthy`'s type switch sees it -/
def Val.typeName : Val → String
  | .nil => "nil"
  | .bool _ => "bool"
  | .int k _ => k.name
  | .float k _ _ => k.name
  | .str _ => "string"
  | .list _ _ => "[]"
  | .map _ _ => "map"
  | .strct _ => "struct"
  | .ptr _ => "ptr"
  | .opaq t _ => t

mutual
/-- `fmt.Sprint(v)` for the printable part of `Val` (pointers print as an address: not modelled, see `opaque`). -/
def Val.sprint : Val → Str
  | .nil => "<nil>".toList
  | .bool true => "true".toList
  | .bool false => "false".toList
  | .int _ n => intToStr n
  | .float _ _ p => p
  | .str s => s
  | .list _ xs => '[' :: (Val.sprintList xs ++ [']'])
  | .map _ kvs => "map[".toList ++ Val.sprintKVs kvs ++ [']']
  | .strct fs => '{' :: (Val.sprintFields fs ++ ['}'])
  | .ptr none => "<nil>".toList
  | .ptr (some _) => "0xPTR".toList
  | .opaq _ p => p
def Val.sprintList : List Val → Str
  | [] => []
  | [a] => Val.sprint a
  | a :: b :: r => Val.sprint a ++ ' ' :: Val.sprintList (b :: r)
def Val.sprintKVs : List (Str × Val) → Str
  | [] => []
  | [(k, a)] => k ++ ':' :: Val.sprint a
  | (k, a) :: b :: r => k ++ ':' :: Val.sprint a ++ ' ' :: Val.sprintKVs (b :: r)
def Val.sprintFields : List (Str × Str × Bool × Val) → Str
  | [] => []
  | [(_, _, _, a)] => Val.sprint a
  | (_, _, _, a) :: b :: r => Val.sprint a ++ ' ' :: Val.sprintFields (b :: r)
end

/-- Go's `<` on strings (bytewise; for valid UTF-8 that is code point by code point) -/
def strLe : Str → Str → Bool
  | [], _ => true
  | _ :: _, [] => false
  | a :: r, b :: s => if a.toNat < b.toNat then true else if b.toNat < a.toNat then false else strLe r s

/-- the order in which a loop visits the items of a map: by key. A map with string keys is sorted here (the model builds such maps itself,
    e.g. from a struct's fields, in declaration order); a map with other keys arrives from the harness in key order already (numbers
    numerically), its keys being carried in printed form -/
def Val.iterOrder (mk : MapKind) (kvs : List (Str × Val)) : List (Str × Val) :=
  if mk == .nonStrKey then kvs else kvs.mergeSort (fun a b => strLe a.1 b.1)

/-- outcomes of the model that are not values: Go panics and hangs are results, not artefacts of totality -/
inductive Res (α : Type) where
  | ok (a : α)
  | err (cls : String) (msg : Str)
  | panic (site : String)
  | hang (site : String)
  | fuel
  deriving Repr, Inhabited

def Res.bind {α β : Type} (r : Res α) (f : α → Res β) : Res β :=
  match r with
  | .ok a => f a
  | .err c m => .err c m
  | .panic s => .panic s
  | .hang s => .hang s
  | .fuel => .fuel

instance : Monad Res where
  pure := .ok
  bind := Res.bind

end Vuego
