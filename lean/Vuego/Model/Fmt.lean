/-
Formatter model (formatter/formatter.go, internal/helpers/string.go) — the leaf writers the property singles out:
attribute values (FormatAttr, escapeAttrAmp, quote choice in renderOpenTag), text (escapeText, normalizeInlineText) and the
front-matter split. The tree layout (block / inline decisions) and the HTML5 parser are NOT modelled: idempotence of the whole
`Format` is covered by the oracle only (DESIGN §C19).
The reading side is the HTML5 tokenizer's attribute-value and data states restricted to what matters here: a value ends at the first
matching quote; `&` starts a character reference only when followed by an ASCII alphanumeric or `#`; which references exist is a
PARAMETER (`entity`), of which only `&amp;`, `&quot;`, `&lt;`, `&gt;` are assumed.
-/
import Vuego.Go.Strings
namespace Vuego.Fmt
open Go

/-- Go regexp `\s`: ASCII white space only -/
def isReSpace (c : Char) : Bool := c == ' ' || c == '\t' || c == '\n' || c == '\x0c' || c == '\r'

/-- `spacesRe.ReplaceAllString(s, " ")`: every maximal run of `\s` becomes one space -/
def collapseAux : Bool → Str → Str
  | _, [] => []
  | inRun, c :: r =>
    if isReSpace c then (if inRun then collapseAux true r else ' ' :: collapseAux true r)
    else c :: collapseAux false r
def collapseWs (s : Str) : Str := collapseAux false s

/-- `helpers.FormatAttr` (the two ReplaceAll calls are subsumed by the `\s+` collapse: "\n" and "\r" are `\s`) -/
def formatAttr (v : Str) : Str := collapseWs (trimSpace v)

def isAlnum (c : Char) : Bool := ('a' ≤ c && c ≤ 'z') || ('A' ≤ c && c ≤ 'Z') || ('0' ≤ c && c ≤ '9')
/-- what can follow `&` to start a character reference -/
def isRefStart (c : Char) : Bool := c == '#' || isAlnum c

def amp : Str := ['&','a','m','p',';']
def quot : Str := ['&','q','u','o','t',';']

/-- does the text start with a character that can begin a character reference (after an `&`)? -/
def startsRef : Str → Bool
  | d :: _ => isRefStart d
  | [] => false

/-- what is written for character `c` followed by `r` -/
def escPiece (q : Bool) (c : Char) (r : Str) : Str :=
  if c == '&' then (if startsRef r then amp else ['&'])
  else if c == '"' && q then quot
  else [c]

/-- `escapeAttrAmp`, optionally followed by `strings.ReplaceAll(val, "\"", "&quot;")` (q = true) -/
def escFull (q : Bool) : Str → Str
  | [] => []
  | c :: r => escPiece q c r ++ escFull q r

/-- the value part of an attribute as renderOpenTag writes it: `="…"`, `='…'`, or nothing for an empty value -/
def writeAttrValue (v0 : Str) : Str :=
  if v0 == [] then []
  else
    let v := formatAttr v0
    let hasDq := (escFull false v).contains '"'
    let hasSq := (escFull false v).contains '\''
    if hasDq && hasSq then '=' :: '"' :: escFull true v ++ ['"']
    else if hasDq then '=' :: '\'' :: escFull false v ++ ['\'']
    else '=' :: '"' :: escFull false v ++ ['"']

def renderOpenTag (tag : Str) (attrs : List (Str × Str)) : Str :=
  '<' :: tag ++ (attrs.flatMap fun a => ' ' :: a.1 ++ writeAttrValue a.2) ++ ['>']

/-! reading back -/

/-- character-reference decoding of an attribute value / text: `entity r` looks at the text after an `&` that is followed by a
    reference-starting character and says what it stands for and how many characters it spans -/
def decode (entity : Str → Option (Str × Nat)) : Nat → Str → Str
  | 0, s => s
  | _, [] => []
  | f + 1, c :: r =>
    if c == '&' && startsRef r then
      match entity r with
      | some (rep, n) => rep ++ decode entity f (r.drop n)
      | none => c :: decode entity f r
    else c :: decode entity f r

/-- text up to the first `q`, and what follows it -/
def untilQuote (q : Char) : Str → Option (Str × Str)
  | [] => none
  | c :: r => if c == q then some ([], r) else (untilQuote q r).map (fun p => (c :: p.1, p.2))

/-- the quoted attribute-value states: the value runs up to the first matching quote and is then decoded -/
def readAttrValue (entity : Str → Option (Str × Nat)) (s : Str) : Option (Str × Str) :=
  match s with
  | '=' :: q :: r =>
    if q == '"' || q == '\'' then
      match untilQuote q r with
      | some (text, rest) => some (decode entity (text.length + 1) text, rest)
      | none => none
    else none
  | _ => none

/-- the assumptions on the reference table -/
structure EntityOK (entity : Str → Option (Str × Nat)) : Prop where
  amp : ∀ r, entity ('a' :: 'm' :: 'p' :: ';' :: r) = some (['&'], 4)
  quot : ∀ r, entity ('q' :: 'u' :: 'o' :: 't' :: ';' :: r) = some (['"'], 5)
  lt : ∀ r, entity ('l' :: 't' :: ';' :: r) = some (['<'], 3)
  gt : ∀ r, entity ('g' :: 't' :: ';' :: r) = some (['>'], 3)

/-- a concrete table for the driver and the non-vacuity examples: the named references above plus decimal numeric ones are not needed -/
def entity4 : Str → Option (Str × Nat)
  | 'a' :: 'm' :: 'p' :: ';' :: _ => some (['&'], 4)
  | 'q' :: 'u' :: 'o' :: 't' :: ';' :: _ => some (['"'], 5)
  | 'l' :: 't' :: ';' :: _ => some (['<'], 3)
  | 'g' :: 't' :: ';' :: _ => some (['>'], 3)
  | _ => none

/-! text -/

/-- position of the first `}}` -/
def findClose : Str → Option Nat
  | [] => none
  | [_] => none
  | a :: b :: r => if a == '}' && b == '}' then some 0 else (findClose (b :: r)).map (· + 1)

def escTextChar (c : Char) : Str :=
  if c == '&' then amp else if c == '<' then ['&','l','t',';'] else if c == '>' then ['&','g','t',';'] else [c]

def ltRef : Str := ['&','l','t',';']
/-- what can follow `<` to open a tag, an end tag, a comment or a bogus comment -/
def isTagStart (c : Char) : Bool := ('a' ≤ c && c ≤ 'z') || ('A' ≤ c && c ≤ 'Z') || c == '/' || c == '!' || c == '?'
def startsTag : Str → Bool
  | d :: _ => isTagStart d
  | [] => false

/-- `writeExpression`: what is written for character `c` followed by `r` inside a `{{ }}` expression -/
def exprPiece (c : Char) (r : Str) : Str :=
  if c == '<' && startsTag r then ltRef
  else if c == '&' && startsRef r then amp
  else [c]

/-- `writeExpression`: the expression is kept as it is except for a `<` that would open markup and a `&` that may open a reference -/
def writeExpr : Str → Str
  | [] => []
  | c :: r => exprPiece c r ++ writeExpr r

/-- `escapeText`: `&`, `<`, `>` are escaped, except inside `{{ … }}`, which goes through `writeExpr`. Fuel = length. -/
def escapeText : Nat → Str → Str
  | 0, _ => []
  | _, [] => []
  | f + 1, c :: r =>
    if c == '{' && hasPrefix r ['{'] then
      match findClose (r.drop 1) with
      | some e => writeExpr ('{' :: '{' :: (r.drop 1).take (e + 2)) ++ escapeText f ((r.drop 1).drop (e + 2))
      | none => escTextChar c ++ escapeText f r
    else escTextChar c ++ escapeText f r

/-- text without a mustache opener -/
def escapePlain : Str → Str
  | [] => []
  | c :: r => escTextChar c ++ escapePlain r

/-! front-matter, on lines (`strings.Split(content, "\n")` / `strings.Join(…, "\n")` happen in the driver) -/

def isFence (l : Str) : Bool := hasPrefix l ['-','-','-']

/-- index (≥ 1) of the closing fence: lines = first :: rest, search in rest -/
def closeIdx : List Str → Option Nat
  | [] => none
  | l :: r => if isFence l then some 0 else (closeIdx r).map (· + 1)

/-- `splitFrontmatter` on lines: (front-matter lines including both fences, body lines) -/
def splitFM (lines : List Str) : List Str × List Str :=
  match lines with
  | [] => ([], [])
  | first :: rest =>
    if !isFence first then ([], lines)
    else match closeIdx rest with
      | some i => (first :: rest.take (i + 1), rest.drop (i + 1))
      | none => ([], lines)

end Vuego.Fmt
