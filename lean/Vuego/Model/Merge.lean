/-
Model of where a template's variables come from: loadConfig / NewFS / Fill / Assign / New / Load (template.go), Vue.Render's
front-matter merge (vue.go). Maps are functions Key → Option Val; the ORDER of every merge loop is a regenerated fact.
-/
import Vuego.Model.Val
namespace Vuego.Merge
open Go Vuego

abbrev M := Str → Option Val

def empty : M := fun _ => none
/-- `for k, v := range over { dst[k] = v }`: `over` wins -/
def overlay (dst over : M) : M := fun k => match over k with | some v => some v | none => dst k
def overlayAll : List M → M := List.foldl overlay empty
def setKey (m : M) (k : Str) (v : Val) : M := fun x => if x = k then some v else m x

/-- the sources a merge loop can range over -/
inductive Src where
  | theme | dataYml            -- loadConfig
  | initialData | passed | frontMatter   -- Fill
  | callerData | fileFrontMatter         -- Vue.Render / mergeFrontMatter
  deriving Repr, DecidableEq

/-- merge orders as read from the source (earlier = lower precedence) -/
structure MergeCfg where
  loadConfig : List Src
  fill : List Src
  render : List Src
  deriving Repr, DecidableEq

structure Engine where
  theme : M
  dataYml : M               -- the data/*.yml files merged in ReadDir order (later file wins)
  fmOf : Str → M            -- front-matter of each template file

def pick (srcs : Src → M) (order : List Src) : M := overlayAll (order.map srcs)

def initialData (cfg : MergeCfg) (E : Engine) : M :=
  pick (fun s => match s with | .theme => E.theme | .dataYml => E.dataYml | _ => empty) cfg.loadConfig

/-- a template value: its variables (one flattened scope plus Assigns) and the front-matter it was loaded with -/
structure Tpl where
  vars : M
  fm : M

def base (cfg : MergeCfg) (E : Engine) : Tpl :=
  { vars := pick (fun s => match s with | .initialData => initialData cfg E | _ => empty) cfg.fill, fm := empty }

inductive Call where
  | fill (passed : M)            -- Fill(v): `passed` = toMapData(v) (struct fields by tag and by Go name included)
  | assign (k : Str) (v : Val)
  | new_
  | load (file : Str)

def apply (cfg : MergeCfg) (E : Engine) (t : Tpl) : Call → Tpl
  | .fill passed =>
    { t with vars := pick (fun s => match s with | .initialData => initialData cfg E | .passed => passed | .frontMatter => t.fm | _ => empty) cfg.fill }
  | .assign k v => { t with vars := setKey t.vars k v }
  | .new_ => { vars := t.vars, fm := empty }
  | .load f => { vars := overlay t.vars (E.fmOf f), fm := E.fmOf f }

def run (cfg : MergeCfg) (E : Engine) (t : Tpl) (calls : List Call) : Tpl := calls.foldl (apply cfg E) t

/-- the environment `Vue.Render(file, t.stack.EnvMap())` evaluates the file in -/
def renderEnv (cfg : MergeCfg) (E : Engine) (t : Tpl) (file : Str) : M :=
  pick (fun s => match s with | .callerData => t.vars | .fileFrontMatter => E.fmOf file | _ => empty) cfg.render

end Vuego.Merge
