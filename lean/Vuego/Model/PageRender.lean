/-
`Vue.Render(w, file, data)` / `template.Load(file).Fill(data).Render` without a layout, as one function of (files, components, data):
front-matter over the data, evaluation from a fresh context, serialisation.
-/
import Vuego.Model.Eval
import Vuego.Model.Render
import Vuego.Model.Md
namespace Vuego
open Go

def renderFile (W : World) (fuel : Nat) (file : Str) (data : Val) : Res Str :=
  match W.files.lookup file with
  | none => .err "load" file
  | some (fm, dom) =>
    let dataMap := fm.foldl (fun (m : Scope) (kv : Str × Val) => Scope.set m kv.1 kv.2) (toMapData W.P.cfg data)
    match evaluatePage W fuel file (assignSeenAttrs file dom) (Stack.new dataMap data) with
    | .ok (nodes, _) => .ok (render nodes)
    | .err c m => .err c m
    | .panic s => .panic s
    | .hang s => .hang s
    | .fuel => .fuel

/-- the template renderer the markdown package uses: file `markdown/<name>.vuego` of the (overlaid) template filesystem -/
def Md.fileTpl (W : World) (fuel : Nat) : Md.Tpl :=
  fun name data => renderFile W fuel ("markdown/".toList ++ name ++ ".vuego".toList) (.map .anyMap data)

end Vuego
