/-
A tokenizer for the *output language* of the serialiser, after the HTML5 tokenizer state machine (WHATWG §13.2.5):
data, tag open, end tag open, tag name, before/after attribute name, attribute name, before attribute value,
attribute value (double-quoted / single-quoted / unquoted), after attribute value (quoted), self-closing start tag,
bogus comment / markup declaration; character references restricted to the five the serialiser can emit
(`&amp; &lt; &gt; &#34; &#39;`; any other `&` is a literal ampersand).
RAWTEXT/RCDATA/script data states are not modelled: script/style/title/textarea content is an exemption of the property.
The model tokenizer is validated against golang.org/x/net/html's tokenizer on every rendered output (harness op `tokenize`).
-/
import Vuego.Go.Strings
namespace Vuego.Html
open Go

inductive Tok where
  | ch (c : Char)
  | startTag (name : Str) (attrs : List (Str × Str)) (selfClosing : Bool)
  | endTag (name : Str)
  | comment
  deriving Repr, DecidableEq

/-- a tag under construction -/
structure Tag where
  isEnd : Bool
  name : Str
  attrs : List (Str × Str)     -- completed attributes, in order
  deriving Repr, DecidableEq

inductive St where
  | data
  | dataRef (acc : Str)                            -- after '&' in data: characters collected so far
  | tagOpen
  | endTagOpen
  | tagName (t : Tag)
  | beforeAttrName (t : Tag)
  | attrName (t : Tag) (an : Str)
  | afterAttrName (t : Tag) (an : Str)
  | beforeAttrValue (t : Tag) (an : Str)
  | valDq (t : Tag) (an : Str) (acc : Str)
  | valDqRef (t : Tag) (an : Str) (acc : Str) (r : Str)
  | valSq (t : Tag) (an : Str) (acc : Str)
  | valUq (t : Tag) (an : Str) (acc : Str)
  | afterValQ (t : Tag)
  | selfClosing (t : Tag)
  | bogus                                          -- `<!…>` / `<?…>` / `</ …>`: skipped up to '>'
  deriving Repr, DecidableEq

def isWs (c : Char) : Bool := c == ' ' || c == '\n' || c == '\t' || c == '\x0c' || c == '\r'
def isAlpha (c : Char) : Bool := ('a' ≤ c && c ≤ 'z') || ('A' ≤ c && c ≤ 'Z')
def lower (c : Char) : Char := if 'A' ≤ c && c ≤ 'Z' then Char.ofNat (c.toNat + 32) else c

def emitTag (t : Tag) (selfClose : Bool) : Tok :=
  if t.isEnd then .endTag t.name else .startTag t.name t.attrs selfClose

/-- the references the serialiser emits: body (between '&' and ';') ↦ character -/
def refTable : List (Str × Char) :=
  [(['a','m','p'], '&'), (['l','t'], '<'), (['g','t'], '>'), (['#','3','4'], '"'), (['#','3','9'], '\''), (['#','1','3'], '\r')]

def isRefPrefix (acc : Str) : Bool := refTable.any (fun e => hasPrefix e.1 acc)

def addAttr (t : Tag) (an v : Str) : Tag := { t with attrs := t.attrs ++ [(an, v)] }

/-- the data state on its own (used when another state hands a character back to it) -/
def stepData (c : Char) : St × List Tok :=
  if c == '<' then (.tagOpen, [])
  else if c == '&' then (.dataRef [], [])
  else (.data, [.ch c])

/-- one step of the state machine: new state and the tokens emitted by this character -/
def step : St → Char → St × List Tok
  | .data, c => stepData c
  | .dataRef acc, c =>
    if c == ';' then
      match refTable.lookup acc with
      | some d => (.data, [.ch d])
      | none => (.data, (.ch '&' :: acc.map .ch) ++ [.ch ';'])
    else if isRefPrefix (acc ++ [c]) then (.dataRef (acc ++ [c]), [])
    else
      -- not a reference: flush '&' and the collected characters, then treat c in the data state
      let (s', out) := stepData c
      (s', (.ch '&' :: acc.map .ch) ++ out)
  | .tagOpen, c =>
    if c == '/' then (.endTagOpen, [])
    else if isAlpha c then (.tagName { isEnd := false, name := [lower c], attrs := [] }, [])
    else if c == '!' || c == '?' then (.bogus, [])
    else
      let (s', out) := stepData c
      (s', .ch '<' :: out)
  | .endTagOpen, c =>
    if isAlpha c then (.tagName { isEnd := true, name := [lower c], attrs := [] }, [])
    else if c == '>' then (.data, [])
    else (.bogus, [])
  | .tagName t, c =>
    if isWs c then (.beforeAttrName t, [])
    else if c == '/' then (.selfClosing t, [])
    else if c == '>' then (.data, [emitTag t false])
    else (.tagName { t with name := t.name ++ [lower c] }, [])
  | .beforeAttrName t, c =>
    if isWs c then (.beforeAttrName t, [])
    else if c == '/' then (.selfClosing t, [])
    else if c == '>' then (.data, [emitTag t false])
    else (.attrName t [lower c], [])
  | .attrName t an, c =>
    if isWs c then (.afterAttrName t an, [])
    else if c == '/' then (.selfClosing (addAttr t an []), [])
    else if c == '>' then (.data, [emitTag (addAttr t an []) false])
    else if c == '=' then (.beforeAttrValue t an, [])
    else (.attrName t (an ++ [lower c]), [])
  | .afterAttrName t an, c =>
    if isWs c then (.afterAttrName t an, [])
    else if c == '/' then (.selfClosing (addAttr t an []), [])
    else if c == '=' then (.beforeAttrValue t an, [])
    else if c == '>' then (.data, [emitTag (addAttr t an []) false])
    else (.attrName (addAttr t an []) [lower c], [])
  | .beforeAttrValue t an, c =>
    if isWs c then (.beforeAttrValue t an, [])
    else if c == '"' then (.valDq t an [], [])
    else if c == '\'' then (.valSq t an [], [])
    else if c == '>' then (.data, [emitTag (addAttr t an []) false])
    else (.valUq t an [c], [])
  | .valDq t an acc, c =>
    if c == '"' then (.afterValQ (addAttr t an acc), [])
    else if c == '&' then (.valDqRef t an acc [], [])
    else (.valDq t an (acc ++ [c]), [])
  | .valDqRef t an acc r, c =>
    if c == ';' then
      match refTable.lookup r with
      | some d => (.valDq t an (acc ++ [d]), [])
      | none => (.valDq t an (acc ++ '&' :: r ++ [';']), [])
    else if isRefPrefix (r ++ [c]) then (.valDqRef t an acc (r ++ [c]), [])
    else if c == '"' then (.afterValQ (addAttr t an (acc ++ '&' :: r)), [])
    else if c == '&' then (.valDqRef t an (acc ++ '&' :: r) [], [])
    else (.valDq t an (acc ++ '&' :: r ++ [c]), [])
  | .valSq t an acc, c =>
    if c == '\'' then (.afterValQ (addAttr t an acc), [])
    else (.valSq t an (acc ++ [c]), [])
  | .valUq t an acc, c =>
    if isWs c then (.beforeAttrName (addAttr t an acc), [])
    else if c == '>' then (.data, [emitTag (addAttr t an acc) false])
    else (.valUq t an (acc ++ [c]), [])
  | .afterValQ t, c =>
    if isWs c then (.beforeAttrName t, [])
    else if c == '/' then (.selfClosing t, [])
    else if c == '>' then (.data, [emitTag t false])
    else (.attrName t [lower c], [])
  | .selfClosing t, c =>
    if c == '>' then (.data, [emitTag t true])
    else if isWs c then (.beforeAttrName t, [])
    else (.attrName t [lower c], [])
  | .bogus, c =>
    if c == '>' then (.data, [.comment]) else (.bogus, [])


def run : St → Str → St × List Tok
  | s, [] => (s, [])
  | s, c :: r =>
    let (s1, o1) := step s c
    let (s2, o2) := run s1 r
    (s2, o1 ++ o2)

/-- tokens of a complete document (pending partial tokens at end of input are dropped, as a parser drops them) -/
def tokenize (input : Str) : List Tok := (run .data input).2

end Vuego.Html
