/-
DOM as the evaluator and the serialiser see it (golang.org/x/net/html Node, reduced to what vuego reads:
type, data, attributes in order, children).
-/
import Vuego.Go.Strings
namespace Vuego
open Go

abbrev Attr := Str × Str

inductive Node where
  | text (d : Str)
  | elem (tag : Str) (attrs : List Attr) (kids : List Node)
  | comment (d : Str)
  | doctype (d : Str)
  deriving Repr, Inhabited

def getAttr (attrs : List Attr) (k : Str) : Str := (attrs.lookup k).getD []
def hasAttr (attrs : List Attr) (k : Str) : Bool := attrs.any (fun a => a.1 == k)
def removeAttr (attrs : List Attr) (k : Str) : List Attr := attrs.filter (fun a => a.1 != k)
/-- `helpers.SetAttr`: replace the first occurrence, else append -/
def setAttr : List Attr → Str → Str → List Attr
  | [], k, v => [(k, v)]
  | (k', v') :: r, k, v => if k' == k then (k, v) :: r else (k', v') :: setAttr r k v

def sVHtml : Str := "data-v-html-content".toList
def sVText : Str := "data-v-text-content".toList
def sTemplate : Str := "template".toList
def sScript : Str := "script".toList
def sStyle : Str := "style".toList
def sVKeep : Str := "v-keep".toList

/-- the loop `for _, attr := range node.Attr { if html-content {..; break}; if text-content {..; break} }` -/
def contentAttrs : List Attr → Str × Str
  | [] => ([], [])
  | (k, v) :: r =>
    if k == sVHtml then (v, [])
    else if k == sVText then ([], v)
    else contentAttrs r

mutual
def Node.size : Node → Nat
  | .elem _ _ kids => 1 + Node.sizeList kids
  | _ => 1
def Node.sizeList : List Node → Nat
  | [] => 0
  | n :: r => n.size + Node.sizeList r
end

/-- `isBlankText` (component.go): a text node of HTML white space only - space, tab, LF, FF, CR - is layout between tags and is not
    written; every other character, the no-break space and the other Unicode spaces included, is content -/
def blankText (d : Str) : Bool := d.all (fun c => c == ' ' || c == '\t' || c == '\n' || c == '\x0c' || c == '\r')

end Vuego
