/-
Model of the evaluator: /repo/eval_core.go, eval_condition.go, eval_for.go, eval_attributes.go (evalAttributes),
eval_v_html.go, eval_v_text.go, eval_visibility.go, eval_template.go, eval_include.go, eval_slot.go, slot_processor.go
(extractSlotContent), node_processor.go (resolveComponentTags), vue.go (assignSeenAttrs) — statement for statement, on the
repaired tree. Recursion takes fuel; Go panics / hangs would be explicit outcomes (none remain in this part of the code).
External parts are parameters: the expression evaluator (`Params.exprEval`), the parsed component files (`World.files`), JSON decoding.
-/
import Vuego.Model.Interp
import Vuego.Generated.Consts
namespace Vuego
open Go

def S (s : String) : Str := s.toList

structure SlotContent where
  nodes : List Node
  tmpl : Option (List Attr × List Node)     -- TemplateNode: attributes and children of the `<template v-slot…>`
  deriving Repr, Inhabited

abbrev SlotScope := List (Str × SlotContent)

/-- what stays fixed during one render -/
structure World where
  P : Params
  files : List (Str × (Scope × List Node))   -- name ↦ (front-matter, parsed DOM)
  comps : List (Str × Str)                   -- registered shorthand tag ↦ file
  jsonDecode : Str → Option Val

/-- the part of VueContext that evaluation reads -/
structure Ctx where
  slots : List SlotScope     -- innermost first: the content supplied on this component instance's own tag, then the includer's, and so on outwards
  chain : List Str          -- TemplateStack
  /-- the named slots a PAGE hands to its LAYOUTS (`extractSlotsFromDOM`; the data key `__slotScope__`, visible at every depth of a layout's
      evaluation): empty while the page itself and any file rendered without a layout is evaluated -/
  inherited : SlotScope := []
  deriving Inhabited

/-- the mutable part: the variable stack and the v-once `seen` set (shared along the include chain) -/
structure St where
  stack : Stack
  seen : List Str
  deriving Inhabited

abbrev R (α : Type) := Res (α × St)

def formatChain (c : Ctx) : Str := joinWith (S " -> ") c.chain

/-! ### small pure pieces -/

def isBoundKey (k : Str) : Option Str :=
  if hasPrefix k [':'] then some (k.drop 1)
  else if hasPrefix k (S "v-bind:") then some (k.drop 7)
  else none

def boundNameOf (k : Str) : Str := (isBoundKey k).getD k

/-- `parseFor` -/
def parseFor (s0 : Str) : Res (List Str × Str) :=
  let s := trimSpace s0
  match index s (S " in ") with
  | none => .err "v-for" (S "invalid v-for expression: " ++ s)
  | some i =>
    let left := trimSpace (s.take i)
    let right := trimSpace (s.drop (i + 4))
    let vars := if hasPrefix left ['('] && hasSuffix left [')'] then (splitChar ',' (trimSpace ((left.drop 1).dropLast))).map trimSpace else [left]
    match vars with
    | [] => .err "v-for" (S "no iteration variables in v-for: " ++ s)
    | v :: _ => if v == [] then .err "v-for" (S "no iteration variables in v-for: " ++ s) else .ok (vars, right)

/-- `checkRequired(node, data)` -/
def checkRequired (attrs : List Attr) (env : Scope) : Option Str :=
  let fields := (attrs.filter (fun a => a.1 == S ":require" || a.1 == S ":required")).flatMap (fun a => (splitChar ',' a.2).map trimSpace |>.filter (· != []))
  fields.find? (fun f => (Scope.get env f).isNone)

-- `assignSeenAttrs(filename, nodes)`: v-once elements numbered in document order
mutual
def assignIdsNode (file : Str) : Nat → Node → Node × Nat
  | n, .elem tag attrs kids =>
    let (attrs', n') := if hasAttr attrs (S "v-once") then (setAttr attrs (S "v-once-id") (file ++ '#' :: natToStr (n + 1)), n + 1) else (attrs, n)
    let (kids', n'') := assignIdsList file n' kids
    (.elem tag attrs' kids', n'')
  | n, other => (other, n)
def assignIdsList (file : Str) : Nat → List Node → List Node × Nat
  | n, [] => ([], n)
  | n, x :: r =>
    let (x', n') := assignIdsNode file n x
    let (r', n'') := assignIdsList file n' r
    (x' :: r', n'')
end

def assignSeenAttrs (file : Str) (nodes : List Node) : List Node := (assignIdsList file 0 nodes).1

-- `resolveComponentTags`: a registered tag becomes `<template include=file>` (its children are not visited)
mutual
def resolveTagsNode (comps : List (Str × Str)) : Node → Node
  | .elem tag attrs kids =>
    match comps.lookup tag with
    | some file => .elem (S "template") (attrs ++ [(S "include", file)]) kids
    | none => .elem tag attrs (resolveTagsList comps kids)
  | other => other
def resolveTagsList (comps : List (Str × Str)) : List Node → List Node
  | [] => []
  | x :: r => resolveTagsNode comps x :: resolveTagsList comps r
end

def hasVSlot (attrs : List Attr) : Bool :=
  attrs.any (fun a => a.1 == S "v-slot" || hasPrefix a.1 (S "v-slot:") || (a.1.head? == some '#'))

def slotNameOf : List Attr → Str
  | [] => S "default"
  | (k, _) :: r =>
    if k.head? == some '#' then (if k.drop 1 == [] then S "default" else k.drop 1)
    else if hasPrefix k (S "v-slot:") then (if k.drop 7 == [] then S "default" else k.drop 7)
    else if k == S "v-slot" then S "default"
    else slotNameOf r

def setSlot : SlotScope → Str → SlotContent → SlotScope
  | [], n, c => [(n, c)]
  | (n', c') :: r, n, c => if n' == n then (n, c) :: r else (n', c') :: setSlot r n c

/-- one child of the include tag, in `extractSlotContent`'s walk: (named slots so far, default-slot content so far) -/
def slotStep (acc : SlotScope × List Node) (k : Node) : SlotScope × List Node :=
  match k with
  | .text d => if !blankText d then (acc.1, acc.2 ++ [.text d]) else acc
  | .elem tag attrs ks =>
    if tag == S "template" && hasVSlot attrs then (setSlot acc.1 (slotNameOf attrs) { nodes := ks, tmpl := some (attrs, ks) }, acc.2)
    else (acc.1, acc.2 ++ [k])
  | _ => acc

/-- `extractSlotContent(node)` -/
def extractSlotContent (kids : List Node) : SlotScope :=
  let r := kids.foldl slotStep ([], [])
  if !r.2.isEmpty then setSlot r.1 (S "default") { nodes := r.2, tmpl := none } else r.1

/-- the marker of a page-level slot template: the FIRST attribute that is `#…` or `v-slot:…` decides (an empty name there registers nothing) -/
def pageSlotName : List Attr → Str
  | [] => []
  | (k, _) :: r =>
    if k.head? == some '#' then k.drop 1
    else if hasPrefix k (S "v-slot:") then k.drop 7
    else pageSlotName r

-- `extractSlotsFromDOM(nodes)`: every `<template #name>` / `<template v-slot:name>` at ANY depth of the page's DOM, in document order (a
-- later one of the same name replaces an earlier one); the content is the template's children, the template itself is kept for scoped props
mutual
def pageSlotsNode (acc : SlotScope) : Node → SlotScope
  | .elem tag attrs kids =>
    let acc1 := if tag == S "template" && pageSlotName attrs != [] then setSlot acc (pageSlotName attrs) { nodes := kids, tmpl := some (attrs, kids) } else acc
    pageSlotsList acc1 kids
  | _ => acc
def pageSlotsList (acc : SlotScope) : List Node → SlotScope
  | [] => acc
  | n :: r => pageSlotsList (pageSlotsNode acc n) r
end

def extractPageSlots (dom : List Node) : SlotScope := pageSlotsList [] dom

/-- the slots a page hands to its layout chain, as `template.layout` extracts them: the page is parsed once more and its v-once elements
    are stamped with the ids they also carry in the page's own render (fix: they used to carry none, so two different v-once elements in
    slot content shared the empty id and the first suppressed the second) -/
def pageSlotsOf (page : Str) (dom : List Node) : SlotScope := extractPageSlots (assignSeenAttrs page dom)

/-- `evalInclude`'s merge: an inherited slot fills a name the include tag did not supply itself -/
def mergeInherited (own inherited : SlotScope) : SlotScope :=
  inherited.foldl (fun (acc : SlotScope) (e : Str × SlotContent) => if (acc.lookup e.1).isSome then acc else acc ++ [e]) own

/-- scoped variable name of a slot template: the value of the last `v-slot`, `v-slot:x` or `#x` attribute -/
def scopedVarName (attrs : List Attr) : Str :=
  attrs.foldl (fun acc a => if a.1 == S "v-slot" || hasPrefix a.1 (S "v-slot:") || a.1.head? == some '#' then a.2 else acc) []

/-- `destructuredNames` -/
def destructuredNames (pattern0 : Str) : Option (List Str) :=
  let p := trimSpace pattern0
  if hasPrefix p ['{'] && hasSuffix p ['}'] then some (((splitChar ',' ((p.drop 1).dropLast)).map trimSpace).filter (· != [])) else none

/-! ### chains: which member renders, how many siblings are consumed -/

inductive Pick where
  | none                       -- no branch
  | member (idx : Nat)         -- nodes[idx] renders (idx = 0 is the v-if element itself)
  deriving Repr, DecidableEq

def isElseMember : Node → Bool
  | .elem _ attrs _ => hasAttr attrs (S "v-else-if") || hasAttr attrs (S "v-else")
  | _ => false

def isElem : Node → Bool
  | .elem _ _ _ => true
  | _ => false

/-- index (relative to the v-if node = 0) of the last consecutive else-member, non-elements skipped: the `lastChainNodeIdx` scan -/
def lastChainIdx : List Node → Nat → Nat → Nat
  | [], _, last => last
  | n :: r, idx, last =>
    if !isElem n then lastChainIdx r (idx + 1) last
    else if isElseMember n then lastChainIdx r (idx + 1) idx
    else last

/-- the loop over the following siblings when the v-if condition is false; `cond` evaluates a v-else-if expression -/
def chainScan (cond : Str → Res Bool) : List Node → Nat → Nat → Res (Pick × Nat)
  | [], _, last => .ok (.none, last)
  | n :: r, idx, last =>
    match n with
    | .elem _ attrs _ =>
      if !(hasAttr attrs (S "v-else-if") || hasAttr attrs (S "v-else")) then .ok (.none, last)
      else
        let ei := getAttr attrs (S "v-else-if")
        if ei != [] then
          match cond ei with
          | .ok true => .ok (.member idx, idx)
          | .ok false => chainScan cond r (idx + 1) idx
          | e => e.castErr
        else if hasAttr attrs (S "v-else") then .ok (.member idx, idx)
        else chainScan cond r (idx + 1) idx
    | _ => chainScan cond r (idx + 1) last

/-- `evalElseIfChain` without the evaluation of the chosen member: (which member, skipCount) -/
def chainSelect (cond : Str → Res Bool) (vIf : Str) (rest : List Node) : Res (Pick × Nat) :=
  if vIf == [] then .ok (.none, 0)
  else match cond vIf with
    | .ok true => .ok (.member 0, lastChainIdx rest 1 0)
    | .ok false => chainScan cond rest 1 0
    | e => e.castErr

/-! ### attributes -/

/-- `evalAttributes`: (new attribute list, the results map = the include's props) -/
def evalAttributes (P : Params) (s : Stack) (attrs : List Attr) : Res (List Attr × Scope) :=
  -- first pass
  let first := attrs.foldl (fun (acc : Res (List Attr × List Str × Scope)) (a : Attr) =>
    match acc with
    | .ok (newAttrs, order, results) =>
      let key := a.1
      let val := trimSpace a.2
      let boundName := boundNameOf key
      if key == sVHtml || key == sVText then .ok (newAttrs ++ [(key, val)], order, results)
      else if boundName != key then
        match wrapErr (S "error evaluating attr " ++ boundName ++ S ": ") (evalBoundAttribute P s boundName val) with
        | .ok v =>
          if !isTruthy v then .ok (newAttrs, order, results)
          else .ok (newAttrs, (if order.contains boundName then order else order ++ [boundName]), Scope.set results boundName v)
        | e => e.castErr
      else if Generated.containsInterpolation val then
        match interpolate P s val with
        | .ok t => .ok (newAttrs ++ [(key, t)], order, results)
        | .err c m => .err c (S "error evaluating attr " ++ boundName ++ S ": " ++ m)
        | e => e.castErr
      else .ok (newAttrs ++ [(key, val)], order, results)
    | e => e) (.ok ([], [], []))
  match first with
  | .ok (newAttrs, order, results) =>
    -- second pass: merge bound values with statics, in source order of the bound attributes
    let merged := order.foldl (fun (na : List Attr) name =>
      let v := (Scope.get results name).getD .nil
      if hasAttr na name then
        let cur := getAttr na name
        if name == S "class" then setAttr na name (cur ++ ' ' :: v.sprint)
        else if name == S "style" then setAttr na name (mergeStyles cur v.sprint)
        else setAttr na name v.sprint
      else if isTruthy v then na ++ [(name, v.sprint)] else na) newAttrs
    let results' := merged.foldl (fun (rs : Scope) (a : Attr) => if (Scope.get rs a.1).isSome then rs else Scope.set rs a.1 (.str a.2)) results
    .ok (merged, results')
  | e => e.castErr

/-- `evalVHtml` / `evalVText` on an attribute list: `some attrs'` when the content attribute was appended (children are then dropped) -/
def evalVContent (P : Params) (s : Stack) (attrs : List Attr) (directive contentKey : Str) (esc : Bool) : Res (Option (List Attr)) :=
  let expr := getAttr attrs directive
  if expr == [] then .ok none
  else
    let valR : Res (Option Val) :=
      match s.resolve P.cfg expr with
      | .ok (some v) => .ok (some v)
      | .ok none =>
        if routesToPipe expr then
          (match wrapErr (S "in expression '{{ " ++ expr ++ S " }}': ") (evalPipe P s (parsePipeExpr expr)) with
           | .ok v => .ok (some v)
           | e => e.castErr)
        else .ok none
      | r => r
    match valR with
    | .ok (some v) => .ok (some (attrs ++ [(contentKey, if esc then escape v.sprint else v.sprint)]))
    | .ok none => .ok none
    | e => e.castErr

/-- `evalVShow` (after attribute binding) -/
def evalVShow (P : Params) (s : Stack) (attrs : List Attr) : Res (List Attr) :=
  let expr := getAttr attrs (S "v-show")
  if expr == [] then .ok attrs
  else match evalCondition P s expr with
    | .ok true => .ok attrs
    | .ok false => .ok (setAttr attrs (S "style") (joinStyleDecls (mergeStyleDecl (parseStyleDecls (getAttr attrs (S "style"))) (S "display", S "none"))))
    | e => e.castErr

/-- the prologue shared by the plain-element path and evaluateNodeAsElement: v-html, v-text, attributes, v-show.
    Returns the new attributes and whether the children are replaced by evaluated content (`true`) or dropped/kept raw. -/
def elementPrologue (P : Params) (s : Stack) (attrs : List Attr) : Res (List Attr × Bool × Bool) :=
  let hasVHtml := getAttr attrs (S "v-html") != []
  let hasVText := getAttr attrs (S "v-text") != []
  match evalVContent P s attrs (S "v-html") sVHtml false with
  | .ok h =>
    let attrs1 := h.getD attrs
    match evalVContent P s attrs1 (S "v-text") sVText true with
    | .ok t =>
      let attrs2 := t.getD attrs1
      let cleared := h.isSome || t.isSome
      match evalAttributes P s attrs2 with
      | .ok (attrs3, _) =>
        match evalVShow P s attrs3 with
        | .ok attrs4 => .ok (attrs4, hasVHtml || hasVText, cleared)
        | e => e.castErr
      | e => e.castErr
    | e => e.castErr
  | e => e.castErr

def setMany (s : Stack) (kvs : Scope) : Stack := kvs.foldl (fun st (kv : Str × Val) => st.set kv.1 kv.2) s

-- `propagateTemplateAttributes(clone)`: for every `<template>` in the subtree, each `:x`/`v-bind:x` whose name can be
-- looked up is written into the scope below the top one. It runs AFTER the clone was evaluated, and evaluation rewrites the bound
-- attributes of a `<template include>` in place into static ones (evalTemplate calls evalAttributes on the node itself), so an include tag
-- has no bound attribute left to propagate. (Not modelled: an include tag in an untaken v-if branch keeps its bound attributes.)
mutual
def propagateNode (cfg : ReflectCfg) : Stack → Node → Stack
  | s, .elem tag attrs kids =>
    let s1 := if tag == S "template" && !hasAttr attrs (S "include") then
      attrs.foldl (fun (st : Stack) (a : Attr) =>
        match isBoundKey a.1 with
        | some name =>
          (match st.lookup cfg name with
           | .ok (some v) =>
             (match st.scopes.reverse with
              | top :: below => { st with scopes := (Stack.setTop below.reverse name v) ++ [top] }
              | [] => st)
           | _ => st)
        | none => st) s
      else s
    propagateList cfg s1 kids
  | s, _ => s
def propagateList (cfg : ReflectCfg) : Stack → List Node → Stack
  | s, [] => s
  | s, n :: r => propagateList cfg (propagateNode cfg s n) r
end

/-- which elements the v-once test at the top of `evaluate` applies to: not the looped ones (tested per instance) and not chain members,
    head included (tested when the chain selects them; `v-pre` switches the chain directives off, so such an element is tested here) -/
def onceHereOf (attrs : List Attr) : Bool :=
  hasAttr attrs (S "v-once") && !hasAttr attrs (S "v-for") &&
    (hasAttr attrs (S "v-pre") || (!hasAttr attrs (S "v-if") && !hasAttr attrs (S "v-else-if") && !hasAttr attrs (S "v-else")))

/-- the v-once rule for one element: `none` = already rendered in this render (skip it), `some st'` = go on, with the id recorded when the
    element is marked (an element that also carries v-for is checked per iteration, on its clones) -/
def onceGate (st : St) (a : List Attr) : Option St :=
  if hasAttr a (S "v-once") && !hasAttr a (S "v-for") then
    if st.seen.contains (getAttr a (S "v-once-id")) then none
    else some { st with seen := st.seen ++ [getAttr a (S "v-once-id")] }
  else some st

/-! ### the evaluator -/

def includeLimit : Nat := Generated.includeMaxDepth.getD 1000000

/-- sequencing of state-passing results -/
def bindR {α β : Type} (r : R α) (k : α → St → R β) : R β :=
  match r with
  | .ok (a, st) => k a st
  | .err c m => .err c m
  | .panic s => .panic s
  | .hang s => .hang s
  | .fuel => .fuel

/-- sequencing of a pure (stack-reading) result into a state-passing one -/
def bindE {α β : Type} (r : Res α) (k : α → R β) : R β :=
  match r with
  | .ok a => k a
  | .err c m => .err c m
  | .panic s => .panic s
  | .hang s => .hang s
  | .fuel => .fuel

def prepend (res : List Node) (r : R (List Node)) : R (List Node) := bindR r (fun out st => .ok (res ++ out, st))

/-- bound attributes of a `<template>` chain member set variables in the current scope: expr-lang, then path, else nil -/
def setTemplateBound (P : Params) (attrs : List Attr) (stack : Stack) : Stack :=
  attrs.foldl (fun (sk : Stack) (a : Attr) =>
    match isBoundKey a.1 with
    | some name =>
      let e := trimSpace a.2
      (match P.exprEval e (sk.envMap P.cfg) with
       | .ok v => sk.set name v
       | _ => (match sk.resolve P.cfg e with | .ok (some v) => sk.set name v | _ => sk.set name .nil))
    | none => sk) stack

/-- one attribute of a scope-setting `<template>` (evalTemplate's attribute loop) -/
def setTemplateAttr (W_P : Params) (jsonDecode : Str → Option Val) (sk : Stack) (a : Attr) : Res Stack :=
  let key := a.1
  let val := trimSpace a.2
  if hasPrefix key (S "v-") then .ok sk        -- directive attributes, `v-bind:` included (it starts with "v-")
  else if hasPrefix key [':'] then
    let name := key.drop 1
    if name == S "require" || name == S "required" then .ok sk
    else
      match evalPipe W_P sk (parsePipeExpr val) with
      | .ok v => .ok (sk.set name v)
      | .err _ _ =>
        (match W_P.exprEval val (sk.envMap W_P.cfg) with
         | .ok v => .ok (sk.set name v)
         | .err _ _ => (match sk.resolve W_P.cfg val with | .ok (some v) => .ok (sk.set name v) | .ok none => .ok (sk.set name .nil) | r => r.castErr)
         | r => r.castErr)
      | r => r.castErr
  else if hasPrefix val ['{'] || hasPrefix val ['['] then
    (match jsonDecode val with | some v => .ok (sk.set key v) | none => .ok (sk.set key (.str val)))
  else .ok (sk.set key (.str val))

def setTemplateAttrs (P : Params) (jsonDecode : Str → Option Val) : List Attr → Stack → Res Stack
  | [], sk => .ok sk
  | a :: r, sk => match setTemplateAttr P jsonDecode sk a with | .ok sk' => setTemplateAttrs P jsonDecode r sk' | e => e

/-- the stack inside a slot template: a fresh scope holding the slot props under the declared name, destructured, or directly -/
def slotScopeStack (stack : Stack) (sv : Str) (props : Scope) : Stack :=
  let pushed := stack.push []
  match destructuredNames sv with
  | some names => names.foldl (fun (k : Stack) nm => match Scope.get props nm with | some v => k.set nm v | none => k) pushed
  | none => if sv != [] then pushed.set sv (.map .anyMap props) else setMany pushed props

def slotProps (P : Params) (env : Scope) (attrs : List Attr) : Scope :=
  attrs.foldl (fun (ps : Scope) (a : Attr) =>
    match a.1 with
    | ':' :: pn => (match P.exprEval a.2 env with | .ok .nil => ps | .ok v => Scope.set ps pn v | _ => ps)
    | _ => ps) []

def loopStack (stack : Stack) (vars : List Str) (x : Val) (i : Nat) : Option Stack :=
  let pushed := stack.push []
  match vars with
  | [v] => some (pushed.set v x)
  | [iv, v] => some ((pushed.set iv (.int .int i)).set v x)
  | _ => none

/-- the up-front `:required` check of a component whose file starts with a `<template>` wrapper (not an include) -/
def wrapperRequired (dom : List Node) (env : Scope) : Option Str :=
  match dom with
  | .elem t a _ :: _ => if t == S "template" && !hasAttr a (S "include") then checkRequired a env else none
  | _ => none

def decodeVars (jsonDecode : Str → Option Val) (vars : Scope) : Scope :=
  (vars.filter (fun kv => kv.1 != S "include")).map (fun (kv : Str × Val) => match kv.2 with
    | .str t => if hasPrefix t ['{'] || hasPrefix t ['['] then (match jsonDecode t with | some v => (kv.1, v) | none => kv) else kv
    | _ => kv)

/-- the attributes of one loop instance: `v-for` removed, and the chain directives of a looped `v-else-if` / `v-else` member with it -/
def loopInstanceAttrs (attrs : List Attr) : List Attr :=
  removeAttr (removeAttr (removeAttr attrs (S "v-for")) (S "v-else-if")) (S "v-else")

/-- the attributes of a kept (`v-keep`) template tag: `evalTemplate` evaluates the attributes of an include tag IN PLACE on the node
    (`evalAttributes` rewrites `node.Attr`), and the kept tag is cloned from that node afterwards — so a kept include tag shows its
    evaluated attributes (static, interpolated, bound ones merged), any other kept template its attributes as written -/
def keptAttrs (P : Params) (s : Stack) (attrs : List Attr) : List Attr :=
  if hasAttr attrs (S "include") then
    match evalAttributes P s attrs with
    | .ok (a, _) => a
    | _ => attrs
  else attrs

mutual

/-- `evaluate(ctx, nodes)` -/
def evalList (W : World) : Nat → Ctx → St → List Node → R (List Node)
  | 0, _, _, _ => .fuel
  | _ + 1, _, st, [] => .ok ([], st)
  | f + 1, ctx, st, n :: rest =>
    match n with
    | .text d =>
      (match interpolate W.P st.stack d with
       | .ok t => prepend [.text t] (evalList W f ctx st rest)
       | .err c m => .err c (S "in " ++ formatChain ctx ++ S ": " ++ m)
       | e => e.castErr)
    | .comment d => prepend [.comment d] (evalList W f ctx st rest)
    | .doctype d => prepend [.doctype d] (evalList W f ctx st rest)
    | .elem tag attrs kids =>
      -- v-once (checked per iteration on the clones when the element also carries v-for)
      -- a chain member - the head included - is gated when it is SELECTED, not when it is merely reached (fix: a head whose v-if was
      -- false, or a stray v-else, used up its v-once)
      let onceHere := onceHereOf attrs
      let id := getAttr attrs (S "v-once-id")
      if onceHere && st.seen.contains id then evalList W f ctx st rest
      else
        let st := if onceHere then { st with seen := st.seen ++ [id] } else st
        if hasAttr attrs (S "v-pre") then prepend [.elem tag attrs kids] (evalList W f ctx st rest)
        -- a v-else-if / v-else member not consumed by a chain or an empty loop is dropped, also when it carries v-for (fix: looped chain members)
        else if !hasAttr attrs (S "v-if") && (hasAttr attrs (S "v-else-if") || hasAttr attrs (S "v-else")) then evalList W f ctx st rest
        else if hasAttr attrs (S "v-for") then
          bindR (evalVFor W f ctx st tag attrs kids rest) (fun rs st1 => prepend rs.1 (evalList W f ctx st1 (rest.drop rs.2)))
        else if hasAttr attrs (S "v-if") then
          bindE (chainSelect (evalCondition W.P st.stack) (getAttr attrs (S "v-if")) rest) (fun ps =>
            match ps.1 with
            | .none => evalList W f ctx st (rest.drop ps.2)
            | .member 0 =>
              (match onceGate st attrs with
               | none => evalList W f ctx st (rest.drop ps.2)
               | some st' => bindR (evalAsElement W f ctx st' tag attrs kids) (fun res st1 => prepend res (evalList W f ctx st1 (rest.drop ps.2))))
            | .member (i + 1) =>
              -- a v-else-if / v-else member is only reached from here: the v-once rule is applied to it when it is selected (fix: onceAlreadyRendered)
              match rest[i]? with
              | some (.elem t a k) =>
                (match onceGate st a with
                 | none => evalList W f ctx st (rest.drop ps.2)
                 | some st' => bindR (evalAsElement W f ctx st' t a k) (fun res st1 => prepend res (evalList W f ctx st1 (rest.drop ps.2))))
              | _ => evalList W f ctx st (rest.drop ps.2))
        -- a <slot> is reached after the chain test: a slot that carries a chain directive is a chain member (fix: conditional slot)
        else if tag == S "slot" then
          bindR (evalSlot W f ctx st attrs kids) (fun res st1 => prepend res (evalList W f ctx st1 rest))
        else if tag == S "template" then
          bindR (evalTemplate W f ctx st attrs kids) (fun res st1 =>
            prepend (if hasAttr attrs (S "v-keep") then [.elem tag (keptAttrs W.P st.stack attrs) res] else res) (evalList W f ctx st1 rest))
        else
          bindR (evalPlain W f ctx st tag attrs kids) (fun res st1 => prepend res (evalList W f ctx st1 rest))

/-- the plain-element path of `evaluate` and the tail of `evaluateNodeAsElement` -/
def evalPlain (W : World) : Nat → Ctx → St → Str → List Attr → List Node → R (List Node)
  | 0, _, _, _, _, _ => .fuel
  | f + 1, ctx, st, tag, attrs, kids =>
    bindE (elementPrologue W.P st.stack attrs) (fun pr =>
      if pr.2.1 then .ok ([.elem tag pr.1 (if pr.2.2 then [] else kids)], st)
      else bindR (evalList W f ctx st kids) (fun ks st' => .ok ([.elem tag pr.1 ks], st')))

/-- `evaluateNodeAsElement` -/
def evalAsElement (W : World) : Nat → Ctx → St → Str → List Attr → List Node → R (List Node)
  | 0, _, _, _, _, _ => .fuel
  | f + 1, ctx, st, tag, attrs, kids =>
    let vFor := getAttr attrs (S "v-for")
    if vFor != [] then evalFor W f ctx st tag attrs kids vFor
    -- a <slot> that is a chain member is still a slot (fix: conditional slot)
    else if tag == S "slot" then evalSlot W f ctx st attrs kids
    else if tag == S "template" then
      -- a chain member that is an include (or a component tag rewritten to one) includes its component (fix: conditional include)
      if hasAttr attrs (S "include") then evalTemplate W f ctx st attrs kids
      -- bound attributes are set in the current scope; no pipe interpreter on this path
      else evalList W f ctx { st with stack := setTemplateBound W.P attrs st.stack } kids
    else evalPlain W f ctx st tag attrs kids

/-- `evalVFor`: the loop, and an immediately following v-else sibling when the loop produced nothing -/
def evalVFor (W : World) : Nat → Ctx → St → Str → List Attr → List Node → List Node → R (List Node × Nat)
  | 0, _, _, _, _, _, _ => .fuel
  | f + 1, ctx, st, tag, attrs, kids, rest =>
    let vFor := getAttr attrs (S "v-for")
    if vFor == [] then .ok (([], 0), st)
    else
      bindR (evalFor W f ctx st tag attrs kids vFor) (fun loopNodes st1 =>
        if !loopNodes.isEmpty then .ok ((loopNodes, 0), st1)
        else
          -- first element sibling (non-elements skipped)
          let j := (rest.takeWhile (fun x => !isElem x)).length
          match rest[j]? with
          | some (.elem t a k) =>
            if hasAttr a (S "v-else") then
              (match onceGate st1 a with
               | none => .ok (([], 0), st1)
               | some st1' => bindR (evalAsElement W f ctx st1' t a k) (fun res st2 => .ok ((res, j + 1), st2)))
            else .ok (([], 0), st1)
          | _ => .ok (([], 0), st1))

/-- `evalFor` -/
def evalFor (W : World) : Nat → Ctx → St → Str → List Attr → List Node → Str → R (List Node)
  | 0, _, _, _, _, _, _ => .fuel
  | f + 1, ctx, st, tag, attrs, kids, expr =>
    bindE (parseFor expr) (fun vc =>
      bindE (st.stack.resolve W.P.cfg vc.2) (fun coll =>
        match coll with
        | some (.list _ xs) => evalForItems W f ctx st tag (loopInstanceAttrs attrs) kids vc.1 xs 0
        | some (.map mk kvs) => evalForItems W f ctx st tag (loopInstanceAttrs attrs) kids vc.1 ((Val.iterOrder mk kvs).map (·.2)) 0
        | _ => .ok ([], st)))

def evalForItems (W : World) : Nat → Ctx → St → Str → List Attr → List Node → List Str → List Val → Nat → R (List Node)
  | 0, _, _, _, _, _, _, _, _ => .fuel
  | _ + 1, _, st, _, _, _, _, [], _ => .ok ([], st)
  | f + 1, ctx, st, tag, attrs, kids, vars, x :: xs, i =>
    match loopStack st.stack vars x i with
    | none => .err "v-for" (S "v-for variables must be 1 or 2, got " ++ natToStr vars.length)
    | some sk =>
      bindR (evalList W f ctx { st with stack := sk } [.elem tag attrs kids]) (fun res st1 =>
        prepend res (evalForItems W f ctx { st1 with stack := (propagateNode W.P.cfg st1.stack (.elem tag attrs kids)).pop } tag attrs kids vars xs (i + 1)))

/-- `evalTemplate([node], env)` for a `<template>` reached by the main loop -/
def evalTemplate (W : World) : Nat → Ctx → St → List Attr → List Node → R (List Node)
  | 0, _, _, _, _ => .fuel
  | f + 1, ctx, st, attrs, kids =>
    if hasAttr attrs (S "include") then
      bindE (evalAttributes W.P st.stack attrs) (fun av => evalInclude W f ctx st av.1 kids (decodeVars W.jsonDecode av.2))
    else
      match checkRequired attrs (st.stack.envMap W.P.cfg) with
      | some missing => .err "required" (S "required attribute '" ++ missing ++ S "' not provided")
      | none =>
        bindE (evalVContent W.P st.stack attrs (S "v-html") sVHtml false) (fun h =>
          match h with
          | some attrs' => .ok ([.elem (S "template") attrs' kids], st)
          | none =>
            if attrs.any (fun a => a.1 == sVHtml) then .ok ([.elem (S "template") attrs kids], st)
            else bindE (setTemplateAttrs W.P W.jsonDecode attrs st.stack) (fun sk => evalList W f ctx { st with stack := sk } kids))

/-- `evalInclude` -/
def evalInclude (W : World) : Nat → Ctx → St → List Attr → List Node → Scope → R (List Node)
  | 0, _, _, _, _, _ => .fuel
  | f + 1, ctx, st, attrs, kids, vars =>
    if ctx.chain.length > includeLimit then
      .err "include-depth" (S "include depth exceeded maximum of " ++ natToStr includeLimit ++ S " (included from " ++ formatChain ctx ++ S "), possible circular include")
    else
      let name := getAttr attrs (S "include")
      match W.files.lookup name with
      | none => .err "load" (S "error loading " ++ name ++ S " (included from " ++ formatChain ctx ++ S ")")
      | some (fm, dom) =>
        let sk := setMany (st.stack.push vars) fm
        let dom1 := resolveTagsList W.comps (assignSeenAttrs name dom)
        match wrapperRequired dom1 (sk.envMap W.P.cfg) with
        | some missing => .err "required" (S "error in " ++ name ++ S " (included from " ++ formatChain ctx ++ S "): required attribute '" ++ missing ++ S "' not provided")
        | none =>
          bindR (evalList W f { ctx with slots := mergeInherited (extractSlotContent kids) ctx.inherited :: ctx.slots, chain := ctx.chain ++ [name] } { st with stack := sk } dom1)
            (fun res st1 => .ok (res, { st1 with stack := st1.stack.pop }))

/-- `evalSlot` -/
def evalSlot (W : World) : Nat → Ctx → St → List Attr → List Node → R (List Node)
  | 0, _, _, _, _ => .fuel
  | f + 1, ctx, st, attrs, kids =>
    let name := if getAttr attrs (S "name") == [] then S "default" else getAttr attrs (S "name")
    let props := slotProps W.P (st.stack.envMap W.P.cfg) attrs
    -- supplied content belongs to whoever wrote it: a `<slot>` inside it refers to THAT file's slots (`outer`), never to this instance's own
    -- content again (fix: SlotScope.Outer); it is evaluated with the props this slot binds
    let supplied (content : SlotContent) (ctx' : Ctx) : R (List Node) :=
      match content.tmpl with
      | some tk =>
        bindR (evalList W f ctx' { st with stack := slotScopeStack st.stack (scopedVarName tk.1) props } tk.2)
          (fun res st1 => .ok (res, { st1 with stack := st1.stack.pop }))
      | none => evalList W f ctx' st content.nodes
    -- nothing supplied on the include tag(s): content the PAGE handed to its layout chain is evaluated the same way (fix: it used to be
    -- placed as parsed, mustaches and all) - the page has no slots of its own, so inside it the page's slots are hidden -
    -- else the slot's own fallback children are evaluated
    let unsupplied : R (List Node) :=
      match ctx.inherited.lookup name with
      | some content => supplied content { ctx with slots := [], inherited := [] }
      | none => if !kids.isEmpty then evalList W f ctx st kids else .ok ([], st)
    match ctx.slots with
    | sc :: outer =>
      (match sc.lookup name with
       | some content => supplied content { ctx with slots := outer }
       | none => unsupplied)
    | [] => unsupplied

end

/-- `renderNodesWithContext` up to serialisation: component tags rewritten, then evaluated from a fresh context -/
def evaluatePage (W : World) (fuel : Nat) (file : Str) (dom : List Node) (stack : Stack) : R (List Node) :=
  evalList W fuel { slots := [], chain := [file] } { stack := stack, seen := [] } (resolveTagsList W.comps dom)

/-- the same for a LAYOUT of a page that handed it named slots -/
def evaluateLayout (W : World) (fuel : Nat) (file : Str) (dom : List Node) (stack : Stack) (inherited : SlotScope) : R (List Node) :=
  evalList W fuel { slots := [], chain := [file], inherited := inherited } { stack := stack, seen := [] } (resolveTagsList W.comps dom)

end Vuego
