/-
Markdown glue model (markdown/markdown.go): goldmark's AST is the INPUT (goldmark is a trusted library and the reference of the
property); what is modelled is vuego's own code — the dispatch of every node kind to a named template with a data map, the way
child output is concatenated and handed to the parent as `content`, and literal text written straight to the output.
`T name data` renders template `markdown/<name>.vuego`; in the driver it is the Lean evaluator + serialiser on the real template
files, in the theorems it is a parameter. Text segments arrive already passed through goldmark's HTML writer (`escaped`), raw HTML
and code content arrive as the source bytes; heading ids and image alt text are computed by goldmark/regexp glue on the Go side.
-/
import Vuego.Model.Val
import Vuego.Model.Stack
namespace Vuego.Md
open Go Vuego

abbrev Tpl := Str → Scope → Res Str

inductive Inline where
  | text (escaped : Str) (hard soft : Bool)
  | str (v : Str)
  | codeSpan (content : Str)
  | emphasis (level : Nat) (kids : List Inline)
  | link (href title : Str) (kids : List Inline)
  | image (src alt title : Str)
  | autolink (href label : Str)
  | rawHtml (content : Str)
  | strike (kids : List Inline)
  | checkbox (checked : Bool)
  | other (kids : List Inline)
  deriving Repr, Inhabited

inductive Block where
  | heading (level : Nat) (kids : List Inline)
  | paragraph (kids : List Inline)
  | code (language code : Str)
  | blockquote (kids : List Block)
  | list (ordered : Bool) (start : Nat) (kids : List Block)
  | listItem (kids : List Block)
  | hr
  | htmlBlock (raw : Str)
  | textBlock (kids : List Inline)
  | table (headers : List (Str × List Inline)) (rows : List (List (Str × List Inline)))   -- (align, cell content)
  | other (kids : List Block)
  deriving Repr, Inhabited

/-- `stripTagsRe = <[^>]*>` replaced by nothing: a `<` with a later `>` removes everything up to the first such `>` -/
def stripAux : Bool → Str → Str
  | _, [] => []
  | true, c :: r => if c == '>' then stripAux false r else stripAux true r
  | false, c :: r => if c == '<' && r.contains '>' then stripAux true r else c :: stripAux false r
def stripTags (s : Str) : Str := stripAux false s

def lowerAscii (c : Char) : Char := if 'A' ≤ c && c ≤ 'Z' then Char.ofNat (c.toNat + 32) else c

/-- runs of `-` collapsed to one (`multiHyphenRe`) -/
def collapseHyphens : Bool → Str → Str
  | _, [] => []
  | inRun, c :: r => if c == '-' then (if inRun then collapseHyphens true r else '-' :: collapseHyphens true r) else c :: collapseHyphens false r

/-- `headingID` (ASCII case mapping: characters outside ASCII are removed by the `[^a-z0-9 -]` filter either way, except the handful
    whose lower case is ASCII, which the generators do not produce) -/
def headingID (content : Str) : Str :=
  let s := (stripTags content).map lowerAscii
  let s := s.filter (fun c => ('a' ≤ c && c ≤ 'z') || ('0' ≤ c && c ≤ '9') || c == ' ' || c == '-')
  let s := trimSpace s
  let s := s.map (fun c => if c == ' ' then '-' else c)
  let s := collapseHyphens false s
  trim s ['-']

def sv (s : Str) : Val := .str s
def key (s : String) : Str := s.toList

mutual
/-- `renderInlineNode` -/
def renderInline (T : Tpl) : Inline → Res Str
  | .text e hard soft =>
    if hard then (T (key "hard_break") []).bind (fun b => .ok (e ++ b))
    else if soft then .ok (e ++ ['\n'])
    else .ok e
  | .str v => .ok v
  | .codeSpan c => T (key "code_span") [(key "content", sv c)]
  | .emphasis level kids => (renderInlines T kids).bind fun c => T (key "emphasis") [(key "level", .int .int level), (key "content", sv c)]
  | .link href title kids => (renderInlines T kids).bind fun c => T (key "link") [(key "href", sv href), (key "title", sv title), (key "content", sv c)]
  | .image src alt title => T (key "image") [(key "src", sv src), (key "alt", sv alt), (key "title", sv title)]
  | .autolink href label => T (key "autolink") [(key "href", sv href), (key "label", sv label)]
  | .rawHtml c => T (key "raw_html") [(key "content", sv c)]
  | .strike kids => (renderInlines T kids).bind fun c => T (key "strikethrough") [(key "content", sv c)]
  | .checkbox ch => T (key "task_checkbox") [(key "checked", .bool ch)]
  | .other kids => renderInlines T kids
/-- `renderInlineChildren` / `inlineContent` -/
def renderInlines (T : Tpl) : List Inline → Res Str
  | [] => .ok []
  | x :: r => (renderInline T x).bind fun a => (renderInlines T r).bind fun b => .ok (a ++ b)
end

/-- `inlineContent` swallows the error of renderInlineChildren (`_ =`) and returns what was written so far; the model keeps the error:
    with templates that cannot fail (see `total`) the two coincide. -/
def cellVal (T : Tpl) (c : Str × List Inline) : Res Val :=
  (renderInlines T c.2).bind fun s => .ok (.map .anyMap [(key "align", sv c.1), (key "content", sv s)])

def cellVals (T : Tpl) : List (Str × List Inline) → Res (List Val)
  | [] => .ok []
  | c :: r => (cellVal T c).bind fun a => (cellVals T r).bind fun b => .ok (a :: b)

def rowVals (T : Tpl) : List (List (Str × List Inline)) → Res (List Val)
  | [] => .ok []
  | c :: r => (cellVals T c).bind fun a => (rowVals T r).bind fun b => .ok (.list false a :: b)

mutual
/-- `renderNode` -/
def renderBlock (T : Tpl) : Block → Res Str
  | .heading level kids => (renderInlines T kids).bind fun c => T (key "heading") [(key "level", .int .int level), (key "id", sv (headingID c)), (key "content", sv c)]
  | .paragraph kids => (renderInlines T kids).bind fun c => T (key "paragraph") [(key "content", sv c)]
  | .code language code => T (key "code_block") [(key "language", sv language), (key "code", sv code)]
  | .blockquote kids => (renderBlocks T kids).bind fun c => T (key "blockquote") [(key "content", sv c)]
  | .list ordered start kids => (renderBlocks T kids).bind fun c => T (key "list") [(key "ordered", .bool ordered), (key "start", .int .int start), (key "content", sv c)]
  | .listItem kids => (renderBlocks T kids).bind fun c => T (key "list_item") [(key "content", sv c)]
  | .hr => T (key "thematic_break") []
  | .htmlBlock raw => .ok raw
  | .textBlock kids => renderInlines T kids
  | .table headers rows =>
    (cellVals T headers).bind fun h => (rowVals T rows).bind fun r => T (key "table") [(key "headers", .list false h), (key "rows", .list false r)]
  | .other kids => renderBlocks T kids
/-- `renderChildren` -/
def renderBlocks (T : Tpl) : List Block → Res Str
  | [] => .ok []
  | x :: r => (renderBlock T x).bind fun a => (renderBlocks T r).bind fun b => .ok (a ++ b)
end

end Vuego.Md
