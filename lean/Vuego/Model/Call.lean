/-
`callFunc` (funcmap.go): how a template function registered by the user is called - the argument-count check and the conversion of every
argument to the type of the parameter it is passed for ("arguments are automatically converted when possible", docs/funcmap.md).

Modelled: the parameter types string, every integer kind, both float kinds, bool and `any`; argument values of every `Val` kind. The
conversion rules are the five steps of the Go code, in its order: untyped nil -> zero value; assignable; number -> string parameter is
PRINTED; `reflect.Value.CanConvert` (integer widths wrap as Go's conversion does); `convertValue` (strings parsed by strconv, bool printed).
`none` = outside the model (float -> integer truncation, float32 <-> float64, the full grammar of `strconv.ParseFloat`, named types): the
correspondence skips those and says how many it skipped.
-/
import Vuego.Model.Val
namespace Vuego.Call
open Go Vuego

/-- the type of a parameter -/
inductive PType where
  | str | int (k : IntKind) | float (k : FloatKind) | bool | any
  deriving Repr, DecidableEq, Inhabited

def bits : IntKind → Nat
  | .int8 | .uint8 => 8 | .int16 | .uint16 => 16 | .int32 | .uint32 => 32 | _ => 64

def signed : IntKind → Bool
  | .int | .int8 | .int16 | .int32 | .int64 => true | _ => false

/-- Go's integer conversion: the low `bits k` bits, read as signed or unsigned -/
def wrap (k : IntKind) (n : Int) : Int :=
  let m : Int := (2 : Int) ^ bits k
  if signed k then (n + m / 2) % m - m / 2 else n % m

def inRange (k : IntKind) (n : Int) : Prop :=
  if signed k then -((2 : Int) ^ bits k / 2) ≤ n ∧ n < (2 : Int) ^ bits k / 2 else 0 ≤ n ∧ n < (2 : Int) ^ bits k

/-- `strconv.ParseInt(s, 10, 64)`: optional sign, decimal digits, value within int64 -/
def parseInt64 (s : Str) : Option Int :=
  let body (neg : Bool) (d : Str) : Option Int :=
    if d.isEmpty || !d.all isDigit then none
    else
      let v : Int := if neg then -(digitsToNat d : Int) else (digitsToNat d : Int)
      if -((2 : Int) ^ 63) ≤ v && v < (2 : Int) ^ 63 then some v else none
  match s with
  | '-' :: d => body true d
  | '+' :: d => body false d
  | d => body false d

/-- `strconv.ParseUint(s, 10, 64)`: decimal digits only (no sign), value within uint64 -/
def parseUint64 (s : Str) : Option Int :=
  if s.isEmpty || !s.all isDigit then none
  else if (digitsToNat s : Int) < (2 : Int) ^ 64 then some (digitsToNat s : Int) else none

/-- `strconv.ParseBool` -/
def parseBool (s : Str) : Option Bool :=
  if s == "1".toList || s == "t".toList || s == "T".toList || s == "TRUE".toList || s == "true".toList || s == "True".toList then some true
  else if s == "0".toList || s == "f".toList || s == "F".toList || s == "FALSE".toList || s == "false".toList || s == "False".toList then some false
  else none

def zeroOf : PType → Val
  | .str => .str []
  | .int k => .int k 0
  | .float k => .float k true "0".toList
  | .bool => .bool false
  | .any => .nil

/-- digits without their trailing zeros -/
def stripZeros (d : Str) : Str := (d.reverse.dropWhile (· == '0')).reverse

/-- `fmt.Sprint` of a float that holds the whole number `n` exactly (`%v` = shortest `%g`: exponent form from 10^6 on).
    float64: |n| < 10^15 (every such number has its own digits as shortest form); float32: |n| < 10^6 only. `none`: outside the model -/
def wholeFloatPrinted (k : FloatKind) (n : Int) : Option Str :=
  let a := n.natAbs
  if a < 10 ^ 6 then some (intToStr n)
  else if k == .float64 && a < 10 ^ 15 then
    let d := natToStr a
    let m := stripZeros d
    let mant := match m with | c :: [] => [c] | c :: r => c :: '.' :: r | [] => []
    let e := d.length - 1
    some ((if n < 0 then ['-'] else []) ++ mant ++ "e+".toList ++ (if e < 10 then '0' :: natToStr e else natToStr e))
  else none

def cannot : Res Val := .err "func" "cannot convert argument".toList

/-- a string with no digit in it that is not one of strconv's spellings of infinity / NaN is not a float -/
def certainlyNotFloat (s : Str) : Bool :=
  !s.any isDigit &&
    (let t := (s.dropWhile (fun c => c == '+' || c == '-')).map (fun c => if 'A' ≤ c && c ≤ 'Z' then Char.ofNat (c.toNat + 32) else c)
     !(t == "inf".toList || t == "infinity".toList || t == "nan".toList))

/-- the conversion of one argument (steps in the order of the Go code); `none`: outside the model -/
def convertArg (v : Val) (p : PType) : Option (Res Val) :=
  match p, v with
  -- untyped nil: the zero value of the parameter type
  | p, .nil => some (.ok (zeroOf p))
  -- every value is assignable to `any`
  | .any, v => some (.ok v)
  -- same type: assignable
  | .str, .str s => some (.ok (.str s))
  | .bool, .bool b => some (.ok (.bool b))
  -- a number passed for a string parameter is printed, not reinterpreted as a code point
  | .str, .int _ n => some (.ok (.str (intToStr n)))
  | .str, .float .float64 _ pr => some (.ok (.str pr))
  | .str, .float .float32 _ _ => none      -- printed through float64: more digits than the float32 form the model carries
  -- integer to integer: Go's conversion (identity when the kinds are equal)
  | .int k, .int _ n => some (.ok (.int k (wrap k n)))
  -- integer to float
  | .float k, .int _ n => (match wholeFloatPrinted k n with | some pr => some (.ok (.float k (n == 0) pr)) | none => none)
  -- float to float / float to integer
  | .float k, .float k' z pr => if k == k' then some (.ok (.float k z pr)) else none
  | .int _, .float _ _ _ => none
  -- strings are parsed
  | .int k, .str s =>
    if signed k then (match parseInt64 s with | some n => some (.ok (.int k (wrap k n))) | none => some cannot)
    else (match parseUint64 s with | some n => some (.ok (.int k (wrap k n))) | none => some cannot)
  | .float k, .str s =>
    (match parseInt64 s with
     | some n =>
       if n == 0 && hasPrefix s ['-'] then none      -- "-0" is the negative zero
       else (match wholeFloatPrinted k n with | some pr => some (.ok (.float k (n == 0) pr)) | none => none)
     | none => if certainlyNotFloat s then some cannot else none)
  | .bool, .str s => (match parseBool s with | some b => some (.ok (.bool b)) | none => some cannot)
  -- a boolean is printed for a string parameter, and is nothing else
  | .str, .bool b => some (.ok (.str (if b then "true".toList else "false".toList)))
  | .int _, .bool _ => some cannot
  | .float _, .bool _ => some cannot
  | .bool, .int _ _ => some cannot
  | .bool, .float _ _ _ => some cannot
  -- containers and pointers are no scalars
  | _, .list _ _ => some cannot
  | _, .map _ _ => some cannot
  | _, .strct _ => some cannot
  | _, .ptr _ => some cannot
  -- named types, funcs, channels: outside the model
  | _, .opaq _ _ => none

/-- the argument-count check: `none` = accepted, `some message` = the error -/
def checkArity (params : Nat) (variadic : Bool) (nargs : Nat) : Option Str :=
  if variadic then
    if nargs < params - 1 then some ("function expects at least ".toList ++ natToStr (params - 1) ++ " arguments, got ".toList ++ natToStr nargs) else none
  else if nargs != params then some ("function expects ".toList ++ natToStr params ++ " arguments, got ".toList ++ natToStr nargs) else none

/-- all arguments of a non-variadic call, left to right: the first failure is the call's -/
def convertArgs : List Val → List PType → Option (Res (List Val))
  | [], [] => some (.ok [])
  | v :: vs, p :: ps =>
    match convertArg v p with
    | none => none
    | some (.ok w) =>
      (match convertArgs vs ps with
       | none => none
       | some (.ok ws) => some (.ok (w :: ws))
       | some (.err c m) => some (.err c m)
       | some (.panic x) => some (.panic x) | some (.hang x) => some (.hang x) | some .fuel => some .fuel)
    | some (.err c m) => some (.err c m)
    | some (.panic x) => some (.panic x) | some (.hang x) => some (.hang x) | some .fuel => some .fuel
  | _, _ => some (.err "func" "function expects".toList)

/-- a VARIADIC call `f(fixed…, rest...)`: the leading arguments are converted to the fixed parameter types, EVERY further argument - one by
    one, a list included - to the element type of the variadic parameter; nothing is spread -/
def convertVariadic (vs : List Val) (fixed : List PType) (elem : PType) : Option (Res (List Val)) :=
  if vs.length < fixed.length then some (.err "func" "function expects at least".toList)
  else convertArgs vs (fixed ++ List.replicate (vs.length - fixed.length) elem)

end Vuego.Call
